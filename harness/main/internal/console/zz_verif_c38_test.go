//go:build verif

package console

import (
	"context"
	"fmt"
	"io"
	"log"
	"net/http"
	"net/http/httptest"
	"net/url"
	"os"
	"reflect"
	"runtime"

	"sort"
	"strings"
	"sync"
	"testing"
	"testing/synctest"
	"time"

	"github.com/KafScale/platform/internal/verif/vh"
	"github.com/KafScale/platform/pkg/metadata"
	"github.com/KafScale/platform/pkg/protocol"
	"github.com/aws/aws-sdk-go-v2/aws"
	"github.com/aws/aws-sdk-go-v2/credentials"
	"github.com/aws/aws-sdk-go-v2/service/s3"
	"github.com/twmb/franz-go/pkg/kmsg"
)

// C38 — console API requires a live session; logins are rate limited.
//
// Explicit-state breadth-first search over event histories. Every history is replayed on a
// fresh real console.NewMux inside its own testing/synctest bubble (virtual time), requests go
// through handler.ServeHTTP with httptest recorders. A reference model (issued tokens with
// expiry / logged-out flag, accepted login attempts per address) runs alongside; states are
// merged by the model's canonical key.
//
// The statement fixes a session's lifetime at login ("issued by a successful login that has not
// expired"): the model's expiry is absolute, login instant + ttl, whatever happens in between.
// Presenting a token (protected request, /ui/api/auth/session poll) does not change the model
// state, but it may change the implementation's (e.g. a sliding/idle expiry); to see that, the
// search key also carries, for every live session, how long ago it was last presented, so a
// history is extended THROUGH a use (use, then time passes, then requests).

const (
	c38User = "admin"
	c38Pass = "s3cret"
)

// ---------- events ----------

type c38Ev struct {
	K  string `json:"k"`            // login | logout | req | poll | useall | adv | burst
	OK bool   `json:"ok,omitempty"` // login: correct credentials
	IP string `json:"ip,omitempty"` // login/burst: TCP peer A (host 1, new source port per connection) | Ap (host 1, one fixed port) | B (host 2)
	H  string `json:"h,omitempty"`  // login/burst: client-set forwarding header: "" (none) | xff-fresh | xff-const | xff-peer | xri-fresh | fwd-fresh
	N  int    `json:"n,omitempty"`  // burst: number of logins (bad credentials) at one instant
	C  string `json:"c,omitempty"`  // logout/req/poll/useall cookie: none | empty | garbage | trunc0 | tok
	T  int    `json:"t,omitempty"`  // token index (issue order) when C == tok
	R  string `json:"r,omitempty"`  // req: route pattern
	D  string `json:"d,omitempty"`  // adv: 1s | w/2 | w | ttl/2 | ttl-1s | ttl+1s
}

func (e c38Ev) String() string {
	switch e.K {
	case "login":
		return fmt.Sprintf("login(ok=%v,ip=%s%s)", e.OK, e.IP, e.hdrStr())
	case "logout":
		return "logout(" + e.cookieStr() + ")"
	case "req":
		return "req(" + e.R + "," + e.cookieStr() + ")"
	case "poll":
		return "poll(" + e.cookieStr() + ")"
	case "useall":
		return "useall(" + e.cookieStr() + ")"
	case "adv":
		return "adv(" + e.D + ")"
	case "burst":
		return fmt.Sprintf("burst(ip=%s,n=%d%s)", e.IP, e.N, e.hdrStr())
	}
	return "?"
}

func (e c38Ev) hdrStr() string {
	if e.H == "" {
		return ""
	}
	return ",hdr=" + e.H
}

// ---------- client address dimension of login attempts ----------
//
// The statement limits login attempts per CLIENT ADDRESS. The address of a client of an HTTP
// server is the address of its TCP peer (the host of RemoteAddr; the source port changes with
// every connection and identifies nothing). Request headers that name an address
// (X-Forwarded-For, X-Real-IP, Forwarded) are written by the client itself: they must not
// change which budget an attempt counts against, otherwise one address picks a new budget per
// attempt. The reference model therefore counts per peer host and ignores ports and headers.

// c38Peers: TCP peers a login attempt comes from. A and Ap are the same address.
var c38Peers = []string{"A", "Ap", "B"}

// c38Hdrs: client-set forwarding headers of a login attempt, simplest first.
//
//	xff-fresh  X-Forwarded-For: a value never used before in the history
//	xff-const  X-Forwarded-For: one constant value
//	xff-peer   X-Forwarded-For: the address of the OTHER peer host (A claims B, B claims A)
//	xri-fresh  X-Real-IP: a fresh value
//	fwd-fresh  Forwarded: for=<fresh value>
var c38Hdrs = []string{"", "xff-fresh", "xff-const", "xff-peer", "xri-fresh", "fwd-fresh"}

var c38HostOf = map[string]string{"A": "10.0.0.1", "Ap": "10.0.0.1", "B": "10.0.0.2"}

// c38Bucket: the client address (model bucket) of a peer.
func c38Bucket(peer string) string {
	if peer == "B" {
		return "B"
	}
	return "A"
}

func c38HdrName(h string) string {
	switch {
	case strings.HasPrefix(h, "xff-"):
		return "X-Forwarded-For"
	case strings.HasPrefix(h, "xri-"):
		return "X-Real-IP"
	case strings.HasPrefix(h, "fwd-"):
		return "Forwarded"
	}
	return ""
}

func (e c38Ev) cookieStr() string {
	if e.C == "tok" {
		return fmt.Sprintf("tok%d", e.T)
	}
	return e.C
}

// ---------- configuration read from the code ----------

type c38Cfg struct {
	ttl    time.Duration
	limit  int
	window time.Duration
	routes []c38Route // protected routes registered by NewMux
	public []string
}

type c38Route struct {
	Pattern string
	Method  string
	Path    string
	Body    string
	Stream  bool // handler may stream until the client hangs up: served in a goroutine, cancelled once it blocks
	Known   bool // the harness knows a request that a live session gets a 2xx for
}

var c38KnownRoutes = map[string]c38Route{
	"/ui/api/status":         {Method: "GET", Path: "/ui/api/status"},
	"/ui/api/status/topics":  {Method: "POST", Path: "/ui/api/status/topics", Body: `{"name":"x"}`},
	"/ui/api/status/topics/": {Method: "DELETE", Path: "/ui/api/status/topics/orders"},
	"/ui/api/metrics":        {Method: "GET", Path: "/ui/api/metrics", Stream: true},
	"/ui/api/lfs/status":     {Method: "GET", Path: "/ui/api/lfs/status"},
	"/ui/api/lfs/objects":    {Method: "GET", Path: "/ui/api/lfs/objects"},
	"/ui/api/lfs/topics":     {Method: "GET", Path: "/ui/api/lfs/topics"},
	"/ui/api/lfs/topics/":    {Method: "GET", Path: "/ui/api/lfs/topics/t1"},
	"/ui/api/lfs/events":     {Method: "GET", Path: "/ui/api/lfs/events", Stream: true},
	"/ui/api/lfs/orphans":    {Method: "GET", Path: "/ui/api/lfs/orphans"},
	"/ui/api/lfs/s3/browse":  {Method: "GET", Path: "/ui/api/lfs/s3/browse"},
	"/ui/api/lfs/s3/presign": {Method: "POST", Path: "/ui/api/lfs/s3/presign", Body: `{"s3_key":"k"}`},
}

// c38Patterns lists the patterns registered on a ServeMux by walking its routing structures
// with reflection (net/http keeps every registered *pattern, field str = the original string).
func c38Patterns(h http.Handler) []string {
	set := map[string]bool{}
	seen := map[uintptr]bool{}
	var walk func(v reflect.Value, depth int)
	walk = func(v reflect.Value, depth int) {
		if depth > 64 {
			return
		}
		switch v.Kind() {
		case reflect.Pointer:
			if v.IsNil() || seen[v.Pointer()] {
				return
			}
			seen[v.Pointer()] = true
			walk(v.Elem(), depth+1)
		case reflect.Interface:
			if !v.IsNil() {
				walk(v.Elem(), depth+1)
			}
		case reflect.Struct:
			if v.Type().Name() == "pattern" && v.Type().PkgPath() == "net/http" {
				set[v.FieldByName("str").String()] = true
				return
			}
			if v.Type().PkgPath() == "sync" {
				return
			}
			for i := 0; i < v.NumField(); i++ {
				walk(v.Field(i), depth+1)
			}
		case reflect.Slice, reflect.Array:
			for i := 0; i < v.Len(); i++ {
				walk(v.Index(i), depth+1)
			}
		case reflect.Map:
			it := v.MapRange()
			for it.Next() {
				walk(it.Value(), depth+1)
			}
		}
	}
	walk(reflect.ValueOf(h), 0)
	out := make([]string, 0, len(set))
	for p := range set {
		out = append(out, p)
	}
	sort.Strings(out)
	return out
}

// c38Protected: by the statement/design every console API route is protected except the
// auth endpoints themselves; static assets, the /ui redirect and /healthz are public.
func c38Protected(path string) bool {
	return strings.HasPrefix(path, "/ui/api/") && !strings.HasPrefix(path, "/ui/api/auth/")
}

func c38ReadCfg(t *testing.T) c38Cfg {
	am := newAuthManager(AuthConfig{Username: c38User, Password: c38Pass})
	cfg := c38Cfg{ttl: am.ttl, limit: 20, window: time.Minute}
	if am.limiter != nil {
		cfg.limit, cfg.window = am.limiter.limit, am.limiter.window
	}
	pats := c38Patterns(c38Build(cfg).h) // also creates the shared collaborators outside any bubble
	if len(pats) == 0 {
		t.Fatalf("HARNESS-ERROR could not list the mux patterns by reflection")
	}
	for _, p := range pats {
		method, path := "", p
		if i := strings.IndexByte(p, ' '); i >= 0 {
			method, path = p[:i], strings.TrimSpace(p[i+1:])
		}
		if !c38Protected(path) {
			cfg.public = append(cfg.public, p)
			continue
		}
		r, ok := c38KnownRoutes[path]
		if ok && (method == "" || method == r.Method) {
			r.Known = true
		} else {
			r = c38Route{Method: "GET", Path: path, Stream: true}
			if method != "" {
				r.Method = method
			}
			if strings.HasSuffix(path, "/") {
				r.Path += "x"
			}
		}
		r.Pattern = p
		cfg.routes = append(cfg.routes, r)
	}
	// simplest first: known order of registration-ish (status first), then alphabetical
	sort.SliceStable(cfg.routes, func(i, j int) bool {
		a, b := cfg.routes[i], cfg.routes[j]
		al, bl := strings.Contains(a.Pattern, "/lfs/"), strings.Contains(b.Pattern, "/lfs/")
		if al != bl {
			return !al
		}
		return a.Pattern < b.Pattern
	})
	return cfg
}

func (c c38Cfg) delta(d string) time.Duration {
	switch d {
	case "1s":
		return time.Second
	case "w/2":
		return c.window / 2
	case "w":
		return c.window
	case "ttl/2":
		return c.ttl / 2
	case "ttl-1s":
		return c.ttl - time.Second
	case "ttl+1s":
		return c.ttl + time.Second
	}
	panic("bad delta " + d)
}

var c38Deltas = []string{"1s", "w/2", "w", "ttl/2", "ttl-1s", "ttl+1s"}

// ---------- real system + model ----------

type c38FakeS3 struct{}

func (c38FakeS3) Do(r *http.Request) (*http.Response, error) {
	body := `<?xml version="1.0" encoding="UTF-8"?><ListBucketResult xmlns="http://s3.amazonaws.com/doc/2006-03-01/"><Name>b</Name><Prefix></Prefix><KeyCount>0</KeyCount><MaxKeys>100</MaxKeys><IsTruncated>false</IsTruncated></ListBucketResult>`
	return &http.Response{StatusCode: 200, Status: "200 OK", Proto: "HTTP/1.1", ProtoMajor: 1, ProtoMinor: 1,
		Header: http.Header{"Content-Type": []string{"application/xml"}}, Body: io.NopCloser(strings.NewReader(body)),
		ContentLength: int64(len(body)), Request: r}, nil
}

type c38Tok struct {
	val    string
	expiry time.Time
	good   bool // issued by a login with correct credentials
	out    bool // logged out
	used   bool // presented (request / session poll) at least once while live
	usedAt time.Time
}

type c38Sys struct {
	cfg   c38Cfg
	h     http.Handler
	toks  []c38Tok
	hits  map[string][]time.Time // accepted login attempts per client address (peer host)
	hdrs  map[string][]string    // parallel to hits: forwarding header name ("" = none) each accepted attempt carried
	port  int
	fresh int       // counter behind the "fresh" header values
	extra [2]string // header (name, value) added to the next served request
	viol  []c38Viol
	obs   string
	trace []string
}

type c38Viol struct{ Key, Detail string }

// c38Deps: the collaborators NewMux is given. They hold no session state and no channels or
// timers, so one instance (created outside any bubble) is shared by all replays; the mux and
// its auth manager are rebuilt for every replay.
var c38Deps struct {
	once  sync.Once
	lfs   *LFSHandlers
	store metadata.Store
}

func c38Build(cfg c38Cfg) *c38Sys {
	quiet := log.New(io.Discard, "", 0)
	c38Deps.once.Do(func() {
		lfs := NewLFSHandlers(LFSConfig{Enabled: true, TrackerTopic: "__lfs", S3Bucket: "b"}, quiet)
		lfs.ProcessEvent(LFSEvent{EventType: "upload_completed", Topic: "t1", S3Key: "k", Size: 1, Timestamp: "2000-01-01T00:00:00Z"})
		cl := s3.New(s3.Options{Region: "us-east-1", Credentials: credentials.NewStaticCredentialsProvider("AK", "SK", ""),
			HTTPClient: c38FakeS3{}, BaseEndpoint: aws.String("http://s3.invalid"), UsePathStyle: true})
		lfs.SetS3Client(&LFSS3Client{client: cl, presign: s3.NewPresignClient(cl), bucket: "b", logger: quiet})
		c38Deps.lfs = lfs
		c38Deps.store = metadata.NewInMemoryStore(metadata.ClusterMetadata{
			Brokers: []protocol.MetadataBroker{{NodeID: 0, Host: "b0", Port: 9092}},
			Topics:  []protocol.MetadataTopic{{Topic: kmsg.StringPtr("orders"), Partitions: []protocol.MetadataPartition{{Partition: 0, Leader: 0, Replicas: []int32{0}, ISR: []int32{0}}}}},
		})
	})
	h, err := NewMux(ServerOptions{Store: c38Deps.store, Logger: quiet, Auth: AuthConfig{Username: c38User, Password: c38Pass}, LFSHandlers: c38Deps.lfs})
	if err != nil {
		panic("HARNESS-ERROR NewMux: " + err.Error())
	}
	return &c38Sys{cfg: cfg, h: h, hits: map[string][]time.Time{}, hdrs: map[string][]string{}, port: 40000}
}

func (s *c38Sys) addr(ip string) string {
	host, ok := c38HostOf[ip]
	if !ok {
		panic("HARNESS-ERROR bad peer " + ip)
	}
	if ip == "Ap" {
		return host + ":55555" // one fixed source port (attempts over one kept-alive connection)
	}
	s.port++ // a client address is the host; every connection comes from a new source port
	return fmt.Sprintf("%s:%d", host, s.port)
}

// header resolves a header selector of a login attempt from peer to (name, value).
func (s *c38Sys) header(h, peer string) [2]string {
	freshVal := func() string {
		s.fresh++
		return fmt.Sprintf("100.64.%d.%d", s.fresh/256, s.fresh%256)
	}
	switch h {
	case "":
		return [2]string{}
	case "xff-fresh":
		return [2]string{"X-Forwarded-For", freshVal()}
	case "xff-const":
		return [2]string{"X-Forwarded-For", "198.51.100.9"}
	case "xff-peer":
		other := c38HostOf["B"]
		if c38Bucket(peer) == "B" {
			other = c38HostOf["A"]
		}
		return [2]string{"X-Forwarded-For", other}
	case "xri-fresh":
		return [2]string{"X-Real-IP", freshVal()}
	case "fwd-fresh":
		return [2]string{"Forwarded", "for=" + freshVal()}
	}
	panic("HARNESS-ERROR bad header selector " + h)
}

func (s *c38Sys) serve(method, path, body string, cookie *string, remote string, stream bool) (rr *httptest.ResponseRecorder, panicked any) {
	// a server-side request built by hand (httptest.NewRequest parses a serialised request
	// through a fresh 4 KiB bufio.Reader, which dominated the replay cost)
	u, err := url.ParseRequestURI(path)
	if err != nil {
		panic("HARNESS-ERROR bad path " + path)
	}
	req := &http.Request{Method: method, URL: u, Proto: "HTTP/1.1", ProtoMajor: 1, ProtoMinor: 1, Header: http.Header{},
		Body: http.NoBody, Host: "console.test", RequestURI: path, RemoteAddr: remote}
	if body != "" {
		req.Body = io.NopCloser(strings.NewReader(body))
		req.ContentLength = int64(len(body))
		req.Header.Set("Content-Type", "application/json")
	}
	if cookie != nil {
		req.Header.Set("Cookie", sessionCookieName+"="+*cookie)
	}
	if s.extra[0] != "" {
		req.Header.Set(s.extra[0], s.extra[1])
		s.extra = [2]string{}
	}
	req = req.WithContext(context.Background())
	rr = httptest.NewRecorder()
	if !stream {
		func() {
			defer func() { panicked = recover() }()
			s.h.ServeHTTP(rr, req)
		}()
		return rr, panicked
	}
	// possibly streaming handler: run it in the bubble, wait until it has finished or is
	// durably blocked (waiting for its ticker / the client), then hang up. synctest.Wait does
	// not advance the virtual clock.
	ctx, cancel := context.WithCancel(req.Context())
	req = req.WithContext(ctx)
	done := make(chan struct{})
	go func() {
		defer close(done)
		defer func() { panicked = recover() }()
		s.h.ServeHTTP(rr, req)
	}()
	synctest.Wait()
	cancel()
	<-done
	return rr, panicked
}

// tokStatus: live | edge (now == expiry: the statement does not decide) | expired | out | bogus
func (s *c38Sys) tokStatus(i int, now time.Time) string {
	t := s.toks[i]
	switch {
	case !t.good:
		return "bogus"
	case t.out:
		return "out"
	case now.After(t.expiry):
		return "expired"
	case now.Equal(t.expiry):
		return "edge"
	}
	return "live"
}

// cookie resolves a cookie selector to (value or nil, model status).
func (s *c38Sys) cookie(c string, ti int, now time.Time) (*string, string, bool) {
	switch c {
	case "none":
		return nil, "none", true
	case "empty":
		v := ""
		return &v, "empty", true
	case "garbage":
		v := "Zm9vYmFyYmF6cXV4Zm9vYmFyYmF6cXV4Zm9vYmFyYmF6cQ"
		return &v, "garbage", true
	case "trunc0":
		if len(s.toks) == 0 || len(s.toks[0].val) < 2 {
			return nil, "", false
		}
		v := s.toks[0].val[:len(s.toks[0].val)-1]
		return &v, "garbage", true
	case "tok":
		if ti < 0 || ti >= len(s.toks) {
			return nil, "", false
		}
		v := s.toks[ti].val
		// another index may hold the same string only if the server reissued a token
		st := s.tokStatus(ti, now)
		for j := range s.toks {
			if j != ti && s.toks[j].val == v {
				if sj := s.tokStatus(j, now); sj == "live" || (sj == "edge" && st != "live") {
					st = sj
				}
			}
		}
		return &v, st, true
	}
	return nil, "", false
}

func (s *c38Sys) fail(key, format string, a ...any) {
	s.viol = append(s.viol, c38Viol{key, fmt.Sprintf(format, a...)})
}

func (s *c38Sys) login(ok bool, ip, hdr string) int {
	now := time.Now()
	pw := c38Pass
	if !ok {
		pw = "wrong-" + c38Pass
	}
	remote := s.addr(ip)
	s.extra = s.header(hdr, ip)
	sent := s.extra
	ip = c38Bucket(ip) // the client address the attempt counts against: the peer host
	rr, p := s.serve("POST", "/ui/api/auth/login", fmt.Sprintf(`{"username":%q,"password":%q}`, c38User, pw), nil, remote, false)
	if p != nil {
		s.fail("login-panic", "login handler panicked: %v", p)
		return 0
	}
	if rr.Code != http.StatusTooManyRequests {
		// an accepted attempt
		s.hits[ip] = append(s.hits[ip], now)
		s.hdrs[ip] = append(s.hdrs[ip], sent[0])
		n := 0
		names := map[string]bool{}
		for i, h := range s.hits[ip] {
			if h.After(now.Add(-s.cfg.window)) {
				n++
				if s.hdrs[ip][i] != "" {
					names[s.hdrs[ip][i]] = true
				}
			}
		}
		if n > s.cfg.limit {
			key, with := "login-rate-limit-exceeded", ""
			if len(names) > 0 {
				// the attempts over the limit got through only in the company of a header the
				// client writes itself: the budget is chosen by the client, not by its address
				var ns []string
				for k := range names {
					ns = append(ns, k)
				}
				sort.Strings(ns)
				key = "login-budget-chosen-by-client-header:" + strings.Join(ns, "+")
				with = fmt.Sprintf("; attempts in the window carried the client-set header(s) %s (this attempt: peer %s, %s)", strings.Join(ns, ", "), remote, c38HdrDesc(sent))
			}
			s.fail(key, "client address %s (TCP peer host %s): %d login attempts were accepted (not 429) within the last %v (half-open window ending now), limit %d%s", ip, c38HostOf[ip], n, s.cfg.window, s.cfg.limit, with)
		}
	}
	for _, c := range rr.Result().Cookies() {
		if c.Name == sessionCookieName && c.Value != "" {
			s.toks = append(s.toks, c38Tok{val: c.Value, expiry: now.Add(s.cfg.ttl), good: ok && rr.Code/100 == 2})
		}
	}
	return rr.Code
}

func c38HdrDesc(h [2]string) string {
	if h[0] == "" {
		return "no forwarding header"
	}
	return h[0] + ": " + h[1]
}

// apply executes one event on the real mux, updates the model and checks the step oracle.
func (s *c38Sys) apply(e c38Ev) {
	s.viol = nil
	now := time.Now()
	switch e.K {
	case "adv":
		time.Sleep(s.cfg.delta(e.D))
		s.obs = "adv " + e.D
	case "login":
		before := len(s.toks)
		code := s.login(e.OK, e.IP, e.H)
		s.obs = fmt.Sprintf("login ok=%v%s -> %d issued=%d", e.OK, c38From(e), code, len(s.toks)-before)
	case "burst":
		codes := map[int]int{}
		for i := 0; i < e.N; i++ {
			codes[s.login(false, e.IP, e.H)]++
			if len(s.viol) > 0 {
				break
			}
		}
		s.obs = fmt.Sprintf("burst n=%d%s -> %v", e.N, c38From(e), codes)
	case "logout":
		ck, st, ok := s.cookie(e.C, e.T, now)
		if !ok {
			s.obs = "disabled"
			return
		}
		rr, p := s.serve("POST", "/ui/api/auth/logout", "", ck, s.addr("A"), false)
		if p != nil {
			s.fail("logout-panic", "logout handler panicked: %v", p)
			return
		}
		if ck != nil && rr.Code/100 == 2 {
			for i := range s.toks {
				if s.toks[i].val == *ck {
					s.toks[i].out = true
				}
			}
		}
		s.obs = fmt.Sprintf("logout cookie=%s -> %d", st, rr.Code)
	case "req":
		rt := s.route(e.R)
		ck, st, ok := s.cookie(e.C, e.T, now)
		if rt == nil || !ok {
			s.obs = "disabled"
			return
		}
		code := s.request(rt, ck, st, e, now)
		s.obs = fmt.Sprintf("req %s cookie=%s -> %d", rt.Pattern, st, code)
	case "poll":
		ck, st, ok := s.cookie(e.C, e.T, now)
		if !ok {
			s.obs = "disabled"
			return
		}
		s.obs = fmt.Sprintf("poll cookie=%s -> %s", st, s.poll(ck, e, now))
	case "useall":
		// the token is presented, at one instant, on every protected route and on the session
		// poll: the strongest single "use" of a session
		ck, st, ok := s.cookie(e.C, e.T, now)
		if !ok || (st != "live" && st != "edge") {
			s.obs = "disabled"
			return
		}
		codes := map[int]int{}
		var viol []c38Viol
		for i := range s.cfg.routes {
			codes[s.request(&s.cfg.routes[i], ck, st, e, now)]++
			viol = append(viol, s.viol...)
			s.viol = nil
		}
		pr := s.poll(ck, e, now)
		s.viol = viol
		s.obs = fmt.Sprintf("useall cookie=%s -> routes %v poll %s", st, codes, pr)
	}
}

// c38From: the part of a login observation that names the peer form and header kind, empty for
// the plain case (peer with a new port per connection, no header).
func c38From(e c38Ev) string {
	out := ""
	if e.IP == "Ap" {
		out += " fixed-port"
	}
	if e.H != "" {
		out += " hdr=" + e.H
	}
	return out
}

func (s *c38Sys) route(pattern string) *c38Route {
	for i := range s.cfg.routes {
		if s.cfg.routes[i].Pattern == pattern {
			return &s.cfg.routes[i]
		}
	}
	return nil
}

// markUse records that a live session's token was presented now (model bookkeeping for the
// search key and for classifying a violation; it does not change the session's expiry).
func (s *c38Sys) markUse(e c38Ev, st string, now time.Time) {
	if e.C != "tok" || (st != "live" && st != "edge") {
		return
	}
	v := s.toks[e.T].val
	for j := range s.toks {
		if s.toks[j].val == v && s.toks[j].good && !s.toks[j].out && !now.After(s.toks[j].expiry) {
			s.toks[j].used, s.toks[j].usedAt = true, now
		}
	}
}

// poll asks /ui/api/auth/session with the cookie. The endpoint is not a protected one, so the
// statement puts no obligation on its answer: it is only observed (and counts as a use).
func (s *c38Sys) poll(ck *string, e c38Ev, now time.Time) string {
	rr, p := s.serve("GET", "/ui/api/auth/session", "", ck, s.addr("A"), false)
	s.markUse(e, s.statusOf(e, now), now)
	if p != nil {
		s.fail("session-poll-panic", "session poll handler panicked: %v", p)
		return "panic"
	}
	return fmt.Sprintf("%d auth=%v", rr.Code, strings.Contains(rr.Body.String(), `"authenticated":true`))
}

func (s *c38Sys) statusOf(e c38Ev, now time.Time) string {
	_, st, _ := s.cookie(e.C, e.T, now)
	return st
}

// request sends one request for a protected route carrying the cookie and checks the oracle.
func (s *c38Sys) request(rt *c38Route, ck *string, st string, e c38Ev, now time.Time) int {
	rr, p := s.serve(rt.Method, rt.Path, rt.Body, ck, s.addr("A"), rt.Stream)
	code := rr.Code
	if p != nil {
		code = -1
	}
	answered := p != nil || code/100 == 2
	switch st {
	case "live":
		if !answered && rt.Known {
			s.fail("live-session-rejected:"+rt.Pattern, "%s %s with a live session token (issued by a successful login, not expired, not logged out) answered %d %q", rt.Method, rt.Path, code, strings.TrimSpace(rr.Body.String()))
		}
	case "edge":
	default:
		if answered {
			key := map[string]string{"none": "no-cookie", "empty": "empty-cookie", "garbage": "unknown-token", "expired": "expired-token", "out": "logged-out-token", "bogus": "token-from-failed-login"}[st]
			what := fmt.Sprintf("status %d", code)
			if p != nil {
				what = fmt.Sprintf("handler ran and panicked: %v", p)
			}
			carrying := key
			if st == "expired" && e.C == "tok" && s.toks[e.T].used {
				// the session was presented while it was live: an expiry that slides with use
				// (idle timeout) is a different mechanism from an expiry that is never checked
				t := s.toks[e.T]
				key = "expired-token-kept-alive-by-use"
				carrying = fmt.Sprintf("a token whose session expired %v ago (issued %v ago, lifetime %v fixed at login) and that was last presented %v ago while still live", now.Sub(t.expiry), now.Sub(t.expiry)+s.cfg.ttl, s.cfg.ttl, now.Sub(t.usedAt))
			}
			s.fail(key+"-answered:"+rt.Pattern, "%s %s carrying %s was answered (%s) instead of being rejected", rt.Method, rt.Path, carrying, what)
		}
	}
	s.markUse(e, st, now)
	return code
}

// sweep closes every replay: every protected route is requested with no cookie, an unknown
// token and every token issued so far, with the same oracle as a req event. It shows side
// effects of the last event (for instance of a request) on the requests that follow it, which
// state merging would otherwise hide.
func (s *c38Sys) sweep() {
	cookies := []c38Ev{{C: "none"}, {C: "garbage"}}
	for i := range s.toks {
		cookies = append(cookies, c38Ev{C: "tok", T: i})
	}
	// all violations of the sweep are collected (not only the first), so a defect of the common
	// session check shows on every route and is reported as one mechanism
	var viol []c38Viol
	for _, r := range s.cfg.routes {
		for _, c := range cookies {
			e := c38Ev{K: "req", R: r.Pattern, C: c.C, T: c.T}
			s.apply(e)
			for _, v := range s.viol {
				v.Detail = "(closing sweep after the history: " + e.String() + ") " + v.Detail
				viol = append(viol, v)
			}
		}
	}
	s.viol = viol
}

// canon: canonical key of the model state (relative times only).
func (s *c38Sys) canon() string {
	now := time.Now()
	var ts []string
	for i := range s.toks {
		st := s.tokStatus(i, now)
		if st == "live" || st == "edge" {
			// remaining absolute lifetime (exact) and, if the session was ever presented, the
			// exact time since its last presentation. Both are dropped once the session is
			// expired or logged out: the statement then rejects the token for ever.
			st = "live+" + s.toks[i].expiry.Sub(now).String()
			if s.toks[i].used {
				st += "/used-" + now.Sub(s.toks[i].usedAt).String()
			}
		}
		ts = append(ts, st)
	}
	sort.Strings(ts)
	var hs []string
	for _, ip := range []string{"A", "B"} {
		var ages []string
		for _, h := range s.hits[ip] {
			if h.After(now.Add(-s.cfg.window)) {
				ages = append(ages, now.Sub(h).String())
			}
		}
		// collapse runs of equal ages
		var parts []string
		for i := 0; i < len(ages); {
			j := i
			for j < len(ages) && ages[j] == ages[i] {
				j++
			}
			parts = append(parts, fmt.Sprintf("%dx%s", j-i, ages[i]))
			i = j
		}
		hs = append(hs, ip+"["+strings.Join(parts, " ")+"]")
	}
	return strings.Join(ts, ",") + " | " + strings.Join(hs, " ")
}

func (s *c38Sys) summary() string {
	now := time.Now()
	cnt := map[string]int{}
	for i := range s.toks {
		cnt[s.tokStatus(i, now)]++
	}
	hits := func(ip string) int {
		n := 0
		for _, h := range s.hits[ip] {
			if h.After(now.Add(-s.cfg.window)) {
				n++
			}
		}
		return n
	}
	return fmt.Sprintf("live=%d expired=%d out=%d hitsA=%d hitsB=%d", cnt["live"]+cnt["edge"], cnt["expired"], cnt["out"], hits("A"), hits("B"))
}

// enabled lists the events offered after a history that issued ntoks tokens, of which the
// sessions live are live (not expired, not logged out) by the model.
func c38Enabled(cfg c38Cfg, ntoks int, live []int, routes []c38Route) []c38Ev {
	var ev []c38Ev
	// plain logins first (new port per connection, no header): they are the representatives that
	// are extended; the fixed-port and header-carrying forms reach the same model state.
	for _, ip := range []string{"A", "B"} {
		ev = append(ev, c38Ev{K: "login", OK: true, IP: ip}, c38Ev{K: "login", OK: false, IP: ip})
	}
	for _, h := range c38Hdrs {
		for _, ip := range c38Peers {
			if h == "" && ip != "Ap" {
				continue // listed above
			}
			ev = append(ev, c38Ev{K: "login", OK: true, IP: ip, H: h}, c38Ev{K: "login", OK: false, IP: ip, H: h})
		}
	}
	// useall comes before the single-route requests and polls of the same token: they reach the
	// same search key (session presented just now) and the first history reaching a key is the
	// one that is extended, so histories continue after the strongest use.
	for _, i := range live {
		ev = append(ev, c38Ev{K: "useall", C: "tok", T: i})
	}
	cookies := []c38Ev{{C: "none"}, {C: "empty"}, {C: "garbage"}}
	for i := 0; i < ntoks; i++ {
		cookies = append(cookies, c38Ev{C: "tok", T: i})
	}
	if ntoks > 0 {
		cookies = append(cookies, c38Ev{C: "trunc0"})
	}
	for _, r := range routes {
		for _, c := range cookies {
			ev = append(ev, c38Ev{K: "req", R: r.Pattern, C: c.C, T: c.T})
		}
	}
	for _, c := range cookies {
		ev = append(ev, c38Ev{K: "poll", C: c.C, T: c.T})
	}
	for _, c := range cookies {
		if c.C == "empty" || c.C == "trunc0" {
			continue
		}
		ev = append(ev, c38Ev{K: "logout", C: c.C, T: c.T})
	}
	for _, d := range c38Deltas {
		ev = append(ev, c38Ev{K: "adv", D: d})
	}
	ev = append(ev, c38Ev{K: "burst", IP: "A", N: cfg.limit - 1}, c38Ev{K: "burst", IP: "A", N: cfg.limit}, c38Ev{K: "burst", IP: "B", N: cfg.limit})
	// bursts from the fixed-port form of A and bursts whose every attempt carries a client-set
	// header: one attempt more than the limit at one instant, so the last one must be refused
	// within the event itself whatever the history before it was.
	ev = append(ev, c38Ev{K: "burst", IP: "Ap", N: cfg.limit + 1})
	for _, h := range c38Hdrs[1:] {
		ev = append(ev, c38Ev{K: "burst", IP: "A", N: cfg.limit + 1, H: h})
	}
	return ev
}

type c38Result struct {
	summary string // model state summary after the history (part of the outcome signature)
	canon   string
	ntoks   int
	live    []int // indices of the sessions that are live by the model after the history
	viol    []c38Viol
	obs     []string
	broken  string // replay itself failed (harness problem)
}

// c38Replay runs one history in its own bubble; violations are those of the LAST event.
func c38Replay(t *testing.T, cfg c38Cfg, hist []c38Ev) (res c38Result) {
	synctest.Test(t, func(t *testing.T) {
		defer func() {
			if p := recover(); p != nil {
				res.broken = fmt.Sprint(p)
			}
		}()
		s := c38Build(cfg)
		for _, e := range hist {
			s.apply(e)
			res.obs = append(res.obs, s.obs)
		}
		res.viol = s.viol
		// the state reached by the history itself (the closing sweep presents every token
		// and must not leak into the key)
		res.canon = s.canon()
		res.ntoks = len(s.toks)
		res.summary = s.summary()
		now := time.Now()
		for i := range s.toks {
			if st := s.tokStatus(i, now); st == "live" || st == "edge" {
				res.live = append(res.live, i)
			}
		}
		if len(res.viol) == 0 {
			s.sweep()
			res.viol = s.viol
		}
	})
	return res
}

type c38Node struct {
	hist  []c38Ev
	ntoks int
	live  []int
}

func TestVerifC38(t *testing.T) {
	rep := vh.New(t, "C38")
	defer rep.Finish()

	cfg := c38ReadCfg(t)
	rep.Rule = "states = canonical search keys (issued tokens: live with exact remaining ABSOLUTE lifetime (login instant + ttl, never moved by use) and exact time since the token was last presented while live / expired / logged out / issued by a failed login; accepted login attempts per client address = TCP peer host within the window, as ages) reached by breadth-first search over event histories {login(ok/bad credentials x peer {A new port per connection, A fixed port, B} x client-set header {none, X-Forwarded-For fresh/constant/other peer's address, X-Real-IP fresh, Forwarded for=fresh}), burst(limit-1 | limit | limit+1 bad logins at one instant, same peer/header dimensions), logout, req(route,cookie), poll(/ui/api/auth/session,cookie), useall(live token: every protected route + session poll at one instant), adv}; every transition is one replay of the whole history on a fresh NewMux in its own synctest bubble; the oracle runs on the last event. signature = observation of the transition (event class, model status of the cookie, route, peer form and header kind of a login, status code) | model state summary after it (tokens live/expired/logged out, attempts in window per address); non-trivial = the request/logout carried a token that was issued earlier (live, expired, logged out), or a login was answered 429"
	rep.Assumptions = []string{
		"states with equal search keys are merged: the implementation's state is assumed to be a function of the key = model state + time since each live session was last presented (requests/polls with a cookie that is not a live session lead back to the same key and are not expanded further; presenting a live session leads to a new key, and of the events reaching it the history through useall - all routes and the session poll - is the one extended, so time advances and requests are explored AFTER a use); every replay, whatever its last event, is closed by a sweep of all protected routes x {no cookie, unknown token, every issued token} under the same oracle, so an effect of any event on the immediately following requests is observed",
		"a request is 'answered' when the status is 2xx (streaming routes are called with an already cancelled context: 200 with no events), 'rejected' otherwise",
		"'client address' of the rate limit = host of the TCP peer (RemoteAddr): source ports and the request headers a client writes itself (X-Forwarded-For, X-Real-IP, Forwarded) do not select the budget; the console is judged as the endpoint the client connects to (no trusted reverse proxy is configured or configurable in AuthConfig)",
		"login attempts that differ only in port form / header reach the same search key and the plain form (new port, no header) is the one extended: a header-carrying or fixed-port attempt is extended only when it reaches a model state that no plain event reaches at that depth (on a correct limiter: never, so it is the LAST event of a history, tried after every reachable model state), and header-carrying bursts are limit+1 long so that they decide within the event",
		"at the exact expiry instant either answer is accepted; sliding window = half-open interval of the configured length",
		"the /ui/api/auth/session poll is not a protected endpoint: its answer is observed, not judged; it only counts as a presentation of the token",
		"protected = every registered pattern under /ui/api/ except /ui/api/auth/*; LFS handlers enabled with an in-process fake S3 transport",
	}
	var pats []string
	for _, r := range cfg.routes {
		pats = append(pats, r.Pattern)
		if !r.Known {
			rep.SetInfo("route_without_known_2xx_request:"+r.Pattern, "only the reject direction is checked")
		}
	}
	rep.SetInfo("protected_routes", pats)
	rep.SetInfo("public_patterns", cfg.public)
	rep.SetInfo("ttl", cfg.ttl.String())
	rep.SetInfo("login_limit", fmt.Sprintf("%d per %v", cfg.limit, cfg.window))
	rep.SetInfo("deltas", c38Deltas)
	rep.SetInfo("login_peers", map[string]string{"A": c38HostOf["A"] + ":<new port per connection>", "Ap": c38HostOf["Ap"] + ":55555", "B": c38HostOf["B"] + ":<new port per connection>"})
	rep.SetInfo("login_client_headers", c38Hdrs)

	var rh []c38Ev
	if ok, err := vh.LoadReplay(&rh); ok {
		if err != nil {
			t.Fatalf("HARNESS-ERROR replay: %v", err)
		}
		for i := 1; i <= len(rh); i++ {
			r := c38Replay(t, cfg, rh[:i])
			rep.Eval(1)
			if r.broken != "" {
				t.Fatalf("HARNESS-ERROR replay broke: %s", r.broken)
			}
			t.Logf("%-40s %s", rh[i-1].String(), r.obs[len(r.obs)-1])
			for _, v := range r.viol {
				rep.Violation(v.Key, v.Detail+" | trace: "+strings.Join(r.obs, " ; "), rh[:i])
			}
		}
		return
	}

	maxDepth := 5
	if vh.Thorough() {
		maxDepth = 6
	}
	if v := os.Getenv("VERIF_C38_DEPTH"); v != "" {
		fmt.Sscan(v, &maxDepth)
	}
	rep.SetInfo("max_depth", maxDepth)
	deadline := vh.Deadline()

	init := c38Replay(t, cfg, nil)
	if init.broken != "" {
		t.Fatalf("HARNESS-ERROR initial build: %s", init.broken)
	}
	seen := map[string]bool{init.canon: true}
	frontier := []c38Node{{}}
	var states, transitions int64 = 1, 0
	type violRec struct {
		v    c38Viol
		hist []c38Ev
		obs  []string
		ord  int64
	}
	best := map[string]violRec{}
	sampled := map[string]bool{}
	vcount := map[string]int64{}
	workers := runtime.GOMAXPROCS(0)
	capped := false
	reached := 0
	for depth := 0; depth < maxDepth && len(frontier) > 0 && !capped; depth++ {
		type out struct {
			evs []c38Ev
			res []c38Result
			cut bool
		}
		outs := make([]out, len(frontier))
		var wg sync.WaitGroup
		idx := make(chan int, len(frontier))
		for i := range frontier {
			idx <- i
		}
		close(idx)
		for w := 0; w < workers; w++ {
			wg.Add(1)
			go func() {
				defer wg.Done()
				for i := range idx {
					if time.Now().After(deadline) {
						outs[i].cut = true
						continue
					}
					n := frontier[i]
					evs := c38Enabled(cfg, n.ntoks, n.live, cfg.routes)
					rs := make([]c38Result, len(evs))
					for k, e := range evs {
						h := make([]c38Ev, len(n.hist)+1)
						copy(h, n.hist)
						h[len(n.hist)] = e
						rs[k] = c38Replay(t, cfg, h)
					}
					outs[i] = out{evs: evs, res: rs}
				}
			}()
		}
		wg.Wait()
		var next []c38Node
		// successors whose last event is a login/burst in fixed-port or header-carrying form: they
		// reach the model state of the plain form of the same event, so they are considered only
		// after all plain successors of this depth; every representative history is then plain
		var variants []c38Node
		var variantKeys []string
		for i, o := range outs {
			if o.cut {
				capped = true
				continue
			}
			for k, r := range o.res {
				if r.broken != "" {
					t.Fatalf("HARNESS-ERROR replay %v broke: %s", append(frontier[i].hist, o.evs[k]), r.broken)
				}
				last := r.obs[len(r.obs)-1]
				if last == "disabled" {
					continue
				}
				transitions++
				rep.Eval(1)
				nontriv := strings.Contains(last, "cookie=live") || strings.Contains(last, "cookie=expired") || strings.Contains(last, "cookie=out") || strings.Contains(last, "cookie=edge") || strings.Contains(last, "429")
				rep.Outcome(last+" | "+r.summary, nontriv)
				h := append(append([]c38Ev(nil), frontier[i].hist...), o.evs[k])
				if nontriv && len(h) >= 3 && !sampled[last] && rep.WantSample() {
					sampled[last] = true
					var hs []string
					for _, e := range h {
						hs = append(hs, e.String())
					}
					rep.Sample(map[string]any{"history": hs, "observations": r.obs})
				}
				for _, v := range r.viol {
					vcount[v.Key]++
					if _, ok := best[v.Key]; !ok {
						best[v.Key] = violRec{v, h, r.obs, transitions}
					}
				}
				if len(r.viol) > 0 {
					continue // do not expand through a violating transition
				}
				if e := o.evs[k]; e.H != "" || e.IP == "Ap" {
					variants = append(variants, c38Node{hist: h, ntoks: r.ntoks, live: r.live})
					variantKeys = append(variantKeys, r.canon)
					continue
				}
				if !seen[r.canon] {
					seen[r.canon] = true
					states++
					next = append(next, c38Node{hist: h, ntoks: r.ntoks, live: r.live})
				}
			}
		}
		for j, n := range variants {
			if !seen[variantKeys[j]] {
				// not reached by a plain event: the implementation refused attempts the model would
				// have accepted (over-throttling, e.g. attempts counted against another address's
				// budget), which the statement does not forbid; the state is explored like any other
				seen[variantKeys[j]] = true
				states++
				next = append(next, n)
			}
		}
		if !capped {
			reached = depth + 1
		}
		frontier = next
	}
	if capped {
		rep.Cap(fmt.Sprintf("deadline hit while expanding depth %d (complete up to depth %d)", reached+1, reached))
	}
	rep.SetInfo("depth_completed", reached)
	rep.Count("states", states)
	rep.Count("transitions", transitions)
	rep.Count("unexpanded_frontier_states", int64(len(frontier)))
	// an expired token that is answered even when it was never presented in between is an expiry
	// that is not enforced at all; the same token being answered after a use is then the same defect.
	for k := range best {
		const p = "expired-token-kept-alive-by-use-answered:"
		if !strings.HasPrefix(k, p) {
			continue
		}
		plain := "expired-token-answered:" + k[len(p):]
		if _, ok := best[plain]; ok {
			vcount[plain] += vcount[k]
			delete(best, k)
			delete(vcount, k)
		}
	}
	// a limiter that does not limit plain attempts either is one defect, not one per header
	if _, ok := best["login-rate-limit-exceeded"]; ok {
		for k := range best {
			if strings.HasPrefix(k, "login-budget-chosen-by-client-header:") {
				vcount["login-rate-limit-exceeded"] += vcount[k]
				delete(best, k)
				delete(vcount, k)
			}
		}
	}
	// attempts carrying different headers in one window (possible when a header-carrying burst was
	// over-throttled into a model state no plain history reaches, and that history was extended):
	// when one of the headers chooses the budget on its own, the mixed window is the same defect.
	{
		const p = "login-budget-chosen-by-client-header:"
		var mixed []string
		for k := range best {
			if strings.HasPrefix(k, p) && strings.Contains(k[len(p):], "+") {
				mixed = append(mixed, k)
			}
		}
		sort.Strings(mixed)
		for _, k := range mixed {
			for _, name := range strings.Split(k[len(p):], "+") {
				if _, ok := best[p+name]; ok {
					vcount[p+name] += vcount[k]
					delete(best, k)
					delete(vcount, k)
					break
				}
			}
		}
	}
	// a mechanism that shows on every protected route is one defect of the session check, not one
	// per route: collapse "<mechanism>:<route>" keys to "<mechanism>" when all routes are hit.
	byMech := map[string][]string{}
	for k := range best {
		if i := strings.IndexByte(k, ':'); i > 0 {
			byMech[k[:i]] = append(byMech[k[:i]], k)
		}
	}
	for mech, ks := range byMech {
		if len(ks) < len(cfg.routes) || len(cfg.routes) < 2 {
			continue
		}
		sort.Strings(ks)
		var first violRec
		var total int64
		for i, k := range ks {
			if i == 0 || best[k].ord < first.ord {
				first = best[k]
			}
			total += vcount[k]
			delete(best, k)
			delete(vcount, k)
		}
		first.v.Detail = "(every protected route) " + first.v.Detail
		best[mech], vcount[mech] = first, total
	}
	// a route that answers both without a cookie and with an unknown token does not check the
	// session at all: one defect per route, whatever other cookie kinds also got through.
	byRoute := map[string][]string{}
	for k := range best {
		if i := strings.IndexByte(k, ':'); i > 0 && strings.HasSuffix(k[:i], "-answered") {
			byRoute[k[i+1:]] = append(byRoute[k[i+1:]], k)
		}
	}
	for route, ks := range byRoute {
		_, a := best["no-cookie-answered:"+route]
		_, b := best["unknown-token-answered:"+route]
		if !a || !b {
			continue
		}
		sort.Strings(ks)
		var first violRec
		var total int64
		for i, k := range ks {
			if i == 0 || best[k].ord < first.ord {
				first = best[k]
			}
			total += vcount[k]
			delete(best, k)
			delete(vcount, k)
		}
		best["route-answers-without-session:"+route], vcount["route-answers-without-session:"+route] = first, total
	}
	keys := make([]string, 0, len(best))
	for k := range best {
		keys = append(keys, k)
	}
	sort.Strings(keys)
	for _, k := range keys {
		b := best[k]
		var hs []string
		for _, e := range b.hist {
			hs = append(hs, e.String())
		}
		rep.Violation(k, fmt.Sprintf("%s | history: %s | observations: %s (%d violating transitions with this key)", b.v.Detail, strings.Join(hs, " ; "), strings.Join(b.obs, " ; "), vcount[k]), b.hist)
		rep.ViolCount[k] = vcount[k]
	}
}
