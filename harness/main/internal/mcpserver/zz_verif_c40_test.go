//go:build verif

package mcpserver

import (
	"context"
	"encoding/json"
	"errors"
	"fmt"
	"reflect"
	"sort"
	"strings"
	"sync"
	"testing"
	"unsafe"

	console "github.com/KafScale/platform/internal/console"
	"github.com/KafScale/platform/internal/verif/vh"
	metadatapb "github.com/KafScale/platform/pkg/gen/metadata"
	"github.com/KafScale/platform/pkg/metadata"
	"github.com/KafScale/platform/pkg/protocol"
	"github.com/modelcontextprotocol/go-sdk/mcp"
	"github.com/twmb/franz-go/pkg/kmsg"
)

// C40 — the ops MCP tools never change cluster state.
//
// Every tool registered by the real NewServer (discovered with tools/list over an in-memory
// MCP transport) is called with every argument set built from its own input schema over sharp
// alphabets, and every one of the 8 handler constructors is additionally called directly with
// typed inputs (nil slices, nil request). The store is a recording wrapper over a populated
// metadata.InMemoryStore. Oracle: no mutating Store method is invoked and the store dump
// (topics, partition offsets, consumer offsets + metadata, groups, topic configs; both through
// the read API and by reflection over the in-memory store's fields) is identical before/after.

// ---------- recording store ----------

var c40Mutating = map[string]bool{
	"UpdateOffsets": true, "CommitConsumerOffset": true, "PutConsumerGroup": true, "DeleteConsumerGroup": true,
	"UpdateTopicConfig": true, "CreatePartitions": true, "CreateTopic": true, "DeleteTopic": true,
}

type c40Rec struct {
	inner  *metadata.InMemoryStore
	mu     sync.Mutex
	calls  []string // "Method(args)"
	names  []string // method names only
	reads  int
	failAt int // inject an error into the failAt-th read call (1-based); 0 = never
}

var errC40Injected = errors.New("injected store read failure")

func (r *c40Rec) log(name string, mut bool, args ...any) error {
	r.mu.Lock()
	defer r.mu.Unlock()
	r.calls = append(r.calls, fmt.Sprintf("%s%v", name, args))
	r.names = append(r.names, name)
	if !mut {
		r.reads++
		if r.failAt > 0 && r.reads == r.failAt {
			return errC40Injected
		}
	}
	return nil
}

func (r *c40Rec) reset(failAt int) {
	r.mu.Lock()
	r.calls, r.names, r.reads, r.failAt = nil, nil, 0, failAt
	r.mu.Unlock()
}

func (r *c40Rec) Metadata(ctx context.Context, topics []string) (*metadata.ClusterMetadata, error) {
	if err := r.log("Metadata", false, topics); err != nil {
		return nil, err
	}
	return r.inner.Metadata(ctx, topics)
}
func (r *c40Rec) NextOffset(ctx context.Context, topic string, partition int32) (int64, error) {
	if err := r.log("NextOffset", false, topic, partition); err != nil {
		return 0, err
	}
	return r.inner.NextOffset(ctx, topic, partition)
}
func (r *c40Rec) UpdateOffsets(ctx context.Context, topic string, partition int32, lastOffset int64) error {
	r.log("UpdateOffsets", true, topic, partition, lastOffset)
	return r.inner.UpdateOffsets(ctx, topic, partition, lastOffset)
}
func (r *c40Rec) CommitConsumerOffset(ctx context.Context, group, topic string, partition int32, offset int64, md string) error {
	r.log("CommitConsumerOffset", true, group, topic, partition, offset, md)
	return r.inner.CommitConsumerOffset(ctx, group, topic, partition, offset, md)
}
func (r *c40Rec) FetchConsumerOffset(ctx context.Context, group, topic string, partition int32) (int64, string, error) {
	if err := r.log("FetchConsumerOffset", false, group, topic, partition); err != nil {
		return 0, "", err
	}
	return r.inner.FetchConsumerOffset(ctx, group, topic, partition)
}
func (r *c40Rec) ListConsumerOffsets(ctx context.Context) ([]metadata.ConsumerOffset, error) {
	if err := r.log("ListConsumerOffsets", false); err != nil {
		return nil, err
	}
	return r.inner.ListConsumerOffsets(ctx)
}
func (r *c40Rec) PutConsumerGroup(ctx context.Context, group *metadatapb.ConsumerGroup) error {
	r.log("PutConsumerGroup", true, group.GetGroupId())
	return r.inner.PutConsumerGroup(ctx, group)
}
func (r *c40Rec) FetchConsumerGroup(ctx context.Context, groupID string) (*metadatapb.ConsumerGroup, error) {
	if err := r.log("FetchConsumerGroup", false, groupID); err != nil {
		return nil, err
	}
	return r.inner.FetchConsumerGroup(ctx, groupID)
}
func (r *c40Rec) ListConsumerGroups(ctx context.Context) ([]*metadatapb.ConsumerGroup, error) {
	if err := r.log("ListConsumerGroups", false); err != nil {
		return nil, err
	}
	return r.inner.ListConsumerGroups(ctx)
}
func (r *c40Rec) DeleteConsumerGroup(ctx context.Context, groupID string) error {
	r.log("DeleteConsumerGroup", true, groupID)
	return r.inner.DeleteConsumerGroup(ctx, groupID)
}
func (r *c40Rec) FetchTopicConfig(ctx context.Context, topic string) (*metadatapb.TopicConfig, error) {
	if err := r.log("FetchTopicConfig", false, topic); err != nil {
		return nil, err
	}
	return r.inner.FetchTopicConfig(ctx, topic)
}
func (r *c40Rec) UpdateTopicConfig(ctx context.Context, cfg *metadatapb.TopicConfig) error {
	r.log("UpdateTopicConfig", true, cfg.GetName())
	return r.inner.UpdateTopicConfig(ctx, cfg)
}
func (r *c40Rec) CreatePartitions(ctx context.Context, topic string, partitionCount int32) error {
	r.log("CreatePartitions", true, topic, partitionCount)
	return r.inner.CreatePartitions(ctx, topic, partitionCount)
}
func (r *c40Rec) CreateTopic(ctx context.Context, spec metadata.TopicSpec) (*protocol.MetadataTopic, error) {
	r.log("CreateTopic", true, spec.Name, spec.NumPartitions)
	return r.inner.CreateTopic(ctx, spec)
}
func (r *c40Rec) DeleteTopic(ctx context.Context, name string) error {
	r.log("DeleteTopic", true, name)
	return r.inner.DeleteTopic(ctx, name)
}

var _ metadata.Store = (*c40Rec)(nil)

// ---------- populated store + dumps ----------

var c40Topics = []string{"orders", "events", "a:b"}

// c40Worlds: the cluster states the tools are run against. base = a populated, consistent store;
// stale-config = stored topic configs whose partition count / replication factor disagree with the live
// topic (what CreatePartitions after AlterConfigs leaves on the etcd store); grown = topics grown by
// CreatePartitions after their config and offsets were stored; bare = topics only (no offsets, groups,
// commits or configs); ahead = committed offsets that lie above the partition's log end (what a restore to an
// earlier point, or a commit made by an admin tool, leaves behind) next to commits at and below it.
var c40Worlds = []string{"base", "stale-config", "grown", "bare", "ahead"}

func c40NewStore(t testing.TB, world string) *metadata.InMemoryStore {
	ctx := context.Background()
	cn, cid := "verif-cluster", "verif-id"
	st := metadata.NewInMemoryStore(metadata.ClusterMetadata{
		Brokers:      []protocol.MetadataBroker{{NodeID: 0, Host: "b0", Port: 9092}, {NodeID: 1, Host: "b1", Port: 9092}},
		ControllerID: 1, ClusterName: &cn, ClusterID: &cid,
		Topics: []protocol.MetadataTopic{
			{Topic: kmsg.StringPtr("orders"), Partitions: []protocol.MetadataPartition{
				{Partition: 0, Leader: 0, Replicas: []int32{0, 1}, ISR: []int32{0, 1}},
				{Partition: 1, Leader: 1, Replicas: []int32{0, 1}, ISR: []int32{1}}}},
			{Topic: kmsg.StringPtr("events"), Partitions: []protocol.MetadataPartition{{Partition: 0, Leader: 0, Replicas: []int32{0}, ISR: []int32{0}}}},
			{Topic: kmsg.StringPtr("a:b"), Partitions: []protocol.MetadataPartition{{Partition: 0, Leader: 1, Replicas: []int32{1}, ISR: []int32{1}}}},
		},
	})
	must := func(err error) {
		if err != nil {
			t.Fatalf("HARNESS-ERROR populate store: %v", err)
		}
	}
	if world == "bare" {
		return st
	}
	must(st.UpdateOffsets(ctx, "orders", 0, 41))
	must(st.UpdateOffsets(ctx, "orders", 1, 6))
	must(st.UpdateOffsets(ctx, "a:b", 0, 2))
	must(st.CommitConsumerOffset(ctx, "g1", "orders", 0, 10, "m-o0"))
	must(st.CommitConsumerOffset(ctx, "g1", "orders", 1, 3, ""))
	must(st.CommitConsumerOffset(ctx, "g1", "events", 0, 0, "zero"))
	must(st.CommitConsumerOffset(ctx, "g-2", "orders", 1, 5, "m2"))
	must(st.PutConsumerGroup(ctx, &metadatapb.ConsumerGroup{GroupId: "g1", State: "stable", ProtocolType: "consumer", Protocol: "range", Leader: "m1", GenerationId: 3, RebalanceTimeoutMs: 30000,
		Members: map[string]*metadatapb.GroupMember{
			"m1": {ClientId: "c1", ClientHost: "h1", HeartbeatAt: "2026-01-01T00:00:00Z", Subscriptions: []string{"orders"}, SessionTimeoutMs: 10000,
				Assignments: []*metadatapb.Assignment{{Topic: "orders", Partitions: []int32{0, 1}}}},
			"m2": {ClientId: "c2", ClientHost: "h2", Subscriptions: []string{"orders", "events"}},
		}}))
	must(st.PutConsumerGroup(ctx, &metadatapb.ConsumerGroup{GroupId: "g-2", State: "empty", ProtocolType: "consumer"}))
	must(st.PutConsumerGroup(ctx, &metadatapb.ConsumerGroup{GroupId: "g:3", State: "dead"}))
	must(st.UpdateTopicConfig(ctx, &metadatapb.TopicConfig{Name: "orders", Partitions: 2, ReplicationFactor: 2, RetentionMs: 1000, RetentionBytes: -1, SegmentBytes: 4096, CreatedAt: "2026-01-01T00:00:00Z", Config: map[string]string{"cleanup.policy": "delete"}}))
	switch world {
	case "stale-config":
		must(st.UpdateTopicConfig(ctx, &metadatapb.TopicConfig{Name: "orders", Partitions: 5, ReplicationFactor: 3, RetentionMs: 1000, RetentionBytes: -1, SegmentBytes: 4096, CreatedAt: "2026-01-01T00:00:00Z", Config: map[string]string{"cleanup.policy": "delete"}}))
		must(st.UpdateTopicConfig(ctx, &metadatapb.TopicConfig{Name: "events", Partitions: 3, ReplicationFactor: 1, RetentionMs: -1, RetentionBytes: 10}))
		must(st.UpdateTopicConfig(ctx, &metadatapb.TopicConfig{Name: "a:b", Partitions: 1}))
	case "grown":
		must(st.UpdateTopicConfig(ctx, &metadatapb.TopicConfig{Name: "events", RetentionMs: 5}))
		must(st.CreatePartitions(ctx, "events", 3))
		must(st.CreatePartitions(ctx, "orders", 4))
		must(st.UpdateOffsets(ctx, "orders", 3, 7))
	case "ahead":
		must(st.CommitConsumerOffset(ctx, "g1", "orders", 0, 99, "ahead"))  // log end 42
		must(st.CommitConsumerOffset(ctx, "g-2", "orders", 1, 7, "at-end")) // log end 7
		must(st.CommitConsumerOffset(ctx, "g-2", "a:b", 0, 4, "one-ahead")) // log end 3
		must(st.CommitConsumerOffset(ctx, "g:3", "events", 0, 5, ""))       // nothing produced
	}
	return st
}

// c40DumpAPI: the state named by the statement, read through the Store read API.
func c40DumpAPI(st *metadata.InMemoryStore) string {
	ctx := context.Background()
	out := map[string]any{}
	meta, err := st.Metadata(ctx, nil)
	out["metadata"], out["metadata_err"] = meta, fmt.Sprint(err)
	offs := map[string]string{}
	cfgs := map[string]any{}
	if meta != nil {
		for _, tp := range meta.Topics {
			c, err := st.FetchTopicConfig(ctx, *tp.Topic)
			if c != nil {
				// a topic without a stored config gets a default whose CreatedAt is the wall clock
				// at read time; stored CreatedAt values are compared by the deep dump.
				c.CreatedAt = ""
			}
			cfgs[*tp.Topic] = []any{c, fmt.Sprint(err)}
			for _, p := range tp.Partitions {
				n, err := st.NextOffset(ctx, *tp.Topic, p.Partition)
				offs[fmt.Sprintf("%s/%d", *tp.Topic, p.Partition)] = fmt.Sprintf("%d %v", n, err)
			}
		}
	}
	out["next_offsets"], out["topic_configs"] = offs, cfgs
	co, _ := st.ListConsumerOffsets(ctx)
	cos := make([]string, 0, len(co))
	for _, o := range co {
		_, md, _ := st.FetchConsumerOffset(ctx, o.Group, o.Topic, o.Partition)
		cos = append(cos, fmt.Sprintf("%q %q %d = %d %q", o.Group, o.Topic, o.Partition, o.Offset, md))
	}
	sort.Strings(cos)
	out["consumer_offsets"] = cos
	gs, _ := st.ListConsumerGroups(ctx)
	gm := map[string]any{}
	for _, g := range gs {
		gm[g.GetGroupId()] = g
	}
	out["groups"] = gm
	b, err := json.Marshal(out)
	if err != nil {
		return "marshal error: " + err.Error()
	}
	return string(b)
}

// c40DumpDeep: every field of the in-memory store except its mutex, by reflection.
func c40DumpDeep(st *metadata.InMemoryStore) string {
	v := reflect.ValueOf(st).Elem()
	out := map[string]any{}
	for i := 0; i < v.NumField(); i++ {
		f := v.Field(i)
		name := v.Type().Field(i).Name
		if f.Type().PkgPath() == "sync" {
			continue
		}
		out[name] = reflect.NewAt(f.Type(), unsafe.Pointer(f.UnsafeAddr())).Elem().Interface()
	}
	b, err := json.Marshal(out)
	if err != nil {
		return "marshal error: " + err.Error()
	}
	return string(b)
}

// ---------- metrics variants ----------

type c40Metrics struct {
	snap *console.MetricsSnapshot
	err  error
}

func (m *c40Metrics) Snapshot(context.Context) (*console.MetricsSnapshot, error) {
	return m.snap, m.err
}

var c40MetricVariants = []string{"nil", "ok", "error", "nilsnap"}

func c40MetricsFor(v string) console.MetricsProvider {
	switch v {
	case "ok":
		return &c40Metrics{snap: &console.MetricsSnapshot{S3State: "healthy", S3LatencyMS: 7, ProduceRPS: 1}}
	case "error":
		return &c40Metrics{err: errors.New("metrics down")}
	case "nilsnap":
		return &c40Metrics{}
	}
	return nil
}

// ---------- alphabets ----------

// names: empty / existing / missing / odd
var c40NameAlphabet = []string{"", "orders", "g1", "missing", "a:b", "g:3", "g-2", "g1:orders", "orders:0", "../orders", "a/0", " ", "*", "ordérs\x00", strings.Repeat("n", 300)}

// lists (besides "absent" and null): every list of length <= 2 over the name alphabet
func c40Lists() [][]string {
	out := [][]string{{}}
	for _, a := range c40NameAlphabet {
		out = append(out, []string{a})
	}
	for _, a := range c40NameAlphabet {
		for _, b := range c40NameAlphabet {
			out = append(out, []string{a, b})
		}
	}
	out = append(out, []string{"orders", "events", "a:b"}, []string{"orders", "events", "a:b", "missing"})
	if vh.Thorough() {
		core := []string{"", "orders", "missing", "a:b", "g1"}
		for _, a := range core {
			for _, b := range core {
				for _, c := range core {
					out = append(out, []string{a, b, c})
				}
			}
		}
	}
	return out
}

type c40Case struct {
	Mode    string          `json:"mode"` // "server" | "direct"
	Tool    string          `json:"tool"`
	Args    json.RawMessage `json:"args,omitempty"` // server: arguments object (absent = no arguments); direct: typed input as JSON
	NilList bool            `json:"nil_list,omitempty"`
	Metrics string          `json:"metrics"`
	FailAt  int             `json:"fail_read_at"`
	World   string          `json:"world,omitempty"` // "" = base
}

// c40SchemaArgs builds the argument sets of one tool from its advertised input schema.
func c40SchemaArgs(schema any) (argsets []json.RawMessage, props []string) {
	argsets = append(argsets, nil, json.RawMessage(`{}`), json.RawMessage(`null`), json.RawMessage(`{"unknown_property":"x"}`), json.RawMessage(`[]`), json.RawMessage(`"orders"`))
	m, _ := schema.(map[string]any)
	pm, _ := m["properties"].(map[string]any)
	for p := range pm {
		props = append(props, p)
	}
	sort.Strings(props)
	if len(props) == 0 {
		return
	}
	kind := func(p string) string {
		d, _ := pm[p].(map[string]any)
		ts := fmt.Sprint(d["type"])
		switch {
		case strings.Contains(ts, "array"):
			return "list"
		case strings.Contains(ts, "string"):
			return "string"
		}
		return "other"
	}
	// per-property value alphabets as raw JSON (absent = "")
	vals := make([][]string, len(props))
	for i, p := range props {
		var a []string
		switch kind(p) {
		case "string":
			a = append(a, "", `null`, `42`, `["orders"]`)
			for _, s := range c40NameAlphabet {
				b, _ := json.Marshal(s)
				a = append(a, string(b))
			}
		case "list":
			a = append(a, "", `null`, `"orders"`, `[1]`, `[null]`)
			for _, l := range c40Lists() {
				b, _ := json.Marshal(l)
				a = append(a, string(b))
			}
		default:
			a = append(a, "", `null`, `0`, `-1`, `1`, `true`, `"orders"`, `{}`, `[]`)
		}
		vals[i] = a
	}
	idx := make([]int, len(props))
	for {
		var parts []string
		for i, p := range props {
			if v := vals[i][idx[i]]; v != "" {
				parts = append(parts, fmt.Sprintf("%q:%s", p, v))
			}
		}
		argsets = append(argsets, json.RawMessage("{"+strings.Join(parts, ",")+"}"))
		i := len(idx) - 1
		for i >= 0 {
			idx[i]++
			if idx[i] < len(vals[i]) {
				break
			}
			idx[i] = 0
			i--
		}
		if i < 0 {
			break
		}
	}
	return
}

// ---------- execution ----------

type c40Env struct {
	t      *testing.T
	rep    *vh.Report
	world  string
	inner  *metadata.InMemoryStore
	rec    *c40Rec
	api0   string
	deep0  string
	sess   map[string]*mcp.ClientSession // per metrics variant
	closer []func()
	panics int64
}

func (e *c40Env) rebuild() {
	for _, c := range e.closer {
		c()
	}
	e.closer = nil
	e.inner = c40NewStore(e.t, e.world)
	e.rec = &c40Rec{inner: e.inner}
	e.api0, e.deep0 = c40DumpAPI(e.inner), c40DumpDeep(e.inner)
	e.sess = map[string]*mcp.ClientSession{}
	ctx := context.Background()
	for _, mv := range c40MetricVariants {
		srv := NewServer(Options{Store: e.rec, Metrics: c40MetricsFor(mv), Version: "verif"})
		ct, st := mcp.NewInMemoryTransports()
		ss, err := srv.Connect(ctx, st, nil)
		if err != nil {
			e.t.Fatalf("HARNESS-ERROR server connect: %v", err)
		}
		cl := mcp.NewClient(&mcp.Implementation{Name: "verif", Version: "0"}, nil)
		cs, err := cl.Connect(ctx, ct, nil)
		if err != nil {
			e.t.Fatalf("HARNESS-ERROR client connect: %v", err)
		}
		e.sess[mv] = cs
		e.closer = append(e.closer, func() { cs.Close(); ss.Close() })
	}
}

func c40ErrClass(err error) string {
	if err == nil {
		return "ok"
	}
	s := err.Error()
	for _, k := range []string{"injected", "required", "not found", "not configured", "unavailable", "metrics down", "unknown topic", "validating", "unmarshal", "invalid"} {
		if strings.Contains(s, k) {
			return "err:" + k
		}
	}
	return "err:other"
}

// run executes one case and checks the oracle.
func (e *c40Env) run(c c40Case) {
	c.World = e.world
	e.rec.reset(c.FailAt)
	var outcome string
	var panicked any
	func() {
		defer func() { panicked = recover() }()
		if c.Mode == "server" {
			params := &mcp.CallToolParams{Name: c.Tool}
			if c.Args != nil {
				params.Arguments = c.Args
			}
			res, err := e.sess[c.Metrics].CallTool(context.Background(), params)
			switch {
			case err != nil:
				outcome = "rpc-" + c40ErrClass(err)
			case res.IsError:
				txt := ""
				for _, ct := range res.Content {
					if tc, ok := ct.(*mcp.TextContent); ok {
						txt += tc.Text
					}
				}
				outcome = "tool-" + c40ErrClass(errors.New(txt))
			default:
				b, _ := json.Marshal(res.StructuredContent)
				outcome = "ok:" + c40Shape(b)
			}
		} else {
			outcome = c40Direct(Options{Store: e.rec, Metrics: c40MetricsFor(c.Metrics)}, c)
		}
	}()
	if panicked != nil {
		outcome = "panic"
		e.panics++
	}
	e.rep.Eval(1)
	e.rec.mu.Lock()
	names := append([]string(nil), e.rec.names...)
	calls := append([]string(nil), e.rec.calls...)
	e.rec.mu.Unlock()
	// collapse repeated method names for the signature
	var seq []string
	for _, n := range names {
		if len(seq) == 0 || seq[len(seq)-1] != n {
			seq = append(seq, n)
		}
	}
	sig := fmt.Sprintf("%s|%s|%s|%s|m=%s|%s", e.world, c.Mode, c.Tool, outcome, c.Metrics, strings.Join(seq, ">"))
	nontrivial := len(names) > 0
	e.rep.Outcome(sig, nontrivial)
	if nontrivial && strings.HasPrefix(outcome, "ok:") && c.Args != nil && len(c.Args) > 2 && e.rep.WantSample() {
		e.rep.Sample(map[string]any{"case": c, "outcome": outcome, "store_calls": calls})
	}
	bad := false
	for i, n := range names {
		if c40Mutating[n] {
			e.rep.Violation(c.Tool+"-calls-"+n, fmt.Sprintf("tool %s (%s, args %s) invoked mutating store method %s; all store calls: %v", c.Tool, c.Mode, string(c.Args), calls[i], calls), c)
			bad = true
			break
		}
	}
	api1, deep1 := c40DumpAPI(e.inner), c40DumpDeep(e.inner)
	if api1 != e.api0 || deep1 != e.deep0 {
		if !bad {
			e.rep.Violation(c.Tool+"-store-changed-without-mutating-call", fmt.Sprintf("tool %s (%s, args %s): store dump differs after the call although no mutating method was called.\nbefore: %s\nafter:  %s\nstore calls: %v", c.Tool, c.Mode, string(c.Args), e.deep0, deep1, calls), c)
		}
		bad = true
	}
	if bad {
		e.rebuild()
	}
}

// c40Shape summarises a structured result (counts only) for the outcome signature.
func c40Shape(b []byte) string {
	var m map[string]any
	if json.Unmarshal(b, &m) != nil {
		return "?"
	}
	keys := make([]string, 0, len(m))
	for k, v := range m {
		if l, ok := v.([]any); ok {
			keys = append(keys, fmt.Sprintf("%s[%d]", k, len(l)))
		}
	}
	sort.Strings(keys)
	return strings.Join(keys, ",")
}

type c40DirectIn struct {
	GroupID string   `json:"group_id,omitempty"`
	List    []string `json:"list"`
}

// c40Direct calls a handler constructor's function directly (nil request).
func c40Direct(opts Options, c c40Case) string {
	var in c40DirectIn
	if c.Args != nil {
		_ = json.Unmarshal(c.Args, &in)
	}
	if c.NilList {
		in.List = nil
	}
	ctx := context.Background()
	var err error
	var out any
	switch c.Tool {
	case toolClusterStatus:
		_, out, err = clusterStatusHandler(opts)(ctx, nil, emptyInput{})
	case toolClusterMetrics:
		_, out, err = clusterMetricsHandler(opts)(ctx, nil, emptyInput{})
	case toolListTopics:
		_, out, err = listTopicsHandler(opts)(ctx, nil, emptyInput{})
	case toolDescribeTopics:
		_, out, err = describeTopicsHandler(opts)(ctx, nil, TopicNameInput{Names: in.List})
	case toolListGroups:
		_, out, err = listGroupsHandler(opts)(ctx, nil, emptyInput{})
	case toolDescribeGroup:
		_, out, err = describeGroupHandler(opts)(ctx, nil, GroupInput{GroupID: in.GroupID})
	case toolFetchOffsets:
		_, out, err = fetchOffsetsHandler(opts)(ctx, nil, FetchOffsetsInput{GroupID: in.GroupID, Topics: in.List})
	case toolDescribeConfigs:
		_, out, err = describeConfigsHandler(opts)(ctx, nil, TopicConfigInput{Topics: in.List})
	default:
		return "unknown-tool"
	}
	if err != nil {
		return "direct-" + c40ErrClass(err)
	}
	b, _ := json.Marshal(out)
	return "ok:" + c40Shape(b)
}

var c40KnownTools = []string{toolClusterStatus, toolClusterMetrics, toolListTopics, toolDescribeTopics, toolListGroups, toolDescribeGroup, toolFetchOffsets, toolDescribeConfigs}

func TestVerifC40(t *testing.T) {
	rep := vh.New(t, "C40")
	defer rep.Finish()
	rep.Rule = "cases = (a) every tool advertised by the real NewServer (tools/list over the SDK's in-memory transport) x every argument object built from its input schema (per property: absent, null, wrong type, and the name / list alphabets; plus no arguments, {}, null, unknown property, non-object) x metrics provider {nil, ok, error, nil snapshot} (tools without properties) x injected read failure at store read #{none,1,2}; (b) each of the 8 handler constructors called directly with typed inputs (nil and empty slices, the same alphabets, nil request). signature = mode | tool | result class (ok + list lengths / error class) | metrics variant | sequence of store methods reached; non-trivial = the call reached the store"
	rep.Assumptions = []string{
		"the cluster state is the metadata.Store the server was given (recording wrapper over a metadata.InMemoryStore in each of the worlds base / stale-config / grown / bare / ahead); the etcd-backed store is not exercised",
		"mutating methods = UpdateOffsets, CommitConsumerOffset, PutConsumerGroup, DeleteConsumerGroup, UpdateTopicConfig, CreatePartitions, CreateTopic, DeleteTopic",
	}
	var rc c40Case
	if ok, err := vh.LoadReplay(&rc); ok {
		if err != nil {
			t.Fatalf("HARNESS-ERROR replay: %v", err)
		}
		if rc.World == "" {
			rc.World = "base"
		}
		e := &c40Env{t: t, rep: rep, world: rc.World}
		e.rebuild()
		e.run(rc)
		for _, c := range e.closer {
			c()
		}
		return
	}
	rep.SetInfo("worlds", c40Worlds)
	si, sn := vh.Shard()
	for wi, world := range c40Worlds {
		if wi%sn != si {
			continue
		}
		c40RunWorld(t, rep, world)
	}
}

func c40RunWorld(t *testing.T, rep *vh.Report, world string) {
	e := &c40Env{t: t, rep: rep, world: world}
	e.rebuild()
	defer func() {
		for _, c := range e.closer {
			c()
		}
	}()

	// (a) through the real server
	lt, err := e.sess["nil"].ListTools(context.Background(), nil)
	if err != nil {
		t.Fatalf("HARNESS-ERROR tools/list: %v", err)
	}
	var toolNames []string
	known := map[string]bool{}
	for _, k := range c40KnownTools {
		known[k] = true
	}
	schemas := map[string]any{}
	for _, tl := range lt.Tools {
		toolNames = append(toolNames, tl.Name)
		schemas[tl.Name] = tl.InputSchema
	}
	sort.Strings(toolNames)
	rep.SetInfo("tools_discovered", toolNames)
	rep.SetInfo("name_alphabet", c40NameAlphabet)
	rep.SetInfo("list_alphabet", "absent, null, wrong types, every list of length <= 2 over the name alphabet, all topics, all topics + missing; thorough: + every list of length 3 over {empty, orders, missing, a:b, g1}")
	var unknown []string
	for _, n := range toolNames {
		if !known[n] {
			unknown = append(unknown, n)
		}
	}
	if len(unknown) > 0 {
		rep.SetInfo("tools_without_direct_handler_cases", unknown)
	}
	failAts := []int{0, 1, 2}
	if vh.Thorough() {
		failAts = []int{0, 1, 2, 3, 4}
	}
	rep.SetInfo("fail_read_at", failAts)
	for _, tool := range toolNames {
		argsets, props := c40SchemaArgs(schemas[tool])
		mvs := []string{"nil"}
		if len(props) == 0 {
			mvs = c40MetricVariants
		}
		rep.Count("server_argsets_"+tool, int64(len(argsets)))
		for _, mv := range mvs {
			for _, fa := range failAts {
				for _, a := range argsets {
					e.run(c40Case{Mode: "server", Tool: tool, Args: a, Metrics: mv, FailAt: fa})
				}
			}
		}
	}
	// a tool name that is not registered
	e.run(c40Case{Mode: "server", Tool: "create_topic", Args: json.RawMessage(`{"name":"x"}`), Metrics: "nil"})

	// (b) direct handler calls
	lists := c40Lists()
	for _, tool := range c40KnownTools {
		var cases []c40Case
		switch tool {
		case toolClusterStatus, toolClusterMetrics, toolListTopics, toolListGroups:
			for _, mv := range c40MetricVariants {
				cases = append(cases, c40Case{Mode: "direct", Tool: tool, Metrics: mv})
			}
		case toolDescribeGroup:
			for _, g := range c40NameAlphabet {
				b, _ := json.Marshal(c40DirectIn{GroupID: g})
				cases = append(cases, c40Case{Mode: "direct", Tool: tool, Args: b, NilList: true, Metrics: "nil"})
			}
		case toolDescribeTopics, toolDescribeConfigs:
			cases = append(cases, c40Case{Mode: "direct", Tool: tool, Args: json.RawMessage(`{}`), NilList: true, Metrics: "nil"})
			for _, l := range lists {
				b, _ := json.Marshal(c40DirectIn{List: l})
				cases = append(cases, c40Case{Mode: "direct", Tool: tool, Args: b, Metrics: "nil"})
			}
		case toolFetchOffsets:
			for _, g := range c40NameAlphabet {
				b, _ := json.Marshal(c40DirectIn{GroupID: g})
				cases = append(cases, c40Case{Mode: "direct", Tool: tool, Args: b, NilList: true, Metrics: "nil"})
				for _, l := range lists {
					b, _ := json.Marshal(c40DirectIn{GroupID: g, List: l})
					cases = append(cases, c40Case{Mode: "direct", Tool: tool, Args: b, Metrics: "nil"})
				}
			}
		}
		rep.Count("direct_inputs_"+tool, int64(len(cases)))
		for _, fa := range failAts {
			for _, c := range cases {
				c.FailAt = fa
				e.run(c)
			}
		}
	}
	rep.Count("panics_caught", e.panics)
}
