//go:build verif

package main

// C30 (part 1, history dimension) — a long-lived proxy.
//
// The single-shot part builds a fresh lfsModule per request. A real proxy serves the same object again and
// again while the bucket stays untrusted. This file enumerates every ordered sequence of POST /lfs/download
// requests on ONE lfsModule, the stored object being rewritten between the requests, and judges EVERY response
// like the single-shot part: a 200 stream body has exactly the SHA-256 and size of that request's integrity
// block, no other response carries object bytes.
//
// World: keys K1, K2; blobs P, Q of the same length. Requests (all in the same form):
//
//	R1 = (K1, integrity of P)   R2 = (K1, integrity of Q)  -- shares the key with R1
//	R3 = (K2, integrity of P)                              -- shares the checksum with R1

import (
	"bytes"
	"context"
	"encoding/json"
	"errors"
	"fmt"
	"net/http"
	"net/http/httptest"
	"runtime"
	"strconv"
	"strings"
	"sync"
	"sync/atomic"
	"testing"

	"github.com/KafScale/platform/internal/verif/enum"
	"github.com/KafScale/platform/internal/verif/vh"
	"github.com/aws/aws-sdk-go-v2/service/s3"
)

const (
	vc30HKey1 = "verif-ns/topic/lfs/2026/01/02/obj-c30-h1"
	vc30HKey2 = "verif-ns/topic/lfs/2026/01/02/obj-c30-h2"
)

type vc30HStep struct {
	Req   int    `json:"req"`   // 0: R1 (K1, P)  1: R2 (K1, Q)  2: R3 (K2, P)
	State string `json:"state"` // what the bucket holds under that request's key when the request arrives
}

type vc30HCase struct {
	API      string      `json:"api"`  // "download-history"
	Pair     int         `json:"pair"` // index into vc30HPairs()
	Mode     string      `json:"mode"`
	ShaClass string      `json:"sha256_class"` // lower | upper | padded
	Alg      string      `json:"checksum_alg"`
	Steps    []vc30HStep `json:"steps"`
}

// vc30HS3 is a mutable bucket (other s3API methods come from vc30S3).
type vc30HS3 struct {
	*vc30S3
	mu   sync.Mutex
	objs map[string]vc30Stored
}

func (f *vc30HS3) GetObject(ctx context.Context, in *s3.GetObjectInput, _ ...func(*s3.Options)) (*s3.GetObjectOutput, error) {
	f.mu.Lock()
	defer f.mu.Unlock()
	if in.Key == nil || in.Bucket == nil || *in.Bucket != vc30Bucket {
		return nil, errors.New("verif: NoSuchKey")
	}
	o, ok := f.objs[*in.Key]
	if !ok || o.missing {
		return nil, errors.New("verif: NoSuchKey (object missing)")
	}
	n := int64(len(o.data))
	return &s3.GetObjectOutput{Body: &vc30Body{data: o.data, failAfter: o.failAfter}, ContentLength: &n}, nil
}

func vc30HPairs() [][2][]byte {
	bigP, bigQ := make([]byte, 40000), make([]byte, 40000) // larger than the handler's 32 KiB copy buffer
	for i := range bigP {
		bigP[i] = byte(i*13 + i>>7)
		bigQ[i] = byte(i*17 + i>>5 + 3)
	}
	out := [][2][]byte{
		{[]byte("a"), []byte("b")},
		{[]byte("hello-lfs-blob-0123456789"), []byte("other-lfs-blob-9876543210")},
		{bigP, bigQ},
	}
	if vh.Thorough() {
		out = append(out, [2][]byte{[]byte("0123456789abcdef0123456789abcdef"), []byte("fedcba9876543210fedcba9876543210")})
	}
	return out
}

func vc30HStates(n int) []string {
	out := []string{"intact", "bitflip", "truncated", "extended", "replaced", "missing"}
	if n > 1 {
		out = append(out, "read-error-midway")
	}
	return out
}

func vc30HObject(state string, declared, other []byte) vc30Stored {
	flip := append([]byte{}, declared...)
	flip[len(flip)-1] ^= 1
	switch state {
	case "intact":
		return vc30Stored{class: state, data: declared, failAfter: -1}
	case "bitflip":
		return vc30Stored{class: state, data: flip, failAfter: -1}
	case "truncated":
		return vc30Stored{class: state, data: declared[:len(declared)-1], failAfter: -1}
	case "extended":
		return vc30Stored{class: state, data: append(append([]byte{}, declared...), 0), failAfter: -1}
	case "replaced":
		return vc30Stored{class: state, data: other, failAfter: -1}
	case "read-error-midway":
		return vc30Stored{class: state, data: declared, failAfter: len(declared) / 2}
	}
	return vc30Stored{class: "missing", missing: true, failAfter: -1}
}

type vc30HWorld struct {
	hc       vc30HCase
	keys     [3]string
	declared [3][]byte
	other    [3][]byte
	bodies   [3][]byte // request bodies
	wantSHA  [3]string
}

func vc30HNewWorld(hc vc30HCase, p, q []byte) *vc30HWorld {
	w := &vc30HWorld{hc: hc}
	w.keys = [3]string{vc30HKey1, vc30HKey1, vc30HKey2}
	w.declared = [3][]byte{p, q, p}
	w.other = [3][]byte{q, p, q}
	for i := 0; i < 3; i++ {
		w.wantSHA[i] = vc30SHA(w.declared[i])
		sha := w.wantSHA[i]
		switch hc.ShaClass {
		case "upper":
			sha = strings.ToUpper(sha)
		case "padded":
			sha = " " + sha + " "
		}
		s := `{"bucket":` + strconv.Quote(vc30Bucket) + `,"key":` + strconv.Quote(w.keys[i])
		if hc.Mode != "" {
			s += `,"mode":` + strconv.Quote(hc.Mode)
		}
		s += `,"integrity":{"sha256":` + strconv.Quote(sha)
		if hc.Alg != "" {
			s += `,"checksum_alg":` + strconv.Quote(hc.Alg)
		}
		s += `,"size":` + strconv.Itoa(len(w.declared[i])) + "}}"
		w.bodies[i] = []byte(s)
	}
	return w
}

type vc30HProxy struct {
	w   *vc30HWorld
	fs3 *vc30HS3
	m   *lfsModule
}

func (w *vc30HWorld) newProxy() *vc30HProxy {
	fs3 := &vc30HS3{vc30S3: &vc30S3{failAfter: -1}, objs: map[string]vc30Stored{}}
	m := vc30Module(fs3.vc30S3, 5<<30)
	m.s3Uploader.api = fs3
	return &vc30HProxy{w: w, fs3: fs3, m: m}
}

type vc30HResp struct {
	code    int
	errCode string
	bodySHA string
	bodyLen int
	leaks   bool
	stored  int
}

func (p *vc30HProxy) download(st vc30HStep) vc30HResp {
	w := p.w
	obj := vc30HObject(st.State, w.declared[st.Req], w.other[st.Req])
	p.fs3.mu.Lock()
	p.fs3.objs[w.keys[st.Req]] = obj
	p.fs3.mu.Unlock()
	req := httptest.NewRequest(http.MethodPost, "/lfs/download", bytes.NewReader(w.bodies[st.Req]))
	rr := httptest.NewRecorder()
	p.m.handleHTTPDownload(rr, req)
	got := rr.Body.Bytes()
	out := vc30HResp{code: rr.Code, bodySHA: vc30SHA(got), bodyLen: len(got), stored: len(obj.data)}
	if rr.Code != http.StatusOK {
		var er struct {
			Code string `json:"code"`
		}
		_ = json.Unmarshal(got, &er)
		out.errCode = er.Code
	}
	out.leaks = len(obj.data) >= 16 && bytes.Contains(got, obj.data)
	return out
}

// vc30HJudge returns the violation key ("" = fine) of one response, as in the single-shot part.
func (w *vc30HWorld) judge(st vc30HStep, rr vc30HResp) (string, string) {
	if rr.code == http.StatusOK {
		want, size := w.wantSHA[st.Req], len(w.declared[st.Req])
		switch {
		case rr.bodySHA != want:
			return "download-served-bytes-failing-integrity-sha256", fmt.Sprintf("sha256(body)=%s, integrity.sha256=%s", rr.bodySHA, want)
		case rr.bodyLen < size:
			return "download-served-fewer-bytes-than-integrity-size", fmt.Sprintf("body has %d bytes, integrity.size=%d", rr.bodyLen, size)
		case rr.bodyLen > size:
			return "download-served-more-bytes-than-integrity-size", fmt.Sprintf("body has %d bytes, integrity.size=%d", rr.bodyLen, size)
		}
		return "", ""
	}
	if rr.leaks {
		return "download-non-stream-response-carries-object-bytes", fmt.Sprintf("status %d body of %d bytes contains the stored object", rr.code, rr.bodyLen)
	}
	return "", ""
}

func vc30HRelation(steps []vc30HStep, i int) string {
	sameKey := func(a, b int) bool { return (a == 2) == (b == 2) }
	sameSum := func(a, b int) bool { return (a == 1) == (b == 1) }
	rel := ""
	for j := 0; j < i; j++ {
		switch {
		case steps[j].Req == steps[i].Req:
			return "same-request"
		case sameKey(steps[j].Req, steps[i].Req):
			rel = "same-key-request"
		case sameSum(steps[j].Req, steps[i].Req) && rel == "":
			rel = "same-checksum-request"
		}
	}
	if rel == "" {
		rel = "unrelated-request"
	}
	return rel
}

type vc30HViolation struct {
	key, detail string
}

type vc30HResult struct {
	sig        string
	trivial    bool
	violations []vc30HViolation
	served     int
	rejected   int
	servedAC   int
	rejectedAC int
}

func vc30HRunCase(w *vc30HWorld) vc30HResult {
	hc := w.hc
	px := w.newProxy()
	var res vc30HResult
	var sig strings.Builder
	fmt.Fprintf(&sig, "download-history|%s|%s|%s", hc.Mode, hc.ShaClass, hc.Alg)
	res.trivial = hc.ShaClass == "lower"
	changed := false
	for i, st := range hc.Steps {
		rr := px.download(st)
		if st.State != "intact" || st.Req != 0 {
			res.trivial = false
		}
		if i > 0 && (st.State != hc.Steps[i-1].State || st.Req != hc.Steps[i-1].Req) {
			changed = true
		}
		if rr.code == http.StatusOK {
			res.served++
			if changed {
				res.servedAC++
			}
		} else {
			res.rejected++
			if changed {
				res.rejectedAC++
			}
		}
		if key, detail := w.judge(st, rr); key != "" {
			fresh := w.newProxy().download(st)
			if fk, _ := w.judge(st, fresh); fk == "" {
				key = "download-later-request-served-unverified-bytes-after-" + vc30HRelation(hc.Steps, i)
			}
			var earlier []string
			for _, s := range hc.Steps[:i] {
				earlier = append(earlier, fmt.Sprintf("R%d with %s object", s.Req+1, s.State))
			}
			res.violations = append(res.violations, vc30HViolation{key, fmt.Sprintf(
				"download #%d of %d on ONE lfsModule: request %s; bucket now holds the %s object (%d bytes); response %d with %d body bytes: %s (earlier downloads: %s)",
				i+1, len(hc.Steps), vc30Trunc(string(w.bodies[st.Req]), 260), st.State, rr.stored, rr.code, rr.bodyLen, detail, strings.Join(earlier, ", then "))})
		}
		fmt.Fprintf(&sig, "|R%d:%s:%d/%s", st.Req+1, st.State, rr.code, rr.errCode)
	}
	res.sig = sig.String()
	return res
}

// vc30History enumerates the history dimension of the download endpoint (or replays one history).
func vc30History(t *testing.T, rep *vh.Report, replay *vc30HCase) {
	pairs := vc30HPairs()
	var cases []vc30HCase
	depth := 2
	if vh.Thorough() {
		depth = 3
	}
	if replay != nil {
		if replay.Pair < 0 || replay.Pair >= len(pairs) {
			t.Fatalf("HARNESS-ERROR C30: history replay names blob pair %d (run with the tier that produced it)", replay.Pair)
		}
		for _, s := range replay.Steps {
			if s.Req < 0 || s.Req > 2 {
				t.Fatalf("HARNESS-ERROR C30: bad history replay step")
			}
		}
		cases = []vc30HCase{*replay}
	} else {
		type form struct{ mode, sha, alg string }
		var fullForms []form
		for _, mode := range []string{"", "stream"} {
			for _, sha := range []string{"lower", "upper", "padded"} {
				for _, alg := range []string{"", "sha256"} {
					fullForms = append(fullForms, form{mode, sha, alg})
				}
			}
		}
		coreForms := []form{{"", "lower", ""}, {"stream", "upper", "sha256"}}
		for pi, pq := range pairs {
			states := vc30HStates(len(pq[0]))
			ns := len(states)
			dims := make([]int, depth)
			// (a) the same request again and again: all forms
			for i := range dims {
				dims[i] = ns
			}
			for _, f := range fullForms {
				enum.Product(dims, func(ix []int) bool {
					s := make([]vc30HStep, depth)
					for i, v := range ix {
						s[i] = vc30HStep{Req: 0, State: states[v]}
					}
					cases = append(cases, vc30HCase{API: "download-history", Pair: pi, Mode: f.mode, ShaClass: f.sha, Alg: f.alg, Steps: s})
					return true
				})
			}
			// (b) sequences naming at least two different requests (shared key / shared checksum): core forms
			for i := range dims {
				dims[i] = 3 * ns
			}
			for _, f := range coreForms {
				enum.Product(dims, func(ix []int) bool {
					s := make([]vc30HStep, depth)
					distinct := false
					for i, v := range ix {
						s[i] = vc30HStep{Req: v / ns, State: states[v%ns]}
						distinct = distinct || s[i].Req != s[0].Req
					}
					if distinct {
						cases = append(cases, vc30HCase{API: "download-history", Pair: pi, Mode: f.mode, ShaClass: f.sha, Alg: f.alg, Steps: s})
					}
					return true
				})
			}
		}
	}
	rep.SetInfo("download_history_depth", depth)
	rep.SetInfo("download_history_cases", len(cases))
	results := make([]vc30HResult, len(cases))
	var wg sync.WaitGroup
	var next int64 = -1
	for wk := 0; wk < runtime.GOMAXPROCS(0); wk++ {
		wg.Add(1)
		go func() {
			defer wg.Done()
			for {
				i := int(atomic.AddInt64(&next, 1))
				if i >= len(cases) {
					return
				}
				c := cases[i]
				results[i] = vc30HRunCase(vc30HNewWorld(c, pairs[c.Pair][0], pairs[c.Pair][1]))
			}
		}()
	}
	wg.Wait()
	var served, rejected, servedAC, rejectedAC, reads int64
	for i, r := range results {
		rep.Eval(1)
		rep.Outcome(r.sig, !r.trivial)
		for _, v := range r.violations {
			rep.Violation(v.key, v.detail, cases[i])
		}
		served += int64(r.served)
		rejected += int64(r.rejected)
		servedAC += int64(r.servedAC)
		rejectedAC += int64(r.rejectedAC)
		reads += int64(len(cases[i].Steps))
	}
	rep.Count("download_history_sequences", int64(len(cases)))
	rep.Count("download_history_requests", reads)
	rep.Count("download_history_responses_200", served)
	rep.Count("download_history_responses_refused", rejected)
	rep.Count("download_history_responses_200_after_storage_or_request_change", servedAC)
	rep.Count("download_history_responses_refused_after_storage_or_request_change", rejectedAC)
	if replay == nil && (servedAC == 0 || rejectedAC == 0) {
		t.Fatalf("HARNESS-ERROR C30: the download history dimension never served / never refused a later request; it would be vacuous")
	}
}
