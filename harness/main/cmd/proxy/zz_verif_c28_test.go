//go:build verif

package main

import (
	"context"
	"encoding/binary"
	"fmt"
	"io"
	"log/slog"
	"net"
	"runtime"
	"sort"
	"strings"
	"sync"
	"testing"
	"time"

	"github.com/KafScale/platform/internal/verif/vh"
	"github.com/KafScale/platform/pkg/metadata"
	"github.com/KafScale/platform/pkg/protocol"
	"github.com/twmb/franz-go/pkg/kmsg"
)

// C28 — a metadata, coordinator or not-ready reply from the proxy names only the proxy as
// broker, partition leader and coordinator, and keeps the set of topics, partitions, topic
// ids, error codes and leader epochs of the cluster metadata.
//
// Every case goes through the wire: a kmsg-encoded request is handed to the real
// proxy.handleMetadata (ParseRequest + loadMetadata + buildProxyMetadataResponse +
// EncodeResponse), proxy.handleFindCoordinator or proxy.buildNotReadyResponse (also through
// the real handleConnection over a net.Pipe with ready=0), and the oracle looks only at the
// reply bytes decoded with kmsg at the request's version.

const (
	c28Host = "proxy.verif.example"
	c28Port = int32(19092)
)

type c28Part struct {
	Err   int16 `json:"err"`
	Epoch int32 `json:"epoch"`
}

type c28Topic struct {
	ExplicitID bool      `json:"explicit_id"`
	Err        int16     `json:"err"`
	Parts      []c28Part `json:"parts"`
}

// c28Req: Kind "all" (null topic array), "empty" (empty array), "names", "ids".
// Sel indexes the snapshot's topics; -1 is a topic/id the cluster does not have.
type c28Req struct {
	Kind string `json:"kind"`
	Sel  []int  `json:"sel"`
}

type c28Case struct {
	Brokers int        `json:"brokers"`
	Topics  []c28Topic `json:"topics"`
	Req     c28Req     `json:"req"`
	Version int16      `json:"version"`
	// Conn, when set, makes this a connection-level case (zz_verif_c28_conn_test.go) and the
	// other fields are unused.
	Conn *c28ConnCase `json:"conn,omitempty"`
}

// c28Store wraps the real InMemoryStore and records what Metadata returned.
type c28Store struct {
	*metadata.InMemoryStore
	last *metadata.ClusterMetadata
}

func (s *c28Store) Metadata(ctx context.Context, topics []string) (*metadata.ClusterMetadata, error) {
	m, err := s.InMemoryStore.Metadata(ctx, topics)
	if err == nil && m != nil {
		cp := c28CloneMeta(m)
		s.last = &cp
	}
	return m, err
}

func c28CloneMeta(m *metadata.ClusterMetadata) metadata.ClusterMetadata {
	out := metadata.ClusterMetadata{ControllerID: m.ControllerID}
	out.Brokers = append(out.Brokers, m.Brokers...)
	out.Topics = make([]kmsg.MetadataResponseTopic, 0, len(m.Topics))
	for _, t := range m.Topics {
		nt := t
		if t.Topic != nil {
			n := *t.Topic
			nt.Topic = &n
		}
		nt.Partitions = nil
		if len(t.Partitions) > 0 {
			nt.Partitions = make([]kmsg.MetadataResponseTopicPartition, 0, len(t.Partitions))
		}
		for _, p := range t.Partitions {
			np := p
			np.Replicas = append([]int32(nil), p.Replicas...)
			np.ISR = append([]int32(nil), p.ISR...)
			np.OfflineReplicas = append([]int32(nil), p.OfflineReplicas...)
			nt.Partitions = append(nt.Partitions, np)
		}
		out.Topics = append(out.Topics, nt)
	}
	return out
}

func c28TopicName(i int) string {
	if i < 0 {
		return "zz-unknown"
	}
	return fmt.Sprintf("t%d", i)
}

func c28ExplicitID(i int) [16]byte {
	var id [16]byte
	for k := range id {
		id[k] = byte(0xA0 + i)
	}
	id[15] = byte(i + 1)
	return id
}

func c28UnknownID() [16]byte {
	var id [16]byte
	for k := range id {
		id[k] = 0xEE
	}
	return id
}

// c28BuildState turns a snapshot description into cluster metadata. Broker node ids are
// 1..n (never 0, the id the proxy gives itself) so that a leaked leader is visible.
func c28BuildState(nb int, topics []c28Topic) metadata.ClusterMetadata {
	st := metadata.ClusterMetadata{ControllerID: -1}
	cid := "cluster-verif"
	st.ClusterID = &cid
	var ids []int32
	for b := 1; b <= nb; b++ {
		st.Brokers = append(st.Brokers, protocol.MetadataBroker{NodeID: int32(b), Host: fmt.Sprintf("broker-%d.internal", b), Port: int32(9092 + b)})
		ids = append(ids, int32(b))
	}
	if nb > 0 {
		st.ControllerID = int32(nb)
	}
	for i, t := range topics {
		name := c28TopicName(i)
		mt := protocol.MetadataTopic{ErrorCode: t.Err, Topic: &name}
		if t.ExplicitID {
			mt.TopicID = c28ExplicitID(i)
		}
		for pi, p := range t.Parts {
			mp := protocol.MetadataPartition{ErrorCode: p.Err, Partition: int32(pi), LeaderEpoch: p.Epoch, Leader: -1}
			if nb > 0 {
				mp.Leader = ids[(pi+i)%nb]
				mp.Replicas = append([]int32(nil), ids...)
				mp.ISR = []int32{mp.Leader}
				if nb > 1 {
					mp.OfflineReplicas = []int32{ids[(pi+i+1)%nb]}
				}
			}
			mt.Partitions = append(mt.Partitions, mp)
		}
		st.Topics = append(st.Topics, mt)
	}
	return st
}

func c28NewProxy(store metadata.Store) *proxy {
	return &proxy{
		advertisedHost: c28Host,
		advertisedPort: c28Port,
		store:          store,
		logger:         slog.New(slog.NewTextHandler(io.Discard, &slog.HandlerOptions{Level: slog.LevelError + 8})),
		dialTimeout:    time.Second,
		cacheTTL:       time.Minute,
		brokerAddrs:    map[string]string{},
		topicNames:     map[[16]byte]string{},
	}
}

func c28EncodeReq(req kmsg.Request, corr int32) []byte {
	f := kmsg.NewRequestFormatter(kmsg.FormatterClientID("c28"))
	return f.AppendRequest(nil, req, corr)[4:]
}

func c28SkipRespHeader(b []byte, flexible bool) ([]byte, int32, bool) {
	n := 4
	if flexible {
		n = 5
	}
	if len(b) < n {
		return nil, 0, false
	}
	return b[n:], int32(binary.BigEndian.Uint32(b[:4])), true
}

type c28Viol struct{ key, detail string }

func c28Name(s *string) string {
	if s == nil {
		return ""
	}
	return *s
}

// c28Tuples renders the (topic, id, error, partition, partition error, leader epoch) set of a
// topic list, restricted to the fields that exist on the wire at version v.
func c28Tuples(topics []kmsg.MetadataResponseTopic, v int16) []string {
	var out []string
	for _, t := range topics {
		id := "-"
		if v >= 10 {
			id = fmt.Sprintf("%x", t.TopicID)
		}
		out = append(out, fmt.Sprintf("T|%s|%s|e%d|n%d", c28Name(t.Topic), id, t.ErrorCode, len(t.Partitions)))
		for _, p := range t.Partitions {
			ep := "-"
			if v >= 7 {
				ep = fmt.Sprint(p.LeaderEpoch)
			}
			out = append(out, fmt.Sprintf("P|%s|%s|p%d|e%d|le%s", c28Name(t.Topic), id, p.Partition, p.ErrorCode, ep))
		}
	}
	sort.Strings(out)
	return out
}

// c28DiffKey names the mechanism by which got differs from want.
func c28DiffKey(want, got []kmsg.MetadataResponseTopic, v int16) (string, string) {
	type tk struct {
		name string
		id   [16]byte
	}
	key := func(t kmsg.MetadataResponseTopic) tk {
		k := tk{name: c28Name(t.Topic)}
		if v >= 10 {
			k.id = t.TopicID
		}
		return k
	}
	wantBy := map[tk][]kmsg.MetadataResponseTopic{}
	for _, t := range want {
		wantBy[key(t)] = append(wantBy[key(t)], t)
	}
	gotBy := map[tk][]kmsg.MetadataResponseTopic{}
	for _, t := range got {
		gotBy[key(t)] = append(gotBy[key(t)], t)
	}
	wantNames := map[string]int{}
	for _, t := range want {
		wantNames[c28Name(t.Topic)]++
	}
	for _, t := range got {
		k := key(t)
		if len(wantBy[k]) == 0 {
			if wantNames[k.name] > 0 {
				return "topic-id-changed", fmt.Sprintf("topic %q carries id %x that the store did not return", k.name, k.id)
			}
			return "topic-not-in-cluster-metadata", fmt.Sprintf("reply has topic %q id %x that the store did not return", k.name, k.id)
		}
	}
	for _, t := range want {
		k := key(t)
		if len(gotBy[k]) < len(wantBy[k]) {
			return "topic-dropped", fmt.Sprintf("store returned topic %q id %x (error %d) %d time(s), reply has it %d time(s)", k.name, k.id, t.ErrorCode, len(wantBy[k]), len(gotBy[k]))
		}
		if len(gotBy[k]) > len(wantBy[k]) {
			return "topic-duplicated", fmt.Sprintf("topic %q appears %d times, store returned it %d time(s)", k.name, len(gotBy[k]), len(wantBy[k]))
		}
		g := gotBy[k][0]
		if g.ErrorCode != t.ErrorCode {
			return "topic-error-code-changed", fmt.Sprintf("topic %q: store error %d, reply error %d", k.name, t.ErrorCode, g.ErrorCode)
		}
		wp := map[int32]kmsg.MetadataResponseTopicPartition{}
		for _, p := range t.Partitions {
			wp[p.Partition] = p
		}
		seen := map[int32]int{}
		for _, p := range g.Partitions {
			seen[p.Partition]++
			w, ok := wp[p.Partition]
			if !ok {
				return "partition-not-in-cluster-metadata", fmt.Sprintf("topic %q: reply has partition %d that the store did not return", k.name, p.Partition)
			}
			if seen[p.Partition] > 1 {
				return "partition-duplicated", fmt.Sprintf("topic %q partition %d appears twice", k.name, p.Partition)
			}
			if p.ErrorCode != w.ErrorCode {
				return "partition-error-code-changed", fmt.Sprintf("topic %q partition %d: store error %d, reply error %d", k.name, p.Partition, w.ErrorCode, p.ErrorCode)
			}
			if v >= 7 && p.LeaderEpoch != w.LeaderEpoch {
				return "leader-epoch-changed", fmt.Sprintf("topic %q partition %d: store leader epoch %d, reply leader epoch %d", k.name, p.Partition, w.LeaderEpoch, p.LeaderEpoch)
			}
		}
		for _, p := range t.Partitions {
			if seen[p.Partition] == 0 {
				return "partition-dropped", fmt.Sprintf("topic %q: store returned partition %d, reply does not have it", k.name, p.Partition)
			}
		}
	}
	return "topology-changed", "tuple sets differ"
}

// c28CheckOnlyProxy: brokers = {(n, host, port)}, controller = n, every leader/replica/ISR = n.
// In a not-ready reply nobody may be named (empty broker list, controller -1) as long as
// nobody else is.
func c28CheckOnlyProxy(resp *kmsg.MetadataResponse, v int16, notReady bool) *c28Viol {
	node := int32(0)
	if len(resp.Brokers) == 0 {
		if !notReady {
			return &c28Viol{"broker-list-empty", "metadata reply has no broker entry for the proxy"}
		}
		node = -1
	} else {
		if len(resp.Brokers) != 1 {
			return &c28Viol{"broker-list-not-only-proxy", fmt.Sprintf("%d brokers in reply: %+v", len(resp.Brokers), c28BrokerList(resp.Brokers))}
		}
		b := resp.Brokers[0]
		if b.Host != c28Host || b.Port != c28Port {
			return &c28Viol{"broker-list-not-only-proxy", fmt.Sprintf("broker entry %d %s:%d is not the advertised proxy address %s:%d", b.NodeID, b.Host, b.Port, c28Host, c28Port)}
		}
		node = b.NodeID
	}
	if v >= 1 && resp.ControllerID != node {
		return &c28Viol{"controller-not-proxy", fmt.Sprintf("controller id %d, proxy node id %d", resp.ControllerID, node)}
	}
	for _, t := range resp.Topics {
		for _, p := range t.Partitions {
			if p.Leader != node {
				return &c28Viol{"partition-leader-not-proxy", fmt.Sprintf("topic %q partition %d leader %d, proxy node id %d", c28Name(t.Topic), p.Partition, p.Leader, node)}
			}
			for _, r := range p.Replicas {
				if r != node {
					return &c28Viol{"replica-not-proxy", fmt.Sprintf("topic %q partition %d replicas %v, proxy node id %d", c28Name(t.Topic), p.Partition, p.Replicas, node)}
				}
			}
			for _, r := range p.ISR {
				if r != node {
					return &c28Viol{"isr-not-proxy", fmt.Sprintf("topic %q partition %d isr %v, proxy node id %d", c28Name(t.Topic), p.Partition, p.ISR, node)}
				}
			}
			if v >= 5 {
				for _, r := range p.OfflineReplicas {
					if r != node {
						return &c28Viol{"offline-replica-not-proxy", fmt.Sprintf("topic %q partition %d offline replicas %v", c28Name(t.Topic), p.Partition, p.OfflineReplicas)}
					}
				}
			}
		}
	}
	return nil
}

func c28BrokerList(bs []kmsg.MetadataResponseBroker) []string {
	var out []string
	for _, b := range bs {
		out = append(out, fmt.Sprintf("%d=%s:%d", b.NodeID, b.Host, b.Port))
	}
	return out
}

func c28BuildRequest(c c28Case, ids [][16]byte) *kmsg.MetadataRequest {
	req := kmsg.NewPtrMetadataRequest()
	req.SetVersion(c.Version)
	switch c.Req.Kind {
	case "all":
		req.Topics = nil
	case "empty":
		req.Topics = []kmsg.MetadataRequestTopic{}
	case "names":
		req.Topics = []kmsg.MetadataRequestTopic{}
		for _, s := range c.Req.Sel {
			rt := kmsg.NewMetadataRequestTopic()
			n := c28TopicName(s)
			rt.Topic = &n
			req.Topics = append(req.Topics, rt)
		}
	case "ids":
		req.Topics = []kmsg.MetadataRequestTopic{}
		for _, s := range c.Req.Sel {
			rt := kmsg.NewMetadataRequestTopic()
			if s < 0 {
				rt.TopicID = c28UnknownID()
			} else {
				rt.TopicID = ids[s]
			}
			req.Topics = append(req.Topics, rt)
		}
	}
	return req
}

// c28Expected is the reference: what the store returned for this request. For a request by
// topic id (which the stores cannot filter) it is the store's full answer restricted to the
// requested ids, an unknown id giving an entry with an error and no partitions.
func c28Expected(c c28Case, ids [][16]byte, storeRet *metadata.ClusterMetadata) []kmsg.MetadataResponseTopic {
	if c.Req.Kind != "ids" {
		return storeRet.Topics
	}
	var out []kmsg.MetadataResponseTopic
	for _, s := range c.Req.Sel {
		want := c28UnknownID()
		if s >= 0 {
			want = ids[s]
		}
		found := false
		for _, t := range storeRet.Topics {
			if t.TopicID == want {
				out = append(out, t)
				found = true
				break
			}
		}
		if !found {
			out = append(out, kmsg.MetadataResponseTopic{ErrorCode: protocol.UNKNOWN_TOPIC_ID, TopicID: want})
		}
	}
	return out
}

type c28Result struct {
	viol   *c28Viol
	sig    uint64
	nontr  bool
	detail map[string]any
}

// c28Env is one cluster snapshot served by the real InMemoryStore to a real proxy struct.
type c28Env struct {
	nb     int
	topics []c28Topic
	st     *c28Store
	p      *proxy
	ids    [][16]byte // topic ids as the store reports them (derived from the name when not explicit)
	ctx    context.Context
}

func c28NewEnv(nb int, topics []c28Topic) *c28Env {
	e := &c28Env{nb: nb, topics: topics, ctx: context.Background()}
	e.st = &c28Store{InMemoryStore: metadata.NewInMemoryStore(c28BuildState(nb, topics))}
	e.p = c28NewProxy(e.st)
	full, _ := e.st.InMemoryStore.Metadata(e.ctx, nil)
	e.ids = make([][16]byte, len(topics))
	for i := range topics {
		for _, t := range full.Topics {
			if c28Name(t.Topic) == c28TopicName(i) {
				e.ids[i] = t.TopicID
			}
		}
	}
	return e
}

func c28Mix(h uint64, v uint64) uint64 {
	for i := 0; i < 8; i++ {
		h ^= v & 0xff
		h *= 1099511628211
		v >>= 8
	}
	return h
}

// c28SameOrdered: fast path, true when got carries want's tuples in the same order.
func c28SameOrdered(want, got []kmsg.MetadataResponseTopic, v int16) bool {
	if len(want) != len(got) {
		return false
	}
	for i := range want {
		w, g := &want[i], &got[i]
		if c28Name(w.Topic) != c28Name(g.Topic) || w.ErrorCode != g.ErrorCode || len(w.Partitions) != len(g.Partitions) {
			return false
		}
		if v >= 10 && w.TopicID != g.TopicID {
			return false
		}
		for j := range w.Partitions {
			wp, gp := &w.Partitions[j], &g.Partitions[j]
			if wp.Partition != gp.Partition || wp.ErrorCode != gp.ErrorCode {
				return false
			}
			if v >= 7 && wp.LeaderEpoch != gp.LeaderEpoch {
				return false
			}
		}
	}
	return true
}

func c28HashReply(resp *kmsg.MetadataResponse, v int16) uint64 {
	h := c28Mix(14695981039346656037, uint64(v))
	for i := range resp.Topics {
		t := &resp.Topics[i]
		for _, b := range []byte(c28Name(t.Topic)) {
			h = c28Mix(h, uint64(b))
		}
		if v >= 10 {
			h = c28Mix(h, binary.BigEndian.Uint64(t.TopicID[:8]))
			h = c28Mix(h, binary.BigEndian.Uint64(t.TopicID[8:]))
		}
		h = c28Mix(h, uint64(uint16(t.ErrorCode))<<32|uint64(len(t.Partitions)))
		for j := range t.Partitions {
			p := &t.Partitions[j]
			ep := int32(0)
			if v >= 7 {
				ep = p.LeaderEpoch
			}
			h = c28Mix(h, uint64(uint32(p.Partition))<<32|uint64(uint16(p.ErrorCode))<<16^uint64(uint32(ep))<<1)
		}
	}
	return h
}

// run executes one metadata case on the real proxy code. slow=true also renders the details.
func (e *c28Env) run(rq c28Req, version int16, slow bool) (res c28Result) {
	c := c28Case{Brokers: e.nb, Topics: e.topics, Req: rq, Version: version}
	defer func() {
		if r := recover(); r != nil {
			res.viol = &c28Viol{"panic-in-metadata-path", fmt.Sprint(r)}
		}
	}()
	req := c28BuildRequest(c, e.ids)
	payload := c28EncodeReq(req, 4242)
	header, _, err := protocol.ParseRequestHeader(payload)
	if err != nil {
		res.viol = &c28Viol{"harness-request-unparseable", err.Error()}
		return
	}
	e.st.last = nil
	out, err := e.p.handleMetadata(e.ctx, header, payload)
	if err != nil {
		res.viol = &c28Viol{"metadata-request-rejected", fmt.Sprintf("handleMetadata error: %v", err)}
		return
	}
	resp := kmsg.NewPtrMetadataResponse()
	resp.SetVersion(c.Version)
	body, _, ok := c28SkipRespHeader(out, resp.IsFlexible())
	if !ok {
		res.viol = &c28Viol{"reply-undecodable", "short reply"}
		return
	}
	if err := resp.ReadFrom(body); err != nil {
		res.viol = &c28Viol{"reply-undecodable", err.Error()}
		return
	}
	if e.st.last == nil {
		res.viol = &c28Viol{"store-not-consulted", "handleMetadata answered without reading the store"}
		return
	}
	want := c28Expected(c, e.ids, e.st.last)
	res.sig = c28HashReply(resp, c.Version)
	for i := range want {
		if len(want[i].Partitions) > 0 || want[i].ErrorCode != 0 {
			res.nontr = true
			break
		}
	}
	if v := c28CheckOnlyProxy(resp, c.Version, false); v != nil {
		res.viol = v
	} else if !c28SameOrdered(want, resp.Topics, c.Version) {
		// order is not part of the property: compare as multisets
		wt, gt := c28Tuples(want, c.Version), c28Tuples(resp.Topics, c.Version)
		if strings.Join(wt, ";") != strings.Join(gt, ";") {
			k, d := c28DiffKey(want, resp.Topics, c.Version)
			res.viol = &c28Viol{k, d + fmt.Sprintf(" | store: %v | reply: %v", wt, gt)}
		}
	}
	if slow || res.viol != nil {
		res.detail = map[string]any{"case": c, "store_returned": c28Tuples(want, c.Version), "reply": c28Tuples(resp.Topics, c.Version), "reply_brokers": c28BrokerList(resp.Brokers), "controller": resp.ControllerID}
	}
	return
}

func c28RunMetadata(c c28Case, slow bool) c28Result {
	return c28NewEnv(c.Brokers, c.Topics).run(c.Req, c.Version, slow)
}

func c28Subsets(univ []int) [][]int {
	var out [][]int
	n := len(univ)
	// by size then lexicographic: simplest first
	for size := 1; size <= n; size++ {
		for mask := 1; mask < 1<<n; mask++ {
			var s []int
			for i := 0; i < n; i++ {
				if mask&(1<<i) != 0 {
					s = append(s, univ[i])
				}
			}
			if len(s) == size {
				out = append(out, s)
			}
		}
	}
	return out
}

func c28Requests(n int, v int16) []c28Req {
	reqs := []c28Req{{Kind: "all"}, {Kind: "empty"}}
	univ := []int{}
	for i := 0; i < n; i++ {
		univ = append(univ, i)
	}
	univ = append(univ, -1)
	subs := c28Subsets(univ)
	for _, s := range subs {
		reqs = append(reqs, c28Req{Kind: "names", Sel: s})
	}
	if n >= 1 {
		reqs = append(reqs, c28Req{Kind: "names", Sel: []int{0, 0}})
	}
	if v >= 10 {
		for _, s := range subs {
			reqs = append(reqs, c28Req{Kind: "ids", Sel: s})
		}
		if n >= 1 {
			reqs = append(reqs, c28Req{Kind: "ids", Sel: []int{n - 1, -1, 0}})
		}
	}
	return reqs
}

// c28Templates: topic alphabet, simplest first. Partition lists of length <= mixedUpTo take
// every combination of partition kinds; longer lists (up to maxParts) are uniform (all
// partitions of one kind).
func c28Templates(maxParts, mixedUpTo int) []c28Topic {
	kinds := []c28Part{{Err: 0, Epoch: 0}, {Err: 0, Epoch: 7}, {Err: 5, Epoch: -1}}
	var lists [][]c28Part
	lists = append(lists, nil)
	var rec func(cur []c28Part, n int)
	rec = func(cur []c28Part, n int) {
		if len(cur) == n {
			lists = append(lists, append([]c28Part(nil), cur...))
			return
		}
		for _, k := range kinds {
			if n > mixedUpTo && len(cur) > 0 && cur[0] != k {
				continue
			}
			rec(append(cur, k), n)
		}
	}
	for n := 1; n <= maxParts; n++ {
		rec(nil, n)
	}
	var out []c28Topic
	for _, explicit := range []bool{false, true} {
		for _, l := range lists {
			out = append(out, c28Topic{ExplicitID: explicit, Parts: l})
		}
		for _, e := range []int16{3, 29} {
			out = append(out, c28Topic{ExplicitID: explicit, Err: e})
		}
	}
	return out
}

func TestVerifC28(t *testing.T) {
	rep := vh.New(t, "C28")
	defer rep.Finish()
	rep.Rule = "case = cluster snapshot (0-3 brokers with node ids 1..n; 0-3 topics, each a template: derived or explicit topic id x (topic error 3|29 without partitions | 0-3 partitions each (err 0,epoch 0)|(err 0,epoch 7)|(err 5,epoch -1), leader/replicas/ISR/offline drawn from the broker ids)) x request (all | empty list | every non-empty subset of {t0..tn-1, unknown} by name | the same by topic id (v>=10) | duplicate name | shuffled ids) x version; sent as kmsg bytes through the real handleMetadata; plus FindCoordinator v0-v3 and the not-ready metadata/coordinator replies (buildNotReadyResponse directly and through handleConnection with ready=0); plus connection histories: backend mode (static|cached, reachable|refusing) x every sequence of <=3 requests over {Metadata v0/v9/v12, Metadata v12 with truncated body, ListOffsets, FindCoordinator v3} on one client connection of the real handleConnection (ready=1) in front of a fake broker that answers with its own topology x every subset of requests served with a failing metadata store x context cancelled before request k, oracle on every Metadata/FindCoordinator reply frame the client receives (non-trivial = a Metadata/FindCoordinator request is served under a fault). distinct = version + decoded reply tuple set; non-trivial = the store's answer holds >=1 partition (leader to rewrite) or >=1 error/unknown topic entry."
	rep.Assumptions = []string{
		"the store is the real metadata.InMemoryStore (wrapped only to record what Metadata returned); EtcdStore.Metadata shares filterTopics/cloneTopics semantics",
		"a topic entry that carries a topic-level error carries no partitions (both stores produce error entries that way)",
		"requests mixing by-name and by-id entries are outside the property's quantifier and are not generated",
		"the proxy's own node id is whatever the single broker entry of the metadata reply carries (0); coordinator replies must use the same id",
		"connection histories: the client waits for the reply (or the close) of a request before sending the next one, so a fault is switched between requests, never during one; no reply (closed connection) and an error reply naming no node are accepted for a request served under a fault; pass-through replies (ListOffsets) are not judged",
	}
	thorough := vh.Thorough()
	versions := []int16{0, 1, 9, 10, 12}
	if thorough {
		versions = []int16{0, 1, 2, 3, 4, 5, 6, 7, 8, 9, 10, 11, 12}
	}
	rep.SetInfo("versions", versions)
	rep.SetInfo("brokers", "0..3")
	rep.SetInfo("topics", "0..3")
	rep.SetInfo("partitions_per_topic", "0..3")
	full := c28Templates(3, 3)
	third := c28Templates(3, 0)
	if thorough {
		third = c28Templates(3, 2)
	}
	rep.SetInfo("topic_templates", len(full))
	rep.SetInfo("topic_templates_when_3_topics", fmt.Sprintf("%d (partition lists longer than %d are uniform: all partitions of one kind); 0-2 topics use all %d", len(third), map[bool]int{false: 0, true: 2}[thorough], len(full)))

	var replay c28Case
	if ok, err := vh.LoadReplay(&replay); ok {
		if err != nil {
			t.Fatalf("HARNESS-ERROR replay: %v", err)
		}
		if replay.Conn != nil {
			w, err := c28NewConnWorker(nil)
			if err != nil {
				t.Fatalf("HARNESS-ERROR replay: %v", err)
			}
			defer w.be.close()
			r := w.run(*replay.Conn)
			if r.harness != nil {
				t.Fatalf("HARNESS-ERROR replay: %v", r.harness)
			}
			rep.Eval(1)
			rep.Outcome("conn|"+r.sig, r.nontr)
			rep.Sample(map[string]any{"conn_case": replay.Conn, "client_saw": r.steps})
			for _, v := range r.viols {
				rep.Violation(v.key, v.detail, replay)
			}
			return
		}
		r := c28RunMetadata(replay, true)
		rep.Eval(1)
		rep.Outcome(fmt.Sprintf("%016x", r.sig), r.nontr)
		rep.Sample(r.detail)
		if r.viol != nil {
			rep.Violation(r.viol.key, r.viol.detail, replay)
		}
		return
	}

	c28CoordinatorAndNotReady(rep, versions)
	c28ConnectionPart(t, rep, thorough)

	deadline := vh.Deadline()
	type job struct {
		n     int
		first int // index into the template list of topic 0 (or -1)
		nb    int
	}
	jobs := make(chan job, 1024)
	go func() {
		defer close(jobs)
		for n := 0; n <= 3; n++ {
			tl := full
			if n == 3 {
				tl = third
			}
			if n == 0 {
				for nb := 0; nb <= 3; nb++ {
					jobs <- job{0, -1, nb}
				}
				continue
			}
			for f := range tl {
				for nb := 0; nb <= 3; nb++ {
					jobs <- job{n, f, nb}
				}
			}
		}
	}()
	workers := runtime.GOMAXPROCS(0)
	if workers > 16 {
		workers = 16
	}
	var wg sync.WaitGroup
	var capped sync.Once
	reqCache := map[[2]int][]c28Req{}
	for n := 0; n <= 3; n++ {
		for _, v := range versions {
			reqCache[[2]int{n, int(v)}] = c28Requests(n, v)
		}
	}
	for w := 0; w < workers; w++ {
		wg.Add(1)
		go func() {
			defer wg.Done()
			sigs := map[uint64]bool{}
			var evals int64
			flush := func() {
				for s, nt := range sigs {
					rep.Outcome(fmt.Sprintf("%016x", s), nt)
				}
				sigs = map[uint64]bool{}
				rep.Eval(evals)
				evals = 0
			}
			defer flush()
			nsnap := 0
			runSnap := func(nb int, topics []c28Topic) bool {
				env := c28NewEnv(nb, topics)
				for _, v := range versions {
					for _, rq := range reqCache[[2]int{len(topics), int(v)}] {
						r := env.run(rq, v, false)
						evals++
						if r.nontr {
							sigs[r.sig] = true
						} else if !sigs[r.sig] {
							sigs[r.sig] = false
						}
						if r.viol != nil {
							rep.Violation(r.viol.key, r.viol.detail, c28Case{Brokers: nb, Topics: topics, Req: rq, Version: v})
						}
						if r.nontr && len(rq.Sel) >= 2 && nb >= 2 && v >= 10 && evals%64 == 1 && rep.WantSample() {
							rep.Sample(env.run(rq, v, true).detail)
						}
					}
				}
				if len(sigs) > 50000 {
					flush()
				}
				nsnap++
				return nsnap%64 != 0 || time.Now().Before(deadline)
			}
			for j := range jobs {
				tl := full
				if j.n == 3 {
					tl = third
				}
				ok := true
				switch j.n {
				case 0:
					ok = runSnap(j.nb, nil)
				case 1:
					ok = runSnap(j.nb, []c28Topic{tl[j.first]})
				case 2:
					for _, b := range tl {
						if ok = runSnap(j.nb, []c28Topic{tl[j.first], b}); !ok {
							break
						}
					}
				case 3:
					for _, b := range tl {
						for _, c := range tl {
							if ok = runSnap(j.nb, []c28Topic{tl[j.first], b, c}); !ok {
								break
							}
						}
						if !ok {
							break
						}
					}
				}
				if !ok {
					capped.Do(func() { rep.Cap("deadline reached before all snapshots were evaluated") })
					for range jobs {
					}
					return
				}
			}
		}()
	}
	wg.Wait()
}

// c28CoordinatorAndNotReady covers handleFindCoordinator and the not-ready replies.
func c28CoordinatorAndNotReady(rep *vh.Report, versions []int16) {
	st := &c28Store{InMemoryStore: metadata.NewInMemoryStore(c28BuildState(3, []c28Topic{{Parts: []c28Part{{}, {Epoch: 7}}}, {ExplicitID: true, Parts: []c28Part{{}}}}))}
	ctx := context.Background()

	// proxy node id as named by its own metadata reply
	p := c28NewProxy(st)
	node := int32(0)
	{
		req := kmsg.NewPtrMetadataRequest()
		req.SetVersion(1)
		payload := c28EncodeReq(req, 1)
		h, _, _ := protocol.ParseRequestHeader(payload)
		out, err := p.handleMetadata(ctx, h, payload)
		if err == nil {
			resp := kmsg.NewPtrMetadataResponse()
			resp.SetVersion(1)
			if body, _, ok := c28SkipRespHeader(out, false); ok && resp.ReadFrom(body) == nil && len(resp.Brokers) == 1 {
				node = resp.Brokers[0].NodeID
			}
		}
	}

	checkCoord := func(out []byte, v int16, notReady bool, replay any) {
		resp := kmsg.NewPtrFindCoordinatorResponse()
		resp.SetVersion(v)
		body, _, ok := c28SkipRespHeader(out, resp.IsFlexible())
		if !ok || resp.ReadFrom(body) != nil {
			rep.Violation("coordinator-reply-undecodable", fmt.Sprintf("v%d reply %x", v, out), replay)
			return
		}
		rep.Outcome(fmt.Sprintf("coord|v%d|nr=%v|e%d|%d|%s:%d", v, notReady, resp.ErrorCode, resp.NodeID, resp.Host, resp.Port), true)
		named := resp.ErrorCode == 0 || resp.NodeID >= 0 || resp.Host != "" || resp.Port > 0
		if !notReady && resp.ErrorCode != 0 {
			rep.Violation("coordinator-error-when-ready", fmt.Sprintf("v%d error %d", v, resp.ErrorCode), replay)
			return
		}
		if !named {
			return // names nobody
		}
		if resp.Host != c28Host || resp.Port != c28Port || resp.NodeID != node {
			rep.Violation("coordinator-not-proxy", fmt.Sprintf("v%d coordinator %d %s:%d, proxy is %d %s:%d", v, resp.NodeID, resp.Host, resp.Port, node, c28Host, c28Port), replay)
		}
	}

	for v := int16(0); v <= 3; v++ {
		for _, kt := range []int8{0, 1} {
			if kt == 1 && v == 0 {
				continue
			}
			req := kmsg.NewPtrFindCoordinatorRequest()
			req.SetVersion(v)
			req.CoordinatorKey = "group-or-txn"
			req.CoordinatorType = kt
			payload := c28EncodeReq(req, 77)
			h, body, err := protocol.ParseRequestHeader(payload)
			if err != nil {
				rep.Violation("harness-request-unparseable", err.Error(), nil)
				continue
			}
			replay := map[string]any{"api": "FindCoordinator", "version": v, "key_type": kt}
			func() {
				defer func() {
					if r := recover(); r != nil {
						rep.Violation("panic-in-coordinator-path", fmt.Sprint(r), replay)
					}
				}()
				out, err := p.handleFindCoordinator(h)
				rep.Eval(1)
				if err != nil {
					rep.Violation("coordinator-request-rejected", err.Error(), replay)
				} else {
					checkCoord(out, v, false, replay)
				}
				out, ok, err := p.buildNotReadyResponse(h, body)
				rep.Eval(1)
				if err != nil || !ok {
					rep.Violation("not-ready-coordinator-reply-missing", fmt.Sprintf("ok=%v err=%v", ok, err), replay)
				} else {
					checkCoord(out, v, true, replay)
				}
				if out2, ok := c28ThroughConnection(p, payload); ok {
					rep.Eval(1)
					checkCoord(out2, v, true, replay)
				} else {
					rep.Violation("not-ready-coordinator-reply-missing", "handleConnection(ready=0) closed without a reply", replay)
				}
			}()
		}
	}

	// not-ready metadata replies: requests over a 2-topic universe
	ids := [][16]byte{metadata.TopicIDForName(c28TopicName(0)), c28ExplicitID(1)}
	for _, v := range versions {
		for _, rq := range c28Requests(2, v) {
			c := c28Case{Brokers: 3, Topics: []c28Topic{{}, {ExplicitID: true}}, Req: rq, Version: v}
			replay := map[string]any{"api": "Metadata-not-ready", "req": rq, "version": v}
			req := c28BuildRequest(c, ids)
			payload := c28EncodeReq(req, 88)
			h, body, err := protocol.ParseRequestHeader(payload)
			if err != nil {
				rep.Violation("harness-request-unparseable", err.Error(), replay)
				continue
			}
			check := func(out []byte) {
				resp := kmsg.NewPtrMetadataResponse()
				resp.SetVersion(v)
				b, _, ok := c28SkipRespHeader(out, resp.IsFlexible())
				if !ok || resp.ReadFrom(b) != nil {
					rep.Violation("not-ready-reply-undecodable", fmt.Sprintf("v%d %x", v, out), replay)
					return
				}
				rep.Outcome(fmt.Sprintf("nr|v%d|%v|b%d|c%d", v, c28Tuples(resp.Topics, v), len(resp.Brokers), resp.ControllerID), len(resp.Topics) > 0)
				if vi := c28CheckOnlyProxy(resp, v, true); vi != nil {
					rep.Violation("not-ready-"+vi.key, vi.detail, replay)
				}
			}
			func() {
				defer func() {
					if r := recover(); r != nil {
						rep.Violation("panic-in-not-ready-path", fmt.Sprint(r), replay)
					}
				}()
				out, ok, err := p.buildNotReadyResponse(h, body)
				rep.Eval(1)
				if err != nil || !ok {
					rep.Violation("not-ready-metadata-reply-missing", fmt.Sprintf("ok=%v err=%v", ok, err), replay)
					return
				}
				check(out)
				if out2, ok := c28ThroughConnection(p, payload); ok {
					rep.Eval(1)
					check(out2)
				} else {
					rep.Violation("not-ready-metadata-reply-missing", "handleConnection(ready=0) closed without a reply", replay)
				}
			}()
		}
	}
}

// c28ThroughConnection sends one request frame to the real handleConnection of a proxy that
// is not ready and returns the reply frame (deterministic: net.Pipe, no timers).
func c28ThroughConnection(p *proxy, payload []byte) ([]byte, bool) {
	p.setReady(false)
	client, server := net.Pipe()
	done := make(chan struct{})
	go func() {
		defer close(done)
		p.handleConnection(context.Background(), server)
	}()
	go func() {
		_ = protocol.WriteFrame(client, payload)
	}()
	fr, err := protocol.ReadFrame(client)
	client.Close()
	<-done
	if err != nil {
		return nil, false
	}
	return fr.Payload, true
}
