//go:build verif

package main

// C31 — LFS produce rewriting changes only the flagged values.
//
// Bounded-exhaustive enumeration of produce requests through the real
// (*lfsModule).rewriteProduceRecords with an in-memory fake of the proxy's s3API.
// The rewritten request is decoded by an independent decoder (enum.DecodeBatches for
// the batch framing/records, the franz-go decompressor for compressed record areas)
// and compared with the original request, which the harness built itself.

import (
	"bytes"
	"context"
	"crypto/md5"
	"crypto/sha256"
	"encoding/binary"
	"encoding/hex"
	"errors"
	"fmt"
	"hash/crc32"
	"io"
	"log/slog"
	"runtime"
	"sort"
	"strings"
	"sync"
	"sync/atomic"
	"testing"
	"time"

	"github.com/KafScale/platform/internal/verif/enum"
	"github.com/KafScale/platform/internal/verif/vh"
	"github.com/KafScale/platform/pkg/lfs"
	"github.com/KafScale/platform/pkg/protocol"
	"github.com/aws/aws-sdk-go-v2/service/s3"
	"github.com/twmb/franz-go/pkg/kgo"
	"github.com/twmb/franz-go/pkg/kmsg"
)

// ---------------------------------------------------------------------------
// fake s3API (values above the 5 MiB chunk size go through the multipart calls)

type c31S3 struct {
	mu      sync.Mutex
	objects map[string][]byte
	uploads map[string]map[int32][]byte // upload id -> part number -> data
	upKeys  map[string]string
	nextID  int
}

func c31NewS3() *c31S3 {
	f := &c31S3{}
	f.reset()
	return f
}

func (f *c31S3) reset() {
	f.mu.Lock()
	f.objects = map[string][]byte{}
	f.uploads = map[string]map[int32][]byte{}
	f.upKeys = map[string]string{}
	f.mu.Unlock()
}
func (f *c31S3) get(key string) ([]byte, bool) {
	f.mu.Lock()
	defer f.mu.Unlock()
	v, ok := f.objects[key]
	return v, ok
}
func c31ETag(b []byte) string {
	return fmt.Sprintf("\"%08x-%d\"", crc32.Checksum(b, c31Castagnoli), len(b))
}
func (f *c31S3) CreateMultipartUpload(ctx context.Context, p *s3.CreateMultipartUploadInput, o ...func(*s3.Options)) (*s3.CreateMultipartUploadOutput, error) {
	f.mu.Lock()
	defer f.mu.Unlock()
	f.nextID++
	id := fmt.Sprintf("c31-upload-%d", f.nextID)
	f.uploads[id] = map[int32][]byte{}
	f.upKeys[id] = *p.Key
	return &s3.CreateMultipartUploadOutput{UploadId: &id}, nil
}
func (f *c31S3) UploadPart(ctx context.Context, p *s3.UploadPartInput, o ...func(*s3.Options)) (*s3.UploadPartOutput, error) {
	data, err := io.ReadAll(p.Body)
	if err != nil {
		return nil, err
	}
	f.mu.Lock()
	defer f.mu.Unlock()
	u, ok := f.uploads[*p.UploadId]
	if !ok || f.upKeys[*p.UploadId] != *p.Key {
		return nil, errors.New("NoSuchUpload")
	}
	u[*p.PartNumber] = data
	et := c31ETag(data)
	return &s3.UploadPartOutput{ETag: &et}, nil
}

// CompleteMultipartUpload follows S3: ascending part numbers, matching etags, every
// listed part but the last >= 5 MiB; the object is the concatenation of the listed parts.
func (f *c31S3) CompleteMultipartUpload(ctx context.Context, p *s3.CompleteMultipartUploadInput, o ...func(*s3.Options)) (*s3.CompleteMultipartUploadOutput, error) {
	f.mu.Lock()
	defer f.mu.Unlock()
	u, ok := f.uploads[*p.UploadId]
	if !ok || f.upKeys[*p.UploadId] != *p.Key {
		return nil, errors.New("NoSuchUpload")
	}
	if p.MultipartUpload == nil || len(p.MultipartUpload.Parts) == 0 {
		return nil, errors.New("MalformedXML")
	}
	var obj []byte
	prev := int32(0)
	for i, cp := range p.MultipartUpload.Parts {
		if cp.PartNumber == nil || cp.ETag == nil || *cp.PartNumber <= prev {
			return nil, errors.New("InvalidPartOrder")
		}
		prev = *cp.PartNumber
		data, ok := u[*cp.PartNumber]
		if !ok || c31ETag(data) != *cp.ETag {
			return nil, errors.New("InvalidPart")
		}
		if i < len(p.MultipartUpload.Parts)-1 && len(data) < 5<<20 {
			return nil, errors.New("EntityTooSmall")
		}
		obj = append(obj, data...)
	}
	f.objects[*p.Key] = obj
	delete(f.uploads, *p.UploadId)
	return &s3.CompleteMultipartUploadOutput{}, nil
}
func (f *c31S3) AbortMultipartUpload(ctx context.Context, p *s3.AbortMultipartUploadInput, o ...func(*s3.Options)) (*s3.AbortMultipartUploadOutput, error) {
	f.mu.Lock()
	defer f.mu.Unlock()
	delete(f.uploads, *p.UploadId)
	return &s3.AbortMultipartUploadOutput{}, nil
}
func (f *c31S3) PutObject(ctx context.Context, p *s3.PutObjectInput, o ...func(*s3.Options)) (*s3.PutObjectOutput, error) {
	var data []byte
	if p.Body != nil {
		b, err := io.ReadAll(p.Body)
		if err != nil {
			return nil, err
		}
		data = b
	}
	if p.ContentLength != nil && *p.ContentLength != int64(len(data)) {
		return nil, fmt.Errorf("c31 fake s3: content length %d != body %d", *p.ContentLength, len(data))
	}
	f.mu.Lock()
	f.objects[*p.Key] = data
	f.mu.Unlock()
	return &s3.PutObjectOutput{}, nil
}
func (f *c31S3) GetObject(ctx context.Context, p *s3.GetObjectInput, o ...func(*s3.Options)) (*s3.GetObjectOutput, error) {
	v, ok := f.get(*p.Key)
	if !ok {
		return nil, errors.New("NoSuchKey")
	}
	n := int64(len(v))
	return &s3.GetObjectOutput{Body: io.NopCloser(bytes.NewReader(v)), ContentLength: &n}, nil
}
func (f *c31S3) DeleteObject(ctx context.Context, p *s3.DeleteObjectInput, o ...func(*s3.Options)) (*s3.DeleteObjectOutput, error) {
	f.mu.Lock()
	delete(f.objects, *p.Key)
	f.mu.Unlock()
	return &s3.DeleteObjectOutput{}, nil
}
func (f *c31S3) HeadBucket(ctx context.Context, p *s3.HeadBucketInput, o ...func(*s3.Options)) (*s3.HeadBucketOutput, error) {
	return &s3.HeadBucketOutput{}, nil
}
func (f *c31S3) CreateBucket(ctx context.Context, p *s3.CreateBucketInput, o ...func(*s3.Options)) (*s3.CreateBucketOutput, error) {
	return &s3.CreateBucketOutput{}, nil
}

// ---------------------------------------------------------------------------
// record alphabet

type c31Hdr struct {
	K string
	V *string // nil = null header value; "$SHA256"/"$MD5"/"$CRC32" inside V are replaced by the checksum of the record value
}

type c31Kind struct {
	Name   string
	Class  string // coarse class used in outcome signatures
	Key    *string
	Val    *string
	Hdrs   []c31Hdr
	Ts     int64
	Reject bool // the proxy may legitimately refuse a request holding this record
}

func c31S(s string) *string { return &s }

func (k c31Kind) flagged() bool {
	for _, h := range k.Hdrs {
		if h.K == "LFS_BLOB" {
			return true
		}
	}
	return false
}

func c31Bytes(p *string) []byte {
	if p == nil {
		return nil
	}
	return []byte(*p)
}

// rec builds the reference record (enum.Rec) of a kind at offset delta od.
func (k c31Kind) rec(od int32) enum.Rec {
	val := c31Bytes(k.Val)
	r := enum.Rec{TimestampDelta: k.Ts, OffsetDelta: od, Key: c31Bytes(k.Key), Value: val}
	for _, h := range k.Hdrs {
		var hv []byte
		if h.V != nil {
			s := *h.V
			if strings.Contains(s, "$SHA256") {
				sum := sha256.Sum256(val)
				s = strings.ReplaceAll(s, "$SHA256", hex.EncodeToString(sum[:]))
			}
			if strings.Contains(s, "$MD5") {
				sum := md5.Sum(val)
				s = strings.ReplaceAll(s, "$MD5", hex.EncodeToString(sum[:]))
			}
			if strings.Contains(s, "$CRC32") {
				var b [4]byte
				binary.BigEndian.PutUint32(b[:], crc32.ChecksumIEEE(val))
				s = strings.ReplaceAll(s, "$CRC32", hex.EncodeToString(b[:]))
			}
			hv = []byte(s)
		}
		r.Headers = append(r.Headers, enum.Header{Key: h.K, Value: hv})
	}
	return r
}

func c31Kinds() []c31Kind {
	big := make([]byte, 300)
	for i := range big {
		big[i] = byte(i)
	}
	rep := strings.Repeat("abcdefghij", 10)
	return []c31Kind{
		// unflagged
		{Name: "u-plain", Class: "U", Key: c31S("k"), Val: c31S("v")},
		{Name: "u-null", Class: "Un", Key: nil, Val: nil, Hdrs: []c31Hdr{{"h", nil}}, Ts: -3},
		{Name: "u-empty", Class: "Ue", Key: c31S(""), Val: c31S(""), Hdrs: []c31Hdr{{"h", c31S("")}, {"h", c31S("x")}}, Ts: 5},
		{Name: "u-lfsish", Class: "Ul", Key: c31S("k2"), Val: c31S(`{"kfs_lfs":1,"bucket":"b","key":"k","size":1,"sha256":"00"}`),
			Hdrs: []c31Hdr{{"LFS_BLOB_ALG", c31S("md5")}, {"lfs_blob", c31S("x")}, {"LFS_BLOB_X", nil}, {"content-type", c31S("t")}}, Ts: 1 << 40},
		// flagged
		{Name: "f-plain", Class: "F", Key: c31S("k"), Val: c31S("payload-1"), Hdrs: []c31Hdr{{"LFS_BLOB", c31S("")}}},
		{Name: "f-null", Class: "Fn", Key: nil, Val: nil, Hdrs: []c31Hdr{{"LFS_BLOB", nil}}, Ts: 5},
		{Name: "f-emptyval-algnone", Class: "Fe", Key: c31S(""), Val: c31S(""), Hdrs: []c31Hdr{{"LFS_BLOB", c31S("")}, {"LFS_BLOB_ALG", c31S("none")}}},
		{Name: "f-sha-mid", Class: "Fs", Key: c31S("k"), Val: c31S("payload-2"),
			Hdrs: []c31Hdr{{"a", c31S("1")}, {"LFS_BLOB", c31S("$SHA256")}, {"b", nil}, {"a", c31S("2")}}, Ts: -3},
		{Name: "f-md5", Class: "Fm", Key: c31S("k"), Val: c31S(rep),
			Hdrs: []c31Hdr{{"LFS_BLOB_ALG", c31S(" MD5")}, {"LFS_BLOB", c31S("$MD5")}, {"content-type", c31S("text/plain")}, {"LFS_BLOB_X", c31S("y")}}},
		{Name: "f-crc32", Class: "Fc", Key: c31S("k"), Val: c31S("payload-3"),
			Hdrs: []c31Hdr{{"LFS_BLOB", c31S(" $CRC32 ")}, {"LFS_BLOB_ALG", c31S("crc32")}, {"X-Request-ID", c31S("r1")}, {"e", c31S("")}}},
		{Name: "f-dupflag", Class: "Fd", Key: c31S("k"), Val: c31S("payload-4"),
			Hdrs: []c31Hdr{{"LFS_BLOB", c31S("")}, {"h", c31S("1")}, {"LFS_BLOB", c31S("$SHA256")}, {"h", c31S("2")}}},
		{Name: "f-big", Class: "Fb", Key: c31S(strings.Repeat("K", 70)), Val: c31S(string(big)), Hdrs: []c31Hdr{{"LFS_BLOB", c31S("")}}, Ts: 1 << 40},
		// flagged, but the proxy may refuse the whole request
		{Name: "x-badsum", Class: "X", Key: c31S("k"), Val: c31S("payload-5"), Hdrs: []c31Hdr{{"LFS_BLOB", c31S("deadbeef")}}, Reject: true},
		{Name: "x-badalg", Class: "X", Key: c31S("k"), Val: c31S("payload-6"), Hdrs: []c31Hdr{{"LFS_BLOB", c31S("")}, {"LFS_BLOB_ALG", c31S("sha1")}}, Reject: true},
		{Name: "x-sum-algnone", Class: "X", Key: c31S("k"), Val: c31S("payload-7"), Hdrs: []c31Hdr{{"LFS_BLOB", c31S("$SHA256")}, {"LFS_BLOB_ALG", c31S("none")}}, Reject: true},
	}
}

// c31LargeKinds: flagged values around the 5 MiB chunk size of (*s3Uploader).Upload
// (PutObject up to the chunk size, multipart above). Only used by layer L4.
func c31LargeKinds() []c31Kind {
	mk := func(name string, n int) c31Kind {
		b := make([]byte, n)
		for i := range b {
			b[i] = byte(i*7 + i>>11)
		}
		return c31Kind{Name: name, Class: "FL" + name[2:], Key: c31S("k"), Val: c31S(string(b)), Hdrs: []c31Hdr{{"LFS_BLOB", c31S("$SHA256")}, {"h", c31S("1")}}}
	}
	return []c31Kind{mk("f-5MiB", 5<<20), mk("f-5MiB+1", 5<<20+1), mk("f-10MiB", 10<<20), mk("f-10MiB+1", 10<<20+1)}
}

// ---------------------------------------------------------------------------
// case description (JSON-serialisable; this is also the replay format)

type c31BatchSpec struct {
	Codec   string   `json:"codec"`   // none gzip snappy snappy-xerial lz4 zstd
	Variant int      `json:"variant"` // batch header variant (0 plain, 1 transactional/log-append-time/producer fields set)
	Records []string `json:"records"` // record kind names, in order
}
type c31PartSpec struct {
	Partition int32          `json:"partition"`
	Batches   []c31BatchSpec `json:"batches"` // empty: partition with nil record set
}
type c31TopicSpec struct {
	Topic      string        `json:"topic"`
	Partitions []c31PartSpec `json:"partitions"`
}
type c31Case struct {
	Layer  string         `json:"layer"`
	Topics []c31TopicSpec `json:"topics"`
}

var c31Codecs = []string{"none", "snappy", "gzip", "lz4", "zstd", "snappy-xerial"}

func c31CodecBits(name string) int16 {
	switch name {
	case "gzip":
		return 1
	case "snappy", "snappy-xerial":
		return 2
	case "lz4":
		return 3
	case "zstd":
		return 4
	}
	return 0
}

// ---------------------------------------------------------------------------
// per-worker environment

type c31Env struct {
	m     *lfsModule
	s3    *c31S3
	kinds map[string]c31Kind
	comp  map[string]kgo.Compressor
	dec   kgo.Decompressor
	seen  map[string]struct{}
}

func c31NewEnv(kinds []c31Kind) *c31Env {
	fs := c31NewS3()
	logger := slog.New(slog.NewTextHandler(io.Discard, &slog.HandlerOptions{Level: slog.Level(100)}))
	m := &lfsModule{
		logger:      logger,
		s3Uploader:  &s3Uploader{bucket: "c31-bucket", region: "us-east-1", chunkSize: 5 << 20, api: fs},
		s3Bucket:    "c31-bucket",
		s3Namespace: "c31ns",
		maxBlob:     5 << 30,
		checksumAlg: "sha256",
		proxyID:     "c31-proxy",
		metrics:     newLfsMetrics(),
		tracker:     &LfsOpsTracker{config: TrackerConfig{}, logger: logger},
	}
	e := &c31Env{m: m, s3: fs, kinds: map[string]c31Kind{}, comp: map[string]kgo.Compressor{}, dec: kgo.DefaultDecompressor(), seen: map[string]struct{}{}}
	for _, k := range kinds {
		e.kinds[k.Name] = k
	}
	for _, k := range c31LargeKinds() {
		e.kinds[k.Name] = k
	}
	mk := func(name string, c kgo.CompressionCodec) {
		cc, err := kgo.DefaultCompressor(c)
		if err != nil || cc == nil {
			panic(fmt.Sprintf("c31: compressor %s: %v", name, err))
		}
		e.comp[name] = cc
	}
	mk("gzip", kgo.GzipCompression())
	mk("snappy", kgo.SnappyCompression())
	mk("lz4", kgo.Lz4Compression())
	mk("zstd", kgo.ZstdCompression())
	return e
}

var c31Castagnoli = crc32.MakeTable(crc32.Castagnoli)

// buildBatch encodes one batch with the reference encoder (enum) and the franz-go
// compressor for the record area.
func (e *c31Env) buildBatch(b c31BatchSpec) ([]byte, error) {
	recs := make([]enum.Rec, len(b.Records))
	var plain []byte
	for i, name := range b.Records {
		k, ok := e.kinds[name]
		if !ok {
			return nil, fmt.Errorf("unknown record kind %q", name)
		}
		recs[i] = k.rec(int32(i))
		plain = append(plain, enum.EncodeRecord(recs[i])...)
	}
	payload := plain
	switch b.Codec {
	case "none":
	case "gzip", "snappy", "lz4", "zstd", "snappy-xerial":
		cn := b.Codec
		if cn == "snappy-xerial" {
			cn = "snappy"
		}
		out, used := e.comp[cn].Compress(bytes.NewBuffer(nil), plain)
		if int16(used) != c31CodecBits(b.Codec) {
			return nil, fmt.Errorf("compressor for %s used codec %d", b.Codec, used)
		}
		payload = append([]byte{}, out...)
		if b.Codec == "snappy-xerial" {
			fr := []byte{130, 83, 78, 65, 80, 80, 89, 0, 0, 0, 0, 1, 0, 0, 0, 1}
			var l [4]byte
			binary.BigEndian.PutUint32(l[:], uint32(len(payload)))
			fr = append(fr, l[:]...)
			payload = append(fr, payload...)
		}
	default:
		return nil, fmt.Errorf("unknown codec %q", b.Codec)
	}
	opts := enum.BatchOpts{Attributes: c31CodecBits(b.Codec), BaseTimestamp: 1000}
	if b.Variant == 1 {
		opts.Attributes |= 0x18 // LogAppendTime + transactional
		opts.BaseOffset = 100
		opts.BaseTimestamp = 1700000000000
		opts.ProducerID = 9
	}
	raw := enum.MakeBatchRaw(payload, len(recs), recs, opts)
	if b.Variant == 1 {
		binary.BigEndian.PutUint32(raw[12:16], 7)  // partition leader epoch
		binary.BigEndian.PutUint16(raw[51:53], 3)  // producer epoch
		binary.BigEndian.PutUint32(raw[53:57], 11) // base sequence
		binary.BigEndian.PutUint32(raw[17:21], crc32.Checksum(raw[21:], c31Castagnoli))
	}
	return raw, nil
}

// ---------------------------------------------------------------------------
// independent decoding

type c31DBatch struct {
	H      enum.DecodedBatch
	RecRaw [][]byte // raw bytes of each record incl. its length prefix (uncompressed form)
	Recs   []enum.DecodedRecord
}

func (e *c31Env) decode(data []byte) ([]c31DBatch, error) {
	hs, err := enum.DecodeBatches(data)
	if err != nil {
		return nil, err
	}
	out := make([]c31DBatch, len(hs))
	for i, h := range hs {
		out[i].H = h
		if h.Magic != 2 {
			return nil, fmt.Errorf("batch %d: magic %d", i, h.Magic)
		}
		plain := h.Raw[61:]
		codec := h.Attributes & 7
		if codec != 0 {
			if codec > 4 {
				return nil, fmt.Errorf("batch %d: unknown codec %d", i, codec)
			}
			p, err := e.dec.Decompress(plain, kgo.CompressionCodecType(codec))
			if err != nil {
				return nil, fmt.Errorf("batch %d: decompress codec %d: %v", i, codec, err)
			}
			plain = p
		}
		if h.RecordCount < 0 {
			return nil, fmt.Errorf("batch %d: record count %d", i, h.RecordCount)
		}
		// split the record area
		p := plain
		for r := int32(0); r < h.RecordCount; r++ {
			l, n := binary.Varint(p)
			if n <= 0 || l < 0 || int(l) > len(p)-n {
				return nil, fmt.Errorf("batch %d record %d: bad length prefix", i, r)
			}
			out[i].RecRaw = append(out[i].RecRaw, p[:n+int(l)])
			p = p[n+int(l):]
		}
		if len(p) != 0 {
			return nil, fmt.Errorf("batch %d: %d trailing bytes after %d records", i, len(p), h.RecordCount)
		}
		// strict field decode through the reference decoder (as an uncompressed batch)
		fb, err := enum.DecodeBatches(enum.MakeBatchRaw(plain, int(h.RecordCount), nil, enum.BatchOpts{BaseOffset: h.BaseOffset, BaseTimestamp: h.BaseTimestamp}))
		if err != nil {
			return nil, fmt.Errorf("batch %d: %v", i, err)
		}
		if len(fb) != 1 || len(fb[0].Records) != int(h.RecordCount) {
			return nil, fmt.Errorf("batch %d: record area does not hold %d records", i, h.RecordCount)
		}
		out[i].Recs = fb[0].Records
	}
	return out, nil
}

func c31EqB(a, b []byte) bool { return (a == nil) == (b == nil) && bytes.Equal(a, b) }

func c31EqHdrs(a, b []enum.Header) bool {
	if len(a) != len(b) {
		return false
	}
	for i := range a {
		if a[i].Key != b[i].Key || !c31EqB(a[i].Value, b[i].Value) {
			return false
		}
	}
	return true
}

func c31RecAttr(raw []byte) byte {
	_, n := binary.Varint(raw)
	if n <= 0 || n >= len(raw) {
		return 0xff
	}
	return raw[n]
}

// ---------------------------------------------------------------------------
// one case

type c31Viol struct {
	Key    string
	Detail string
}

type c31Result struct {
	Viols      []c31Viol
	Sig        string
	NonTrivial bool
	Err        error // harness error (generator inconsistent): never a verdict
}

func (e *c31Env) runCase(c c31Case) (res c31Result) {
	e.s3.reset()
	req := &protocol.ProduceRequest{Version: 9, Acks: 1, TimeoutMillis: 1000}
	type origPart struct {
		data  []byte
		kinds [][]c31Kind
	}
	var orig [][]origPart
	anyFlag, anyReject := false, false
	var shape []string
	for _, t := range c.Topics {
		rt := kmsg.ProduceRequestTopic{Topic: t.Topic}
		var ops []origPart
		for _, p := range t.Partitions {
			var data []byte
			var op origPart
			for _, b := range p.Batches {
				raw, err := e.buildBatch(b)
				if err != nil {
					res.Err = err
					return
				}
				data = append(data, raw...)
				var ks []c31Kind
				var cls []string
				for _, n := range b.Records {
					k := e.kinds[n]
					ks = append(ks, k)
					cls = append(cls, k.Class)
					if k.flagged() {
						anyFlag = true
					}
					if k.Reject {
						anyReject = true
					}
				}
				op.kinds = append(op.kinds, ks)
				ncls := len(cls)
				sort.Strings(cls)
				cls = c31Uniq(cls)
				shape = append(shape, fmt.Sprintf("%s/%d/%d:%s", b.Codec, b.Variant, ncls, strings.Join(cls, ",")))
			}
			op.data = append([]byte(nil), data...)
			ops = append(ops, op)
			rt.Partitions = append(rt.Partitions, kmsg.ProduceRequestTopicPartition{Partition: p.Partition, Records: data})
		}
		orig = append(orig, ops)
		req.Topics = append(req.Topics, rt)
	}
	sort.Strings(shape)
	shape = c31Uniq(shape)
	topo := fmt.Sprintf("T%d", len(c.Topics))
	for _, t := range c.Topics {
		topo += fmt.Sprintf("P%d", len(t.Partitions))
		for _, p := range t.Partitions {
			topo += fmt.Sprintf("b%d", len(p.Batches))
		}
	}

	add := func(key, format string, a ...any) {
		res.Viols = append(res.Viols, c31Viol{Key: key, Detail: fmt.Sprintf(format, a...)})
	}

	hdr := &protocol.RequestHeader{APIKey: protocol.APIKeyProduce, APIVersion: 9, CorrelationID: 1}
	var rr lfsRewriteResult
	var rerr error
	func() {
		defer func() {
			if r := recover(); r != nil {
				add("rewrite-panic", "rewriteProduceRecords panicked: %v", r)
				rerr = fmt.Errorf("panic")
			}
		}()
		rr, rerr = e.m.rewriteProduceRecords(context.Background(), hdr, req)
	}()
	if len(res.Viols) > 0 {
		res.Sig = "panic|" + topo + "|" + strings.Join(shape, ";")
		return
	}
	if rerr != nil {
		res.Sig = "rejected|" + topo + "|" + strings.Join(shape, ";")
		if !anyReject {
			add("valid-request-rejected", "request without any refusable record was refused: %v", rerr)
		}
		return
	}
	status := "rewritten"
	if !rr.modified {
		status = "untouched"
	}
	res.Sig = status + "|" + topo + "|" + strings.Join(shape, ";")
	res.NonTrivial = rr.modified && anyFlag

	// the request the proxy forwards: the mutated struct when modified, else the original payload
	if len(req.Topics) != len(c.Topics) {
		add("topic-count-changed", "topics %d -> %d", len(c.Topics), len(req.Topics))
		return
	}
	seenKeys := map[string]string{}
	for ti, t := range c.Topics {
		if req.Topics[ti].Topic != t.Topic {
			add("topic-name-changed", "topic %d: %q -> %q", ti, t.Topic, req.Topics[ti].Topic)
		}
		if len(req.Topics[ti].Partitions) != len(t.Partitions) {
			add("partition-count-changed", "topic %d: partitions %d -> %d", ti, len(t.Partitions), len(req.Topics[ti].Partitions))
			continue
		}
		for pi, p := range t.Partitions {
			loc := fmt.Sprintf("topic[%d]=%s partition[%d]=%d", ti, t.Topic, pi, p.Partition)
			if req.Topics[ti].Partitions[pi].Partition != p.Partition {
				add("partition-index-changed", "%s -> %d", loc, req.Topics[ti].Partitions[pi].Partition)
			}
			op := orig[ti][pi]
			newData := req.Topics[ti].Partitions[pi].Records
			if !rr.modified {
				newData = op.data
			}
			ob, err := e.decode(op.data)
			if err != nil {
				res.Err = fmt.Errorf("generator produced an undecodable partition: %v", err)
				return
			}
			nb, err := e.decode(newData)
			if err != nil {
				add("rewritten-partition-undecodable", "%s: %v", loc, err)
				continue
			}
			if len(nb) != len(ob) {
				add("batch-count-changed", "%s: batches %d -> %d", loc, len(ob), len(nb))
				continue
			}
			for bi := range ob {
				e.checkBatch(&res, fmt.Sprintf("%s batch[%d]", loc, bi), ob[bi], nb[bi], op.kinds[bi], seenKeys)
			}
		}
	}
	return
}

func c31Uniq(s []string) []string {
	out := s[:0]
	for i, v := range s {
		if i == 0 || v != s[i-1] {
			out = append(out, v)
		}
	}
	return out
}

func (e *c31Env) checkBatch(res *c31Result, loc string, o, n c31DBatch, kinds []c31Kind, seenKeys map[string]string) {
	add := func(key, format string, a ...any) {
		res.Viols = append(res.Viols, c31Viol{Key: key, Detail: loc + ": " + fmt.Sprintf(format, a...)})
	}
	flaggedInBatch := false
	for _, k := range kinds {
		if k.flagged() {
			flaggedInBatch = true
		}
	}
	if !n.H.CRCValid {
		add("batch-crc-invalid", "stored CRC %08x does not match CRC-32C of bytes [21:]", n.H.CRC)
	}
	if (n.H.Attributes & 7) != (o.H.Attributes & 7) {
		add("batch-codec-changed", "codec bits %d -> %d", o.H.Attributes&7, n.H.Attributes&7)
	} else if n.H.Attributes != o.H.Attributes {
		add("batch-attributes-changed", "attributes %#x -> %#x", o.H.Attributes, n.H.Attributes)
	}
	if !bytes.Equal(o.H.Raw[0:8], n.H.Raw[0:8]) || !bytes.Equal(o.H.Raw[12:17], n.H.Raw[12:17]) ||
		!bytes.Equal(o.H.Raw[23:57], n.H.Raw[23:57]) {
		add("batch-header-field-changed", "header (base offset / leader epoch / magic / last offset delta / timestamps / producer fields) changed: %x -> %x", o.H.Raw[:61], n.H.Raw[:61])
	}
	if n.H.RecordCount != o.H.RecordCount || len(n.Recs) != len(o.Recs) {
		add("record-count-changed", "records %d -> %d", o.H.RecordCount, n.H.RecordCount)
		return
	}
	if !flaggedInBatch && !bytes.Equal(o.H.Raw, n.H.Raw) {
		add("unflagged-batch-bytes-changed", "batch without flagged records is not byte-identical")
	}
	for ri := range o.Recs {
		k := kinds[ri]
		or, nr := o.Recs[ri], n.Recs[ri]
		rl := fmt.Sprintf("record[%d](%s)", ri, k.Name)
		if or.Offset != nr.Offset {
			add("record-offset-changed", "%s offset %d -> %d", rl, or.Offset, nr.Offset)
		}
		if or.Timestamp != nr.Timestamp {
			add("record-timestamp-changed", "%s timestamp %d -> %d", rl, or.Timestamp, nr.Timestamp)
		}
		if !c31EqB(or.Key, nr.Key) {
			add("record-key-changed", "%s key %s -> %s", rl, c31Show(or.Key), c31Show(nr.Key))
		}
		if c31RecAttr(o.RecRaw[ri]) != c31RecAttr(n.RecRaw[ri]) {
			add("record-attributes-changed", "%s", rl)
		}
		if !k.flagged() {
			if !c31EqB(or.Value, nr.Value) {
				add("unflagged-record-value-changed", "%s value %s -> %s", rl, c31Show(or.Value), c31Show(nr.Value))
			}
			if !c31EqHdrs(or.Headers, nr.Headers) {
				add("unflagged-record-headers-changed", "%s headers %s -> %s", rl, c31ShowH(or.Headers), c31ShowH(nr.Headers))
			}
			if !bytes.Equal(o.RecRaw[ri], n.RecRaw[ri]) && c31EqB(or.Value, nr.Value) && c31EqHdrs(or.Headers, nr.Headers) &&
				c31EqB(or.Key, nr.Key) && or.Offset == nr.Offset && or.Timestamp == nr.Timestamp {
				add("unflagged-record-bytes-changed", "%s encoding %x -> %x", rl, o.RecRaw[ri], n.RecRaw[ri])
			}
			continue
		}
		// flagged record: headers lose only the flag header
		var wantAll, wantFirst []enum.Header
		first := true
		for _, h := range or.Headers {
			if h.Key == "LFS_BLOB" {
				if first {
					first = false
				} else {
					wantFirst = append(wantFirst, h)
				}
				continue
			}
			wantAll = append(wantAll, h)
			wantFirst = append(wantFirst, h)
		}
		if !c31EqHdrs(nr.Headers, wantAll) && !c31EqHdrs(nr.Headers, wantFirst) {
			key := "flagged-record-headers-wrong"
			still := false
			for _, h := range nr.Headers {
				if h.Key == "LFS_BLOB" {
					still = true
				}
			}
			switch {
			case still && len(nr.Headers) == len(or.Headers):
				key = "flag-header-kept"
			case len(nr.Headers) < len(wantAll):
				key = "flagged-record-other-header-lost"
			}
			add(key, "%s headers %s -> %s (want the original without LFS_BLOB)", rl, c31ShowH(or.Headers), c31ShowH(nr.Headers))
		}
		// value: a valid envelope of a new object that holds exactly the original value
		env, err := lfs.DecodeEnvelope(nr.Value)
		if err != nil {
			add("flagged-value-not-envelope", "%s value %s is not a valid envelope: %v", rl, c31Show(nr.Value), err)
			continue
		}
		if env.Bucket != e.m.s3Bucket {
			add("envelope-wrong-bucket", "%s bucket %q", rl, env.Bucket)
		}
		if prev, dup := seenKeys[env.Key]; dup {
			add("envelope-object-key-reused", "%s object %q already used by %s", rl, env.Key, prev)
		}
		seenKeys[env.Key] = loc + " " + rl
		obj, ok := e.s3.get(env.Key)
		if !ok {
			add("envelope-object-missing", "%s object %q is not in the bucket", rl, env.Key)
			continue
		}
		if !bytes.Equal(obj, or.Value) {
			add("object-content-differs", "%s object holds %s, original value %s", rl, c31Show(obj), c31Show(or.Value))
		}
		if env.Size != int64(len(or.Value)) {
			add("envelope-size-wrong", "%s size %d, original value has %d bytes", rl, env.Size, len(or.Value))
		}
		sum := sha256.Sum256(or.Value)
		if !strings.EqualFold(env.SHA256, hex.EncodeToString(sum[:])) {
			add("envelope-sha256-wrong", "%s sha256 %s, original value hashes to %x", rl, env.SHA256, sum)
		}
		alg, want, has, err := lfs.EnvelopeChecksum(env)
		if err != nil {
			add("envelope-checksum-alg-invalid", "%s checksum_alg %q: %v", rl, env.ChecksumAlg, err)
		} else if has {
			got, cerr := lfs.ComputeChecksum(alg, or.Value)
			if cerr != nil || !strings.EqualFold(got, want) {
				add("envelope-checksum-wrong", "%s %s checksum %s, original value gives %s", rl, alg, want, got)
			}
		}
	}
}

func c31Show(b []byte) string {
	if b == nil {
		return "null"
	}
	if len(b) > 48 {
		return fmt.Sprintf("%q...(%d bytes)", b[:48], len(b))
	}
	return fmt.Sprintf("%q", b)
}

func c31ShowH(hs []enum.Header) string {
	var p []string
	for _, h := range hs {
		p = append(p, h.Key+"="+c31Show(h.Value))
	}
	return "[" + strings.Join(p, " ") + "]"
}

// ---------------------------------------------------------------------------
// enumeration layers

type c31Layer struct {
	Name string
	N    int64
	Gen  func(i int64) c31Case
	Desc string
}

// c31SeqAt returns the i-th sequence (shorter first, then lexicographic) over an
// alphabet of k symbols with length 1..maxLen.
func c31SeqAt(i int64, k, maxLen int) []int {
	for l := 1; l <= maxLen; l++ {
		n := int64(1)
		for j := 0; j < l; j++ {
			n *= int64(k)
		}
		if i < n {
			seq := make([]int, l)
			for j := l - 1; j >= 0; j-- {
				seq[j] = int(i % int64(k))
				i /= int64(k)
			}
			return seq
		}
		i -= n
	}
	panic("c31SeqAt: index out of range")
}

func c31SeqCount(k, maxLen int) int64 {
	var t, n int64 = 0, 1
	for l := 1; l <= maxLen; l++ {
		n *= int64(k)
		t += n
	}
	return t
}

func c31Layers(kinds []c31Kind, thorough bool) []c31Layer {
	names := make([]string, len(kinds))
	for i, k := range kinds {
		names[i] = k.Name
	}
	pick := func(seq []int, from []string) []string {
		out := make([]string, len(seq))
		for i, s := range seq {
			out[i] = from[s]
		}
		return out
	}
	var layers []c31Layer

	// L1 records: 1 topic x 1 partition x 1 batch; every record sequence over the full alphabet.
	// gzip and zstd are enumerated one record shorter: the proxy builds a fresh encoder
	// (megabytes of state) for every batch it recompresses, which dominates the run time.
	l1 := func(name string, maxLen int, codecs []string, nvar int) {
		nseq := c31SeqCount(len(names), maxLen)
		ncv := int64(len(codecs) * nvar)
		layers = append(layers, c31Layer{
			Name: name, N: nseq * ncv,
			Desc: fmt.Sprintf("1 topic x 1 partition x 1 batch; all record sequences of length 1..%d over %d record kinds x codec framings %v x %d batch-header variant(s)", maxLen, len(names), codecs, nvar),
			Gen: func(i int64) c31Case {
				seq := c31SeqAt(i/ncv, len(names), maxLen)
				cv := int(i % ncv)
				return c31Case{Layer: name, Topics: []c31TopicSpec{{Topic: "ta", Partitions: []c31PartSpec{{Partition: 0,
					Batches: []c31BatchSpec{{Codec: codecs[cv/nvar], Variant: cv % nvar, Records: pick(seq, names)}}}}}}}
			}})
	}
	l1Len := 3
	if thorough {
		l1Len = 4
	}
	l1("L1-records-light", l1Len, []string{"none", "snappy", "lz4", "snappy-xerial"}, 2)
	l1("L1-records-heavy", 2, []string{"gzip", "zstd"}, 2)
	if thorough {
		l1("L1-records-heavy-3", 3, []string{"gzip", "zstd"}, 1)
	}

	// L2 batches: 1 topic x 1 partition x 1..2 batches.
	l2 := func(name string, contents [][]string, codecs []string) {
		var ba []c31BatchSpec
		for _, ct := range contents {
			for _, cd := range codecs {
				ba = append(ba, c31BatchSpec{Codec: cd, Records: ct})
			}
		}
		nba := int64(len(ba))
		layers = append(layers, c31Layer{
			Name: name, N: nba + nba*nba,
			Desc: fmt.Sprintf("1 topic x 1 partition x 1..2 batches; each batch any of %d = (%d record sequences) x %v; second batch uses header variant 1", nba, len(contents), codecs),
			Gen: func(i int64) c31Case {
				var bs []c31BatchSpec
				if i < nba {
					bs = []c31BatchSpec{ba[i]}
				} else {
					i -= nba
					b0, b1 := ba[i/nba], ba[i%nba]
					b1.Variant = 1
					bs = []c31BatchSpec{b0, b1}
				}
				return c31Case{Layer: name, Topics: []c31TopicSpec{{Topic: "ta", Partitions: []c31PartSpec{{Partition: 0, Batches: bs}}}}}
			}})
	}
	l2Names := []string{"u-plain", "u-null", "f-plain", "f-sha-mid"}
	l2Len := 2
	if thorough {
		l2Len = 3
	}
	var l2Contents [][]string
	for si := int64(0); si < c31SeqCount(len(l2Names), l2Len); si++ {
		l2Contents = append(l2Contents, pick(c31SeqAt(si, len(l2Names), l2Len), l2Names))
	}
	l2("L2-batches-light", l2Contents, []string{"none", "snappy", "lz4"})
	l2("L2-batches-all-codecs", [][]string{{"u-plain"}, {"f-plain"}, {"u-null", "f-sha-mid"}}, []string{"none", "snappy", "gzip", "lz4", "zstd"})

	// L3 topology: 1..2 topics x 1..2 partitions x (empty | 1..2 batches) over a small batch alphabet.
	l3Contents := [][]string{{"u-plain"}, {"f-plain"}}
	if thorough {
		l3Contents = append(l3Contents, []string{"u-null", "f-sha-mid"})
	}
	l3Codecs := []string{"none", "snappy"}
	var b3 []c31BatchSpec
	for ci, ct := range l3Contents {
		for _, cd := range l3Codecs {
			if ci >= 2 && cd != "none" {
				continue // the thorough-only mixed batch is enumerated uncompressed only
			}
			b3 = append(b3, c31BatchSpec{Codec: cd, Records: ct})
		}
	}
	var parts [][]c31BatchSpec
	parts = append(parts, nil) // partition without records
	for _, b := range b3 {
		parts = append(parts, []c31BatchSpec{b})
	}
	for _, x := range b3 {
		for _, y := range b3 {
			y.Variant = 1
			parts = append(parts, []c31BatchSpec{x, y})
		}
	}
	np := int64(len(parts))
	nt := np + np*np
	topicAt := func(name string, i int64) c31TopicSpec {
		if i < np {
			return c31TopicSpec{Topic: name, Partitions: []c31PartSpec{{Partition: 0, Batches: parts[i]}}}
		}
		i -= np
		return c31TopicSpec{Topic: name, Partitions: []c31PartSpec{{Partition: 0, Batches: parts[i/np]}, {Partition: 1, Batches: parts[i%np]}}}
	}
	layers = append(layers, c31Layer{
		Name: "L3-topology", N: nt + nt*nt,
		Desc: fmt.Sprintf("1..2 topics x 1..2 partitions; each partition any of %d = {no records} + 1..2 batches over %d batch variants (%v x %v)", np, len(b3), l3Contents, l3Codecs),
		Gen: func(i int64) c31Case {
			if i < nt {
				return c31Case{Layer: "L3-topology", Topics: []c31TopicSpec{topicAt("ta", i)}}
			}
			i -= nt
			return c31Case{Layer: "L3-topology", Topics: []c31TopicSpec{topicAt("ta", i/nt), topicAt("tb", i%nt)}}
		}})

	// L4 large values: one flagged value at/above the 5 MiB chunk size (multipart upload inside Upload).
	var l4 []c31Case
	for _, k := range c31LargeKinds() {
		for _, cd := range []string{"none", "snappy"} {
			for _, recs := range [][]string{{k.Name}, {"u-null", k.Name, "u-plain"}} {
				l4 = append(l4, c31Case{Layer: "L4-large-values", Topics: []c31TopicSpec{{Topic: "ta", Partitions: []c31PartSpec{{Partition: 0,
					Batches: []c31BatchSpec{{Codec: cd, Records: recs}}}}}}})
			}
		}
	}
	layers = append(layers, c31Layer{Name: "L4-large-values", N: int64(len(l4)),
		Desc: "1 batch holding a flagged value of 5 MiB, 5 MiB+1, 10 MiB or 10 MiB+1 bytes (alone, or between two unflagged records) x {none, snappy}",
		Gen:  func(i int64) c31Case { return l4[i] }})
	return layers
}

// ---------------------------------------------------------------------------

type c31Found struct {
	Idx    int64 // global order: smaller = simpler
	Key    string
	Detail string
	Case   c31Case
}

func TestVerifC31(t *testing.T) {
	rep := vh.New(t, "C31")
	defer rep.Finish()
	rep.Rule = "cases = produce requests generated from four bounded products (L1 record sequences in one batch, L2 batch pairs, L3 topic/partition topologies, L4 values around the 5 MiB upload chunk size) over a fixed record-kind alphabet; each is rewritten by the real rewriteProduceRecords and decoded independently. Outcome signature = {rewritten|untouched|rejected} + topology shape + set of (codec framing, header variant, record count, set of record classes) of its batches. Non-trivial = the request holds >=1 flagged record and was rewritten (so envelope, object, header and re-framing checks all ran)."
	rep.Assumptions = []string{
		"fake s3API: PutObject stores the body atomically; multipart completion follows the S3 rules and assembles exactly the listed parts",
		"franz-go kgo compressor/decompressor are trusted for producing compressed inputs and for decompressing the rewritten record areas; batch framing, CRC and records are decoded by the independent enum codec",
		"a request holding a record with a wrong checksum / unknown algorithm / checksum with algorithm none may be refused as a whole; every other request must be rewritten",
		"duplicate LFS_BLOB headers: removing all of them or only the first are both accepted as 'loses only its flag header'",
	}
	kinds := c31Kinds()
	thorough := vh.Thorough()
	layers := c31Layers(kinds, thorough)
	var kn []string
	for _, k := range kinds {
		kn = append(kn, k.Name)
	}
	rep.SetInfo("record_kinds", kn)
	rep.SetInfo("codec_framings", c31Codecs)
	for _, l := range layers {
		rep.SetInfo(l.Name, map[string]any{"cases": l.N, "what": l.Desc})
	}

	// replay of a single case
	var rc c31Case
	if ok, err := vh.LoadReplay(&rc); ok {
		if err != nil {
			t.Fatalf("HARNESS-ERROR replay: %v", err)
		}
		e := c31NewEnv(kinds)
		r := e.runCase(rc)
		if r.Err != nil {
			t.Fatalf("HARNESS-ERROR replay case: %v", r.Err)
		}
		rep.Eval(1)
		rep.Outcome(r.Sig, r.NonTrivial)
		rep.Sample(map[string]any{"case": rc, "outcome": r.Sig})
		for _, v := range r.Viols {
			rep.Violation(v.Key, v.Detail, rc)
		}
		return
	}

	deadline := vh.Deadline()
	shard, nshards := vh.Shard()
	workers := runtime.GOMAXPROCS(0)
	if workers > 32 {
		workers = 32
	}
	var mu sync.Mutex
	found := map[string][]c31Found{}
	var harnessErr atomic.Value
	var base int64
	for _, l := range layers {
		l := l
		const chunk = 32
		var next int64
		var capped atomic.Bool
		var evals, nontriv, sampled int64
		var wg sync.WaitGroup
		for w := 0; w < workers; w++ {
			wg.Add(1)
			go func() {
				defer wg.Done()
				e := c31NewEnv(kinds)
				for {
					lo := atomic.AddInt64(&next, chunk) - chunk
					if lo >= l.N || harnessErr.Load() != nil {
						return
					}
					if time.Now().After(deadline) {
						capped.Store(true)
						return
					}
					hi := lo + chunk
					if hi > l.N {
						hi = l.N
					}
					for i := lo; i < hi; i++ {
						if nshards > 1 && int(i%int64(nshards)) != shard {
							continue
						}
						c := l.Gen(i)
						r := e.runCase(c)
						if r.Err != nil {
							harnessErr.Store(fmt.Errorf("%s case %d: %v", l.Name, i, r.Err))
							return
						}
						atomic.AddInt64(&evals, 1)
						if r.NonTrivial {
							atomic.AddInt64(&nontriv, 1)
						}
						if _, ok := e.seen[r.Sig]; !ok {
							e.seen[r.Sig] = struct{}{}
							rep.Outcome(r.Sig, r.NonTrivial)
						}
						if r.NonTrivial && len(r.Viols) == 0 && i*3 >= l.N && atomic.AddInt64(&sampled, 1) <= 2 {
							rep.Sample(map[string]any{"case": c, "outcome": r.Sig})
						}
						if len(r.Viols) > 0 {
							mu.Lock()
							for _, v := range r.Viols {
								fs := append(found[v.Key], c31Found{Idx: base + i, Key: v.Key, Detail: v.Detail, Case: c})
								sort.Slice(fs, func(a, b int) bool { return fs[a].Idx < fs[b].Idx })
								if len(fs) > 3 {
									fs = fs[:3]
								}
								found[v.Key] = fs
							}
							mu.Unlock()
							rep.Count("violating_cases", 1)
						}
					}
				}
			}()
		}
		wg.Wait()
		rep.Eval(evals)
		rep.Count("cases_"+l.Name, evals)
		rep.Count("rewritten_with_flagged_"+l.Name, nontriv)
		if capped.Load() {
			rep.Cap("deadline hit in layer " + l.Name)
		}
		base += l.N
	}
	if err, _ := harnessErr.Load().(error); err != nil {
		t.Fatalf("HARNESS-ERROR %v", err)
	}
	keys := make([]string, 0, len(found))
	for k := range found {
		keys = append(keys, k)
	}
	sort.Strings(keys)
	for _, k := range keys {
		for _, f := range found[k] {
			rep.Violation(f.Key, f.Detail, f.Case)
		}
	}
}
