//go:build verif

package main

// C32 — an LFS HTTP upload reported successful is stored and acknowledged.
//
// Fault enumeration on the real HTTP handlers (/lfs/produce, /lfs/uploads, /lfs/uploads/{id}/parts/{n},
// /lfs/uploads/{id}/complete, driven through a mux built like startHTTPServer's and httptest recorders) with
//   - a fake s3API that implements the S3 multipart rules (see zz_verif_c32_fakes_test.go), and
//   - a scripted fake Kafka broker on loopback that reads the proxy's produce request and answers as told.
// Every upload shape x client input x broker reply x S3 fault of the bounded product is executed; waits are
// only "the handler returned" (the broker either answers or closes, nothing depends on timeouts).
// Sessions are also run with parts that are sent twice (a refused / failed / duplicate PUT before the
// accepted one): zz_verif_c32_retry_test.go.

import (
	"bytes"
	"crypto/sha256"
	"encoding/base64"
	"encoding/hex"
	"encoding/json"
	"fmt"
	"io"
	"log/slog"
	"net/http"
	"net/http/httptest"
	"runtime"
	"sort"
	"strings"
	"sync"
	"sync/atomic"
	"testing"
	"time"

	"github.com/KafScale/platform/internal/verif/enum"
	"github.com/KafScale/platform/internal/verif/vh"
	"github.com/KafScale/platform/pkg/lfs"
)

const c32MiB5 = int64(5 << 20)

// ---------------------------------------------------------------------------
// case description (also the replay format)

type c32CPart struct {
	Part int32  `json:"part"`
	ETag string `json:"etag"` // "ok" = the etag the proxy returned for that part; "wrong" = a made-up etag; "of:N" = etag of part N
}

type c32Case struct {
	Kind        string     `json:"kind"`         // "single" (POST /lfs/produce) or "session" (init, parts, complete)
	Sizes       []int64    `json:"sizes"`        // single: [size]; session: part sizes in upload order
	Checksum    string     `json:"checksum"`     // "", "right", "wrong"
	ChecksumAlg string     `json:"checksum_alg"` // "", "sha256", "md5", "crc32", "none"
	Complete    []c32CPart `json:"complete"`     // session: part list of the completion request
	Broker      string     `json:"broker"`       // scripted broker behaviour (see c32Broker)
	S3Fault     string     `json:"s3_fault"`     // "", or the s3API operation that fails once
	Partition   int32      `json:"partition"`
	WithKey     bool       `json:"with_key"`
	// session: Retry[i] = "" or the kind of the one extra PUT the client makes before the accepted
	// PUT of part i+1 (see c32RetryKinds); nil = every part is sent exactly once
	Retry []string `json:"retry,omitempty"`
}

func (c c32Case) hasRetry() bool {
	for _, k := range c.Retry {
		if k != "" {
			return true
		}
	}
	return false
}

func (c c32Case) total() int64 {
	var n int64
	for _, s := range c.Sizes {
		n += s
	}
	return n
}

// deterministic content: byte i of an upload is c32Byte(i)
func c32Byte(i int64) byte { return byte(i*131 + (i >> 9) + 7) }

type c32Gen struct{ off, end int64 }

// the content has period 128 KiB (i*131 mod 256 has period 256, i>>9 mod 256 has period 128 KiB)
var c32Pattern = func() []byte {
	b := make([]byte, 1<<17)
	for i := range b {
		b[i] = c32Byte(int64(i))
	}
	return b
}()

func (g *c32Gen) Read(p []byte) (int, error) {
	if g.off >= g.end {
		return 0, io.EOF
	}
	n := 0
	for n < len(p) && g.off < g.end {
		src := c32Pattern[g.off&(1<<17-1):]
		if rem := g.end - g.off; int64(len(src)) > rem {
			src = src[:rem]
		}
		k := copy(p[n:], src)
		n += k
		g.off += int64(k)
	}
	return n, nil
}

var c32SumCache sync.Map // "alg/size" -> hex

func c32ContentSum(alg string, size int64) string {
	k := fmt.Sprintf("%s/%d", alg, size)
	if v, ok := c32SumCache.Load(k); ok {
		return v.(string)
	}
	a, _ := lfs.NormalizeChecksumAlg(alg)
	h, _ := lfs.NewChecksumHasher(a)
	if h == nil {
		h = sha256.New()
	}
	_, _ = io.Copy(h, &c32Gen{0, size})
	s := hex.EncodeToString(h.Sum(nil))
	c32SumCache.Store(k, s)
	return s
}

// ---------------------------------------------------------------------------
// per-worker environment

type c32Env struct {
	broker *c32Broker
}

func (e *c32Env) newModule(fs *c32S3) (*lfsModule, http.Handler) {
	logger := slog.New(slog.NewTextHandler(io.Discard, &slog.HandlerOptions{Level: slog.Level(100)}))
	m := &lfsModule{
		logger:           logger,
		s3Uploader:       &s3Uploader{bucket: "c32-bucket", region: "us-east-1", chunkSize: 5 << 20, api: fs},
		s3Bucket:         "c32-bucket",
		s3Namespace:      "c32ns",
		maxBlob:          64 << 20,
		chunkSize:        5 << 20,
		checksumAlg:      "sha256",
		proxyID:          "c32-proxy",
		metrics:          newLfsMetrics(),
		tracker:          &LfsOpsTracker{config: TrackerConfig{}, logger: logger},
		topicMaxLength:   249,
		downloadTTLMax:   2 * time.Minute,
		uploadSessionTTL: time.Hour,
		uploadSessions:   make(map[string]*uploadSession),
		dialTimeout:      20 * time.Second, // upper bound only; the fake broker always answers or closes
		backendRetries:   1,
		backendBackoff:   time.Millisecond,
		backends:         []string{e.broker.addr()},
	}
	atomic.StoreUint32(&m.s3Healthy, 1)
	mux := http.NewServeMux() // same routes and middleware as startHTTPServer
	mux.HandleFunc("/lfs/produce", m.lfsCORSMiddleware(m.handleHTTPProduce))
	mux.HandleFunc("/lfs/uploads", m.lfsCORSMiddleware(m.handleHTTPUploadInit))
	mux.HandleFunc("/lfs/uploads/", m.lfsCORSMiddleware(m.handleHTTPUploadSession))
	return m, mux
}

type c32Viol struct {
	Key    string
	Detail string
}

type c32Result struct {
	Viols      []c32Viol
	Sig        string
	NonTrivial bool
	Success    bool
	Attempts   []string // extra PUTs: "kind=status"
	Err        error    // harness error, never a verdict
}

func c32Do(h http.Handler, method, path string, hdr map[string]string, body io.Reader) (rec *httptest.ResponseRecorder, panicked any) {
	return c32DoCL(h, method, path, hdr, body, -1)
}

// c32DoCL: declared > = 0 sets the request's declared Content-Length (body may deliver less).
func c32DoCL(h http.Handler, method, path string, hdr map[string]string, body io.Reader, declared int64) (rec *httptest.ResponseRecorder, panicked any) {
	req := httptest.NewRequest(method, path, body)
	for k, v := range hdr {
		req.Header.Set(k, v)
	}
	if declared >= 0 {
		req.ContentLength = declared
		req.Header.Set("Content-Length", fmt.Sprint(declared))
	}
	rec = httptest.NewRecorder()
	func() {
		defer func() { panicked = recover() }()
		h.ServeHTTP(rec, req)
	}()
	return rec, panicked
}

func c32ErrCode(body []byte) string {
	var e lfsErrorResponse
	if json.Unmarshal(body, &e) == nil && e.Code != "" {
		return e.Code
	}
	return "-"
}

func (e *c32Env) runCase(c c32Case) (res c32Result) {
	fs := c32NewS3()
	_, h := e.newModule(fs)
	e.broker.script(c.Broker)
	add := func(key, format string, a ...any) {
		res.Viols = append(res.Viols, c32Viol{Key: key, Detail: fmt.Sprintf(format, a...)})
	}
	kindKey := "single"
	if c.Kind == "session" {
		kindKey = "multipart"
	}
	listClass := "-"
	var retrySig []string // extra PUTs and the statuses they and the following accepted PUT got
	var segs []c32Seg     // every part PUT body of the conversation, in the order sent
	var final *httptest.ResponseRecorder
	total := c.total()
	alg := c.ChecksumAlg
	sumAlg := alg
	if sumAlg == "" || sumAlg == "none" {
		sumAlg = "sha256"
	}
	checksum := ""
	switch c.Checksum {
	case "right":
		checksum = c32ContentSum(sumAlg, total)
	case "wrong":
		checksum = c32ContentSum(sumAlg, total+1)
	}
	keyB64 := ""
	if c.WithKey {
		keyB64 = base64.StdEncoding.EncodeToString([]byte("c32-key"))
	}

	switch c.Kind {
	case "single":
		hdr := map[string]string{lfsHeaderTopic: "c32-topic", "Content-Type": "application/octet-stream"}
		if c.Partition != 0 {
			hdr[lfsHeaderPartition] = fmt.Sprint(c.Partition)
		}
		if keyB64 != "" {
			hdr[lfsHeaderKey] = keyB64
		}
		if checksum != "" {
			hdr[lfsHeaderChecksum] = checksum
		}
		if alg != "" {
			hdr[lfsHeaderChecksumAlg] = alg
		}
		fs.failNext(c.S3Fault)
		rec, p := c32Do(h, http.MethodPost, "/lfs/produce", hdr, &c32Gen{0, total})
		if p != nil {
			add("single-handler-panic", "handleHTTPProduce panicked: %v", p)
			res.Sig = "single|panic"
			return
		}
		final = rec
	case "session":
		initReq := map[string]any{"topic": "c32-topic", "content_type": "application/octet-stream", "size_bytes": total}
		if c.Partition != 0 {
			initReq["partition"] = c.Partition
		}
		if keyB64 != "" {
			initReq["key"] = keyB64
		}
		if checksum != "" {
			initReq["checksum"] = checksum
		}
		if alg != "" {
			initReq["checksum_alg"] = alg
		}
		ib, _ := json.Marshal(initReq)
		if c.S3Fault == "CreateMultipartUpload" {
			fs.failNext(c.S3Fault)
		}
		rec, p := c32Do(h, http.MethodPost, "/lfs/uploads", nil, bytes.NewReader(ib))
		if p != nil {
			add("multipart-handler-panic", "handleHTTPUploadInit panicked: %v", p)
			res.Sig = "session|panic"
			return
		}
		if rec.Code != 200 {
			// an upload that could not be started: nothing was reported successful
			if rec.Code < 400 {
				add("multipart-init-status-neither-success-nor-error", "init status %d", rec.Code)
			} else if c.S3Fault != "CreateMultipartUpload" && !(c.Checksum != "" && alg == "none") {
				res.Err = fmt.Errorf("init unexpectedly failed: %d %s", rec.Code, rec.Body.String())
			}
			res.Sig = fmt.Sprintf("session|init=%d/%s|s3=%s", rec.Code, c32ErrCode(rec.Body.Bytes()), c.S3Fault)
			res.NonTrivial = true
			return
		}
		var ir lfsUploadInitResponse
		if err := json.Unmarshal(rec.Body.Bytes(), &ir); err != nil || ir.UploadID == "" {
			res.Err = fmt.Errorf("init response undecodable: %s", rec.Body.String())
			return
		}
		etags := map[int32]string{}
		var off int64
		if c.hasRetry() && (len(c.Retry) != len(c.Sizes) || ir.PartSize != c32MiB5) {
			res.Err = fmt.Errorf("retry plan %v does not fit sizes %v / part_size %d", c.Retry, c.Sizes, ir.PartSize)
			return
		}
		for i, sz := range c.Sizes {
			pn := int32(i + 1)
			if c.hasRetry() && c.Retry[i] != "" {
				// one extra PUT before the accepted one
				at, ok := c32PlanAttempt(c.Retry[i], c.Sizes, i, ir.PartSize)
				if !ok {
					res.Err = fmt.Errorf("retry kind %q cannot be produced before part %d of %v", c.Retry[i], pn, c.Sizes)
					return
				}
				if at.S3Fail != "" {
					fs.failNext(at.S3Fail)
				}
				rec, p := c32DoCL(h, http.MethodPut, c32PartPath(ir.UploadID, at.PartNumber), nil, at.body(), at.Declared)
				fs.failNext("")
				if p != nil {
					add("multipart-handler-panic", "handleHTTPUploadPart panicked on a %s PUT: %v", at.Kind, p)
					res.Sig = "session|panic"
					return
				}
				segs = append(segs, c32Seg{Off: at.Off, End: at.End, Class: c32RetryClass(at.Kind)})
				retrySig = append(retrySig, fmt.Sprintf("%d:%s=%d/%s", pn, at.Kind, rec.Code, c32ErrCode(rec.Body.Bytes())))
				res.Attempts = append(res.Attempts, fmt.Sprintf("%s=%d", at.Kind, rec.Code))
				if rec.Code == 200 {
					var pr lfsUploadPartResponse
					if err := json.Unmarshal(rec.Body.Bytes(), &pr); err == nil && pr.ETag != "" {
						etags[at.PartNumber] = pr.ETag
					}
				}
			}
			if c.S3Fault == "UploadPart" && i == len(c.Sizes)-1 {
				fs.failNext(c.S3Fault)
			}
			rec, p := c32Do(h, http.MethodPut, c32PartPath(ir.UploadID, pn), nil, &c32Gen{off, off + sz})
			if p != nil {
				add("multipart-handler-panic", "handleHTTPUploadPart panicked: %v", p)
				res.Sig = "session|panic"
				return
			}
			segs = append(segs, c32Seg{Off: off, End: off + sz, Accepted: rec.Code == 200})
			if c.hasRetry() {
				retrySig = append(retrySig, fmt.Sprintf("%d=%d", pn, rec.Code))
			}
			off += sz
			if rec.Code != 200 {
				if (c.S3Fault == "UploadPart" || c.hasRetry()) && rec.Code >= 400 {
					continue // the part is missing; completion below must not succeed
				}
				res.Err = fmt.Errorf("part %d unexpectedly failed: %d %s", pn, rec.Code, rec.Body.String())
				return
			}
			var pr lfsUploadPartResponse
			if err := json.Unmarshal(rec.Body.Bytes(), &pr); err != nil || pr.ETag == "" {
				res.Err = fmt.Errorf("part response undecodable: %s", rec.Body.String())
				return
			}
			etags[pn] = pr.ETag
		}
		type cp struct {
			PartNumber int32  `json:"part_number"`
			ETag       string `json:"etag"`
		}
		var creq struct {
			Parts []cp `json:"parts"`
		}
		creq.Parts = []cp{}
		for _, p := range c.Complete {
			et := etags[p.Part]
			switch {
			case p.ETag == "wrong":
				et = "\"00000000000000000000000000000000\""
			case strings.HasPrefix(p.ETag, "of:"):
				var n int32
				fmt.Sscanf(p.ETag, "of:%d", &n)
				et = etags[n]
			}
			creq.Parts = append(creq.Parts, cp{PartNumber: p.Part, ETag: et})
		}
		listClass = c32ListClass(c.Complete, len(c.Sizes))
		cb, _ := json.Marshal(creq)
		if c.S3Fault == "CompleteMultipartUpload" {
			fs.failNext(c.S3Fault)
		}
		if c.S3Fault == "UploadGone" {
			// the multipart upload was aborted / expired on the S3 side (lifecycle rule,
			// operator clean-up): completion answers NoSuchUpload
			fs.dropUploads()
		}
		rec, p = c32Do(h, http.MethodPost, "/lfs/uploads/"+ir.UploadID+"/complete", nil, bytes.NewReader(cb))
		if p != nil {
			add("multipart-handler-panic", "handleHTTPUploadComplete panicked: %v", p)
			res.Sig = "session|panic"
			return
		}
		final = rec
	default:
		res.Err = fmt.Errorf("unknown kind %q", c.Kind)
		return
	}

	events := e.broker.drain()
	status := final.Code
	res.Sig = fmt.Sprintf("%s|n=%d|sum=%s/%s|list=%s|broker=%s|s3=%s|retry=%s|status=%d/%s", c.Kind, len(c.Sizes), c.Checksum, c.ChecksumAlg, listClass, c.Broker, c.S3Fault, c32RetrySig(retrySig), status, c32ErrCode(final.Body.Bytes()))
	res.NonTrivial = c.Broker != "ok" || c.S3Fault != "" || c.Checksum == "wrong" || (c.Kind == "session" && listClass != "all") || total == 0 || c.hasRetry()
	if status >= 400 {
		return // the client got an error status: nothing is claimed
	}
	if status < 200 || status >= 300 {
		add(kindKey+"-status-neither-success-nor-error", "status %d", status)
		return
	}
	res.Success = true
	env, err := lfs.DecodeEnvelope(final.Body.Bytes())
	if err != nil {
		add(kindKey+"-success-without-envelope", "status %d but body %q is not an envelope: %v", status, final.Body.String(), err)
		return
	}
	// (1) the object named by the envelope exists, with that size and SHA-256
	size, sum, ok := fs.stat(env.Key)
	switch {
	case env.Bucket != "c32-bucket":
		add(kindKey+"-envelope-wrong-bucket", "bucket %q", env.Bucket)
	case !ok:
		add(kindKey+"-object-missing", "status %d, envelope names %q which is not in the bucket", status, env.Key)
	case size != env.Size || !strings.EqualFold(sum, env.SHA256):
		key := kindKey + "-object-differs-from-envelope"
		if c.Kind == "session" && (listClass == "subset" || listClass == "subset-dup") {
			key = "multipart-partial-part-list-accepted"
		}
		why := ""
		if c.hasRetry() {
			// name the mechanism: which extra PUT's bytes does the envelope digest cover?
			if cl := c32DiagnoseDigest(segs, env.SHA256); cl != "" {
				key = "multipart-digest-includes-extra-attempt-" + cl
				why = fmt.Sprintf("; the envelope SHA-256 is the digest of the accepted part bodies plus the body of an extra PUT (%s) that is not part of the object; PUTs: %s", cl, c32RetrySig(retrySig))
			} else {
				why = "; PUTs: " + c32RetrySig(retrySig)
			}
		}
		add(key, "status %d, envelope size=%d sha256=%s but object %q has size=%d sha256=%s (completion list %v of %d uploaded parts)%s", status, env.Size, env.SHA256, env.Key, size, sum, c.Complete, len(c.Sizes), why)
	}
	// (2) the broker acknowledged the envelope record without error
	var ev *c32Event
	for i := range events {
		if events[i].Parsed && c32HoldsEnvelope(events[i].Records, env.Key) {
			ev = &events[i]
		}
	}
	switch {
	case ev == nil:
		add(kindKey+"-success-without-produce", "status %d but the broker received no produce request carrying the envelope for %q (broker saw %d connections)", status, env.Key, len(events))
	case ev.Sent == "nothing":
		add(kindKey+"-broker-silence-accepted", "status %d but the broker closed the connection without replying (%s)", status, c.Broker)
	case !ev.WellFormed:
		add(kindKey+"-broker-garbage-reply-accepted", "status %d but the broker's reply was not a produce response (%s)", status, c.Broker)
	case !ev.HasPartition:
		add(kindKey+"-broker-reply-missing-partition-accepted", "status %d but the broker's produce response carried no result for %s/%d (%s)", status, ev.Topic, ev.Partition, c.Broker)
	case ev.Code != 0:
		add(kindKey+"-broker-error-code-ignored", "status %d but the broker answered the envelope record for %s/%d with error code %d", status, ev.Topic, ev.Partition, ev.Code)
	}
	return
}

// c32HoldsEnvelope: does the record set hold a record whose value is an envelope naming key?
func c32HoldsEnvelope(records []byte, key string) bool {
	bs, err := enum.DecodeBatches(records)
	if err != nil {
		return false
	}
	for _, b := range bs {
		for _, r := range b.Records {
			if env, err := lfs.DecodeEnvelope(r.Value); err == nil && env.Key == key {
				return true
			}
		}
	}
	return false
}

// c32ListClass classifies a completion list against the n uploaded parts 1..n.
func c32ListClass(l []c32CPart, n int) string {
	if len(l) == 0 {
		return "empty"
	}
	seen := map[int32]int{}
	asc, okTags, known := true, true, true
	for i, p := range l {
		seen[p.Part]++
		if i > 0 && p.Part <= l[i-1].Part {
			asc = false
		}
		if p.ETag != "ok" {
			okTags = false
		}
		if p.Part < 1 || int(p.Part) > n {
			known = false
		}
	}
	dup := false
	for _, k := range seen {
		if k > 1 {
			dup = true
		}
	}
	switch {
	case !known:
		return "unknown-part"
	case !okTags:
		return "wrong-etag"
	case len(seen) == n && !dup && asc:
		return "all"
	case len(seen) == n && !dup:
		return "reordered"
	case len(seen) == n:
		return "all-dup"
	case dup:
		return "subset-dup"
	default:
		return "subset"
	}
}

// ---------------------------------------------------------------------------
// enumeration

func c32BrokerModes(thorough bool) []string {
	m := []string{"ok", "err:3", "err:6", "err:10", "err:-1", "close-on-accept", "close-after-read", "partial-frame", "negative-length", "garbage", "truncated", "empty-topics", "other-partition"}
	if thorough {
		m = append(m, "err:1", "err:2", "err:5", "err:7", "err:19", "err:20", "err:29", "err:87", "err:-32768", "err:32767", "other-topic")
	}
	return m
}

func c32Lists(n int, maxLen int) [][]c32CPart {
	var out [][]c32CPart
	enum.Sequences(n, maxLen, func(seq []int) bool {
		l := make([]c32CPart, len(seq))
		for i, s := range seq {
			l[i] = c32CPart{Part: int32(s + 1), ETag: "ok"}
		}
		out = append(out, l)
		return true
	})
	// wrong / foreign etags and unknown part numbers on the full list
	full := make([]c32CPart, n)
	for i := range full {
		full[i] = c32CPart{Part: int32(i + 1), ETag: "ok"}
	}
	for i := 0; i < n; i++ {
		l := append([]c32CPart(nil), full...)
		l[i].ETag = "wrong"
		out = append(out, l)
		if n > 1 {
			l2 := append([]c32CPart(nil), full...)
			l2[i].ETag = fmt.Sprintf("of:%d", (i+1)%n+1)
			out = append(out, l2)
		}
	}
	out = append(out, append(append([]c32CPart(nil), full...), c32CPart{Part: int32(n + 1), ETag: "ok"}))
	out = append(out, []c32CPart{{Part: int32(n + 1), ETag: "ok"}})
	return out
}

type c32Sum struct{ sum, alg string }

func c32Cases(thorough bool) []c32Case {
	var out []c32Case
	brokers := c32BrokerModes(thorough)
	singleSums := []c32Sum{{"", ""}, {"right", ""}, {"wrong", ""}, {"right", "md5"}, {"wrong", "md5"}, {"", "none"}, {"right", "none"}}
	if thorough {
		singleSums = append(singleSums, c32Sum{"right", "crc32"}, c32Sum{"wrong", "crc32"}, c32Sum{"right", "sha256"})
	}
	// single-shot, small bodies (PutObject path); size 0 is refused by the proxy
	for _, size := range []int64{1, 1000, 0} {
		for _, cs := range singleSums {
			for _, f := range []string{"", "PutObject"} {
				for _, b := range brokers {
					out = append(out, c32Case{Kind: "single", Sizes: []int64{size}, Checksum: cs.sum, ChecksumAlg: cs.alg, Broker: b, S3Fault: f, Partition: int32(len(out) % 2), WithKey: len(out)%3 == 0})
				}
			}
		}
	}
	// single-shot, streamed multipart inside the proxy (5 MiB + 1)
	bigFaults := []string{"", "CompleteMultipartUpload"}
	if thorough {
		bigFaults = []string{"", "CreateMultipartUpload", "UploadPart", "CompleteMultipartUpload"}
	}
	for _, cs := range []c32Sum{{"", ""}, {"right", ""}, {"wrong", ""}} {
		for _, f := range bigFaults {
			for _, b := range brokers {
				out = append(out, c32Case{Kind: "single", Sizes: []int64{c32MiB5 + 1}, Checksum: cs.sum, ChecksumAlg: cs.alg, Broker: b, S3Fault: f})
			}
		}
	}
	sessSums := []c32Sum{{"", ""}, {"right", ""}, {"wrong", ""}}
	// one-part sessions
	for _, size := range []int64{1, 1000} {
		for _, l := range c32Lists(1, 2) {
			for _, cs := range sessSums {
				for _, b := range brokers {
					out = append(out, c32Case{Kind: "session", Sizes: []int64{size}, Complete: l, Checksum: cs.sum, ChecksumAlg: cs.alg, Broker: b})
				}
			}
		}
	}
	// two-part sessions: 5 MiB + 1
	for _, l := range c32Lists(2, 3) {
		for _, cs := range sessSums {
			for _, b := range brokers {
				out = append(out, c32Case{Kind: "session", Sizes: []int64{c32MiB5, 1}, Complete: l, Checksum: cs.sum, ChecksumAlg: cs.alg, Broker: b, Partition: int32(len(out) % 2), WithKey: len(out)%3 == 0})
			}
		}
	}
	// two-part sessions with a longer tail: complete, and each strict subset
	for _, l := range [][]c32CPart{{{1, "ok"}, {2, "ok"}}, {{1, "ok"}}, {{2, "ok"}}} {
		for _, b := range brokers {
			out = append(out, c32Case{Kind: "session", Sizes: []int64{c32MiB5, 1000}, Complete: l, Broker: b})
		}
	}
	// two-part sessions with an S3 fault (full list, all brokers)
	full2 := []c32CPart{{1, "ok"}, {2, "ok"}}
	for _, f := range []string{"CreateMultipartUpload", "UploadPart", "CompleteMultipartUpload", "UploadGone"} {
		for _, b := range brokers {
			out = append(out, c32Case{Kind: "session", Sizes: []int64{c32MiB5, 1}, Complete: full2, Broker: b, S3Fault: f})
		}
	}
	// md5 / none algorithms on sessions
	for _, cs := range []c32Sum{{"right", "md5"}, {"wrong", "md5"}, {"", "none"}, {"right", "none"}} {
		for _, l := range [][]c32CPart{full2, {{1, "ok"}}, {{2, "ok"}}} {
			for _, b := range brokers {
				out = append(out, c32Case{Kind: "session", Sizes: []int64{c32MiB5, 1}, Complete: l, Checksum: cs.sum, ChecksumAlg: cs.alg, Broker: b})
			}
		}
	}
	// sessions in which parts are sent twice (see zz_verif_c32_retry_test.go)
	out = append(out, c32RetryCases(thorough)...)
	if thorough {
		// three-part sessions: 5 MiB + 5 MiB + 1, every list of length 0..4 over {1,2,3}
		for _, l := range c32Lists(3, 4) {
			for _, b := range c32BrokerModes(false) {
				out = append(out, c32Case{Kind: "session", Sizes: []int64{c32MiB5, c32MiB5, 1}, Complete: l, Broker: b})
			}
		}
	}
	return out
}

type c32Found struct {
	Idx    int
	Key    string
	Detail string
	Case   c32Case
}

func TestVerifC32(t *testing.T) {
	rep := vh.New(t, "C32")
	defer rep.Finish()
	rep.Rule = "cases = upload shape (single-shot sizes 0/1/1000/5MiB+1; sessions of 1, 2 (thorough 3) parts) x client checksum (absent/right/wrong, sha256/md5/none) x completion part list (every sequence over the uploaded part numbers up to length parts+1, wrong/foreign etags, unknown part numbers) x scripted broker reply x one S3 operation failure; plus sessions in which parts are sent twice: for every part independently none or one extra PUT before the accepted PUT (S3 UploadPart fails without / after storing the part, body truncated at half / one byte short of its Content-Length, part_size+1 bytes, one byte beyond the declared size, a non-final body below 5 MiB, empty body, part number n+1, the previous part again), every producible combination with >= 1 extra PUT, x checksum x broker ok / error; each case is one complete HTTP conversation on fresh real handlers. Outcome signature = all case dimensions (completion list by class, extra PUTs with the status each PUT got) + final HTTP status + error code. Non-trivial = broker reply other than success, an S3 failure, a wrong checksum, an empty body, a completion list other than exactly the uploaded parts, or >= 1 extra PUT."
	rep.Assumptions = []string{
		"fake s3API follows S3 multipart semantics: CompleteMultipartUpload needs a non-empty, strictly ascending part list whose etags match uploaded parts, every listed part but the last >= 5 MiB, and assembles exactly the listed parts (a subset is legal); PutObject/UploadPart are atomic",
		"fake broker: one produce request per connection is read completely before it replies or closes (except close-on-accept); 'acknowledged without error' = a well-formed ProduceResponse v9 holding the request's topic/partition with error code 0",
		"only the final response of a conversation (POST /lfs/produce or POST .../complete) is an upload success report; init/part responses carry no envelope",
		"a part body cut short by a client disconnect is modelled as net/http presents it to a handler: the delivered bytes, then io.ErrUnexpectedEOF from r.Body (the handlers are called through the mux, not through a TCP server); a client whose PUT was refused or failed sends the same part again with the correct bytes and uses the etag of the last 200 answer for that part number",
	}
	thorough := vh.Thorough()
	cases := c32Cases(thorough)
	rep.SetInfo("cases", len(cases))
	rep.SetInfo("broker_replies", c32BrokerModes(thorough))
	rep.SetInfo("two_part_completion_lists", len(c32Lists(2, 3)))
	rep.SetInfo("extra_put_kinds", c32RetryKinds)
	rep.SetInfo("extra_put_plans_5MiB+1", len(c32RetryPlans([]int64{c32MiB5, 1}, c32MiB5)))

	var rc c32Case
	if ok, err := vh.LoadReplay(&rc); ok {
		if err != nil {
			t.Fatalf("HARNESS-ERROR replay: %v", err)
		}
		br, err := c32NewBroker()
		if err != nil {
			t.Fatalf("HARNESS-ERROR broker: %v", err)
		}
		defer br.close()
		e := &c32Env{broker: br}
		r := e.runCase(rc)
		if r.Err != nil {
			t.Fatalf("HARNESS-ERROR replay case: %v", r.Err)
		}
		rep.Eval(1)
		rep.Outcome(r.Sig, r.NonTrivial)
		rep.Sample(map[string]any{"case": rc, "outcome": r.Sig})
		for _, v := range r.Viols {
			rep.Violation(v.Key, v.Detail, rc)
		}
		return
	}

	deadline := vh.Deadline()
	shard, nshards := vh.Shard()
	workers := runtime.GOMAXPROCS(0)
	if workers > 16 {
		workers = 16
	}
	var mu sync.Mutex
	found := map[string][]c32Found{}
	var harnessErr atomic.Value
	var next, evals, successes, sampled int64
	var capped atomic.Bool
	var wg sync.WaitGroup
	for w := 0; w < workers; w++ {
		wg.Add(1)
		go func() {
			defer wg.Done()
			br, err := c32NewBroker()
			if err != nil {
				harnessErr.Store(fmt.Errorf("broker: %v", err))
				return
			}
			defer br.close()
			e := &c32Env{broker: br}
			for {
				i := int(atomic.AddInt64(&next, 1) - 1)
				if i >= len(cases) || harnessErr.Load() != nil {
					return
				}
				if nshards > 1 && i%nshards != shard {
					continue
				}
				if time.Now().After(deadline) {
					capped.Store(true)
					return
				}
				c := cases[i]
				r := e.runCase(c)
				if r.Err != nil {
					harnessErr.Store(fmt.Errorf("case %d %+v: %v", i, c, r.Err))
					return
				}
				atomic.AddInt64(&evals, 1)
				if r.Success {
					atomic.AddInt64(&successes, 1)
				}
				if c.hasRetry() {
					rep.Count("retry_sessions", 1)
					if r.Success {
						rep.Count("retry_sessions_success", 1)
					}
					for _, a := range r.Attempts {
						rep.Count("extra_put_"+a, 1)
					}
				}
				rep.Outcome(r.Sig, r.NonTrivial)
				if r.NonTrivial && len(r.Viols) == 0 && i%97 == 5 && atomic.AddInt64(&sampled, 1) <= 5 {
					rep.Sample(map[string]any{"case": c, "outcome": r.Sig})
				}
				if len(r.Viols) > 0 {
					mu.Lock()
					for _, v := range r.Viols {
						fsd := append(found[v.Key], c32Found{Idx: i, Key: v.Key, Detail: v.Detail, Case: c})
						sort.Slice(fsd, func(a, b int) bool { return fsd[a].Idx < fsd[b].Idx })
						if len(fsd) > 3 {
							fsd = fsd[:3]
						}
						found[v.Key] = fsd
						rep.Count("violations_"+v.Key, 1)
					}
					mu.Unlock()
					rep.Count("violating_cases", 1)
				}
			}
		}()
	}
	wg.Wait()
	rep.Eval(evals)
	rep.Count("http_success_reports", successes)
	if capped.Load() {
		rep.Cap("deadline hit")
	}
	if err, _ := harnessErr.Load().(error); err != nil {
		t.Fatalf("HARNESS-ERROR %v", err)
	}
	keys := make([]string, 0, len(found))
	for k := range found {
		keys = append(keys, k)
	}
	sort.Strings(keys)
	for _, k := range keys {
		for _, f := range found[k] {
			rep.Violation(f.Key, f.Detail, f.Case)
		}
	}
}
