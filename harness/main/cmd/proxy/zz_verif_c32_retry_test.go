//go:build verif

package main

// C32, conversation dimension "a part is sent twice": before the accepted PUT of a part the client makes
// one extra PUT that the proxy does not store (S3 failure, broken / oversized / undersized body, wrong
// part number) or that repeats the previous part, then sends the part correctly and completes normally.
// The session hashers of the proxy are cumulative, so this is where the digest of the envelope and the
// object assembled by S3 can part ways. The oracle is the one of the other cases (c32 runCase).

import (
	"crypto/sha256"
	"encoding/hex"
	"fmt"
	"io"
	"math/bits"
	"sort"
	"strings"
)

// kinds of the extra PUT, simplest first
var c32RetryKinds = []string{
	"s3-fail",          // correct body, S3 UploadPart fails (nothing stored)
	"s3-fail-stored",   // correct body, S3 stores the part but the call fails (response lost)
	"truncated-half",   // Content-Length = part size, half of it arrives, then the connection breaks
	"truncated-1short", // ... all but the last byte arrive
	"too-large",        // part_size+1 bytes
	"exceeds-declared", // a body <= part_size that overshoots the declared size_bytes by one byte
	"too-small",        // a non-final body below 5 MiB
	"empty",            // no body
	"wrong-number",     // correct body sent to part number n+1 (refused before the body is read)
	"dup-previous",     // the previous, already stored part is sent again (answered 200 with its etag)
}

// mechanism class of a kind, used in violation keys
func c32RetryClass(kind string) string {
	switch kind {
	case "s3-fail", "s3-fail-stored":
		return "s3-upload-failed"
	case "truncated-half", "truncated-1short":
		return "body-truncated"
	case "too-large":
		return "part-too-large"
	case "exceeds-declared":
		return "exceeds-declared-size"
	case "too-small":
		return "part-too-small"
	case "wrong-number":
		return "out-of-order-part"
	case "dup-previous":
		return "duplicate-part"
	}
	return kind
}

type c32Attempt struct {
	Kind       string
	PartNumber int32 // part number in the URL
	Off, End   int64 // content bytes the body delivers
	Declared   int64 // declared Content-Length
	Broken     bool  // after the delivered bytes the body fails with io.ErrUnexpectedEOF (what net/http reports when the connection ends before Content-Length bytes arrived)
	S3Fail     string
}

type c32BrokenBody struct{}

func (c32BrokenBody) Read([]byte) (int, error) { return 0, io.ErrUnexpectedEOF }

func (a c32Attempt) body() io.Reader {
	if a.Broken {
		return io.MultiReader(&c32Gen{a.Off, a.End}, c32BrokenBody{})
	}
	return &c32Gen{a.Off, a.End}
}

// c32PlanAttempt: the extra PUT of the given kind before the accepted PUT of part idx (0-based) of a
// session with these part sizes; ok=false if the kind cannot be produced at that position.
func c32PlanAttempt(kind string, sizes []int64, idx int, partSize int64) (a c32Attempt, ok bool) {
	var off, total int64
	for i, s := range sizes {
		if i < idx {
			off += s
		}
		total += s
	}
	sz := sizes[idx]
	rem := total - off
	pn := int32(idx + 1)
	a = c32Attempt{Kind: kind, PartNumber: pn, Off: off, End: off + sz, Declared: sz}
	switch kind {
	case "s3-fail":
		a.S3Fail = "UploadPart"
	case "s3-fail-stored":
		a.S3Fail = "UploadPart+stored"
	case "truncated-half":
		a.End, a.Broken = off+sz/2, true
	case "truncated-1short":
		if sz-1 == sz/2 {
			return a, false // same as truncated-half
		}
		a.End, a.Broken = off+sz-1, true
	case "too-large":
		a.End, a.Declared = off+partSize+1, partSize+1
	case "exceeds-declared":
		if rem+1 > partSize {
			return a, false // would be refused as too large
		}
		a.End, a.Declared = off+rem+1, rem+1
	case "too-small":
		l := rem / 2
		if l > 1000 {
			l = 1000
		}
		if l < 1 {
			return a, false
		}
		a.End, a.Declared = off+l, l
	case "empty":
		a.End, a.Declared = off, 0
	case "wrong-number":
		a.PartNumber = pn + 1
	case "dup-previous":
		if idx == 0 {
			return a, false
		}
		a.PartNumber = pn - 1
		a.Off, a.End, a.Declared = off-sizes[idx-1], off, sizes[idx-1]
	default:
		return a, false
	}
	return a, true
}

// c32RetryPlans: every assignment "part i -> no extra PUT | one extra PUT of a producible kind" with at
// least one extra PUT, fewest extra PUTs first.
func c32RetryPlans(sizes []int64, partSize int64) [][]string {
	opts := make([][]string, len(sizes))
	for i := range sizes {
		opts[i] = []string{""}
		for _, k := range c32RetryKinds {
			if _, ok := c32PlanAttempt(k, sizes, i, partSize); ok {
				opts[i] = append(opts[i], k)
			}
		}
	}
	var out [][]string
	cur := make([]string, len(sizes))
	var rec func(i int)
	rec = func(i int) {
		if i == len(sizes) {
			n := 0
			for _, k := range cur {
				if k != "" {
					n++
				}
			}
			if n > 0 {
				out = append(out, append([]string(nil), cur...))
			}
			return
		}
		for _, k := range opts[i] {
			cur[i] = k
			rec(i + 1)
		}
	}
	rec(0)
	cnt := func(p []string) int {
		n := 0
		for _, k := range p {
			if k != "" {
				n++
			}
		}
		return n
	}
	sort.SliceStable(out, func(a, b int) bool { return cnt(out[a]) < cnt(out[b]) })
	return out
}

func c32RetryCases(thorough bool) []c32Case {
	var out []c32Case
	sums := []c32Sum{{"", ""}, {"right", ""}, {"", "md5"}, {"right", "md5"}, {"", "none"}}
	if thorough {
		sums = append(sums, c32Sum{"", "crc32"}, c32Sum{"right", "crc32"})
	}
	shapes := [][]int64{{1}, {1000}, {c32MiB5, 1}, {c32MiB5, 1000}}
	if thorough {
		shapes = append(shapes, []int64{c32MiB5, c32MiB5, 1})
	}
	for _, sizes := range shapes {
		full := make([]c32CPart, len(sizes))
		for i := range full {
			full[i] = c32CPart{Part: int32(i + 1), ETag: "ok"}
		}
		for _, plan := range c32RetryPlans(sizes, c32MiB5) {
			for _, cs := range sums {
				for _, b := range []string{"ok", "err:3"} {
					out = append(out, c32Case{Kind: "session", Sizes: sizes, Complete: full, Checksum: cs.sum, ChecksumAlg: cs.alg, Broker: b, Retry: plan, Partition: int32(len(out) % 2), WithKey: len(out)%3 == 0})
				}
			}
		}
	}
	return out
}

// c32Seg is one PUT body of a conversation, in the order sent.
type c32Seg struct {
	Off, End int64
	Accepted bool   // the PUT that delivered the part (answered 200, not an extra PUT)
	Class    string // extra PUTs: mechanism class
}

// c32DiagnoseDigest names the extra PUT whose bytes are part of the envelope digest: it returns the class
// of the first extra PUT of the smallest set of extra PUTs such that SHA-256(bodies of the accepted
// PUTs and of that set, in the order sent) = the envelope's SHA-256; "" if no set explains the digest.
// Only used to give a mismatch (found by the unchanged oracle) a mechanism key.
func c32DiagnoseDigest(segs []c32Seg, envSHA string) string {
	var extra []int
	for i, s := range segs {
		if !s.Accepted && s.End > s.Off {
			extra = append(extra, i)
		}
	}
	if len(extra) == 0 || len(extra) > 6 {
		return ""
	}
	masks := make([]uint, 0, 1<<len(extra))
	for m := uint(1); m < 1<<len(extra); m++ {
		masks = append(masks, m)
	}
	sort.SliceStable(masks, func(a, b int) bool { return bits.OnesCount(masks[a]) < bits.OnesCount(masks[b]) })
	for _, m := range masks {
		h := sha256.New()
		first := ""
		for i, s := range segs {
			use := s.Accepted
			for j, e := range extra {
				if e == i && m&(1<<j) != 0 {
					use = true
					if first == "" {
						first = s.Class
					}
				}
			}
			if use {
				_, _ = io.Copy(h, &c32Gen{s.Off, s.End})
			}
		}
		if strings.EqualFold(hex.EncodeToString(h.Sum(nil)), envSHA) {
			return first
		}
	}
	return ""
}

func c32RetrySig(parts []string) string {
	if len(parts) == 0 {
		return "-"
	}
	return strings.Join(parts, ",")
}

func c32PartPath(uploadID string, pn int32) string {
	return fmt.Sprintf("/lfs/uploads/%s/parts/%d", uploadID, pn)
}
