//go:build verif

package main

// C11 (proxy half): every API version advertised by the proxy is served with a decodable
// reply. Same enumeration and oracle as the broker half (zz_verif_c11_oracle_test.go is a
// byte-identical copy), driven through the real proxy.handleConnection over net.Pipe:
//   mode ready:        static backend = a fake Kafka backend on loopback TCP that answers
//                      every request with a kmsg-encoded reply at the request version
//                      (Produce/Fetch replies mirror the requested topic-partitions so the
//                      proxy's split/merge/re-encode path runs); ApiVersions, Metadata and
//                      FindCoordinator are answered by the proxy itself;
//   mode notready:     proxy not ready -> buildNotReadyResponse for every key;
//   mode backend-down: ready, but the only backend refuses connections -> the proxy's
//                      locally built error replies (respondBackendError, merged
//                      REQUEST_TIMED_OUT produce/fetch replies). A reply is not demanded
//                      in this mode, only that any reply decodes.

import (
	"context"
	"encoding/binary"
	"errors"
	"fmt"
	"io"
	"log/slog"
	"net"
	"os"
	"strconv"
	"testing"
	"time"

	"github.com/KafScale/platform/internal/verif/enum"
	"github.com/KafScale/platform/internal/verif/vh"
	"github.com/KafScale/platform/pkg/metadata"
	"github.com/KafScale/platform/pkg/protocol"
	"github.com/twmb/franz-go/pkg/kmsg"
)

const vC11SentinelCorr = int32(0x5E171E1)

// vC11MarkerCorr: after consuming a Produce acks=0 request (which gets no reply) the fake
// backend volunteers one frame with this correlation id. A proxy that correctly fires and
// forgets never reads it; a proxy that (wrongly) waits for a backend reply to the acks=0
// request relays it to the client. This turns "the proxy would hang forever on a real
// broker" into a deterministic, timeout-free observation.
const vC11MarkerCorr = int32(0x0ACC5000)

var vC11TopicID = [16]byte{1, 0, 0, 0, 0, 0, 0, 0, 0, 0, 0, 0, 0, 0, 0, 0x77}

// vC11Backend is a minimal fake Kafka broker: it parses each frame with the repo's
// protocol.ParseRequest and answers with the default response of the request's kind at the
// request version (Produce/Fetch mirror the request's topic-partitions; acks=0 gets none).
type vC11Backend struct {
	ln    net.Listener
	batch []byte
}

func vC11StartBackend() (*vC11Backend, error) {
	ln, err := net.Listen("tcp", "127.0.0.1:0")
	if err != nil {
		return nil, err
	}
	b := &vC11Backend{ln: ln, batch: enum.SimpleBatch("c11", 1, 4)}
	go func() {
		for {
			c, err := ln.Accept()
			if err != nil {
				return
			}
			go b.serve(c)
		}
	}()
	return b, nil
}

func (b *vC11Backend) serve(conn net.Conn) {
	defer conn.Close()
	for {
		frame, err := protocol.ReadFrame(conn)
		if err != nil {
			return
		}
		header, req, err := protocol.ParseRequest(frame.Payload)
		if err != nil {
			return // like a real broker: drop the connection
		}
		resp := req.ResponseKind()
		switch r := req.(type) {
		case *kmsg.ProduceRequest:
			if r.Acks == 0 {
				var m [4]byte
				binary.BigEndian.PutUint32(m[:], uint32(vC11MarkerCorr))
				_ = protocol.WriteFrame(conn, m[:])
				continue
			}
			pr := resp.(*kmsg.ProduceResponse)
			for _, t := range r.Topics {
				rt := kmsg.NewProduceResponseTopic()
				rt.Topic = t.Topic
				for _, p := range t.Partitions {
					rp := kmsg.NewProduceResponseTopicPartition()
					rp.Partition = p.Partition
					rp.BaseOffset = 7
					rt.Partitions = append(rt.Partitions, rp)
				}
				pr.Topics = append(pr.Topics, rt)
			}
		case *kmsg.FetchRequest:
			fr := resp.(*kmsg.FetchResponse)
			for _, t := range r.Topics {
				rt := kmsg.NewFetchResponseTopic()
				rt.Topic = t.Topic
				rt.TopicID = t.TopicID
				for _, p := range t.Partitions {
					rp := kmsg.NewFetchResponseTopicPartition()
					rp.Partition = p.Partition
					rp.HighWatermark = 1
					rp.LastStableOffset = 1
					rp.RecordBatches = b.batch
					rt.Partitions = append(rt.Partitions, rp)
				}
				fr.Topics = append(fr.Topics, rt)
			}
		case *kmsg.JoinGroupRequest:
			jr := resp.(*kmsg.JoinGroupResponse)
			jr.Generation = 1
			jr.Protocol = kmsg.StringPtr("range")
			jr.LeaderID = "m1"
			jr.MemberID = "m1"
		}
		if err := protocol.WriteFrame(conn, protocol.EncodeResponse(header.CorrelationID, header.APIVersion, resp)); err != nil {
			return
		}
	}
}

func vC11ClosedAddr() (string, error) {
	ln, err := net.Listen("tcp", "127.0.0.1:0")
	if err != nil {
		return "", err
	}
	a := ln.Addr().String()
	_ = ln.Close()
	return a, nil
}

func vC11Meta(backendAddr string) metadata.ClusterMetadata {
	name := "t"
	cid := "verif"
	var parts []protocol.MetadataPartition
	for i := int32(0); i < 2; i++ {
		parts = append(parts, protocol.MetadataPartition{Partition: i, Leader: 1, Replicas: []int32{1}, ISR: []int32{1}})
	}
	m := metadata.ClusterMetadata{ControllerID: 1, ClusterID: &cid,
		Topics: []protocol.MetadataTopic{{Topic: &name, TopicID: vC11TopicID, Partitions: parts}}}
	if backendAddr != "" {
		host, port, _ := net.SplitHostPort(backendAddr)
		pn, _ := strconv.Atoi(port)
		m.Brokers = []protocol.MetadataBroker{{NodeID: 1, Host: host, Port: int32(pn)}}
	}
	return m
}

// vC11NewProxy builds the proxy the way main() does (static backends, in-memory store, no
// etcd routers, no LFS).
func vC11NewProxy(mode, backendAddr string) *proxy {
	p := &proxy{
		addr:           ":9092",
		advertisedHost: "proxy.verif",
		advertisedPort: 9092,
		logger:         slog.New(slog.NewTextHandler(io.Discard, nil)),
		dialTimeout:    5 * time.Second,
		cacheTTL:       60 * time.Second,
		apiVersions:    generateProxyApiVersions(),
		brokerAddrs:    make(map[string]string),
		topicNames:     make(map[[16]byte]string),
		backendRetries: 1,
		backendBackoff: time.Millisecond,
	}
	if mode == "notready" {
		p.store = metadata.NewInMemoryStore(vC11Meta(""))
		p.setReady(false)
		return p
	}
	p.store = metadata.NewInMemoryStore(vC11Meta(backendAddr))
	p.backends = []string{backendAddr}
	p.setCachedBackends(p.backends)
	p.touchHealthy()
	p.setReady(true)
	return p
}

// vC11ProxyExchange runs the real handleConnection on one end of a net.Pipe, writes the
// request followed by a sentinel ApiVersions v0 request (answered by the proxy itself in
// every mode) and reads frames until the sentinel's reply or EOF. Deterministic: what
// arrives before the sentinel's reply belongs to the request; no timeouts in the verdict.
func vC11ProxyExchange(p *proxy, wire []byte) (got vC11Got, awaitsAcks0 bool, err error) {
	client, server := net.Pipe()
	done := make(chan string, 1)
	ctx, cancel := context.WithCancel(context.Background())
	defer cancel()
	go func() {
		defer func() {
			if r := recover(); r != nil {
				_ = server.Close()
				done <- fmt.Sprint(r)
				return
			}
			done <- ""
		}()
		p.handleConnection(ctx, server)
	}()
	sent := kmsg.NewPtrApiVersionsRequest()
	sent.Version = 0
	go func() {
		_, _ = client.Write(wire)
		_, _ = client.Write(vC11Format(sent, vC11SentinelCorr))
	}()
	_ = client.SetReadDeadline(time.Now().Add(30 * time.Second)) // liveness guard only: expiry is a harness error, never a verdict
	for {
		f, rerr := protocol.ReadFrame(client)
		if rerr != nil {
			if errors.Is(rerr, os.ErrDeadlineExceeded) {
				return got, false, fmt.Errorf("proxy did not answer or close within the liveness guard")
			}
			got.Closed = true
			break
		}
		if len(f.Payload) >= 4 && int32(binary.BigEndian.Uint32(f.Payload[:4])) == vC11SentinelCorr {
			break
		}
		if len(f.Payload) == 4 && int32(binary.BigEndian.Uint32(f.Payload[:4])) == vC11MarkerCorr {
			awaitsAcks0 = true
			continue
		}
		got.Frames = append(got.Frames, f.Payload)
		if len(got.Frames) > 4 {
			break
		}
	}
	_ = client.Close()
	if pmsg := <-done; pmsg != "" {
		got.Panic = pmsg
	}
	return got, awaitsAcks0, nil
}

func TestVerifC11(t *testing.T) {
	rep := vh.New(t, "C11")
	defer rep.Finish()
	rep.Rule = vC11Rule
	rep.Assumptions = []string{
		"proxy half: proxy built like main() with a static backend list, metadata.InMemoryStore, no etcd partition/group routers, no LFS; driven through the real handleConnection over net.Pipe",
		"ready mode: the backend is a fake Kafka broker on loopback TCP answering every request with a kmsg-encoded reply at the request version (Produce/Fetch mirror the topic-partitions); replies relayed verbatim by the proxy therefore only show that the proxy keeps frame, correlation id and header intact",
		"backend-down mode: a reply is not demanded (the statement presumes a serving broker); any reply must still decode",
		"standard client codec = franz-go kmsg v1.12; KIP-511 v0 downgrade accepted for ApiVersions at non-advertised versions; an ApiVersions entry with MaxVersion<0 advertises no version",
	}
	backend, err := vC11StartBackend()
	if err != nil {
		t.Fatalf("HARNESS-ERROR loopback listener: %v", err)
	}
	defer backend.ln.Close()
	deadAddr, err := vC11ClosedAddr()
	if err != nil {
		t.Fatalf("HARNESS-ERROR loopback listener: %v", err)
	}
	addrFor := func(mode string) string {
		if mode == "backend-down" {
			return deadAddr
		}
		return backend.ln.Addr().String()
	}

	// advertised set: the real function and the proxy's real ApiVersions v0 reply
	probe := kmsg.NewPtrApiVersionsRequest()
	probe.Version = 0
	g0, _, err := vC11ProxyExchange(vC11NewProxy("ready", addrFor("ready")), vC11Format(probe, 77))
	if err != nil {
		t.Fatalf("HARNESS-ERROR %v", err)
	}
	var fromReply []kmsg.ApiVersionsResponseApiKey
	if len(g0.Frames) == 1 && len(g0.Frames[0]) > 4 {
		ar := kmsg.NewPtrApiVersionsResponse()
		ar.Version = 0
		if ar.ReadFrom(g0.Frames[0][4:]) == nil {
			fromReply = ar.ApiKeys
		}
	}
	if len(fromReply) == 0 {
		rep.Violation("apiversions-v0-unusable:ApiVersions", "the proxy's ApiVersions v0 reply could not be decoded; advertised set taken from generateProxyApiVersions() only", vC11Case{Half: "proxy", Mode: "ready", Key: 18, Version: 0, Body: "empty"})
	}
	keys, adv, listed := vC11Advertised(generateProxyApiVersions(), fromReply)
	advInfo := map[string]string{}
	nAdv := 0
	for _, k := range keys {
		if a, ok := adv[k]; ok {
			advInfo[fmt.Sprintf("%d %s", k, vC11Name(k))] = fmt.Sprintf("%d-%d", a.Min, a.Max)
			nAdv += int(a.Max-a.Min) + 1
		} else {
			advInfo[fmt.Sprintf("%d %s", k, vC11Name(k))] = "listed, no version advertised"
		}
	}
	rep.SetInfo("proxy_advertised", advInfo)
	rep.SetInfo("proxy_advertised_pairs", nAdv)
	below, above := vC11Window()
	rep.SetInfo("version_window", fmt.Sprintf("min-%d .. max+%d per listed key", below, above))

	cases := vC11Cases("proxy", []string{"static"}, []string{"ready", "notready", "backend-down"}, keys, adv, listed)
	var only vC11Case
	if replaying, err := vh.LoadReplay(&only); replaying {
		if err != nil {
			t.Fatalf("HARNESS-ERROR replay: %v", err)
		}
		if only.Half != "proxy" {
			t.Skipf("replay is for half %q", only.Half)
		}
		cases = vC11Select(cases, only)
	}
	rep.SetInfo("proxy_cases", len(cases))

	fx := &vC11Fx{Topic: "t", TopicID: vC11TopicID, Group: "g", MemberID: "m1", Generation: 1, Batch: enum.SimpleBatch("c11", 1, 4)}
	shard, nshards := vh.Shard()
	deadline := vh.Deadline()
	corr := int32(5000)
	for i, c := range cases {
		if i%nshards != shard {
			continue
		}
		if time.Now().After(deadline) {
			rep.Cap(fmt.Sprintf("deadline reached after %d of %d cases", i, len(cases)))
			break
		}
		corr++
		req := vC11FindBody(c.Key, c.Body).Build(c.Version, fx)
		if req == nil {
			t.Fatalf("HARNESS-ERROR kmsg has no request type for listed key %d", c.Key)
		}
		p := vC11NewProxy(c.Mode, addrFor(c.Mode))
		got, awaits, err := vC11ProxyExchange(p, vC11Format(req, corr))
		if err != nil {
			t.Fatalf("HARNESS-ERROR %v (case %+v)", err, c)
		}
		if awaits {
			// not a C11 verdict (acks=0 needs no reply); recorded as an observation
			rep.Count("proxy_awaits_backend_reply_to_acks0_produce", 1)
			vC11Note(rep, c, "awaits-acks0-reply")
		}
		mustReply := c.Advertised && !vC11ProduceAcks0(req) && c.Mode != "backend-down"
		vC11Judge(rep, c, req, corr, got, mustReply)
	}
}
