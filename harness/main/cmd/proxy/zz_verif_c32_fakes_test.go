//go:build verif

package main

// Fakes for C32: an s3API with S3's multipart rules and a scripted Kafka broker.

import (
	"context"
	"crypto/sha256"
	"encoding/binary"
	"encoding/hex"
	"errors"
	"fmt"
	"hash/crc32"
	"io"
	"net"
	"strconv"
	"strings"
	"sync"

	"github.com/aws/aws-sdk-go-v2/aws"
	"github.com/aws/aws-sdk-go-v2/service/s3"
	"github.com/aws/aws-sdk-go-v2/service/s3/types"
	"github.com/aws/smithy-go"
	"github.com/twmb/franz-go/pkg/kmsg"
)

// ---------------------------------------------------------------------------
// fake S3

type c32Obj struct {
	chunks [][]byte // the object is the concatenation (parts are kept, not copied)
	size   int64
}

type c32Part struct {
	data []byte
	etag string
}

type c32Upload struct {
	key   string
	parts map[int32]*c32Part
}

type c32S3 struct {
	mu      sync.Mutex
	objects map[string]*c32Obj
	uploads map[string]*c32Upload
	nextID  int
	fail    string // operation name that fails on its next call (once); "UploadPart+stored" = the part is stored, then the call fails
}

func c32NewS3() *c32S3 {
	return &c32S3{objects: map[string]*c32Obj{}, uploads: map[string]*c32Upload{}}
}

// dropUploads forgets every in-progress multipart upload (aborted / expired on the S3 side).
func (f *c32S3) dropUploads() {
	f.mu.Lock()
	f.uploads = map[string]*c32Upload{}
	f.mu.Unlock()
}

func (f *c32S3) failNext(op string) {
	f.mu.Lock()
	f.fail = op
	f.mu.Unlock()
}

// injected reports (and consumes) a scripted failure for op. Caller holds f.mu.
func (f *c32S3) injected(op string) error {
	if f.fail == op && op != "" {
		f.fail = ""
		return &smithy.GenericAPIError{Code: "InternalError", Message: "c32: injected failure of " + op}
	}
	return nil
}

func c32APIErr(code, msg string) error { return &smithy.GenericAPIError{Code: code, Message: msg} }

// stat returns size and SHA-256 of an object.
func (f *c32S3) stat(key string) (int64, string, bool) {
	f.mu.Lock()
	o, ok := f.objects[key]
	f.mu.Unlock()
	if !ok {
		return 0, "", false
	}
	h := sha256.New()
	for _, c := range o.chunks {
		h.Write(c)
	}
	return o.size, hex.EncodeToString(h.Sum(nil)), true
}

func c32ReadBody(r io.Reader) ([]byte, error) {
	if r == nil {
		return []byte{}, nil
	}
	return io.ReadAll(r)
}

// c32ETag: an opaque, content-derived, quoted 32-hex-digit tag (S3 uses MD5; any
// content hash serves, CRC-32C is cheap on 5 MiB parts).
func c32ETag(b []byte) string {
	return fmt.Sprintf("\"%08x%08x%016x\"", crc32.Checksum(b, c32CRCTable), crc32.ChecksumIEEE(b[:len(b)/2]), len(b))
}

var c32CRCTable = crc32.MakeTable(crc32.Castagnoli)

func (f *c32S3) CreateMultipartUpload(ctx context.Context, p *s3.CreateMultipartUploadInput, o ...func(*s3.Options)) (*s3.CreateMultipartUploadOutput, error) {
	f.mu.Lock()
	defer f.mu.Unlock()
	if err := f.injected("CreateMultipartUpload"); err != nil {
		return nil, err
	}
	if p.Key == nil || *p.Key == "" {
		return nil, c32APIErr("InvalidRequest", "key required")
	}
	f.nextID++
	id := "c32-upload-" + strconv.Itoa(f.nextID)
	f.uploads[id] = &c32Upload{key: *p.Key, parts: map[int32]*c32Part{}}
	return &s3.CreateMultipartUploadOutput{UploadId: &id, Key: p.Key, Bucket: p.Bucket}, nil
}

func (f *c32S3) UploadPart(ctx context.Context, p *s3.UploadPartInput, o ...func(*s3.Options)) (*s3.UploadPartOutput, error) {
	data, err := c32ReadBody(p.Body)
	if err != nil {
		return nil, err
	}
	f.mu.Lock()
	defer f.mu.Unlock()
	if err := f.injected("UploadPart"); err != nil {
		return nil, err
	}
	// "UploadPart+stored": S3 stored the part but the caller sees a failure (response lost)
	lateErr := f.injected("UploadPart+stored")
	if p.UploadId == nil || p.Key == nil || p.PartNumber == nil {
		return nil, c32APIErr("InvalidRequest", "missing field")
	}
	u, ok := f.uploads[*p.UploadId]
	if !ok || u.key != *p.Key {
		return nil, c32APIErr("NoSuchUpload", "The specified upload does not exist")
	}
	if *p.PartNumber < 1 || *p.PartNumber > 10000 {
		return nil, c32APIErr("InvalidArgument", "Part number must be an integer between 1 and 10000, inclusive")
	}
	et := c32ETag(data)
	u.parts[*p.PartNumber] = &c32Part{data: data, etag: et}
	if lateErr != nil {
		return nil, lateErr
	}
	return &s3.UploadPartOutput{ETag: &et}, nil
}

func (f *c32S3) CompleteMultipartUpload(ctx context.Context, p *s3.CompleteMultipartUploadInput, o ...func(*s3.Options)) (*s3.CompleteMultipartUploadOutput, error) {
	f.mu.Lock()
	defer f.mu.Unlock()
	if err := f.injected("CompleteMultipartUpload"); err != nil {
		return nil, err
	}
	if p.UploadId == nil || p.Key == nil {
		return nil, c32APIErr("InvalidRequest", "missing field")
	}
	u, ok := f.uploads[*p.UploadId]
	if !ok || u.key != *p.Key {
		return nil, &types.NoSuchUpload{Message: aws.String("The specified upload does not exist")}
	}
	if p.MultipartUpload == nil || len(p.MultipartUpload.Parts) == 0 {
		return nil, c32APIErr("MalformedXML", "You must specify at least one part")
	}
	list := p.MultipartUpload.Parts
	obj := &c32Obj{}
	prev := int32(0)
	for i, cp := range list {
		if cp.PartNumber == nil || cp.ETag == nil {
			return nil, c32APIErr("MalformedXML", "part number and etag required")
		}
		if *cp.PartNumber <= prev {
			return nil, c32APIErr("InvalidPartOrder", "The list of parts was not in ascending order")
		}
		prev = *cp.PartNumber
		part, ok := u.parts[*cp.PartNumber]
		if !ok || strings.Trim(part.etag, "\"") != strings.Trim(*cp.ETag, "\"") {
			return nil, c32APIErr("InvalidPart", "One or more of the specified parts could not be found or the entity tag did not match")
		}
		if i < len(list)-1 && int64(len(part.data)) < 5<<20 {
			return nil, c32APIErr("EntityTooSmall", "Your proposed upload is smaller than the minimum allowed size")
		}
		obj.chunks = append(obj.chunks, part.data)
		obj.size += int64(len(part.data))
	}
	f.objects[u.key] = obj
	delete(f.uploads, *p.UploadId)
	return &s3.CompleteMultipartUploadOutput{Key: p.Key, Bucket: p.Bucket}, nil
}

func (f *c32S3) AbortMultipartUpload(ctx context.Context, p *s3.AbortMultipartUploadInput, o ...func(*s3.Options)) (*s3.AbortMultipartUploadOutput, error) {
	f.mu.Lock()
	defer f.mu.Unlock()
	if p.UploadId == nil {
		return nil, c32APIErr("InvalidRequest", "missing field")
	}
	if _, ok := f.uploads[*p.UploadId]; !ok {
		return nil, c32APIErr("NoSuchUpload", "The specified upload does not exist")
	}
	delete(f.uploads, *p.UploadId)
	return &s3.AbortMultipartUploadOutput{}, nil
}

func (f *c32S3) PutObject(ctx context.Context, p *s3.PutObjectInput, o ...func(*s3.Options)) (*s3.PutObjectOutput, error) {
	data, err := c32ReadBody(p.Body)
	if err != nil {
		return nil, err
	}
	f.mu.Lock()
	defer f.mu.Unlock()
	if err := f.injected("PutObject"); err != nil {
		return nil, err
	}
	if p.Key == nil || *p.Key == "" {
		return nil, c32APIErr("InvalidRequest", "key required")
	}
	if p.ContentLength != nil && *p.ContentLength != int64(len(data)) {
		return nil, c32APIErr("IncompleteBody", fmt.Sprintf("content length %d, body %d", *p.ContentLength, len(data)))
	}
	f.objects[*p.Key] = &c32Obj{chunks: [][]byte{data}, size: int64(len(data))}
	et := c32ETag(data)
	return &s3.PutObjectOutput{ETag: &et}, nil
}

func (f *c32S3) GetObject(ctx context.Context, p *s3.GetObjectInput, o ...func(*s3.Options)) (*s3.GetObjectOutput, error) {
	return nil, errors.New("c32 fake s3: GetObject not used")
}

func (f *c32S3) DeleteObject(ctx context.Context, p *s3.DeleteObjectInput, o ...func(*s3.Options)) (*s3.DeleteObjectOutput, error) {
	f.mu.Lock()
	defer f.mu.Unlock()
	if p.Key != nil {
		delete(f.objects, *p.Key)
	}
	return &s3.DeleteObjectOutput{}, nil
}

func (f *c32S3) HeadBucket(ctx context.Context, p *s3.HeadBucketInput, o ...func(*s3.Options)) (*s3.HeadBucketOutput, error) {
	return &s3.HeadBucketOutput{}, nil
}

func (f *c32S3) CreateBucket(ctx context.Context, p *s3.CreateBucketInput, o ...func(*s3.Options)) (*s3.CreateBucketOutput, error) {
	return &s3.CreateBucketOutput{}, nil
}

// ---------------------------------------------------------------------------
// fake Kafka broker

// c32Event is what the broker saw and did on one connection.
type c32Event struct {
	Parsed       bool // a produce request was read and decoded
	APIVersion   int16
	Topic        string
	Partition    int32
	Records      []byte
	Sent         string // "nothing" | "bytes" (not a full frame) | "frame"
	WellFormed   bool   // the frame sent is a decodable ProduceResponse for this request
	HasPartition bool   // ... and it holds a result for the request's topic/partition
	Code         int16  // ... with this error code
}

// Broker behaviours (script):
//
//	ok                 ProduceResponse, error code 0 for the request's partition
//	err:N              ProduceResponse, error code N
//	empty-topics       ProduceResponse without any topic
//	other-partition    ProduceResponse acknowledging partition+1 (code 0) only
//	other-topic        ProduceResponse acknowledging another topic (code 0) only
//	garbage            a frame of 7 bytes 0xff
//	truncated          the first half of the "ok" response as a complete frame
//	negative-length    the 4 bytes ff ff ff ff, then close
//	partial-frame      the first 2 bytes of a frame, then close
//	close-after-read   read the request, close without replying
//	close-on-accept    close without reading
type c32Broker struct {
	ln     net.Listener
	mu     sync.Mutex
	mode   string
	events []c32Event
	wg     sync.WaitGroup
}

func c32NewBroker() (*c32Broker, error) {
	ln, err := net.Listen("tcp", "127.0.0.1:0")
	if err != nil {
		return nil, err
	}
	b := &c32Broker{ln: ln, mode: "ok"}
	b.wg.Add(1)
	go func() {
		defer b.wg.Done()
		for {
			conn, err := ln.Accept()
			if err != nil {
				return
			}
			b.wg.Add(1)
			go func() {
				defer b.wg.Done()
				b.serve(conn)
			}()
		}
	}()
	return b, nil
}

func (b *c32Broker) addr() string { return b.ln.Addr().String() }
func (b *c32Broker) close() {
	_ = b.ln.Close()
	b.wg.Wait()
}
func (b *c32Broker) script(mode string) {
	b.mu.Lock()
	b.mode = mode
	b.events = nil
	b.mu.Unlock()
}
func (b *c32Broker) drain() []c32Event {
	b.mu.Lock()
	defer b.mu.Unlock()
	ev := b.events
	b.events = nil
	return ev
}
func (b *c32Broker) record(ev c32Event) {
	b.mu.Lock()
	b.events = append(b.events, ev)
	b.mu.Unlock()
}

func (b *c32Broker) serve(conn net.Conn) {
	defer conn.Close()
	b.mu.Lock()
	mode := b.mode
	b.mu.Unlock()
	if mode == "close-on-accept" {
		b.record(c32Event{Sent: "nothing"})
		return
	}
	for {
		var lb [4]byte
		if _, err := io.ReadFull(conn, lb[:]); err != nil {
			return // client closed
		}
		n := int32(binary.BigEndian.Uint32(lb[:]))
		if n < 0 || n > 64<<20 {
			b.record(c32Event{Sent: "nothing"})
			return
		}
		payload := make([]byte, n)
		if _, err := io.ReadFull(conn, payload); err != nil {
			b.record(c32Event{Sent: "nothing"})
			return
		}
		ev, corr := c32ParseProduce(payload)
		if !ev.Parsed {
			ev.Sent = "nothing"
			b.record(ev)
			return
		}
		var out []byte // bytes to put on the wire
		closeAfter := false
		mkResp := func(topic string, partition int32, code int16, withTopic bool) []byte {
			resp := kmsg.NewPtrProduceResponse()
			resp.Version = ev.APIVersion
			if withTopic {
				rt := kmsg.NewProduceResponseTopic()
				rt.Topic = topic
				rp := kmsg.NewProduceResponseTopicPartition()
				rp.Partition = partition
				rp.ErrorCode = code
				rp.BaseOffset = 42
				if code != 0 {
					rp.BaseOffset = -1
				}
				rt.Partitions = append(rt.Partitions, rp)
				resp.Topics = append(resp.Topics, rt)
			}
			var body []byte
			body = binary.BigEndian.AppendUint32(body, uint32(corr))
			if resp.IsFlexible() {
				body = append(body, 0) // response header v1: no tagged fields
			}
			return resp.AppendTo(body)
		}
		frame := func(p []byte) []byte {
			return append(binary.BigEndian.AppendUint32(nil, uint32(len(p))), p...)
		}
		switch {
		case mode == "ok":
			out = frame(mkResp(ev.Topic, ev.Partition, 0, true))
			ev.Sent, ev.WellFormed, ev.HasPartition, ev.Code = "frame", true, true, 0
		case strings.HasPrefix(mode, "err:"):
			c, _ := strconv.Atoi(mode[4:])
			out = frame(mkResp(ev.Topic, ev.Partition, int16(c), true))
			ev.Sent, ev.WellFormed, ev.HasPartition, ev.Code = "frame", true, true, int16(c)
		case mode == "empty-topics":
			out = frame(mkResp("", 0, 0, false))
			ev.Sent, ev.WellFormed = "frame", true
		case mode == "other-partition":
			out = frame(mkResp(ev.Topic, ev.Partition+1, 0, true))
			ev.Sent, ev.WellFormed = "frame", true
		case mode == "other-topic":
			out = frame(mkResp(ev.Topic+"-x", ev.Partition, 0, true))
			ev.Sent, ev.WellFormed = "frame", true
		case mode == "garbage":
			out = frame([]byte{0xff, 0xff, 0xff, 0xff, 0xff, 0xff, 0xff})
			ev.Sent = "frame"
		case mode == "truncated":
			full := mkResp(ev.Topic, ev.Partition, 0, true)
			out = frame(full[:len(full)/2])
			ev.Sent = "frame"
		case mode == "negative-length":
			out = []byte{0xff, 0xff, 0xff, 0xff}
			ev.Sent, closeAfter = "bytes", true
		case mode == "partial-frame":
			out = frame(mkResp(ev.Topic, ev.Partition, 0, true))[:2]
			ev.Sent, closeAfter = "bytes", true
		case mode == "close-after-read":
			ev.Sent, closeAfter = "nothing", true
		default:
			ev.Sent, closeAfter = "nothing", true
		}
		b.record(ev) // recorded before the reply is visible to the proxy
		if len(out) > 0 {
			if _, err := conn.Write(out); err != nil {
				return
			}
		}
		if closeAfter {
			return
		}
	}
}

// c32ParseProduce decodes request header v1/v2 + ProduceRequest.
func c32ParseProduce(p []byte) (ev c32Event, corr int32) {
	if len(p) < 10 {
		return
	}
	apiKey := int16(binary.BigEndian.Uint16(p[0:2]))
	ver := int16(binary.BigEndian.Uint16(p[2:4]))
	corr = int32(binary.BigEndian.Uint32(p[4:8]))
	cl := int16(binary.BigEndian.Uint16(p[8:10]))
	pos := 10
	if cl > 0 {
		pos += int(cl)
	}
	if apiKey != 0 || pos > len(p) {
		return
	}
	req := kmsg.NewPtrProduceRequest()
	req.Version = ver
	if req.IsFlexible() {
		// tagged fields of the request header: a uvarint count, expected 0
		if pos >= len(p) || p[pos] != 0 {
			return
		}
		pos++
	}
	if err := req.ReadFrom(p[pos:]); err != nil {
		return
	}
	if len(req.Topics) != 1 || len(req.Topics[0].Partitions) != 1 {
		return
	}
	ev.Parsed = true
	ev.APIVersion = ver
	ev.Topic = req.Topics[0].Topic
	ev.Partition = req.Topics[0].Partitions[0].Partition
	ev.Records = append([]byte(nil), req.Topics[0].Partitions[0].Records...)
	return
}
