//go:build verif

package main

import (
	"fmt"
	"net"
	"sort"
	"strings"
	"sync"
	"sync/atomic"
	"time"

	"github.com/KafScale/platform/internal/verif/vh"
	"github.com/KafScale/platform/pkg/protocol"
)

// C27, session dimension. A client session is ONE client connection served by the real
// proxy.handleConnection: it owns one connPool, so the backend connections opened for an earlier
// request are reused by later ones. A session case is a world (shape, routing table, round-robin
// phase) plus a sequence of produce / fetch requests, each naming a non-empty subset of the
// world's partitions; the client sends request i+1 after it has read the reply to request i.
// The behaviour slots ("A0", "A1", ...) count a backend's requests over the whole session, so a
// non-ok behaviour can be placed on a request that arrives on a reused connection as well as on
// a fresh one. Besides the single-request behaviours a backend may answer ok and then close the
// connection ("okClose": the pooled connection is dead when the next request borrows it).
//
// Oracle: c27Check per request, over the backend arrivals that happened while that request was
// in flight. Produce record bytes name their request, so a backend that is handed the records of
// an earlier request again is noticed as well.

type c27SessionSpec struct {
	Topics int      `json:"topics"`
	Parts  int      `json:"parts"`
	Kinds  []string `json:"kinds"`
	Masks  []int    `json:"masks"`
	Length int      `json:"requests"`
	Faults int      `json:"max_faults"`
	// Need, when set: only sequences with at least one request of these kinds (the others are
	// already covered by another spec of the tier)
	Need []string `json:"at_least_one_of,omitempty"`
}

func c27SessionSpecs(thorough bool) []c27SessionSpec {
	if thorough {
		return []c27SessionSpec{
			{Topics: 1, Parts: 2, Kinds: []string{"produce-v9-acks1", "fetch-name-v11"}, Masks: []int{1, 2, 3}, Length: 2, Faults: 3},
			{Topics: 1, Parts: 2, Kinds: []string{"produce-v7-acksall", "fetch-id-v13", "produce-v9-acks1", "fetch-name-v11"}, Masks: []int{1, 3}, Length: 2, Faults: 2, Need: []string{"produce-v7-acksall", "fetch-id-v13"}},
			{Topics: 1, Parts: 2, Kinds: []string{"produce-v9-acks1", "fetch-name-v11"}, Masks: []int{1, 3}, Length: 3, Faults: 2},
		}
	}
	return []c27SessionSpec{
		{Topics: 1, Parts: 2, Kinds: []string{"produce-v9-acks1", "fetch-name-v11"}, Masks: []int{1, 2, 3}, Length: 2, Faults: 2},
	}
}

func c27SessionBounds(thorough bool) any { return c27SessionSpecs(thorough) }

// c27Sessions lists the session cases (without scripts), simplest first. The world's kind
// ("session-f2") carries the fault budget of its spec (see c27SessionFaults).
func c27Sessions(thorough bool) []c27Case {
	var out []c27Case
	for _, sp := range c27SessionSpecs(thorough) {
		n := sp.Topics * sp.Parts
		tables := 1
		for i := 0; i < n; i++ {
			tables *= 3
		}
		var alphabet []c27Step
		for _, m := range sp.Masks {
			for _, k := range sp.Kinds {
				alphabet = append(alphabet, c27Step{Kind: k, Mask: m})
			}
		}
		seqs := 1
		for i := 0; i < sp.Length; i++ {
			seqs *= len(alphabet)
		}
		for s := 0; s < seqs; s++ {
			steps := make([]c27Step, sp.Length)
			x := s
			for i := sp.Length - 1; i >= 0; i-- {
				steps[i] = alphabet[x%len(alphabet)]
				x /= len(alphabet)
			}
			if len(sp.Need) > 0 {
				has := false
				for _, st := range steps {
					for _, k := range sp.Need {
						has = has || st.Kind == k
					}
				}
				if !has {
					continue
				}
			}
			for r := 0; r < tables; r++ {
				routes := make([]int, n)
				y := r
				for i := 0; i < n; i++ {
					routes[i] = y % 3
					y /= 3
				}
				for rr := uint32(0); rr < 2; rr++ {
					out = append(out, c27Case{
						Config: c27Config{Kind: fmt.Sprintf("session-f%d", sp.Faults), Topics: sp.Topics, Parts: sp.Parts, Routes: routes, RR: rr},
						Steps:  steps,
					})
				}
			}
		}
	}
	return out
}

// c27SessionFaults reads the fault budget out of the world's kind ("session-f2").
func c27SessionFaults(world c27Config) int {
	f := 2
	fmt.Sscanf(world.Kind, "session-f%d", &f)
	return f
}

func c27StepConfig(world c27Config, st c27Step, i int) c27Config {
	sc := world
	sc.Kind = st.Kind
	sc.Mask = st.Mask
	sc.step = i + 1
	return sc
}

func (s c27Step) String() string {
	return fmt.Sprintf("%s{mask %d}", s.Kind, s.Mask)
}

type c27SessionOutcome struct {
	Cfgs     []c27Config  // per request sent
	Steps    []c27Outcome // per request sent: reply and the arrivals while it was in flight
	Arrivals []*c27Arrival
	Anomaly  []string
	Err      string // harness-level failure
}

func (w *c27World) setStep(cfg c27Config) {
	w.mu.Lock()
	w.cfg = cfg
	w.mu.Unlock()
}

// runSession executes one session through proxy.handleConnection over an in-memory client
// connection (net.Pipe; the backend side stays loopback TCP).
func (k *c27Worker) runSession(c c27Case) (so c27SessionOutcome) {
	world := c.Config
	p, router, err := k.newProxy(world)
	if err != nil {
		so.Err = "harness: router: " + err.Error()
		so.Anomaly = []string{so.Err}
		return
	}
	defer router.Stop()
	k.w.beginRun(world, c.Script)
	cli, srv := net.Pipe()
	// hang guard only (never an oracle): a stuck session surfaces as a rig anomaly
	cli.SetDeadline(time.Now().Add(2 * time.Minute))
	done := make(chan any, 1)
	go func() {
		defer func() { done <- recover() }()
		p.handleConnection(k.ctx, srv)
	}()
	type sent struct {
		cfg  c27Config
		resp []byte
		err  string
	}
	var sents []sent
	for i, st := range c.Steps {
		sc := c27StepConfig(world, st, i)
		k.w.setStep(sc)
		s := sent{cfg: sc}
		if werr := protocol.WriteFrame(cli, c27BuildPayload(sc)); werr != nil {
			s.err = "no reply: the proxy closed the client connection (" + werr.Error() + ")"
		} else if frame, rerr := protocol.ReadFrame(cli); rerr != nil {
			s.err = "no reply: " + rerr.Error()
		} else {
			s.resp = frame.Payload
		}
		sents = append(sents, s)
		if s.err != "" {
			break // the session is over; later requests cannot be sent
		}
	}
	cli.Close()
	panicked := <-done
	so.Arrivals, so.Anomaly = k.w.endRun()
	for _, s := range sents {
		o := c27Outcome{Reply: map[c27TP][]int16{}}
		for _, a := range so.Arrivals {
			if a.Step == s.cfg.step {
				o.Arrivals = append(o.Arrivals, a)
			}
		}
		switch {
		case s.err != "" && panicked != nil:
			o.Err = fmt.Sprintf("panic: %v", panicked)
		case s.err != "":
			o.Err = s.err
			if strings.Contains(s.err, "deadline") || strings.Contains(s.err, "timeout") {
				so.Anomaly = append(so.Anomaly, "session hang guard fired: "+s.err)
			}
		default:
			c27DecodeReply(s.cfg, s.resp, &o)
		}
		so.Cfgs = append(so.Cfgs, s.cfg)
		so.Steps = append(so.Steps, o)
	}
	return
}

func c27CheckSession(c c27Case, so c27SessionOutcome) []c27Viol {
	var vs []c27Viol
	var names []string
	for _, st := range c.Steps {
		names = append(names, st.String())
	}
	for i, o := range so.Steps {
		for _, v := range c27Check(so.Cfgs[i], o) {
			vs = append(vs, c27Viol{v.key, fmt.Sprintf("request #%d of the session [%s] on one client connection: %s", i+1, strings.Join(names, " ; "), v.detail)})
		}
	}
	return vs
}

func c27SessionSignature(c c27Case, so c27SessionOutcome) (string, bool) {
	var sb strings.Builder
	fmt.Fprintf(&sb, "session|%dx%d|%v|rr%d", c.Config.Topics, c.Config.Parts, c.Config.Routes, c.Config.RR)
	nontrivial := false
	for i, o := range so.Steps {
		fmt.Fprintf(&sb, "||#%d:", i+1)
		s, nt := c27Signature(so.Cfgs[i], o)
		sb.WriteString(s)
		for _, a := range o.Arrivals {
			if a.Reused {
				fmt.Fprintf(&sb, "|%s:reused", a.Slot)
			}
		}
		nontrivial = nontrivial || nt
		if o.Err != "" {
			sb.WriteString("|noreply")
		}
	}
	return sb.String(), nontrivial
}

func c27SessionLogStrings(so c27SessionOutcome) []string {
	var out []string
	for _, a := range so.Arrivals {
		ps := make([]string, 0, len(a.Parts))
		for _, p := range a.Parts {
			ps = append(ps, p.String())
		}
		conn := "fresh connection"
		if a.Reused {
			conn = "reused connection"
		}
		out = append(out, fmt.Sprintf("request #%d: %s (%s) got[%s] did %s", a.Step, a.Slot, conn, strings.Join(ps, ","), a.Beh))
	}
	return out
}

func c27SessionReplyStrings(c c27Case, so c27SessionOutcome) []string {
	var out []string
	for i, o := range so.Steps {
		out = append(out, fmt.Sprintf("#%d %s: %s", i+1, c.Steps[i], strings.Join(c27ReplyStrings(so.Cfgs[i], o), " ")))
	}
	return out
}

var c27SessionSamples int32

// c27ExploreSession enumerates every behaviour script of one session case with at most F non-ok
// behaviours (F from the spec), over the slots the backends actually consume during the session.
func c27ExploreSession(k *c27Worker, rep *vh.Report, base c27Case, thorough bool, deadline time.Time, anomalyOnce *sync.Once, record func(key string, size int, detail string, c c27Case)) (capped bool) {
	var runs, faulty, reusedFault, reusedAny, partial int64
	sigs := map[string]bool{}
	opts := func(a *c27Arrival) []c27Beh {
		return append(c27Options(a.Parts, thorough), c27Beh{Kind: "okClose"})
	}
	capped = c27ExploreScripts(c27SessionFaults(base.Config), deadline, opts, func(script map[string]c27Beh) []*c27Arrival {
		c := c27Case{Config: base.Config, Steps: base.Steps, Script: script}
		so := k.runSession(c)
		runs++
		sig, nt := c27SessionSignature(c, so)
		if nt {
			faulty++
			sigs[sig] = true
		} else if !sigs[sig] {
			sigs[sig] = false
		}
		onReused, anyReused := false, false
		for _, a := range so.Arrivals {
			if a.Beh.Kind == "omitSome" {
				partial++
				break
			}
		}
		for _, a := range so.Arrivals {
			if a.Reused {
				anyReused = true
				if a.Beh.Kind != "ok" {
					onReused = true
				}
			}
		}
		if anyReused {
			reusedAny++
		}
		if onReused {
			reusedFault++
		}
		if len(so.Anomaly) > 0 {
			anomalyOnce.Do(func() {
				rep.Cap("rig anomaly (not a verdict): " + strings.Join(so.Anomaly, "; "))
			})
			rep.Count("rig_anomalies", 1)
		}
		if len(script) == 0 {
			// self-check of the rig: without injected behaviours every request of the session is
			// answered and every partition succeeds (at most two fan-out groups here)
			good := len(so.Steps) == len(c.Steps)
			for i, o := range so.Steps {
				for _, tp := range so.Cfgs[i].tps() {
					if cs := o.Reply[tp]; len(cs) != 1 || cs[0] != 0 {
						good = false
					}
				}
			}
			if !good {
				rep.Count("rig_fault_free_run_not_successful", 1)
				anomalyOnce.Do(func() {
					rep.Cap(fmt.Sprintf("rig anomaly (not a verdict): fault-free session %+v %v did not succeed: %v", c.Config, c.Steps, c27SessionReplyStrings(c, so)))
				})
			}
		}
		for _, v := range c27CheckSession(c, so) {
			record(v.key, len(script), v.detail+" | log: "+strings.Join(c27SessionLogStrings(so), " ; ")+" | reply: "+strings.Join(c27SessionReplyStrings(c, so), " ; "), c)
		}
		if onReused && len(script) >= 2 && atomic.LoadInt32(&c27SessionSamples) < 2 && atomic.AddInt32(&c27SessionSamples, 1) <= 2 {
			rep.Sample(map[string]any{"case": c, "log": c27SessionLogStrings(so), "reply": c27SessionReplyStrings(c, so)})
		}
		return so.Arrivals
	})
	rep.Eval(runs)
	rep.Count("session_runs", runs)
	rep.Count("session_runs_with_faults", faulty)
	rep.Count("session_runs_with_partially_answered_sub_request", partial)
	rep.Count("session_runs_reusing_a_backend_connection", reusedAny)
	rep.Count("session_runs_with_fault_on_reused_connection", reusedFault)
	rep.Count(fmt.Sprintf("session_cases_%d_requests", len(base.Steps)), 1)
	rep.Count(fmt.Sprintf("session_runs_%d_requests_max_%d_faults", len(base.Steps), c27SessionFaults(base.Config)), runs)
	keys := make([]string, 0, len(sigs))
	for s := range sigs {
		keys = append(keys, s)
	}
	sort.Strings(keys)
	for _, s := range keys {
		rep.Outcome(s, sigs[s])
	}
	return capped
}
