//go:build verif

package main

// C30 (part 1: proxy download endpoint) — handleHTTPDownload sends object bytes only if their SHA-256 and
// size match the integrity block (taken from the envelope) the caller supplied.
//
// Enumerates download requests x what the bucket holds / how the S3 read fails, on the real handler
// (lfsModule with a fake s3API, httptest recorder), and judges every response independently.

import (
	"bytes"
	"context"
	"crypto/sha256"
	"encoding/base64"
	"encoding/hex"
	"encoding/json"
	"errors"
	"fmt"
	"io"
	"log/slog"
	"net/http"
	"net/http/httptest"
	"runtime"
	"strconv"
	"strings"
	"sync"
	"sync/atomic"
	"testing"
	"time"

	"github.com/KafScale/platform/internal/verif/enum"
	"github.com/KafScale/platform/internal/verif/vh"
	"github.com/aws/aws-sdk-go-v2/aws"
	v4 "github.com/aws/aws-sdk-go-v2/aws/signer/v4"
	"github.com/aws/aws-sdk-go-v2/service/s3"
)

const (
	vc30Bucket = "verif-bucket"
	vc30Key    = "verif-ns/topic/lfs/2026/01/02/obj-c30"
)

// vc30S3 is a one-object bucket with read faults.
type vc30S3 struct {
	data      []byte
	missing   bool
	failAfter int // <0: none; otherwise the body read fails once this many bytes were delivered
	gets      int
	wrongKey  int
}

type vc30Body struct {
	data      []byte
	pos       int
	failAfter int
}

func (b *vc30Body) Read(p []byte) (int, error) {
	limit := len(b.data)
	if b.failAfter >= 0 && b.failAfter < limit {
		limit = b.failAfter
	}
	if b.pos >= limit {
		if b.failAfter >= 0 {
			return 0, errors.New("verif: injected S3 body read failure")
		}
		return 0, io.EOF
	}
	n := copy(p, b.data[b.pos:limit])
	b.pos += n
	return n, nil
}
func (b *vc30Body) Close() error { return nil }

var errVC30Unused = errors.New("verif: operation not part of this check")

func (f *vc30S3) GetObject(ctx context.Context, in *s3.GetObjectInput, _ ...func(*s3.Options)) (*s3.GetObjectOutput, error) {
	f.gets++
	if in.Key == nil || *in.Key != vc30Key || in.Bucket == nil || *in.Bucket != vc30Bucket {
		f.wrongKey++
		return nil, errors.New("verif: NoSuchKey")
	}
	if f.missing {
		return nil, errors.New("verif: NoSuchKey (object missing)")
	}
	n := int64(len(f.data))
	return &s3.GetObjectOutput{Body: &vc30Body{data: f.data, failAfter: f.failAfter}, ContentLength: &n}, nil
}
func (f *vc30S3) CreateMultipartUpload(context.Context, *s3.CreateMultipartUploadInput, ...func(*s3.Options)) (*s3.CreateMultipartUploadOutput, error) {
	return nil, errVC30Unused
}
func (f *vc30S3) UploadPart(context.Context, *s3.UploadPartInput, ...func(*s3.Options)) (*s3.UploadPartOutput, error) {
	return nil, errVC30Unused
}
func (f *vc30S3) CompleteMultipartUpload(context.Context, *s3.CompleteMultipartUploadInput, ...func(*s3.Options)) (*s3.CompleteMultipartUploadOutput, error) {
	return nil, errVC30Unused
}
func (f *vc30S3) AbortMultipartUpload(context.Context, *s3.AbortMultipartUploadInput, ...func(*s3.Options)) (*s3.AbortMultipartUploadOutput, error) {
	return nil, errVC30Unused
}
func (f *vc30S3) PutObject(context.Context, *s3.PutObjectInput, ...func(*s3.Options)) (*s3.PutObjectOutput, error) {
	return nil, errVC30Unused
}
func (f *vc30S3) DeleteObject(context.Context, *s3.DeleteObjectInput, ...func(*s3.Options)) (*s3.DeleteObjectOutput, error) {
	return nil, errVC30Unused
}
func (f *vc30S3) HeadBucket(context.Context, *s3.HeadBucketInput, ...func(*s3.Options)) (*s3.HeadBucketOutput, error) {
	return &s3.HeadBucketOutput{}, nil
}
func (f *vc30S3) CreateBucket(context.Context, *s3.CreateBucketInput, ...func(*s3.Options)) (*s3.CreateBucketOutput, error) {
	return nil, errVC30Unused
}

type vc30Presign struct{}

func (vc30Presign) PresignGetObject(ctx context.Context, in *s3.GetObjectInput, _ ...func(*s3.PresignOptions)) (*v4.PresignedHTTPRequest, error) {
	return &v4.PresignedHTTPRequest{URL: "https://verif.invalid/" + aws.ToString(in.Key) + "?sig=x"}, nil
}

func vc30Module(fs3 *vc30S3, maxBlob int64) *lfsModule {
	logger := slog.New(slog.NewTextHandler(io.Discard, nil))
	m := &lfsModule{
		logger:           logger,
		s3Uploader:       &s3Uploader{bucket: vc30Bucket, region: "us-east-1", chunkSize: 5 << 20, api: fs3, presign: vc30Presign{}},
		s3Bucket:         vc30Bucket,
		s3Namespace:      "verif-ns",
		maxBlob:          maxBlob,
		chunkSize:        5 << 20,
		checksumAlg:      "sha256",
		proxyID:          "verif-proxy",
		metrics:          newLfsMetrics(),
		tracker:          &LfsOpsTracker{config: TrackerConfig{}, logger: logger},
		topicMaxLength:   249,
		downloadTTLMax:   2 * time.Minute,
		presignEnabled:   true,
		uploadSessionTTL: time.Hour,
		uploadSessions:   make(map[string]*uploadSession),
	}
	atomic.StoreUint32(&m.s3Healthy, 1)
	return m
}

type vc30Case struct {
	API          string `json:"api"` // "download"
	Mode         string `json:"mode"`
	NoIntegrity  bool   `json:"no_integrity"`
	SHA256       string `json:"sha256"`
	SizeOmitted  bool   `json:"size_omitted"`
	Size         int64  `json:"size"`
	Alg          string `json:"checksum_alg"`
	MaxBlob      int64  `json:"max_blob"`
	BlobB64      string `json:"blob_b64"`
	Stored       string `json:"stored"`
	StoredB64    string `json:"stored_b64"`
	Missing      bool   `json:"missing"`
	FailAfter    int    `json:"fail_after"`
	shaClass     string
	sizeClass    string
	maxBlobClass string
	blob, stored []byte
}

type vc30Resp struct {
	code      int
	errCode   string
	bodySHA   string
	bodyLen   int
	leaks     bool
	wrongKey  bool
	requested string
}

func vc30Exec(c vc30Case) vc30Resp {
	fs3 := &vc30S3{data: c.stored, missing: c.Missing, failAfter: c.FailAfter}
	m := vc30Module(fs3, c.MaxBlob)
	body := vc30Request(c)
	req := httptest.NewRequest(http.MethodPost, "/lfs/download", bytes.NewReader(body))
	rr := httptest.NewRecorder()
	m.handleHTTPDownload(rr, req)
	got := rr.Body.Bytes()
	out := vc30Resp{code: rr.Code, bodySHA: vc30SHA(got), bodyLen: len(got), wrongKey: fs3.wrongKey > 0, requested: string(body)}
	if rr.Code != http.StatusOK {
		var er struct {
			Code string `json:"code"`
		}
		_ = json.Unmarshal(got, &er)
		out.errCode = er.Code
	}
	out.leaks = len(c.stored) >= 16 && bytes.Contains(got, c.stored)
	return out
}

func vc30SHA(b []byte) string {
	s := sha256.Sum256(b)
	return hex.EncodeToString(s[:])
}

func vc30Request(c vc30Case) []byte {
	q := func(v string) string { b, _ := json.Marshal(v); return string(b) }
	s := `{"bucket":` + q(vc30Bucket) + `,"key":` + q(vc30Key)
	if c.Mode != "" {
		s += `,"mode":` + q(c.Mode)
	}
	if !c.NoIntegrity {
		s += `,"integrity":{"sha256":` + q(c.SHA256)
		if c.Alg != "" {
			s += `,"checksum_alg":` + q(c.Alg)
		}
		if !c.SizeOmitted {
			s += `,"size":` + strconv.FormatInt(c.Size, 10)
		}
		s += "}"
	}
	return []byte(s + "}")
}

type vc30Stored struct {
	class     string
	data      []byte
	missing   bool
	failAfter int
}

func vc30StoredVariants(blob []byte) []vc30Stored {
	flip := append([]byte{}, blob...)
	flip[len(flip)-1] ^= 1
	out := []vc30Stored{
		{class: "exact", data: blob, failAfter: -1},
		{class: "bitflip", data: flip, failAfter: -1},
		{class: "truncated", data: blob[:len(blob)-1], failAfter: -1},
		{class: "extended", data: append(append([]byte{}, blob...), 0), failAfter: -1},
	}
	if len(blob) > 1 {
		out = append(out, vc30Stored{class: "empty", data: []byte{}, failAfter: -1})
		out = append(out, vc30Stored{class: "half", data: blob[:len(blob)/2], failAfter: -1})
		out = append(out, vc30Stored{class: "read-error-midway", data: blob, failAfter: len(blob) / 2})
	}
	out = append(out,
		vc30Stored{class: "read-error-at-end", data: blob, failAfter: len(blob)},
		vc30Stored{class: "missing", missing: true, failAfter: -1},
	)
	return out
}

func TestVerifC30(t *testing.T) {
	rep := vh.New(t, "C30")
	defer rep.Finish()
	rep.Rule = "proxy part: case = POST /lfs/download request (mode {default,stream,presign} x integrity.sha256 {of the uploaded blob, of the " +
		"stored object, upper-case, space-padded, unrelated digest, empty, non-hex, short, integrity block absent} x integrity.size " +
		"{len(blob), len(stored), len+1, len-1, omitted, -1} x checksum_alg {\"\",sha256,SHA256,md5} x proxy max blob {5GiB, len-1}) x " +
		"bucket content {exact, 1 bit flipped, truncated, extended, empty, half, read error midway, read error at end, missing} x blob " +
		"{1 B, 26 B, 40000 B}; non-trivial = anything but 'stream, exact object, right sha256 and size'. Signature = request classes, " +
		"storage class, HTTP status, error code. proxy history part: ONE long-lived lfsModule x every ordered sequence of 2 (thorough 3) " +
		"stream downloads, the bucket object being rewritten before each request to {intact, 1 bit flipped, truncated, extended, replaced by " +
		"another valid object, missing, read error midway}: (a) the same request every time x mode {default,stream} x integrity.sha256 " +
		"{lower, upper, padded} x checksum_alg {\"\",sha256}; (b) sequences naming >= 2 of the requests R1=(K1,P) R2=(K1,Q) R3=(K2,P) " +
		"(shared key / shared checksum), 2 forms; x blob pair {1 B, 26 B, 40000 B}; every response is judged like a single-shot case; " +
		"non-trivial = anything but 'R1 intact every time'; signature = form, per request (request, bucket state, status, error code)."
	rep.Assumptions = []string{
		"the fake s3API returns one object for the requested key; S3-reported ContentLength is the stored length",
		"a 200 response in presign mode carries a URL, no object bytes; it is only checked for not containing the object",
		"integrity.sha256 compares case-insensitively after trimming; an omitted integrity.size is size 0",
	}
	var cases []vc30Case
	var rp vc30Case
	if ok, err := vh.LoadReplay(&rp); ok {
		if err != nil {
			t.Fatalf("HARNESS-ERROR C30: replay: %v", err)
		}
		if rp.API == "download-history" {
			var hc vc30HCase
			if _, err := vh.LoadReplay(&hc); err != nil {
				t.Fatalf("HARNESS-ERROR C30: replay: %v", err)
			}
			vc30History(t, rep, &hc)
			return
		}
		if rp.API != "download" {
			t.Skipf("replay belongs to another part of C30 (api=%q)", rp.API)
		}
		var err1, err2 error
		rp.blob, err1 = base64.StdEncoding.DecodeString(rp.BlobB64)
		rp.stored, err2 = base64.StdEncoding.DecodeString(rp.StoredB64)
		if err1 != nil || err2 != nil {
			t.Fatalf("HARNESS-ERROR C30: bad replay encoding")
		}
		cases = []vc30Case{rp}
	} else {
		big := make([]byte, 40000) // larger than the handler's 32 KiB copy buffer
		for i := range big {
			big[i] = byte(i*13 + i>>7)
		}
		blobs := [][]byte{[]byte("a"), []byte("hello-lfs-blob-0123456789"), big}
		if vh.Thorough() {
			huge := make([]byte, 3*32*1024) // exact multiple of the copy buffer
			for i := range huge {
				huge[i] = byte(i*31 + i>>9)
			}
			blobs = append(blobs, huge, []byte("0123456789abcdef0123456789abcdef"))
		}
		modes := []string{"", "stream", "presign"}
		algs := []string{"", "sha256", "SHA256", "md5"}
		if vh.Thorough() {
			modes = append(modes, " STREAM ", "download")
			algs = append(algs, "none", " sha256 ")
		}
		for _, blob := range blobs {
			n := int64(len(blob))
			for _, st := range vc30StoredVariants(blob) {
				type fv struct {
					class string
					v     string
					none  bool
				}
				shaB, shaS := vc30SHA(blob), vc30SHA(st.data)
				shas := []fv{{class: "of-blob", v: shaB}}
				if shaS != shaB {
					shas = append(shas, fv{class: "of-stored", v: shaS})
				}
				shas = append(shas, fv{class: "upper", v: strings.ToUpper(shaS)}, fv{class: "padded", v: " " + shaS + " "},
					fv{class: "unrelated", v: vc30SHA([]byte("unrelated"))}, fv{class: "empty", v: ""},
					fv{class: "non-hex", v: strings.Repeat("z", 64)}, fv{class: "short", v: shaS[:63]}, fv{class: "absent", none: true})
				type sv struct {
					class   string
					v       int64
					omitted bool
				}
				sizes := []sv{{class: "len-blob", v: n}}
				if int64(len(st.data)) != n {
					sizes = append(sizes, sv{class: "len-stored", v: int64(len(st.data))})
				}
				sizes = append(sizes, sv{class: "len+1", v: n + 1})
				if n-1 != int64(len(st.data)) {
					sizes = append(sizes, sv{class: "len-1", v: n - 1})
				}
				sizes = append(sizes, sv{class: "omitted", omitted: true}, sv{class: "negative", v: -1})
				maxBlobs := []int64{5 << 30, n - 1}
				enum.Product([]int{len(modes), len(shas), len(sizes), len(algs), len(maxBlobs)}, func(i []int) bool {
					sh, sz := shas[i[1]], sizes[i[2]]
					if sh.none && (i[2] > 0 || i[3] > 0) {
						return true // no integrity block: size / alg do not exist
					}
					mb := "large"
					if maxBlobs[i[4]] < n {
						mb = "below-len"
					}
					cases = append(cases, vc30Case{API: "download", Mode: modes[i[0]], NoIntegrity: sh.none, SHA256: sh.v, SizeOmitted: sz.omitted, Size: sz.v,
						Alg: algs[i[3]], MaxBlob: maxBlobs[i[4]], Stored: st.class, Missing: st.missing, FailAfter: st.failAfter,
						shaClass: sh.class, sizeClass: sz.class, maxBlobClass: mb, blob: blob, stored: st.data})
					return true
				})
			}
		}
	}
	rep.SetInfo("download_cases", len(cases))
	// the handler runs are independent (own module, own bucket): execute on all cores, judge in enumeration order
	resps := make([]vc30Resp, len(cases))
	var wg sync.WaitGroup
	var next int64 = -1
	for w := 0; w < runtime.GOMAXPROCS(0); w++ {
		wg.Add(1)
		go func() {
			defer wg.Done()
			for {
				i := int(atomic.AddInt64(&next, 1))
				if i >= len(cases) {
					return
				}
				resps[i] = vc30Exec(cases[i])
			}
		}()
	}
	wg.Wait()
	served := 0
	for ci, c := range cases {
		rr := resps[ci]
		blob, stored, body := c.blob, c.stored, rr.requested
		rep.Eval(1)
		if rr.wrongKey {
			t.Fatalf("HARNESS-ERROR C30: the handler read a key other than the requested one")
		}
		mode := strings.ToLower(strings.TrimSpace(c.Mode))
		if mode == "" {
			mode = "stream"
		}
		errCode := rr.errCode
		outcome := strconv.Itoa(rr.code) + "/" + errCode
		replay := c
		if len(blob) <= 400 {
			replay.BlobB64, replay.StoredB64 = base64.StdEncoding.EncodeToString(blob), base64.StdEncoding.EncodeToString(stored)
		} else {
			replay.BlobB64, replay.StoredB64 = "(large; regenerate from the alphabet)", ""
		}
		describe := func() string {
			return fmt.Sprintf("request %s; bucket holds %s object (%d bytes, uploaded blob %d bytes); response %d with %d body bytes",
				vc30Trunc(body, 260), c.Stored, len(stored), len(blob), rr.code, rr.bodyLen)
		}
		switch {
		case rr.code == http.StatusOK && mode == "stream":
			served++
			outcome += "/bytes"
			want := strings.ToLower(strings.TrimSpace(c.SHA256))
			size := c.Size
			if c.SizeOmitted {
				size = 0
			}
			switch {
			case c.NoIntegrity || want == "":
				rep.Violationf("download-served-bytes-without-integrity-sha256", replay, "%s", describe())
			case rr.bodySHA != want:
				rep.Violationf("download-served-bytes-failing-integrity-sha256", replay, "sha256(body)=%s, integrity.sha256=%s; %s", rr.bodySHA, c.SHA256, describe())
			case int64(rr.bodyLen) < size:
				rep.Violationf("download-served-fewer-bytes-than-integrity-size", replay, "body has %d bytes, integrity.size=%d (sha256 matches the shorter object); %s", rr.bodyLen, size, describe())
			case int64(rr.bodyLen) > size:
				rep.Violationf("download-served-more-bytes-than-integrity-size", replay, "body has %d bytes, integrity.size=%d; %s", rr.bodyLen, size, describe())
			}
		default:
			if rr.code == http.StatusOK {
				outcome += "/presign-url"
			}
			if rr.leaks {
				rep.Violationf("download-non-stream-response-carries-object-bytes", replay, "%s", describe())
			}
		}
		sig := strings.Join([]string{mode, c.shaClass, c.sizeClass, strings.ToLower(strings.TrimSpace(c.Alg)), c.maxBlobClass, c.Stored, outcome}, "|")
		trivial := mode == "stream" && c.Stored == "exact" && c.shaClass == "of-blob" && c.sizeClass == "len-blob" && c.maxBlobClass == "large" && (c.Alg == "" || c.Alg == "sha256")
		rep.Outcome(sig, !trivial)
		if (served <= 2 && rr.code == http.StatusOK && mode == "stream") || (errCode == "integrity_failure" && rep.WantSample() && len(blob) < 100) {
			rep.Sample(map[string]any{"request": body, "bucket_holds": c.Stored, "status": rr.code, "error_code": errCode, "body_bytes": rr.bodyLen})
		}
	}
	rep.Count("download_stream_responses_200", int64(served))
	if served == 0 && vh.ReplayFile() == "" {
		t.Fatalf("HARNESS-ERROR C30: no download was served; the check would be vacuous")
	}
	if vh.ReplayFile() == "" {
		vc30History(t, rep, nil)
	}
}

func vc30Trunc(s string, n int) string {
	if len(s) > n {
		return s[:n] + "..."
	}
	return s
}
