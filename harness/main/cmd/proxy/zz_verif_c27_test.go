//go:build verif

package main

import (
	"context"
	"encoding/binary"
	"errors"
	"fmt"
	"io"
	"log/slog"
	"net"
	"runtime"
	"sort"
	"strings"
	"sync"
	"sync/atomic"
	"testing"
	"time"

	"github.com/KafScale/platform/internal/verif/vh"
	"github.com/KafScale/platform/pkg/metadata"
	"github.com/KafScale/platform/pkg/protocol"
	"github.com/twmb/franz-go/pkg/kmsg"
	"go.etcd.io/etcd/api/v3/etcdserverpb"
	"go.etcd.io/etcd/api/v3/mvccpb"
	clientv3 "go.etcd.io/etcd/client/v3"
)

// C27 — for a produce or fetch sent through the proxy the reply has exactly one entry per
// requested topic-partition; a partition is successful only if a broker reported success for
// it; a produce partition is resent only after the previous broker rejected it as not leader.
//
// The real proxy struct (handleProduceRouting / handleFetchRouting -> group*ByBroker ->
// forward* -> fanOut* -> connPool, real PartitionRouter over a fake etcd KV) talks over
// loopback TCP to two scripted fake Kafka backends. The behaviour of a backend on its k-th
// request is a choice; a depth-first search enumerates every choice sequence that contains at
// most F non-success behaviours. The oracle only reads the backends' request logs and the
// decoded reply.

// c27IncludeOmit: "malformed reply" is read as covering a reply that decodes but does not
// answer the partitions it was asked about (kind "omit"), besides undecodable bytes ("garbage").
const c27IncludeOmit = true

const (
	c27NotLeader = int16(6)
	c27DeadAddr  = "127.0.0.1:1" // nothing listens on tcpmux: connect is refused at once
)

// ---------------------------------------------------------------- fake etcd (router state)

type c27KV struct{ routes map[string]string }

func (k *c27KV) Get(ctx context.Context, key string, opts ...clientv3.OpOption) (*clientv3.GetResponse, error) {
	resp := &clientv3.GetResponse{Header: &etcdserverpb.ResponseHeader{Revision: 1}}
	keys := make([]string, 0, len(k.routes))
	for kk := range k.routes {
		if strings.HasPrefix(kk, key) {
			keys = append(keys, kk)
		}
	}
	sort.Strings(keys)
	for _, kk := range keys {
		resp.Kvs = append(resp.Kvs, &mvccpb.KeyValue{Key: []byte(kk), Value: []byte(k.routes[kk]), ModRevision: 1, CreateRevision: 1, Version: 1})
	}
	resp.Count = int64(len(resp.Kvs))
	return resp, nil
}
func (k *c27KV) Put(ctx context.Context, key, val string, opts ...clientv3.OpOption) (*clientv3.PutResponse, error) {
	return nil, errors.New("c27KV: read only")
}
func (k *c27KV) Delete(ctx context.Context, key string, opts ...clientv3.OpOption) (*clientv3.DeleteResponse, error) {
	return nil, errors.New("c27KV: read only")
}
func (k *c27KV) Compact(ctx context.Context, rev int64, opts ...clientv3.CompactOption) (*clientv3.CompactResponse, error) {
	return nil, errors.New("c27KV: read only")
}
func (k *c27KV) Do(ctx context.Context, op clientv3.Op) (clientv3.OpResponse, error) {
	return clientv3.OpResponse{}, errors.New("c27KV: read only")
}
func (k *c27KV) Txn(ctx context.Context) clientv3.Txn { return nil }

// c27Watcher never delivers an event: the routing table stays what loadAll read plus the
// proxy's own Invalidate calls. The channel closes when the router is stopped.
type c27Watcher struct{}

func (c27Watcher) Watch(ctx context.Context, key string, opts ...clientv3.OpOption) clientv3.WatchChan {
	ch := make(chan clientv3.WatchResponse)
	go func() {
		<-ctx.Done()
		close(ch)
	}()
	return ch
}
func (c27Watcher) RequestProgress(ctx context.Context) error { return nil }
func (c27Watcher) Close() error                              { return nil }

// ---------------------------------------------------------------- case description

type c27TP struct {
	T int   `json:"t"` // topic index
	P int32 `json:"p"`
}

func (x c27TP) String() string { return fmt.Sprintf("t%d/%d", x.T, x.P) }

// c27Beh is what a backend does with one request.
//
//	ok           answer success for every partition
//	nl           NOT_LEADER_OR_FOLLOWER for the partitions in NL, success for the others
//	nlerr        NOT_LEADER for the partitions in NL, error code 3 for the others (thorough)
//	err          an error code other than NOT_LEADER for every partition
//	closeBefore  read only the frame size, then drop the connection: request not processed
//	closeAfter   read and process the request, then drop the connection without replying
//	garbage      process the request, reply with bytes that do not decode
//	omit         process the request, reply with a well-formed response without any partition
//	omitSome     process the request, reply with a well-formed response that answers success for
//	             the partitions it mentions but leaves out the partitions in Omit (a non-empty
//	             proper subset of the partitions of this request; a topic whose partitions are all
//	             left out is left out as well)
type c27Beh struct {
	Kind string   `json:"kind"`
	NL   []string `json:"nl,omitempty"`
	Omit []string `json:"omit,omitempty"`
}

// omits: the backend's reply to this request has no entry for tp.
func (b c27Beh) omits(tp c27TP) bool {
	if b.Kind == "omit" {
		return true
	}
	for _, s := range b.Omit {
		if s == tp.String() {
			return true
		}
	}
	return false
}

func (b c27Beh) String() string {
	if len(b.Omit) > 0 {
		return b.Kind + "(" + strings.Join(b.Omit, ",") + ")"
	}
	if len(b.NL) > 0 {
		return b.Kind + "(" + strings.Join(b.NL, ",") + ")"
	}
	return b.Kind
}

type c27Config struct {
	Kind    string `json:"kind"`    // produce-v9-acks1 | produce-v7-acksall | fetch-name-v11 | fetch-id-v13 | ...
	Topics  int    `json:"topics"`  // 1..2
	Parts   int    `json:"parts"`   // partitions per topic 1..2
	Routes  []int  `json:"routes"`  // per partition (topic-major): 0 unknown, 1 owner A, 2 owner B, 3 owner with a dead address
	RR      uint32 `json:"rr"`      // initial round-robin counter of the proxy
	Unknown bool   `json:"unknown"` // fetch by id: the proxy cannot resolve the topic ids to names
	// NoRouter: the proxy runs without a partition router (static backends / router init failed):
	// every partition is "owner unknown" and NOT_LEADER invalidates nothing.
	NoRouter bool `json:"no_router,omitempty"`
	// Mask (sessions only): when non-zero the request names only the partitions whose topic-major
	// index bit is set; Topics x Parts / Routes then describe the world shared by the session.
	Mask int `json:"mask,omitempty"`
	// step (sessions only, 1-based; 0 = single-request case): position of the request in its
	// client session. It is part of the produce record bytes and of the correlation id.
	step int
}

// c27Step is one client request of a session (see zz_verif_c27_session_test.go).
type c27Step struct {
	Kind string `json:"kind"`
	Mask int    `json:"mask"`
}

type c27Case struct {
	Config c27Config         `json:"config"`
	Script map[string]c27Beh `json:"script"` // slot ("A0" = first request seen by backend A) -> behaviour; absent = ok
	// Steps, when present, makes the case a session: Config is the world (shape, routing table,
	// round-robin phase) and the requests are sent one after the other on ONE client connection
	// served by proxy.handleConnection; slots count a backend's requests over the whole session.
	Steps []c27Step `json:"steps,omitempty"`
}

func (c c27Config) isProduce() bool { return strings.HasPrefix(c.Kind, "produce") }
func (c c27Config) version() int16 {
	var v int
	fmt.Sscanf(c.Kind[strings.LastIndex(c.Kind, "-v")+2:], "%d", &v)
	return int16(v)
}
func (c c27Config) acks() int16 {
	if strings.Contains(c.Kind, "acksall") {
		return -1
	}
	return 1
}
func (c c27Config) byID() bool { return strings.HasPrefix(c.Kind, "fetch-id") }
func (c c27Config) tps() []c27TP {
	var out []c27TP
	i := 0
	for t := 0; t < c.Topics; t++ {
		for p := 0; p < c.Parts; p++ {
			if c.Mask == 0 || c.Mask&(1<<i) != 0 {
				out = append(out, c27TP{t, int32(p)})
			}
			i++
		}
	}
	return out
}
func (c c27Config) requested(tp c27TP) bool {
	for _, x := range c.tps() {
		if x == tp {
			return true
		}
	}
	return false
}

func c27TopicName(t int) string { return fmt.Sprintf("topic-%d", t) }
func c27TopicID(t int) [16]byte {
	var id [16]byte
	for i := range id {
		id[i] = byte(0x30 + t)
	}
	id[0] = 0xC2
	return id
}
func c27Records(tp c27TP) []byte { return []byte(fmt.Sprintf("records-of-%s", tp)) }

// c27RecordsOf: the record bytes the client sends for tp in the request described by cfg; in a
// session they name the request, so that a backend can tell which client request it is writing.
func c27RecordsOf(cfg c27Config, tp c27TP) []byte {
	if cfg.step == 0 {
		return c27Records(tp)
	}
	return []byte(fmt.Sprintf("records-of-%s-in-request-%d", tp, cfg.step))
}

// ---------------------------------------------------------------- fake Kafka backends

type c27Arrival struct {
	Seq       int
	Backend   int
	Slot      string
	Beh       c27Beh
	Parts     []c27TP // partitions in the request as decoded by the backend (empty: not read)
	Processed bool    // the backend decoded the request (a real broker would have appended / read)
	Replied   bool    // a well-formed reply was written
	Answer    map[c27TP]int16
	Corrupt   string // set when a produce partition's record bytes differ from what the client sent
	Stale     string // set when a produce partition carried the record bytes of an EARLIER request of the session
	Step      int    // session: the client request (1-based) that was in flight when this arrived
	Reused    bool   // the backend connection had already carried an earlier request
}

type c27World struct {
	mu       sync.Mutex
	gen      int
	script   map[string]c27Beh
	cfg      c27Config
	arrivals []*c27Arrival
	count    [2]int
	conns    map[net.Conn]bool
	wg       sync.WaitGroup
	ln       [2]net.Listener
	addr     [2]string
	anomaly  []string
}

func c27NewWorld() (*c27World, error) {
	w := &c27World{conns: map[net.Conn]bool{}}
	for i := 0; i < 2; i++ {
		ln, err := net.Listen("tcp", "127.0.0.1:0")
		if err != nil {
			return nil, err
		}
		w.ln[i] = ln
		w.addr[i] = ln.Addr().String()
		go w.acceptLoop(i)
	}
	return w, nil
}

func (w *c27World) close() {
	for _, ln := range w.ln {
		if ln != nil {
			ln.Close()
		}
	}
}

func (w *c27World) acceptLoop(b int) {
	for {
		c, err := w.ln[b].Accept()
		if err != nil {
			return
		}
		w.mu.Lock()
		gen := w.gen
		w.conns[c] = true
		w.wg.Add(1)
		w.mu.Unlock()
		go w.serve(b, c, gen)
	}
}

func c27Reset(c net.Conn) {
	if tc, ok := c.(*net.TCPConn); ok {
		tc.SetLinger(0)
	}
	c.Close()
}

func (w *c27World) serve(b int, c net.Conn, gen int) {
	defer func() {
		w.mu.Lock()
		delete(w.conns, c)
		w.mu.Unlock()
		w.wg.Done()
	}()
	for served := 0; ; served++ {
		var lenBuf [4]byte
		if _, err := io.ReadFull(c, lenBuf[:]); err != nil {
			c.Close()
			return
		}
		// a request has arrived: this consumes the backend's next behaviour slot
		w.mu.Lock()
		if gen != w.gen {
			w.mu.Unlock()
			c27Reset(c)
			return
		}
		idx := w.count[b]
		w.count[b]++
		slot := fmt.Sprintf("%c%d", 'A'+b, idx)
		beh, ok := w.script[slot]
		if !ok {
			beh = c27Beh{Kind: "ok"}
		}
		cfg := w.cfg
		ar := &c27Arrival{Seq: len(w.arrivals), Backend: b, Slot: slot, Beh: beh, Answer: map[c27TP]int16{}, Step: cfg.step, Reused: served > 0}
		w.arrivals = append(w.arrivals, ar)
		w.mu.Unlock()

		if beh.Kind == "closeBefore" {
			c27Reset(c)
			return
		}
		n := int(binary.BigEndian.Uint32(lenBuf[:]))
		payload := make([]byte, n)
		if _, err := io.ReadFull(c, payload); err != nil {
			w.note("backend %s: short request: %v", slot, err)
			c.Close()
			return
		}
		header, req, err := protocol.ParseRequest(payload)
		if err != nil {
			w.note("backend %s: undecodable request from proxy: %v", slot, err)
			c.Close()
			return
		}
		reply := w.process(cfg, ar, header, req)
		switch beh.Kind {
		case "closeAfter":
			c27Reset(c)
			return
		case "garbage":
			g := []byte{0, 0, 0, 0, 0xff, 0xff, 0xff}
			binary.BigEndian.PutUint32(g, uint32(header.CorrelationID))
			_ = protocol.WriteFrame(c, g)
			// the proxy drops the connection after failing to decode; wait for that
			io.Copy(io.Discard, c)
			c.Close()
			return
		}
		w.mu.Lock()
		ar.Replied = true
		w.mu.Unlock()
		if err := protocol.WriteFrame(c, reply); err != nil {
			c.Close()
			return
		}
		if beh.Kind == "okClose" {
			// the request was answered; the connection then goes away while it sits idle in the
			// client session's pool (orderly close: the reply already written is still delivered)
			c.Close()
			return
		}
	}
}

func (w *c27World) note(f string, a ...any) {
	w.mu.Lock()
	w.anomaly = append(w.anomaly, fmt.Sprintf(f, a...))
	w.mu.Unlock()
}

func c27RespHeader(corr int32, flexible bool) []byte {
	b := make([]byte, 4, 5)
	binary.BigEndian.PutUint32(b, uint32(corr))
	if flexible {
		b = append(b, 0)
	}
	return b
}

// process decodes the request as a broker would, records it, and builds the scripted reply.
func (w *c27World) process(cfg c27Config, ar *c27Arrival, header *protocol.RequestHeader, req kmsg.Request) []byte {
	nl := map[string]bool{}
	for _, s := range ar.Beh.NL {
		nl[s] = true
	}
	code := func(tp c27TP) int16 {
		switch ar.Beh.Kind {
		case "nl":
			if nl[tp.String()] {
				return c27NotLeader
			}
			return 0
		case "nlerr":
			if nl[tp.String()] {
				return c27NotLeader
			}
			return 3
		case "err":
			if cfg.isProduce() {
				return 2 // CORRUPT_MESSAGE
			}
			return 1 // OFFSET_OUT_OF_RANGE
		}
		return 0
	}
	topicIndexByName := func(name string) int {
		for t := 0; t < 4; t++ {
			if c27TopicName(t) == name {
				return t
			}
		}
		return -1
	}
	topicIndexByID := func(id [16]byte) int {
		for t := 0; t < 4; t++ {
			if c27TopicID(t) == id {
				return t
			}
		}
		return -1
	}
	var parts []c27TP
	answer := map[c27TP]int16{}
	var out []byte
	switch r := req.(type) {
	case *kmsg.ProduceRequest:
		resp := kmsg.NewPtrProduceResponse()
		resp.SetVersion(header.APIVersion)
		for _, t := range r.Topics {
			ti := topicIndexByName(t.Topic)
			rt := kmsg.NewProduceResponseTopic()
			rt.Topic = t.Topic
			for _, p := range t.Partitions {
				tp := c27TP{ti, p.Partition}
				parts = append(parts, tp)
				if string(p.Records) != string(c27RecordsOf(cfg, tp)) {
					ar.Corrupt = fmt.Sprintf("%s carried records %q", tp, p.Records)
					for s := 1; s < cfg.step; s++ {
						old := cfg
						old.step = s
						if string(p.Records) == string(c27RecordsOf(old, tp)) {
							ar.Stale = fmt.Sprintf("%s carried the records of request #%d again while request #%d was being served", tp, s, cfg.step)
							ar.Corrupt = ""
						}
					}
				}
				rp := kmsg.NewProduceResponseTopicPartition()
				rp.Partition = p.Partition
				rp.ErrorCode = code(tp)
				rp.BaseOffset = -1
				if rp.ErrorCode == 0 {
					rp.BaseOffset = int64(1000 + ar.Seq)
				}
				answer[tp] = rp.ErrorCode
				rt.Partitions = append(rt.Partitions, rp)
			}
			resp.Topics = append(resp.Topics, rt)
		}
		if ar.Beh.Kind == "omit" {
			resp.Topics = nil
			answer = map[c27TP]int16{}
		}
		if ar.Beh.Kind == "omitSome" {
			var kept []kmsg.ProduceResponseTopic
			for _, rt := range resp.Topics {
				ti := topicIndexByName(rt.Topic)
				var ps []kmsg.ProduceResponseTopicPartition
				for _, rp := range rt.Partitions {
					if tp := (c27TP{ti, rp.Partition}); ar.Beh.omits(tp) {
						delete(answer, tp)
					} else {
						ps = append(ps, rp)
					}
				}
				if rt.Partitions = ps; len(ps) > 0 {
					kept = append(kept, rt)
				}
			}
			resp.Topics = kept
		}
		out = resp.AppendTo(c27RespHeader(header.CorrelationID, resp.IsFlexible()))
	case *kmsg.FetchRequest:
		resp := kmsg.NewPtrFetchResponse()
		resp.SetVersion(header.APIVersion)
		resp.SessionID = r.SessionID
		for _, t := range r.Topics {
			ti := -1
			if header.APIVersion >= 13 {
				ti = topicIndexByID(t.TopicID)
			} else {
				ti = topicIndexByName(t.Topic)
			}
			rt := kmsg.NewFetchResponseTopic()
			rt.Topic = t.Topic
			rt.TopicID = t.TopicID
			for _, p := range t.Partitions {
				tp := c27TP{ti, p.Partition}
				parts = append(parts, tp)
				rp := kmsg.NewFetchResponseTopicPartition()
				rp.Partition = p.Partition
				rp.ErrorCode = code(tp)
				if rp.ErrorCode == 0 {
					rp.HighWatermark = int64(500 + ar.Seq)
					rp.LastStableOffset = rp.HighWatermark
				}
				answer[tp] = rp.ErrorCode
				rt.Partitions = append(rt.Partitions, rp)
			}
			resp.Topics = append(resp.Topics, rt)
		}
		if ar.Beh.Kind == "omit" {
			resp.Topics = nil
			answer = map[c27TP]int16{}
		}
		if ar.Beh.Kind == "omitSome" {
			var kept []kmsg.FetchResponseTopic
			for _, rt := range resp.Topics {
				ti := -1
				if header.APIVersion >= 13 {
					ti = topicIndexByID(rt.TopicID)
				} else {
					ti = topicIndexByName(rt.Topic)
				}
				var ps []kmsg.FetchResponseTopicPartition
				for _, rp := range rt.Partitions {
					if tp := (c27TP{ti, rp.Partition}); ar.Beh.omits(tp) {
						delete(answer, tp)
					} else {
						ps = append(ps, rp)
					}
				}
				if rt.Partitions = ps; len(ps) > 0 {
					kept = append(kept, rt)
				}
			}
			resp.Topics = kept
		}
		out = resp.AppendTo(c27RespHeader(header.CorrelationID, resp.IsFlexible()))
	default:
		w.note("backend %s: unexpected request type %T", ar.Slot, req)
	}
	w.mu.Lock()
	ar.Parts = parts
	ar.Processed = true
	if ar.Beh.Kind != "closeAfter" && ar.Beh.Kind != "garbage" {
		ar.Answer = answer
	}
	w.mu.Unlock()
	return out
}

// beginRun / endRun bracket one execution.
func (w *c27World) beginRun(cfg c27Config, script map[string]c27Beh) {
	w.mu.Lock()
	w.gen++
	w.cfg = cfg
	w.script = script
	w.arrivals = nil
	w.count = [2]int{}
	w.anomaly = nil
	w.mu.Unlock()
}

func (w *c27World) endRun() ([]*c27Arrival, []string) {
	w.mu.Lock()
	w.gen++
	conns := make([]net.Conn, 0, len(w.conns))
	for c := range w.conns {
		conns = append(conns, c)
	}
	w.mu.Unlock()
	for _, c := range conns {
		c27Reset(c)
	}
	w.wg.Wait()
	w.mu.Lock()
	defer w.mu.Unlock()
	return w.arrivals, w.anomaly
}

// ---------------------------------------------------------------- one execution

type c27Worker struct {
	w      *c27World
	p      *proxy
	cli    *clientv3.Client
	logger *slog.Logger
	ctx    context.Context
}

func c27NewWorker() (*c27Worker, error) {
	w, err := c27NewWorld()
	if err != nil {
		return nil, err
	}
	k := &c27Worker{w: w, ctx: context.Background()}
	k.logger = slog.New(slog.NewTextHandler(io.Discard, &slog.HandlerOptions{Level: slog.LevelError + 8}))
	k.cli = clientv3.NewCtxClient(k.ctx)
	k.cli.Watcher = c27Watcher{}
	return k, nil
}

func (k *c27Worker) close() { k.w.close() }

type c27Outcome struct {
	Arrivals []*c27Arrival
	Reply    map[c27TP][]int16 // error codes of the reply entries per requested partition
	Extra    []string          // reply entries for partitions that were not requested
	Err      string            // no reply / undecodable reply / panic
	Anomaly  []string
}

func (k *c27Worker) newProxy(cfg c27Config) (*proxy, *metadata.PartitionRouter, error) {
	hostPort := func(addr string) (string, int32) {
		h, ps, _ := net.SplitHostPort(addr)
		var pn int
		fmt.Sscanf(ps, "%d", &pn)
		return h, int32(pn)
	}
	state := metadata.ClusterMetadata{ControllerID: 1}
	for i, a := range []string{k.w.addr[0], k.w.addr[1], c27DeadAddr} {
		h, pn := hostPort(a)
		state.Brokers = append(state.Brokers, protocol.MetadataBroker{NodeID: int32(i + 1), Host: h, Port: pn})
	}
	if !cfg.Unknown {
		for t := 0; t < cfg.Topics; t++ {
			name := c27TopicName(t)
			mt := protocol.MetadataTopic{Topic: &name, TopicID: c27TopicID(t)}
			for p := 0; p < cfg.Parts; p++ {
				mt.Partitions = append(mt.Partitions, protocol.MetadataPartition{Partition: int32(p), Leader: 1, Replicas: []int32{1}, ISR: []int32{1}})
			}
			state.Topics = append(state.Topics, mt)
		}
	}
	routes := map[string]string{}
	for i, tp := range cfg.tps() {
		if i < len(cfg.Routes) && cfg.Routes[i] != 0 {
			routes[fmt.Sprintf("/kafscale/partition-leases/%s/%d", c27TopicName(tp.T), tp.P)] = fmt.Sprint(cfg.Routes[i])
		}
	}
	k.cli.KV = &c27KV{routes: routes}
	router, err := metadata.NewPartitionRouter(k.ctx, k.cli, k.logger)
	if err != nil {
		return nil, nil, err
	}
	p := &proxy{
		advertisedHost: "proxy",
		advertisedPort: 9092,
		store:          metadata.NewInMemoryStore(state),
		backends:       []string{k.w.addr[0], k.w.addr[1]},
		logger:         k.logger,
		rr:             cfg.RR,
		dialTimeout:    5 * time.Second,
		cacheTTL:       time.Minute,
		brokerAddrs:    map[string]string{"1": k.w.addr[0], "2": k.w.addr[1], "3": c27DeadAddr},
		topicNames:     map[[16]byte]string{},
		backendRetries: 1,
		backendBackoff: time.Nanosecond,
	}
	if !cfg.Unknown {
		for t := 0; t < cfg.Topics; t++ {
			p.topicNames[c27TopicID(t)] = c27TopicName(t)
		}
	}
	if !cfg.NoRouter {
		p.router = router // (assigning a nil *PartitionRouter would make a non-nil interface/pointer check pass)
	}
	p.setReady(true)
	return p, router, nil
}

func c27BuildPayload(cfg c27Config) []byte {
	f := kmsg.NewRequestFormatter(kmsg.FormatterClientID("c27"))
	v := cfg.version()
	if cfg.isProduce() {
		req := kmsg.NewPtrProduceRequest()
		req.SetVersion(v)
		req.Acks = cfg.acks()
		req.TimeoutMillis = 1000
		for t := 0; t < cfg.Topics; t++ {
			rt := kmsg.NewProduceRequestTopic()
			rt.Topic = c27TopicName(t)
			for p := 0; p < cfg.Parts; p++ {
				if !cfg.requested(c27TP{t, int32(p)}) {
					continue
				}
				rp := kmsg.NewProduceRequestTopicPartition()
				rp.Partition = int32(p)
				rp.Records = c27RecordsOf(cfg, c27TP{t, int32(p)})
				rt.Partitions = append(rt.Partitions, rp)
			}
			if len(rt.Partitions) > 0 {
				req.Topics = append(req.Topics, rt)
			}
		}
		return f.AppendRequest(nil, req, int32(7001+10*cfg.step))[4:]
	}
	req := kmsg.NewPtrFetchRequest()
	req.SetVersion(v)
	req.ReplicaID = -1
	req.MaxWaitMillis = 0
	req.MinBytes = 1
	req.MaxBytes = 1 << 20
	for t := 0; t < cfg.Topics; t++ {
		rt := kmsg.NewFetchRequestTopic()
		if v >= 13 {
			rt.TopicID = c27TopicID(t)
		} else {
			rt.Topic = c27TopicName(t)
		}
		for p := 0; p < cfg.Parts; p++ {
			if !cfg.requested(c27TP{t, int32(p)}) {
				continue
			}
			rp := kmsg.NewFetchRequestTopicPartition()
			rp.Partition = int32(p)
			rp.FetchOffset = 0
			rp.PartitionMaxBytes = 1 << 20
			rt.Partitions = append(rt.Partitions, rp)
		}
		if len(rt.Partitions) > 0 {
			req.Topics = append(req.Topics, rt)
		}
	}
	return f.AppendRequest(nil, req, int32(7002+10*cfg.step))[4:]
}

func (k *c27Worker) run(c c27Case) (out c27Outcome) {
	cfg := c.Config
	p, router, err := k.newProxy(cfg)
	if err != nil {
		out.Err = "harness: router: " + err.Error()
		out.Anomaly = []string{out.Err}
		return
	}
	defer router.Stop()
	payload := c27BuildPayload(cfg)
	header, _, err := protocol.ParseRequestHeader(payload)
	if err != nil {
		out.Err = "harness: header: " + err.Error()
		out.Anomaly = []string{out.Err}
		return
	}
	k.w.beginRun(cfg, c.Script)
	pool := newConnPool(p.dialTimeout)
	var resp []byte
	var rerr error
	var panicked any
	func() {
		defer func() { panicked = recover() }()
		if cfg.isProduce() {
			resp, rerr = p.handleProduceRouting(k.ctx, header, payload, pool)
		} else {
			resp, rerr = p.handleFetchRouting(k.ctx, header, payload, pool)
		}
	}()
	out.Arrivals, out.Anomaly = k.w.endRun()
	pool.Close()
	out.Reply = map[c27TP][]int16{}
	switch {
	case panicked != nil:
		out.Err = fmt.Sprintf("panic: %v", panicked)
		return
	case rerr != nil:
		out.Err = "routing returned error: " + rerr.Error()
		return
	case resp == nil:
		out.Err = "no reply"
		return
	}
	c27DecodeReply(cfg, resp, &out)
	return
}

// c27DecodeReply decodes the bytes the client received for the request described by cfg into
// out.Reply / out.Extra (or out.Err).
func c27DecodeReply(cfg c27Config, resp []byte, out *c27Outcome) {
	v := cfg.version()
	if len(resp) < 5 {
		resp = append(append([]byte(nil), resp...), make([]byte, 5-len(resp))...) // too short: decoding fails below
	}
	if cfg.isProduce() {
		r := kmsg.NewPtrProduceResponse()
		r.SetVersion(v)
		body := resp[4:]
		if r.IsFlexible() {
			body = resp[5:]
		}
		if err := r.ReadFrom(body); err != nil {
			out.Err = "reply undecodable: " + err.Error()
			return
		}
		for _, t := range r.Topics {
			ti := -1
			for i := 0; i < cfg.Topics; i++ {
				if c27TopicName(i) == t.Topic {
					ti = i
				}
			}
			for _, pp := range t.Partitions {
				if ti < 0 || !cfg.requested(c27TP{ti, pp.Partition}) {
					out.Extra = append(out.Extra, fmt.Sprintf("%q/%d", t.Topic, pp.Partition))
					continue
				}
				tp := c27TP{ti, pp.Partition}
				out.Reply[tp] = append(out.Reply[tp], pp.ErrorCode)
			}
		}
		return
	}
	r := kmsg.NewPtrFetchResponse()
	r.SetVersion(v)
	body := resp[4:]
	if r.IsFlexible() {
		body = resp[5:]
	}
	if err := r.ReadFrom(body); err != nil {
		out.Err = "reply undecodable: " + err.Error()
		return
	}
	for _, t := range r.Topics {
		ti := -1
		for i := 0; i < cfg.Topics; i++ {
			if (v >= 13 && c27TopicID(i) == t.TopicID) || (v < 13 && c27TopicName(i) == t.Topic) {
				ti = i
			}
		}
		for _, pp := range t.Partitions {
			if ti < 0 || !cfg.requested(c27TP{ti, pp.Partition}) {
				out.Extra = append(out.Extra, fmt.Sprintf("%q/%x/%d", t.Topic, t.TopicID, pp.Partition))
				continue
			}
			tp := c27TP{ti, pp.Partition}
			out.Reply[tp] = append(out.Reply[tp], pp.ErrorCode)
		}
	}
}

// ---------------------------------------------------------------- oracle

type c27Viol struct{ key, detail string }

func c27Receipts(o c27Outcome, tp c27TP) []*c27Arrival {
	var rs []*c27Arrival
	for _, a := range o.Arrivals {
		if !a.Processed {
			continue
		}
		for _, x := range a.Parts {
			if x == tp {
				rs = append(rs, a)
				break
			}
		}
	}
	return rs
}

func c27BehKey(kind string) string {
	switch kind {
	case "ok":
		return "success"
	case "nl", "nlerr":
		return "answer-without-not-leader"
	case "err":
		return "error-code"
	case "closeAfter":
		return "close-after-read"
	case "garbage":
		return "garbage-reply"
	case "omit", "omitSome":
		return "incomplete-reply"
	case "okClose":
		return "success"
	}
	return kind
}

func c27Check(cfg c27Config, o c27Outcome) []c27Viol {
	var vs []c27Viol
	if o.Err != "" {
		k := "no-reply"
		if strings.HasPrefix(o.Err, "panic") {
			k = "panic-in-fan-out"
		} else if strings.HasPrefix(o.Err, "reply undecodable") {
			k = "reply-undecodable"
		}
		return []c27Viol{{k, o.Err}}
	}
	if len(o.Extra) > 0 {
		vs = append(vs, c27Viol{"unrequested-partition-entry", fmt.Sprintf("reply has entries for partitions that were not requested: %v", o.Extra)})
	}
	for _, tp := range cfg.tps() {
		codes := o.Reply[tp]
		rs := c27Receipts(o, tp)
		// 1. exactly one entry
		if len(codes) == 0 {
			key := "missing-partition-entry"
			if n := len(rs); n > 0 && rs[n-1].Beh.Kind == "omit" {
				key = "missing-entry-backend-reply-omitted-partition"
			} else if n > 0 && rs[n-1].Beh.Kind == "omitSome" && rs[n-1].Beh.omits(tp) {
				// the backend answered other partitions of the same sub-request but not this one
				key = "missing-entry-backend-reply-omitted-some-partitions"
			}
			vs = append(vs, c27Viol{key, fmt.Sprintf("reply has no entry for %s", tp)})
		} else if len(codes) > 1 {
			key := "duplicate-partition-entry"
			if len(rs) > 1 {
				key = "duplicate-entry-partition-sent-twice"
			}
			vs = append(vs, c27Viol{key, fmt.Sprintf("reply has %d entries for %s (codes %v)", len(codes), tp, codes)})
		}
		// 2. success only if a broker said so
		for _, c := range codes {
			if c != 0 {
				continue
			}
			ok := false
			for _, a := range rs {
				if code, has := a.Answer[tp]; a.Replied && has && code == 0 {
					ok = true
				}
			}
			if !ok {
				vs = append(vs, c27Viol{"success-without-broker-success", fmt.Sprintf("%s reported successful but no backend answered success for it", tp)})
			}
		}
		// 3. produce: resend only after NOT_LEADER for that partition
		if cfg.isProduce() {
			for i := 1; i < len(rs); i++ {
				prev := rs[i-1]
				code, has := prev.Answer[tp]
				if prev.Replied && has && code == c27NotLeader {
					continue
				}
				key := "produce-resent-after-" + c27BehKey(prev.Beh.Kind)
				if prev.Reused {
					// the previous receiver got it on a backend connection taken from the session's pool
					key += "-on-reused-connection"
				}
				vs = append(vs, c27Viol{key,
					fmt.Sprintf("records of %s were received by backend request %s although the previous receiver %s did not reject the partition as not leader (it did: %s)", tp, rs[i].Slot, prev.Slot, prev.Beh)})
				break
			}
			for _, a := range rs {
				if a.Stale != "" {
					vs = append(vs, c27Viol{"produce-of-earlier-request-written-again", a.Stale})
					break
				}
			}
			for _, a := range rs {
				if a.Corrupt != "" {
					vs = append(vs, c27Viol{"produce-records-altered", a.Corrupt})
					break
				}
			}
		}
	}
	return vs
}

// ---------------------------------------------------------------- choice enumeration

func c27Options(parts []c27TP, thorough bool) []c27Beh {
	opts := []c27Beh{{Kind: "ok"}}
	n := len(parts)
	for size := 1; size <= n; size++ {
		for mask := 1; mask < 1<<n; mask++ {
			var s []string
			for i := 0; i < n; i++ {
				if mask&(1<<i) != 0 {
					s = append(s, parts[i].String())
				}
			}
			if len(s) == size {
				opts = append(opts, c27Beh{Kind: "nl", NL: s})
				if thorough && size < n {
					opts = append(opts, c27Beh{Kind: "nlerr", NL: s})
				}
			}
		}
	}
	opts = append(opts, c27Beh{Kind: "err"}, c27Beh{Kind: "closeBefore"}, c27Beh{Kind: "closeAfter"}, c27Beh{Kind: "garbage"})
	if c27IncludeOmit {
		opts = append(opts, c27Beh{Kind: "omit"})
		// a decodable reply that leaves out a non-empty PROPER subset of the partitions of this
		// request (every such subset, smallest first) and answers success for the others
		if n <= 4 {
			for size := 1; size < n; size++ {
				for mask := 1; mask < 1<<n; mask++ {
					var s []string
					for i := 0; i < n; i++ {
						if mask&(1<<i) != 0 {
							s = append(s, parts[i].String())
						}
					}
					if len(s) == size {
						opts = append(opts, c27Beh{Kind: "omitSome", Omit: s})
					}
				}
			}
		}
	}
	return opts
}

type c27Choice struct {
	Slot string
	Opt  int
	Opts []c27Beh
}

func c27Signature(cfg c27Config, o c27Outcome) (string, bool) {
	var sb strings.Builder
	fmt.Fprintf(&sb, "%s|%dx%d|%v|rr%d|u%v|nr%v", cfg.Kind, cfg.Topics, cfg.Parts, cfg.Routes, cfg.RR, cfg.Unknown, cfg.NoRouter)
	nontrivial := false
	// arrivals of one attempt are concurrent: order by slot within the log for a stable signature
	as := append([]*c27Arrival(nil), o.Arrivals...)
	sort.Slice(as, func(i, j int) bool { return as[i].Slot < as[j].Slot })
	for _, a := range as {
		ps := make([]string, 0, len(a.Parts))
		for _, p := range a.Parts {
			ps = append(ps, p.String())
		}
		sort.Strings(ps)
		fmt.Fprintf(&sb, "|%s:%s[%s]", a.Slot, a.Beh, strings.Join(ps, ","))
		if a.Beh.Kind != "ok" {
			nontrivial = true
		}
	}
	for _, tp := range cfg.tps() {
		fmt.Fprintf(&sb, "|%s=%v", tp, o.Reply[tp])
	}
	return sb.String(), nontrivial
}

func c27Kinds(thorough bool) []c27Config {
	ks := []c27Config{
		{Kind: "produce-v9-acks1"},
		{Kind: "produce-v7-acksall"},
		{Kind: "fetch-name-v11"},
		{Kind: "fetch-id-v13"},
		{Kind: "fetch-id-v13", Unknown: true},
	}
	if thorough {
		ks = append(ks, c27Config{Kind: "produce-v9-acksall"}, c27Config{Kind: "produce-v3-acks1"}, c27Config{Kind: "fetch-name-v12"})
	}
	return ks
}

// c27Configs lists the (request shape, routing table, round-robin phase) combinations, simplest first.
func c27Configs(thorough bool) []c27Config {
	var out []c27Config
	shapes := [][2]int{{1, 1}, {1, 2}, {2, 1}, {2, 2}}
	for _, sh := range shapes {
		n := sh[0] * sh[1]
		vals := 3 // unknown, A, B
		if thorough && n <= 2 {
			vals = 4 // + owner whose address refuses connections
		}
		total := 1
		for i := 0; i < n; i++ {
			total *= vals
		}
		for _, kc := range c27Kinds(thorough) {
			for r := 0; r < total; r++ {
				routes := make([]int, n)
				x := r
				allUnknown := true
				for i := 0; i < n; i++ {
					routes[i] = x % vals
					x /= vals
					if routes[i] != 0 {
						allUnknown = false
					}
				}
				if kc.Unknown && !allUnknown {
					continue // the router is keyed by topic name: unresolved ids are never looked up
				}
				if n == 4 {
					// 2x2 shape: routing tables up to the A<->B symmetry (swapping the two backends and
					// the round-robin phase gives an isomorphic system): the first owned partition is A's
					first := 0
					for _, x := range routes {
						if x != 0 {
							first = x
							break
						}
					}
					if first == 2 {
						continue
					}
				}
				for rr := uint32(0); rr < 2; rr++ {
					c := kc
					c.Topics, c.Parts, c.Routes, c.RR = sh[0], sh[1], routes, rr
					out = append(out, c)
					if allUnknown {
						// the same request through a proxy that has no router at all
						c.NoRouter = true
						out = append(out, c)
					}
				}
			}
		}
	}
	return out
}

// c27Explore enumerates every behaviour script of one configuration with at most maxFaults
// non-success behaviours. Stateless DFS: a run with the current prefix discovers the slots that
// are consumed after it (defaulting to "ok"); the last choice is then advanced.
func c27Explore(k *c27Worker, cfg c27Config, maxFaults int, thorough bool, deadline time.Time, visit func(c c27Case, o c27Outcome)) (capped bool) {
	return c27ExploreScripts(maxFaults, deadline,
		func(a *c27Arrival) []c27Beh { return c27Options(a.Parts, thorough) },
		func(script map[string]c27Beh) []*c27Arrival {
			c := c27Case{Config: cfg, Script: script}
			o := k.run(c)
			visit(c, o)
			return o.Arrivals
		})
}

// c27ExploreScripts is the search itself: exec runs one script and returns the backends' request
// log (in arrival order); opts gives the behaviours open to a newly discovered slot.
func c27ExploreScripts(maxFaults int, deadline time.Time, opts func(a *c27Arrival) []c27Beh, exec func(script map[string]c27Beh) []*c27Arrival) (capped bool) {
	var stack []c27Choice
	for {
		script := map[string]c27Beh{}
		for _, ch := range stack {
			if ch.Opt != 0 {
				script[ch.Slot] = ch.Opts[ch.Opt]
			}
		}
		arrivals := exec(script)
		// newly discovered slots, in arrival order
		known := map[string]bool{}
		for _, ch := range stack {
			known[ch.Slot] = true
		}
		for _, a := range arrivals {
			if known[a.Slot] {
				continue
			}
			if !a.Processed {
				continue // cannot happen for a default ("ok") slot; guards against rig anomalies
			}
			known[a.Slot] = true
			stack = append(stack, c27Choice{Slot: a.Slot, Opt: 0, Opts: opts(a)})
		}
		// advance
		for {
			if len(stack) == 0 {
				return false
			}
			faults := 0
			for _, ch := range stack[:len(stack)-1] {
				if ch.Opt != 0 {
					faults++
				}
			}
			last := &stack[len(stack)-1]
			if faults < maxFaults && last.Opt+1 < len(last.Opts) {
				last.Opt++
				break
			}
			stack = stack[:len(stack)-1]
		}
		if time.Now().After(deadline) {
			return true
		}
	}
}

func TestVerifC27(t *testing.T) {
	rep := vh.New(t, "C27")
	defer rep.Finish()
	rep.Rule = "case = request kind (produce v9 acks=1, produce v7 acks=-1, fetch by name v11, fetch by topic id v13 resolvable / unresolvable) x shape (1-2 topics x 1-2 partitions) x routing table entry per partition (unknown | owner A | owner B; the all-unknown table also with a proxy that has no router at all) x initial round-robin phase x behaviour of each backend on each request it receives (ok | NOT_LEADER for every non-empty subset of the partitions in that request | other error code | close before reading | close after reading | undecodable reply | well-formed reply without partitions | well-formed reply that answers ok but leaves out a non-empty proper subset S of the partitions of that request, every S), all scripts with <= F non-ok behaviours by depth-first search over the requests actually received; run on the real proxy struct against 2 loopback TCP backends. distinct = configuration + per-backend request log + reply codes; non-trivial = >=1 non-ok behaviour was consumed. SESSIONS: in addition every sequence of 2 (thorough also 3) requests (produce v9 acks=1 | fetch v11, each naming a non-empty subset of the partitions of a 1 topic x 2 partition world) sent one after the other on ONE client connection through the real proxy.handleConnection (one connPool: later requests reuse the backend connections of earlier ones) x routing table x round-robin phase x all scripts with <= F non-ok behaviours over the slots consumed during the whole session, behaviours as above plus 'answer ok, then close the now pooled connection'; every request of the session is judged by the same oracle over the backend arrivals that happened while it was in flight (produce record bytes name their request)."
	rep.Assumptions = []string{
		"a backend that closes before reading the request body has not processed (appended) it; one that read the body has",
		"the routing table is a real metadata.PartitionRouter loaded from a fake etcd KV whose watch never fires: it only changes through the proxy's own Invalidate",
		"a 'malformed reply' is either undecodable bytes or a well-formed response that omits all or some of the requested partitions (a topic whose partitions are all omitted is omitted too)",
		"acks=0 produce (no reply at all) is outside the statement",
		"sessions: the client sends the next request only after it has read the reply to the previous one (no pipelining), so every backend arrival belongs to exactly one client request; the client side of the session is an in-memory net.Pipe, the backend side loopback TCP",
		"the fan-out iterates a Go map: when an unknown-owner group coexists with owned groups, which backend the round-robin group lands on depends on map iteration order, which cannot be controlled; every script is run under the order that occurred (the oracle does not depend on it)",
	}
	thorough := vh.Thorough()
	k0, err := c27NewWorker()
	if err != nil {
		t.Fatalf("HARNESS-ERROR cannot listen on loopback: %v", err)
	}
	defer k0.close()

	var replay c27Case
	if ok, err := vh.LoadReplay(&replay); ok {
		if err != nil {
			t.Fatalf("HARNESS-ERROR replay: %v", err)
		}
		if len(replay.Steps) > 0 {
			so := k0.runSession(replay)
			rep.Eval(1)
			sig, nt := c27SessionSignature(replay, so)
			rep.Outcome(sig, nt)
			rep.Sample(map[string]any{"case": replay, "log": c27SessionLogStrings(so), "reply": c27SessionReplyStrings(replay, so)})
			for _, v := range c27CheckSession(replay, so) {
				rep.Violation(v.key, v.detail+" | log: "+strings.Join(c27SessionLogStrings(so), " ; "), replay)
			}
			return
		}
		o := k0.run(replay)
		rep.Eval(1)
		sig, nt := c27Signature(replay.Config, o)
		rep.Outcome(sig, nt)
		rep.Sample(map[string]any{"case": replay, "log": c27LogStrings(o), "reply": c27ReplyStrings(replay.Config, o)})
		for _, v := range c27Check(replay.Config, o) {
			rep.Violation(v.key, v.detail+" | log: "+strings.Join(c27LogStrings(o), " ; "), replay)
		}
		return
	}

	faults := func(cfg c27Config) int {
		n := cfg.Topics * cfg.Parts
		if thorough {
			if n == 4 {
				switch cfg.Kind {
				case "produce-v9-acks1", "produce-v7-acksall", "fetch-name-v11", "fetch-id-v13":
					return 3
				}
				return 2
			}
			return 4
		}
		if n == 4 {
			return 2
		}
		return 3
	}
	rep.SetInfo("max_faults", map[string]int{"<=2 partitions": faults(c27Config{Kind: "produce-v9-acks1", Topics: 1, Parts: 1}), "4 partitions": faults(c27Config{Kind: "produce-v9-acks1", Topics: 2, Parts: 2}), "4 partitions, extra thorough kinds": faults(c27Config{Kind: "fetch-name-v12", Topics: 2, Parts: 2})})
	rep.SetInfo("backends", 2)
	rep.SetInfo("proxy_knobs", "backendRetries=1 backendBackoff=1ns maxRetries=3 (constant in forwardProduce/forwardFetch)")
	cfgs := c27Configs(thorough)
	rep.SetInfo("configurations", len(cfgs))
	deadline := vh.Deadline()
	shard, nshards := vh.Shard()

	type job struct {
		idx   int
		cfg   c27Config
		steps []c27Step // non-nil: a session (cfg is the world)
	}
	sessions := c27Sessions(thorough)
	rep.SetInfo("sessions", len(sessions))
	rep.SetInfo("session_bounds", c27SessionBounds(thorough))
	jobs := make(chan job, 64)
	go func() {
		defer close(jobs)
		for i, c := range cfgs {
			if i%nshards != shard {
				continue
			}
			jobs <- job{i, c, nil}
		}
		for i, sc := range sessions {
			if i%nshards != shard {
				continue
			}
			jobs <- job{len(cfgs) + i, sc.Config, sc.Steps}
		}
	}()
	// violations are reported smallest script first (fewest injected behaviours, then simplest
	// configuration), whatever order the workers found them in
	type found struct {
		size, order int
		detail      string
		c           c27Case
	}
	var aggMu sync.Mutex
	aggCount := map[string]int64{}
	aggBest := map[string][]found{}
	record := func(key string, f found) {
		aggMu.Lock()
		defer aggMu.Unlock()
		aggCount[key]++
		b := append(aggBest[key], f)
		sort.SliceStable(b, func(i, j int) bool {
			if b[i].size != b[j].size {
				return b[i].size < b[j].size
			}
			return b[i].order < b[j].order
		})
		if len(b) > 3 {
			b = b[:3]
		}
		aggBest[key] = b
	}
	defer func() {
		keys := make([]string, 0, len(aggBest))
		for k := range aggBest {
			keys = append(keys, k)
		}
		sort.Strings(keys)
		for _, k := range keys {
			for _, f := range aggBest[k] {
				rep.Violation(k, f.detail, f.c)
			}
			for n := int64(len(aggBest[k])); n < aggCount[k]; n++ {
				rep.Violation(k, "", nil)
			}
		}
	}()
	workers := runtime.GOMAXPROCS(0)
	if workers > 16 {
		workers = 16
	}
	var wg sync.WaitGroup
	var capOnce sync.Once
	var anomalyOnce sync.Once
	var singleSamples int32 // the last sample places are left to the session cases
	for wi := 0; wi < workers; wi++ {
		wg.Add(1)
		go func() {
			defer wg.Done()
			k, err := c27NewWorker()
			if err != nil {
				rep.Cap("worker could not listen: " + err.Error())
				return
			}
			defer k.close()
			for j := range jobs {
				cfg, cfgIdx := j.cfg, j.idx
				if j.steps != nil {
					capped := c27ExploreSession(k, rep, c27Case{Config: cfg, Steps: j.steps}, thorough, deadline, &anomalyOnce,
						func(key string, size int, detail string, c c27Case) { record(key, found{size, cfgIdx, detail, c}) })
					if capped {
						capOnce.Do(func() { rep.Cap("deadline reached before all configurations were explored") })
						for range jobs {
						}
						return
					}
					continue
				}
				var runs, faulty, partial int64
				sigs := map[string]bool{}
				capped := c27Explore(k, cfg, faults(cfg), thorough, deadline, func(c c27Case, o c27Outcome) {
					runs++
					sig, nt := c27Signature(cfg, o)
					if nt {
						faulty++
						sigs[sig] = true
					} else if !sigs[sig] {
						sigs[sig] = false
					}
					for _, a := range o.Arrivals {
						if a.Beh.Kind == "omitSome" {
							partial++
							break
						}
					}
					if len(o.Anomaly) > 0 {
						anomalyOnce.Do(func() {
							rep.Cap("rig anomaly (not a verdict): " + strings.Join(o.Anomaly, "; "))
						})
						rep.Count("rig_anomalies", 1)
					}
					if len(c.Script) == 0 {
						// self-check of the rig: without injected faults every partition succeeds
						for _, tp := range cfg.tps() {
							if cs := o.Reply[tp]; len(cs) != 1 || cs[0] != 0 {
								// (three fan-out groups over two backends: the proxy excludes a backend already
								// used in the same attempt, so one group finds no backend - an error entry, allowed)
								seen := map[int]bool{}
								for _, r := range cfg.Routes {
									seen[r] = true
								}
								threeGroups := seen[0] && seen[1] && seen[2]
								if !seen[3] && !threeGroups && o.Err == "" {
									rep.Count("rig_fault_free_run_not_successful", 1)
									anomalyOnce.Do(func() {
										rep.Cap(fmt.Sprintf("rig anomaly (not a verdict): fault-free run of %+v did not succeed: %v", cfg, c27ReplyStrings(cfg, o)))
									})
								}
							}
						}
					}
					for _, v := range c27Check(cfg, o) {
						record(v.key, found{len(c.Script), cfgIdx, v.detail + " | log: " + strings.Join(c27LogStrings(o), " ; ") + " | reply: " + strings.Join(c27ReplyStrings(cfg, o), " "), c})
					}
					if nt && len(o.Arrivals) >= 3 && len(c.Script) >= 2 && atomic.LoadInt32(&singleSamples) < 4 && atomic.AddInt32(&singleSamples, 1) <= 4 {
						rep.Sample(map[string]any{"case": c, "log": c27LogStrings(o), "reply": c27ReplyStrings(cfg, o)})
					}
				})
				rep.Eval(runs)
				rep.Count("runs_with_faults", faulty)
				rep.Count("runs_with_partially_answered_sub_request", partial)
				rep.Count(fmt.Sprintf("runs_shape_%dx%d", cfg.Topics, cfg.Parts), runs)
				rep.Count(fmt.Sprintf("configs_shape_%dx%d", cfg.Topics, cfg.Parts), 1)
				for s, nt := range sigs {
					rep.Outcome(s, nt)
				}
				if capped {
					capOnce.Do(func() { rep.Cap("deadline reached before all configurations were explored") })
					for range jobs {
					}
					return
				}
			}
		}()
	}
	wg.Wait()
}

func c27LogStrings(o c27Outcome) []string {
	var out []string
	for _, a := range o.Arrivals {
		ps := make([]string, 0, len(a.Parts))
		for _, p := range a.Parts {
			ps = append(ps, p.String())
		}
		out = append(out, fmt.Sprintf("%s got[%s] did %s", a.Slot, strings.Join(ps, ","), a.Beh))
	}
	return out
}

func c27ReplyStrings(cfg c27Config, o c27Outcome) []string {
	var out []string
	if o.Err != "" {
		out = append(out, o.Err)
	}
	for _, tp := range cfg.tps() {
		out = append(out, fmt.Sprintf("%s=%v", tp, o.Reply[tp]))
	}
	return out
}
