//go:build verif

package main

import (
	"context"
	"errors"
	"fmt"
	"net"
	"runtime"
	"strings"
	"sync"
	"sync/atomic"
	"testing"
	"time"

	"github.com/KafScale/platform/internal/verif/vh"
	"github.com/KafScale/platform/pkg/metadata"
	"github.com/KafScale/platform/pkg/protocol"
	"github.com/twmb/franz-go/pkg/kmsg"
)

// C28, connection-level part.
//
// The reply builders are only one way a Metadata/FindCoordinator reply can reach a client:
// the bytes a client receives are whatever the real handleConnection writes on its
// connection, including what it relays from a backend broker. This part drives the real
// handleConnection (client side: net.Pipe) of a proxy that is ready, whose metadata store
// can fail and whose context can be cancelled (shutdown), in front of a fake backend broker
// on loopback TCP that answers Metadata and FindCoordinator with its OWN topology (nodes
// 7 and 8, hosts broker-7/8.internal). Every request sequence of bounded length over a small
// alphabet is sent on one connection, under every fault placement, and every Metadata /
// FindCoordinator reply frame the client receives is decoded with kmsg at the request's
// version and must name nobody but the proxy. No reply (connection closed) is always fine.

const (
	c28BackendHostA = "broker-7.internal"
	c28BackendHostB = "broker-8.internal"
	c28Unreachable  = "127.0.0.1:1" // loopback port 1: never an ephemeral port, connection refused
)

// c28ConnCase is one connection history. Seq atoms: "M<v>" Metadata (all topics) at version
// v, "Mtrunc12" Metadata v12 whose body is cut short (the proxy cannot parse it), "LO"
// ListOffsets v4 (pass-through: makes the connection own a backend connection), "FC<v>"
// FindCoordinator at version v.
type c28ConnCase struct {
	Backend      string   `json:"backend"`       // static | cached | unreachable-static | unreachable-cached
	Seq          []string `json:"seq"`           // requests sent on the one client connection, in order
	StoreErr     []bool   `json:"store_err"`     // per request: store.Metadata returns an error while it is served
	CancelBefore int      `json:"cancel_before"` // the proxy's context is cancelled before this request; len(seq) = never
}

// c28FaultStore is the real InMemoryStore whose Metadata call fails while failing is set.
type c28FaultStore struct {
	*metadata.InMemoryStore
	failing atomic.Bool
}

var errC28Injected = errors.New("verif: injected metadata store failure")

func (s *c28FaultStore) Metadata(ctx context.Context, topics []string) (*metadata.ClusterMetadata, error) {
	if s.failing.Load() {
		return nil, errC28Injected
	}
	return s.InMemoryStore.Metadata(ctx, topics)
}

// c28Backend is a stand-in broker: it answers every frame from its request header alone.
type c28Backend struct {
	ln   net.Listener
	addr string
	port int32
}

func c28NewBackend() (*c28Backend, error) {
	ln, err := net.Listen("tcp", "127.0.0.1:0")
	if err != nil {
		return nil, err
	}
	b := &c28Backend{ln: ln, addr: ln.Addr().String(), port: int32(ln.Addr().(*net.TCPAddr).Port)}
	go func() {
		for {
			c, err := ln.Accept()
			if err != nil {
				return
			}
			go b.serve(c)
		}
	}()
	return b, nil
}

func (b *c28Backend) close() { b.ln.Close() }

func c28BackendTopology() *kmsg.MetadataResponse {
	mr := kmsg.NewPtrMetadataResponse()
	cid := "cluster-verif"
	mr.ClusterID = &cid
	mr.ControllerID = 8
	mr.Brokers = []kmsg.MetadataResponseBroker{
		{NodeID: 7, Host: c28BackendHostA, Port: 9093},
		{NodeID: 8, Host: c28BackendHostB, Port: 9094},
	}
	name := c28TopicName(0)
	mr.Topics = []kmsg.MetadataResponseTopic{{
		Topic:   &name,
		TopicID: metadata.TopicIDForName(name),
		Partitions: []kmsg.MetadataResponseTopicPartition{
			{Partition: 0, Leader: 7, LeaderEpoch: 0, Replicas: []int32{7, 8}, ISR: []int32{7}},
			{Partition: 1, Leader: 8, LeaderEpoch: 7, Replicas: []int32{7, 8}, ISR: []int32{8}},
		},
	}}
	return mr
}

func (b *c28Backend) serve(c net.Conn) {
	defer c.Close()
	for {
		fr, err := protocol.ReadFrame(c)
		if err != nil {
			return
		}
		h, _, err := protocol.ParseRequestHeader(fr.Payload)
		if err != nil {
			return
		}
		var resp kmsg.Response
		switch h.APIKey {
		case protocol.APIKeyMetadata:
			resp = c28BackendTopology()
		case protocol.APIKeyFindCoordinator:
			fc := kmsg.NewPtrFindCoordinatorResponse()
			fc.NodeID = 7
			fc.Host = c28BackendHostA
			fc.Port = 9093
			resp = fc
		default:
			resp = kmsg.NewPtrListOffsetsResponse()
		}
		if err := protocol.WriteFrame(c, protocol.EncodeResponse(h.CorrelationID, h.APIVersion, resp)); err != nil {
			return
		}
	}
}

var c28ConnTopics = []c28Topic{
	{Parts: []c28Part{{Err: 0, Epoch: 0}, {Err: 0, Epoch: 7}}},
	{ExplicitID: true, Parts: []c28Part{{Err: 5, Epoch: -1}}},
	{Err: 3},
}

type c28Atom struct {
	name    string
	api     int16
	version int16
	payload []byte
	local   bool // answered by the proxy itself (Metadata, FindCoordinator)
	broken  bool // the proxy cannot parse the body
}

func c28MakeAtom(name string) (c28Atom, error) {
	a := c28Atom{name: name}
	var v int
	switch {
	case name == "LO":
		req := kmsg.NewPtrListOffsetsRequest()
		req.SetVersion(4)
		a.api, a.version = protocol.APIKeyListOffsets, 4
		a.payload = c28EncodeReq(req, 300)
	case name == "Mtrunc12":
		req := kmsg.NewPtrMetadataRequest()
		req.SetVersion(12)
		p := c28EncodeReq(req, 200)
		a.api, a.version, a.local, a.broken = protocol.APIKeyMetadata, 12, true, true
		a.payload = p[:len(p)-2]
		if _, _, err := protocol.ParseRequestHeader(a.payload); err != nil {
			return a, fmt.Errorf("Mtrunc12: header must stay parseable: %v", err)
		}
		if _, _, err := protocol.ParseRequest(a.payload); err == nil {
			return a, fmt.Errorf("Mtrunc12: body is still parseable")
		}
	case strings.HasPrefix(name, "FC"):
		if _, err := fmt.Sscanf(name, "FC%d", &v); err != nil {
			return a, err
		}
		req := kmsg.NewPtrFindCoordinatorRequest()
		req.SetVersion(int16(v))
		req.CoordinatorKey = "group-verif"
		a.api, a.version, a.local = protocol.APIKeyFindCoordinator, int16(v), true
		a.payload = c28EncodeReq(req, 400+int32(v))
	case strings.HasPrefix(name, "M"):
		if _, err := fmt.Sscanf(name, "M%d", &v); err != nil {
			return a, err
		}
		req := kmsg.NewPtrMetadataRequest()
		req.SetVersion(int16(v))
		req.Topics = nil
		a.api, a.version, a.local = protocol.APIKeyMetadata, int16(v), true
		a.payload = c28EncodeReq(req, 100+int32(v))
	default:
		return a, fmt.Errorf("unknown atom %q", name)
	}
	return a, nil
}

type c28ConnWorker struct {
	be    *c28Backend
	atoms map[string]c28Atom
}

func c28NewConnWorker(alphabet []string) (*c28ConnWorker, error) {
	be, err := c28NewBackend()
	if err != nil {
		return nil, err
	}
	w := &c28ConnWorker{be: be, atoms: map[string]c28Atom{}}
	for _, n := range alphabet {
		a, err := c28MakeAtom(n)
		if err != nil {
			be.close()
			return nil, err
		}
		w.atoms[n] = a
	}
	return w, nil
}

type c28ConnResult struct {
	viols   []c28Viol
	sig     string
	nontr   bool
	steps   []string
	harness error
}

const c28ConnWatchdog = 120 * time.Second // hang guard only; never decides a verdict

// run plays one connection history against the real handleConnection.
func (w *c28ConnWorker) run(c c28ConnCase) (res c28ConnResult) {
	if len(c.StoreErr) != len(c.Seq) || c.CancelBefore < 0 || c.CancelBefore > len(c.Seq) {
		res.harness = fmt.Errorf("malformed case %+v", c)
		return
	}
	st := c28BuildState(2, c28ConnTopics)
	switch c.Backend {
	case "cached":
		st.Brokers = []protocol.MetadataBroker{{NodeID: 1, Host: "127.0.0.1", Port: w.be.port}}
		st.ControllerID = 1
	case "unreachable-cached":
		st.Brokers = []protocol.MetadataBroker{{NodeID: 1, Host: "127.0.0.1", Port: 1}}
		st.ControllerID = 1
	}
	store := &c28FaultStore{InMemoryStore: metadata.NewInMemoryStore(st)}
	full, err := store.InMemoryStore.Metadata(context.Background(), nil)
	if err != nil {
		res.harness = err
		return
	}
	p := c28NewProxy(store)
	p.backendRetries = 1
	p.backendBackoff = time.Nanosecond
	p.cacheTTL = time.Hour
	p.apiVersions = generateProxyApiVersions()
	ctx, cancel := context.WithCancel(context.Background())
	defer cancel()
	switch c.Backend {
	case "static":
		p.backends = []string{w.be.addr}
	case "unreachable-static":
		p.backends = []string{c28Unreachable}
	case "cached", "unreachable-cached":
		// what initMetadataCache does at start-up, while the store is healthy
		p.refreshMetadataCache(ctx)
		if len(p.cachedBackendsSnapshot()) != 1 || !p.cacheFresh() {
			res.harness = fmt.Errorf("backend cache not primed: %v", p.cachedBackendsSnapshot())
			return
		}
	default:
		res.harness = fmt.Errorf("unknown backend mode %q", c.Backend)
		return
	}
	p.setReady(true)

	client, server := net.Pipe()
	done := make(chan struct{})
	go func() {
		defer close(done)
		defer func() {
			if r := recover(); r != nil {
				res.viols = append(res.viols, c28Viol{"conn-panic-in-handle-connection", fmt.Sprint(r)})
			}
		}()
		p.handleConnection(ctx, server)
	}()
	_ = client.SetDeadline(time.Now().Add(c28ConnWatchdog))

	open := true        // the client has not yet seen the connection closed
	allAnswered := true // every earlier request got a reply
	onlyLocal := true   // every earlier request was a well-formed Metadata/FindCoordinator served without any fault
	add := func(k, d string) { res.viols = append(res.viols, c28Viol{k, d}) }
	for i, name := range c.Seq {
		a, ok := w.atoms[name]
		if !ok {
			var err error
			if a, err = c28MakeAtom(name); err != nil {
				res.harness = err
				break
			}
		}
		if c.CancelBefore == i {
			cancel()
		}
		store.failing.Store(c.StoreErr[i])
		fault := a.broken || c.StoreErr[i] || c.CancelBefore <= i
		if a.local && fault {
			res.nontr = true
		}
		var reply []byte
		if open {
			ioErr := protocol.WriteFrame(client, a.payload)
			if ioErr == nil {
				var fr *protocol.Frame
				if fr, ioErr = protocol.ReadFrame(client); ioErr == nil {
					reply = fr.Payload
				}
			}
			if ioErr != nil {
				open = false
				var ne net.Error
				if errors.As(ioErr, &ne) && ne.Timeout() {
					res.harness = fmt.Errorf("watchdog: no reply and no close for request %d of %+v", i, c)
					break
				}
			}
		}
		step := name + ":"
		switch {
		case reply == nil:
			step += "closed"
			if a.local && !fault && allAnswered && onlyLocal {
				add("conn-reply-missing-when-healthy", fmt.Sprintf("request %d (%s): store healthy, context live, the connection so far only carried Metadata/FindCoordinator requests that were served without fault and answered, but the proxy closed it without a reply", i, name))
			}
		case a.api == protocol.APIKeyMetadata:
			resp := kmsg.NewPtrMetadataResponse()
			resp.SetVersion(a.version)
			body, _, ok := c28SkipRespHeader(reply, resp.IsFlexible())
			if !ok || resp.ReadFrom(body) != nil {
				step += "undecodable"
				add("conn-metadata-reply-undecodable", fmt.Sprintf("request %d (%s): reply %x", i, name, reply))
				break
			}
			step += fmt.Sprintf("b%d,c%d,t%d", len(resp.Brokers), resp.ControllerID, len(resp.Topics))
			if vi := c28CheckOnlyProxy(resp, a.version, fault); vi != nil {
				key := "conn-" + vi.key
				if c28NamesBackend(resp) {
					key = "backend-metadata-reply-relayed-to-client"
				}
				add(key, fmt.Sprintf("request %d (%s): %s | reply brokers %v controller %d", i, name, vi.detail, c28BrokerList(resp.Brokers), resp.ControllerID))
			} else if !fault {
				wt, gt := c28Tuples(full.Topics, a.version), c28Tuples(resp.Topics, a.version)
				if strings.Join(wt, ";") != strings.Join(gt, ";") {
					k, d := c28DiffKey(full.Topics, resp.Topics, a.version)
					add("conn-"+k, fmt.Sprintf("request %d (%s): %s | store: %v | reply: %v", i, name, d, wt, gt))
				}
			}
		case a.api == protocol.APIKeyFindCoordinator:
			resp := kmsg.NewPtrFindCoordinatorResponse()
			resp.SetVersion(a.version)
			body, _, ok := c28SkipRespHeader(reply, resp.IsFlexible())
			if !ok || resp.ReadFrom(body) != nil {
				step += "undecodable"
				add("conn-coordinator-reply-undecodable", fmt.Sprintf("request %d (%s): reply %x", i, name, reply))
				break
			}
			step += fmt.Sprintf("e%d,n%d", resp.ErrorCode, resp.NodeID)
			named := resp.ErrorCode == 0 || resp.NodeID >= 0 || resp.Host != "" || resp.Port > 0
			switch {
			case !named && fault:
				// error reply naming nobody
			case !named || resp.ErrorCode != 0:
				add("conn-coordinator-error-when-healthy", fmt.Sprintf("request %d (%s): error %d node %d %s:%d", i, name, resp.ErrorCode, resp.NodeID, resp.Host, resp.Port))
			case resp.Host != c28Host || resp.Port != c28Port || resp.NodeID != 0:
				key := "conn-coordinator-not-proxy"
				if resp.Host == c28BackendHostA || resp.Host == c28BackendHostB {
					key = "backend-coordinator-reply-relayed-to-client"
				}
				add(key, fmt.Sprintf("request %d (%s): coordinator %d %s:%d, proxy is 0 %s:%d", i, name, resp.NodeID, resp.Host, resp.Port, c28Host, c28Port))
			}
		default:
			step += "reply"
		}
		res.steps = append(res.steps, step)
		if reply == nil {
			allAnswered = false
		}
		if !a.local || fault {
			onlyLocal = false
		}
	}
	client.Close()
	cancel()
	select {
	case <-done:
	case <-time.After(c28ConnWatchdog):
		if res.harness == nil {
			res.harness = fmt.Errorf("watchdog: handleConnection did not return after the client closed, case %+v", c)
		}
	}
	res.sig = c.Backend + "|" + strings.Join(res.steps, "|")
	return
}

func c28NamesBackend(resp *kmsg.MetadataResponse) bool {
	for _, b := range resp.Brokers {
		if b.Host == c28BackendHostA || b.Host == c28BackendHostB {
			return true
		}
	}
	return false
}

func c28ConnSequences(alphabet []string, maxLen int) [][]string {
	var out [][]string
	level := [][]string{nil}
	for l := 1; l <= maxLen; l++ {
		var next [][]string
		for _, s := range level {
			for _, a := range alphabet {
				next = append(next, append(append([]string(nil), s...), a))
			}
		}
		out = append(out, next...)
		level = next
	}
	return out
}

// c28ConnectionPart enumerates backend mode x request sequence x per-request store failure
// subset x cancellation point, simplest first.
func c28ConnectionPart(t *testing.T, rep *vh.Report, thorough bool) {
	alphabet := []string{"M12", "LO", "FC3", "M0", "M9", "Mtrunc12"}
	maxLen := 3
	if thorough {
		alphabet = append(alphabet, "M10", "FC0")
	}
	modes := []string{"static", "cached", "unreachable-static", "unreachable-cached"}
	seqs := c28ConnSequences(alphabet, maxLen)
	rep.SetInfo("conn_alphabet", alphabet)
	rep.SetInfo("conn_max_sequence_length", maxLen)
	rep.SetInfo("conn_backend_modes", modes)
	rep.SetInfo("conn_faults", "every subset of the requests served with a failing store x context cancelled before request k (k=0..len, len=never)")

	type job struct {
		mode string
		seq  []string
	}
	jobs := make(chan job, 256)
	go func() {
		defer close(jobs)
		for _, s := range seqs {
			for _, m := range modes {
				jobs <- job{m, s}
			}
		}
	}()
	deadline := vh.Deadline()
	start := time.Now()
	workers := runtime.GOMAXPROCS(0)
	if workers > 16 {
		workers = 16
	}
	var wg sync.WaitGroup
	var capped, failed sync.Once
	var total atomic.Int64
	for i := 0; i < workers; i++ {
		wg.Add(1)
		go func() {
			defer wg.Done()
			w, err := c28NewConnWorker(alphabet)
			if err != nil {
				failed.Do(func() { t.Errorf("HARNESS-ERROR connection part: %v", err) })
				for range jobs {
				}
				return
			}
			defer w.be.close()
			for j := range jobs {
				if time.Now().After(deadline) {
					capped.Do(func() { rep.Cap("deadline reached before all connection histories were evaluated") })
					continue
				}
				n := len(j.seq)
				for mask := 0; mask < 1<<n; mask++ {
					for cb := n; cb >= 0; cb-- { // never cancelled first
						c := c28ConnCase{Backend: j.mode, Seq: j.seq, StoreErr: make([]bool, n), CancelBefore: cb}
						for k := 0; k < n; k++ {
							c.StoreErr[k] = mask&(1<<k) != 0
						}
						r := w.run(c)
						rep.Eval(1)
						total.Add(1)
						if r.harness != nil {
							failed.Do(func() { t.Errorf("HARNESS-ERROR connection part: %v", r.harness) })
							continue
						}
						rep.Outcome("conn|"+r.sig, r.nontr)
						for _, v := range r.viols {
							rep.Violation(v.key, v.detail, c28Case{Conn: &c})
						}
						if r.nontr && n == 3 && mask != 0 && cb < n && j.mode == "static" && rep.WantSample() {
							rep.Sample(map[string]any{"conn_case": c, "client_saw": r.steps})
						}
					}
				}
			}
		}()
	}
	wg.Wait()
	rep.Count("connection_histories", total.Load())
	rep.SetInfo("conn_part_wall_s", fmt.Sprintf("%.1f", time.Since(start).Seconds()))
}
