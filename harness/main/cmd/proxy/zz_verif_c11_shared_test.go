//go:build verif

package main

// C11 (part "shared", proxy): building the reply for one client connection's request shares
// no unsynchronised mutable state with building the reply for another connection's request.
//
// proxy.listenAndServe starts one handleConnection goroutine per client connection on ONE
// proxy value, so the statement "a request at an advertised version gets a reply that the
// codec decodes at that version" must hold whatever another connection asks at the same
// moment. The sequential half cannot see a reply object, buffer or cache that two
// connections write without synchronisation. This part (binary built with -race) runs, for
// every ordered pair (A,B) of requests the proxy answers itself, connection 1 (request A)
// and then connection 2 (request B) through the real handleConnection of one fresh proxy,
// with the hand-off between the two hidden from the race detector
// (see zz_verif_c11_racelog_test.go); a detector report between two accesses of repository
// code (or library code reached from it) is a violation "shared-reply-state:<fn1>|<fn2>".
// The two replies are also judged by the sequential oracle (vC11CheckReply).

import (
	"context"
	"encoding/binary"
	"errors"
	"fmt"
	"io"
	"net"
	"os"
	"sort"
	"testing"
	"time"

	"github.com/KafScale/platform/internal/verif/enum"
	"github.com/KafScale/platform/internal/verif/sched"
	"github.com/KafScale/platform/internal/verif/vh"
)

// vC11sCase is one connection of a pair: one request.
type vC11sCase struct {
	Key      int16  `json:"key"`
	Version  int16  `json:"version"`
	Body     string `json:"body"`
	Flexible bool   `json:"flexible"`
}

func (c vC11sCase) name() string {
	return fmt.Sprintf("%s v%d body=%s", vC11Name(c.Key), c.Version, c.Body)
}

type vC11sReplay struct {
	Kind string    `json:"kind"` // "shared-pair"
	Half string    `json:"half"` // "proxy-shared"
	Mode string    `json:"mode"` // ready | notready
	A    vC11sCase `json:"a"`
	B    vC11sCase `json:"b"`
}

// vC11sProxyServe is one client connection: the real handleConnection on one end of a
// net.Pipe, one request written, one reply frame (or the close) read, connection closed,
// handleConnection awaited. Everything happens in the calling goroutine and its children.
func vC11sProxyServe(p *proxy, wire []byte) (got vC11Got, err error) {
	client, server := net.Pipe()
	done := make(chan string, 1)
	ctx, cancel := context.WithCancel(context.Background())
	defer cancel()
	go func() {
		defer func() {
			if r := recover(); r != nil {
				_ = server.Close()
				done <- fmt.Sprint(r)
				return
			}
			done <- ""
		}()
		p.handleConnection(ctx, server)
	}()
	_ = client.SetDeadline(time.Now().Add(60 * time.Second)) // liveness guard only: expiry is a harness error, never a verdict
	if _, werr := client.Write(wire); werr != nil && errors.Is(werr, os.ErrDeadlineExceeded) {
		return got, fmt.Errorf("proxy did not read the request within the liveness guard")
	}
	var szb [4]byte
	if _, rerr := io.ReadFull(client, szb[:]); rerr != nil {
		if errors.Is(rerr, os.ErrDeadlineExceeded) {
			return got, fmt.Errorf("proxy did not answer or close within the liveness guard")
		}
		got.Closed = true
	} else {
		n := binary.BigEndian.Uint32(szb[:])
		if n > 1<<24 {
			return got, fmt.Errorf("reply frame declares %d bytes", n)
		}
		payload := make([]byte, n)
		if _, rerr := io.ReadFull(client, payload); rerr != nil {
			if errors.Is(rerr, os.ErrDeadlineExceeded) {
				return got, fmt.Errorf("proxy did not finish its reply within the liveness guard")
			}
			got.Closed = true
		} else {
			got.Frames = append(got.Frames, payload)
		}
	}
	_ = client.Close()
	if pmsg := <-done; pmsg != "" {
		got.Panic = pmsg
	}
	return got, nil
}

func vC11sOutcome(c vC11sCase, mode string, corr int32, got vC11Got) (label string, decoded bool, viol, detail string) {
	switch {
	case got.Panic != "":
		return "panic", false, "", ""
	case len(got.Frames) == 0:
		return "no-reply", false, "", ""
	}
	cc := vC11Case{Half: "proxy", Mode: mode, Key: c.Key, Version: c.Version, Body: c.Body, Fixture: "static", Advertised: true}
	outcome, resp, viol, detail := vC11CheckReply(cc, corr, got.Frames[0])
	if viol != "" {
		return outcome + ":" + viol, false, viol, detail
	}
	return fmt.Sprintf("%s ec=%d", outcome, vC11FirstError(resp)), resp != nil, "", ""
}

func TestVerifC11Shared(t *testing.T) {
	rep := vh.New(t, "C11")
	defer rep.Finish()
	rep.Rule = "(part shared/proxy, -race build) worlds: 'ready' = {ApiVersions, Metadata, FindCoordinator} (the APIs the proxy answers itself) x every generated body of the key; 'notready' = every API key the proxy advertises x the body 'one' (first non-empty body) answered by buildNotReadyResponse; each x {min advertised, max advertised, first flexible request version, the one before it} (within the advertised range; thorough: every advertised version). Every ordered pair (A,B) of one world: a fresh proxy, connection 1 sends A through the real handleConnection in goroutine G1, then connection 2 sends B in goroutine G2, the G1->G2 hand-off hidden from the race detector and both joined visibly before the next pair; a detector report whose two accesses are in repository code or library code reached from it is a violation; both replies are judged by the sequential oracle. distinct = (world, A, B, outcomes); non-trivial = both replies decoded completely at their request versions"
	rep.Assumptions = []string{
		"(part shared) the Go race detector is the oracle for 'conflicting accesses without happens-before'; it does not see accesses made in assembly or through sync.Pool hand-overs, it suppresses a report whose two stacks equal an earlier report's, and synchronisation the code under test performs between the two requests (mutex, atomic, sync.Once) orders what precedes it in connection 1 before what follows it in connection 2",
		"(part shared) two sequential, deterministic reply constructions that have no conflicting access to shared memory produce the same replies under every interleaving; a conflicting access is reported as shared mutable reply state whether or not some interleaving actually corrupts a reply",
		"(part shared/proxy) proxy built like main() with a static backend list, metadata.InMemoryStore, no etcd routers, no LFS; one connection = net.Pipe + the real handleConnection; the APIs relayed to a backend are not part of this world (their replies are built by the backend)",
	}
	if !sched.RaceBuild {
		t.Fatalf("HARNESS-ERROR C11 part TestVerifC11Shared must be built with -race")
	}
	lg := newVC11sLog()
	if lg.base == "" {
		t.Fatalf("HARNESS-ERROR VERIF_RACE_LOG is not set (the detector's reports cannot be read back)")
	}
	deadAddr, err := vC11ClosedAddr()
	if err != nil {
		t.Fatalf("HARNESS-ERROR loopback listener: %v", err)
	}
	fx := &vC11Fx{Topic: "t", TopicID: vC11TopicID, Group: "g", MemberID: "m1", Generation: 1, Batch: enum.SimpleBatch("c11", 1, 4)}

	type pairResult struct {
		ga, gb                 vC11Got
		races                  []vC11sRace
		control, other         []string
		la, lb                 string
		bothDecoded            bool
		violA, detA, violB, dB string
	}
	runPair := func(mode string, a, b vC11sCase) (r pairResult) {
		p := vC11NewProxy(mode, deadAddr) // the enumerated requests never reach a backend
		wa := vC11Format(vC11FindBody(a.Key, a.Body).Build(a.Version, fx), 101)
		wb := vC11Format(vC11FindBody(b.Key, b.Body).Build(b.Version, fx), 202)
		var ea, eb error
		vC11sRunPair(func() { r.ga, ea = vC11sProxyServe(p, wa) }, func() { r.gb, eb = vC11sProxyServe(p, wb) })
		if ea != nil || eb != nil {
			t.Fatalf("HARNESS-ERROR %v %v (%s | %s)", ea, eb, a.name(), b.name())
		}
		r.races, r.control, r.other = lg.newRaces()
		var da, db bool
		r.la, da, r.violA, r.detA = vC11sOutcome(a, mode, 101, r.ga)
		r.lb, db, r.violB, r.dB = vC11sOutcome(b, mode, 202, r.gb)
		r.bothDecoded = da && db
		return r
	}
	report := func(mode string, a, b vC11sCase, r pairResult) {
		rp := vC11sReplay{Kind: "shared-pair", Half: "proxy-shared", Mode: mode, A: a, B: b}
		for _, rc := range r.races {
			rep.Violation(rc.Key, fmt.Sprintf("proxy (%s): building the reply to %s (connection 1) and building the reply to %s (connection 2) access the same memory without synchronisation, at least one of them writing:\n%s", mode, a.name(), b.name(), rc.Report), rp)
		}
		if r.violA != "" {
			rep.Violation(r.violA+":"+vC11Name(a.Key), fmt.Sprintf("proxy (%s) connection 1 of the pair %s | %s: %s; reply=%x", mode, a.name(), b.name(), r.detA, vC11Clip(r.ga.Frames[0], 96)), rp)
		}
		if r.violB != "" {
			rep.Violation(r.violB+":"+vC11Name(b.Key), fmt.Sprintf("proxy (%s) connection 2 of the pair %s | %s (after connection 1 was served): %s; reply=%x", mode, a.name(), b.name(), r.dB, vC11Clip(r.gb.Frames[0], 96)), rp)
		}
	}

	var rp vC11sReplay
	if ok, err := vh.LoadReplay(&rp); ok {
		if err != nil {
			t.Fatalf("HARNESS-ERROR replay: %v", err)
		}
		if rp.Kind != "shared-pair" || rp.Half != "proxy-shared" {
			return // a replay of another half
		}
		if vC11FindBody(rp.A.Key, rp.A.Body) == nil || vC11FindBody(rp.B.Key, rp.B.Body) == nil || (rp.Mode != "ready" && rp.Mode != "notready") {
			t.Fatalf("HARNESS-ERROR replay names an unknown body or mode")
		}
		r := runPair(rp.Mode, rp.A, rp.B)
		rep.Eval(1)
		rep.Outcome("replay|"+r.la+"|"+r.lb, true)
		fmt.Printf("REPLAY proxy/%s %s | %s: %s ; %s races=%d other=%d\n", rp.Mode, rp.A.name(), rp.B.name(), r.la, r.lb, len(r.races), len(r.other))
		for _, rc := range r.races {
			fmt.Println(rc.Report)
		}
		report(rp.Mode, rp.A, rp.B, r)
		return
	}

	// the advertised set, from the real function
	keys, adv, _ := vC11Advertised(generateProxyApiVersions())
	thorough := vh.Thorough()
	local := map[int16]bool{18: true, 3: true, 10: true}
	worlds := []struct {
		mode  string
		cases []vC11sCase
	}{{mode: "ready"}, {mode: "notready"}}
	for wi := range worlds {
		w := &worlds[wi]
		for _, k := range keys {
			a, ok := adv[k]
			if !ok || (w.mode == "ready" && !local[k]) {
				continue
			}
			bodies := vC11Bodies(k)
			if w.mode == "notready" { // one body: the first non-empty one
				pick := bodies[0]
				for _, b := range bodies {
					if b.Name == "one" {
						pick = b
					}
				}
				if pick.Name == "empty" && len(bodies) > 1 {
					pick = bodies[1]
				}
				bodies = []vC11Body{pick}
			}
			for _, v := range vC11sVersions(k, a, thorough) {
				for _, b := range bodies {
					rq := b.Build(v, fx)
					if rq == nil {
						t.Fatalf("HARNESS-ERROR kmsg has no request type for advertised key %d", k)
					}
					w.cases = append(w.cases, vC11sCase{Key: k, Version: v, Body: b.Name, Flexible: rq.IsFlexible()})
				}
			}
		}
		rep.SetInfo("shared_proxy_requests_"+w.mode, len(w.cases))
		rep.SetInfo("shared_proxy_ordered_pairs_"+w.mode, len(w.cases)*len(w.cases))
	}
	for _, k := range []int16{18, 3, 10} {
		if _, ok := adv[k]; !ok {
			t.Fatalf("HARNESS-ERROR the proxy no longer advertises key %d, which this part takes as locally answered", k)
		}
	}

	// controls. (1) two executions ordered by the visible join must not be reported;
	// (2) a conflict between the two halves of one pair must be reported.
	vC11sRunPair(vC11sTouchNeg, func() {})
	vC11sRunPair(vC11sTouchNeg, func() {})
	if f, c, o := lg.newRaces(); len(f)+len(c)+len(o) != 0 {
		t.Fatalf("HARNESS-ERROR control: the detector reported a conflict between two pairs that are ordered by the join: %v %v %v", f, c, o)
	}
	vC11sRunPair(vC11sTouchPos, vC11sTouchPos)
	if f, c, o := lg.newRaces(); len(c) != 1 || len(f)+len(o) != 0 {
		t.Fatalf("HARNESS-ERROR control: the detector did not report the conflicting writes of the two halves of one pair (hand-off not hidden, or log not readable): found=%v control=%v other=%v", f, c, o)
	}
	rep.Count("shared_control_reports", 1)

	deadline := vh.Deadline()
	shard, nsh := vh.Shard()
	var otherAll []string
	capped := false
	for _, w := range worlds {
		type pairIdx struct{ a, b, rank int }
		var order []pairIdx
		for ai, a := range w.cases {
			if ai%nsh != shard {
				continue
			}
			for bi, b := range w.cases {
				order = append(order, pairIdx{ai, bi, vC11sRank(a.Key, a.Version, a.Flexible, b.Key, b.Version, b.Flexible)})
			}
		}
		sort.SliceStable(order, func(i, j int) bool { return order[i].rank < order[j].rank })
		for n, pi := range order {
			if n%32 == 0 && time.Now().After(deadline) {
				capped = true
				break
			}
			a, b := w.cases[pi.a], w.cases[pi.b]
			r := runPair(w.mode, a, b)
			rep.Eval(1)
			rep.Count("cases_shared_pairs_proxy_"+w.mode, 1)
			rep.Outcome(fmt.Sprintf("SHP|%s|%d|%d|%s|%d|%d|%s|%s|%s", w.mode, a.Key, a.Version, a.Body, b.Key, b.Version, b.Body, r.la, r.lb), r.bothDecoded)
			if !r.bothDecoded {
				rep.Count("shared_pairs_not_both_decoded", 1)
			}
			if pi.rank == 0 && rep.WantSample() {
				rep.Sample(map[string]any{"phase": "shared/proxy/" + w.mode, "connection_1": a.name(), "connection_2": b.name(), "outcome_1": r.la, "outcome_2": r.lb, "detector_reports": len(r.races)})
			}
			report(w.mode, a, b, r)
			if len(r.control) != 0 {
				t.Fatalf("HARNESS-ERROR the detector reported a conflict in harness code while serving %s | %s: %v", a.name(), b.name(), r.control)
			}
			otherAll = append(otherAll, r.other...)
		}
	}
	if capped {
		rep.Cap("deadline hit in shared-state pair enumeration (proxy)")
	}
	// the detector must still be alive and its log readable at the end
	vC11sRunPair(vC11sTouchPos2, vC11sTouchPos2)
	if f, c, o := lg.newRaces(); len(c) != 1 || len(f)+len(o) != 0 {
		t.Fatalf("HARNESS-ERROR end control: the detector did not report the conflicting control writes: found=%v control=%v other=%v", f, c, o)
	}
	rep.Count("shared_control_reports", 1)
	rep.Count("shared_reports_outside_reply_code", int64(len(otherAll)))
	for i, o := range otherAll {
		if i < 3 {
			fmt.Printf("C11SHARED report outside reply code:\n%s\n", o)
		}
	}
}
