//go:build verif

package main

import (
	"fmt"
	"testing"

	"github.com/KafScale/platform/internal/verif/enum"
	"github.com/KafScale/platform/internal/verif/fakes3"
	"github.com/KafScale/platform/internal/verif/sched"
	"github.com/KafScale/platform/internal/verif/vh"
	"github.com/KafScale/platform/pkg/metadata"
)

// C06: restart after any crash point loses no acknowledged record and reuses no offset.
//
// Closed system: one broker incarnation serves 2-4 produce requests (acks=-1,
// flush-on-ack) from 1-3 client threads; the explorer may crash it before any S3 or
// metadata-store operation (after a crash every later operation of that incarnation
// fails without effect and its replies are not delivered) and may make S3 uploads
// fail. Then a fresh broker over the same bucket and store must serve every record
// acknowledged before the crash at its offset, and a new append must get an offset
// above everything acknowledged or visible below the published high watermark. A second
// fresh broker over what the first recovery left must find the same.

type c06Scenario struct {
	Name      string
	Producers [][]int
	FailS3    bool
	FailStore bool // the metadata-store offset update may fail (the broker logs it and still acknowledges)
	Delay     bool // delay bounding for the larger concurrent history
}

func c06Scenarios() []c06Scenario {
	sc := []c06Scenario{
		{Name: "1p-2req", Producers: [][]int{{1, 2}}, FailS3: true},
		{Name: "1p-3req", Producers: [][]int{{1, 2, 1}}, FailS3: true},
		{Name: "2p-1req", Producers: [][]int{{1}, {2}}, FailS3: true},
		// the very first flush of a partition: the metadata offset is still 0 when its update fails or the broker stops
		{Name: "1p-2req-storefail", Producers: [][]int{{1, 2}}, FailStore: true},
		// one flush in upload while two producers wait for it: the waiters' wake-up order and re-checks
		{Name: "3p-1req", Producers: [][]int{{1}, {2}, {1}}, Delay: true},
	}
	if vh.Thorough() {
		sc = append(sc,
			c06Scenario{Name: "1p-4req", Producers: [][]int{{1, 2, 1, 1}}, FailS3: true},
			c06Scenario{Name: "2p-2req", Producers: [][]int{{1, 1}, {2, 1}}, FailS3: true, Delay: true},
		)
	}
	return sc
}

func c06Body(sc c06Scenario, verbose bool) func(s *sched.Sched) {
	return func(s *sched.Sched) {
		bucket := fakes3.NewBucket()
		s3 := fakes3.New(bucket, "b1")
		for _, op := range []string{"UploadSegment", "UploadIndex", "ListSegments", "DownloadSegment", "DownloadIndex"} {
			s3.CrashOn[op] = true
		}
		if sc.FailS3 {
			s3.FailOn["UploadSegment"] = true
			s3.FailOn["UploadIndex"] = true
		}
		inner := metadata.NewInMemoryStore(vMeta(map[string]int{"t": 1}))
		store := &vStore{Store: inner, S3: s3, CrashUpd: true, FailUpd: sc.FailStore}
		h := vNewHandler(store, s3)
		h.logConfig.Buffer.FlushInterval = 0
		h.logConfig.ReadAheadSegments = 0
		defer h.coordinator.Stop()
		var sent []*vProdSent
		for pi, batches := range sc.Producers {
			for bi, n := range batches {
				sent = append(sent, &vProdSent{Producer: pi, Seq: bi, N: n, Bytes: enum.SimpleBatch(fmt.Sprintf("p%db%d", pi, bi), n, 5)})
			}
		}
		maxPublished := int64(0)
		s.StepHook = func() {
			if n, err := inner.NextOffset(bg(), "t", 0); err == nil && n > maxPublished {
				maxPublished = n
			}
		}
		for pi := range sc.Producers {
			pi := pi
			s.Go(fmt.Sprintf("P%d", pi), func() {
				for _, snt := range sent {
					if snt.Producer != pi {
						continue
					}
					res, err := vProduceOne(h, "t", 0, -1, snt.Bytes)
					// a reply produced after the crash never reaches the client
					if !s3.Crashed() {
						snt.Res, snt.Err, snt.Done = res, err, true
					}
				}
			})
		}
		s.Run()
		if s.Deadlock {
			s.Fail("deadlock", "blocked: %s", s.Blocked())
			return
		}
		s.StepHook()
		crashed := s3.Crashed()
		// ---- restart ----
		s3b := fakes3.New(bucket, "b2")
		s3b.NoPoints = true
		h2 := vNewHandler(&vStore{Store: inner, NoPoints: true}, s3b)
		h2.logConfig.Buffer.FlushInterval = 0
		h2.logConfig.ReadAheadSegments = 0
		defer h2.coordinator.Stop()
		orphan := false
		segs, idx := bucket.Snapshot()
		for k := range segs {
			if _, ok := idx[k[:len(k)-4]+".index"]; !ok {
				orphan = true
			}
		}
		maxAcked := int64(-1)
		for _, snt := range sent {
			if !snt.Done || snt.Err != nil || snt.Res.Code != 0 {
				continue
			}
			last := snt.Res.Base + int64(snt.N) - 1
			if last > maxAcked {
				maxAcked = last
			}
			vCalm()
			fr, err := vFetchOne(h2, "t", 0, snt.Res.Base, 1<<20)
			ok := false
			if err == nil && fr.Code == 0 {
				for _, d := range vLooseBatches(fr.Records) {
					if d.BaseOffset == snt.Res.Base && vSameBatch(d.Raw, snt.Bytes) {
						ok = true
					}
				}
			}
			if !ok {
				key := "acked-lost-after-restart"
				if err == nil && fr.Code != 0 && orphan {
					key = "restart-blocked-by-orphan-segment"
				}
				s.Fail(key, "p%d.%d acked at base %d; after restart fetch err=%v code=%d len=%d (crashed=%v orphan=%v keys=%v)", snt.Producer, snt.Seq, snt.Res.Base, err, fr.Code, len(fr.Records), crashed, orphan, bucket.Keys())
			}
		}
		// a new append must not reuse an acknowledged or visible offset, and the partition must open
		extra := enum.SimpleBatch("after", 1, 5)
		vCalm()
		res, err := vProduceOne(h2, "t", 0, -1, extra)
		if err != nil || res.Code != 0 {
			key := "partition-unusable-after-restart"
			if orphan {
				key = "restart-blocked-by-orphan-segment"
			}
			s.Fail(key, "produce after restart: err=%v code=%d (crashed=%v orphan=%v keys=%v next=%d)", err, res.Code, crashed, orphan, bucket.Keys(), maxPublished)
		} else {
			if res.Base <= maxAcked {
				s.Fail("offset-reuse-acked", "new batch got base %d <= last acknowledged offset %d", res.Base, maxAcked)
			}
			if res.Base < maxPublished {
				s.Fail("offset-reuse-visible", "new batch got base %d below published high watermark %d", res.Base, maxPublished)
			}
			// and it must itself be readable, while the acked ones stay intact
			vCalm()
			fr, ferr := vFetchOne(h2, "t", 0, res.Base, 1<<20)
			found := false
			if ferr == nil && fr.Code == 0 {
				for _, d := range vLooseBatches(fr.Records) {
					if d.BaseOffset == res.Base && vSameBatch(d.Raw, extra) {
						found = true
					}
				}
			}
			if !found {
				s.Fail("new-append-unreadable", "batch appended after restart at %d not fetchable (code=%d)", res.Base, fr.Code)
			}
			for _, snt := range sent {
				if !snt.Done || snt.Err != nil || snt.Res.Code != 0 {
					continue
				}
				vCalm()
				fr, err := vFetchOne(h2, "t", 0, snt.Res.Base, 1<<20)
				ok := false
				if err == nil && fr.Code == 0 {
					for _, d := range vLooseBatches(fr.Records) {
						if d.BaseOffset == snt.Res.Base && vSameBatch(d.Raw, snt.Bytes) {
							ok = true
						}
					}
				}
				if !ok {
					s.Fail("acked-hidden-by-new-append", "p%d.%d acked at %d no longer readable after the post-restart append at %d", snt.Producer, snt.Seq, snt.Res.Base, res.Base)
				}
			}
		}
		// ---- a second restart: whatever the first recovery published must itself be recoverable ----
		if err == nil && res.Code == 0 {
			s3c := fakes3.New(bucket, "b3")
			s3c.NoPoints = true
			h3 := vNewHandler(&vStore{Store: inner, NoPoints: true}, s3c)
			h3.logConfig.Buffer.FlushInterval = 0
			h3.logConfig.ReadAheadSegments = 0
			defer h3.coordinator.Stop()
			type want struct {
				what  string
				base  int64
				bytes []byte
			}
			wants := []want{{"the batch appended after the first restart", res.Base, extra}}
			for _, snt := range sent {
				if snt.Done && snt.Err == nil && snt.Res.Code == 0 {
					wants = append(wants, want{fmt.Sprintf("p%d.%d (acknowledged before the crash)", snt.Producer, snt.Seq), snt.Res.Base, snt.Bytes})
				}
			}
			for _, wnt := range wants {
				vCalm()
				fr, ferr := vFetchOne(h3, "t", 0, wnt.base, 1<<20)
				ok := false
				if ferr == nil && fr.Code == 0 {
					for _, d := range vLooseBatches(fr.Records) {
						if d.BaseOffset == wnt.base && vSameBatch(d.Raw, wnt.bytes) {
							ok = true
						}
					}
				}
				if !ok {
					s.Fail("unreadable-after-second-restart", "%s at base %d is not readable after a second restart: err=%v code=%d (crashed=%v orphan=%v keys=%v)", wnt.what, wnt.base, ferr, fr.Code, crashed, orphan, bucket.Keys())
					break
				}
			}
			vCalm()
			if r3, e3 := vProduceOne(h3, "t", 0, -1, enum.SimpleBatch("after2", 1, 5)); e3 != nil || r3.Code != 0 {
				s.Fail("partition-unusable-after-second-restart", "produce after the second restart: err=%v code=%d (crashed=%v orphan=%v keys=%v)", e3, r3.Code, crashed, orphan, bucket.Keys())
			} else if r3.Base <= res.Base || r3.Base <= maxAcked {
				s.Fail("offset-reuse-after-second-restart", "batch appended after the second restart got base %d (first-restart append at %d, last acknowledged %d)", r3.Base, res.Base, maxAcked)
			}
		}
		var sig string
		for _, snt := range sent {
			sig += fmt.Sprintf("p%d.%d:%v/c%d@%d;", snt.Producer, snt.Seq, snt.Done, snt.Res.Code, snt.Res.Base)
		}
		s.Note("%s crashed=%v orphan=%v keys=%d pub=%d new=%d", sig, crashed, orphan, len(bucket.Keys()), maxPublished, res.Base)
		if verbose {
			s.Note("ops=%+v", bucket.Ops())
		}
	}
}

func TestVerifC06(t *testing.T) {
	rep := vh.New(t, "C06")
	defer rep.Finish()
	rep.Rule = "for each request history: DFS over crash decisions before every S3/metadata-store operation, S3 upload failure decisions (deviation bound), and interleavings of the concurrent segment/index uploads and producer threads (preemption bound); each execution ends with a restart (fresh handler over the same bucket and store) and the recovery oracle, then a second restart over what the first recovery left (everything acknowledged or appended so far readable, partition usable, no offset reuse); distinct = distinct (acks, crash, orphan, bucket, watermark, new base) outcomes; non-trivial = a crash or failure was injected"
	rep.Assumptions = []string{"S3 PUT is atomic; a crashed incarnation performs no further S3/store effects", "in-memory metadata store stands for etcd", "'shown to a consumer' = below the published next_offset (fetch serves only below it)"}
	P, D := 2, 2
	if vh.Thorough() {
		P, D = 2, 3
	}
	rep.SetInfo("preemption_bound", P)
	rep.SetInfo("deviation_bound_crash_plus_failures", D)
	deadline := vh.Deadline()
	shard, n := vh.Shard()
	var rp struct {
		Scenario string
		Choices  []int
	}
	replaying, rerr := vh.LoadReplay(&rp)
	if rerr != nil {
		t.Fatalf("HARNESS-ERROR replay: %v", rerr)
	}
	for _, sc := range c06Scenarios() {
		sc := sc
		if replaying {
			if sc.Name != rp.Scenario {
				continue
			}
			x := sched.RunOnce(t, sched.Config{}, rp.Choices, true, c06Body(sc, true))
			fmt.Printf("REPLAY %s choices=%v\n steps=%v\n notes=%v\n fails=%+v\n", sc.Name, rp.Choices, x.Steps, x.Notes, x.Fails)
			rep.Eval(1)
			for _, f := range x.Fails {
				rep.Violation(f.Key, sc.Name+": "+f.Detail, rp)
			}
			continue
		}
		st := sched.Explore(t, sched.Config{MaxPreempt: P, MaxDev: D, Deadline: deadline, Shard: shard, NShards: n, DelayBound: sc.Delay}, c06Body(sc, false), func(x *sched.Exec) {
			rep.Eval(1)
			_, dev := x.NonDefault()
			rep.Outcome(sc.Name+fmt.Sprint(x.Notes), dev > 0)
			if rep.WantSample() && dev > 1 {
				rep.Sample(map[string]any{"scenario": sc.Name, "choices": x.Choices, "outcome": x.Notes})
			}
			for _, f := range x.Fails {
				rep.Violation(f.Key, sc.Name+": "+f.Detail, map[string]any{"Scenario": sc.Name, "Choices": x.Choices})
			}
		})
		rep.Count("executions_"+sc.Name, int64(st.Execs))
		if st.Capped {
			rep.Cap("deadline hit in scenario " + sc.Name)
		}
	}
}
