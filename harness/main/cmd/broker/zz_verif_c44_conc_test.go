//go:build verif

package main

import (
	"bytes"
	"context"
	"errors"
	"fmt"
	"sync"
	"testing"
	"testing/synctest"
	"time"

	"github.com/KafScale/platform/internal/verif/vh"
	"github.com/KafScale/platform/pkg/storage"
)

// C44, overlapping-reads section: TWO reads run concurrently through ONE real dualS3Client.
//
// The primary holds all three objects and is healthy; the replica copy of each key touched is in
// one of {same bytes, missing, failing, slow then same bytes, slow then missing}. Read A is started
// first and runs alone until its p-th call into a bucket (p = 1: the replica attempt, p = 2: the
// primary fallback), where the gated fake parks it INSIDE the call. Then read B is started and runs
// until it has returned or is durably blocked (testing/synctest: virtual time is advanced by one
// hour so every replica delay and every timeout inside the client has fired, then synctest.Wait).
// Then A is released - or, in the cancel variant, A's caller context is cancelled first (the parked
// bucket call returns the context error, like the S3 SDK) - and both reads run to completion.
//
// Oracle (unchanged): every read returns exactly the bytes the primary bucket holds for ITS key
// and ITS range. A caller whose own context was cancelled may instead get a context error; the
// other caller must still get its bytes. No wall-clock input: parking, blocking and completion are
// decided by the synctest bubble only.

type c44ConcRead struct {
	Kind string    `json:"kind"` // get | getidx
	Key  int       `json:"key"`
	Rng  *[2]int64 `json:"rng,omitempty"`
}

func (r c44ConcRead) String() string {
	s := fmt.Sprintf("%s(k%d", r.Kind, r.Key)
	if r.Rng != nil {
		s += fmt.Sprintf(",%d-%d", r.Rng[0], r.Rng[1])
	}
	return s + ")"
}

var c44ConcReplicaStates = []string{"same", "missing", "error", "slow-same", "slow-missing"}

type c44ConcCase struct {
	Conc     bool        `json:"conc"`
	A        c44ConcRead `json:"a"`         // started first, parked inside its ParkAt-th bucket call
	B        c44ConcRead `json:"b"`         // started while A is parked
	ReplicaA string      `json:"replica_a"` // replica state of A's key
	ReplicaB string      `json:"replica_b"` // replica state of B's key (== ReplicaA when the keys are equal)
	ParkAt   int         `json:"park_at"`   // 1 = A's first bucket call (replica), 2 = its second (primary fallback)
	CancelA  bool        `json:"cancel_a"`  // cancel A's caller context while parked (and B possibly attached), then release
}

const c44ConcReplicaDelay = 50 * time.Millisecond

var c44ConcSampled int // the section runs on the test goroutine only; keep room for samples of the other sections

// c44ConcWorld numbers the calls into both buckets and parks the HoldAt-th one until released.
type c44ConcWorld struct {
	mu      sync.Mutex
	calls   int
	holdAt  int
	parked  bool
	gate    chan struct{}
	primary int // calls that reached the primary
	replica int // calls that reached the replica
}

func (w *c44ConcWorld) enter(ctx context.Context, primary bool) error {
	w.mu.Lock()
	w.calls++
	hold := w.calls == w.holdAt
	if hold {
		w.parked = true
	}
	if primary {
		w.primary++
	} else {
		w.replica++
	}
	w.mu.Unlock()
	if hold {
		select {
		case <-w.gate:
		case <-ctx.Done():
			return ctx.Err()
		}
	}
	return ctx.Err() // like the S3 SDK: a request on a cancelled / expired context fails
}

// c44ConcBucket is a concurrency-safe read-only view of a c44Store (content() only reads the map);
// the remaining S3Client methods come from the embedded store and are never reached by reads.
type c44ConcBucket struct {
	*c44Store
	w       *c44ConcWorld
	primary bool
	state   map[string]string // replica state per key (replica only)
}

func (b *c44ConcBucket) read(ctx context.Context, op, key string, rng *storage.ByteRange) ([]byte, error) {
	if err := b.w.enter(ctx, b.primary); err != nil {
		return nil, err
	}
	if b.primary {
		return b.content(key, rng)
	}
	st := b.state[key]
	if st == "slow-same" || st == "slow-missing" {
		t := time.NewTimer(c44ConcReplicaDelay)
		defer t.Stop()
		select {
		case <-t.C:
		case <-ctx.Done():
			return nil, ctx.Err()
		}
	}
	switch st {
	case "missing", "slow-missing":
		return nil, fmt.Errorf("replica: %s: %w", key, storage.ErrNotFound)
	case "error":
		return nil, b.errf(op, key)
	}
	return b.content(key, rng)
}

func (b *c44ConcBucket) DownloadSegment(ctx context.Context, key string, rng *storage.ByteRange) ([]byte, error) {
	return b.read(ctx, "DownloadSegment", key, rng)
}

func (b *c44ConcBucket) DownloadIndex(ctx context.Context, key string) ([]byte, error) {
	return b.read(ctx, "DownloadIndex", key, nil)
}

type c44ConcResult struct {
	data  []byte
	err   error
	panic any
}

func c44ConcWant(r c44ConcRead) []byte {
	c := c44Content(r.Key)
	if r.Rng == nil {
		return c
	}
	return c[r.Rng[0] : r.Rng[1]+1] // all enumerated ranges lie inside the 8-byte object
}

func c44RunConc(t *testing.T, rep *vh.Report, c c44ConcCase) {
	synctest.Test(t, func(t *testing.T) {
		w := &c44ConcWorld{holdAt: c.ParkAt, gate: make(chan struct{})}
		ps, rs := c44NewStore("primary"), c44NewStore("replica")
		for i, k := range c44Keys {
			ps.obj[k] = c44Content(i)
			rs.obj[k] = c44Content(i)
		}
		state := map[string]string{}
		for _, k := range c44Keys {
			state[k] = "same"
		}
		state[c44Keys[c.B.Key]] = c.ReplicaB
		state[c44Keys[c.A.Key]] = c.ReplicaA
		dual := newDualS3Client(&c44ConcBucket{c44Store: ps, w: w, primary: true}, &c44ConcBucket{c44Store: rs, w: w, state: state})

		start := func(ctx context.Context, r c44ConcRead) (*c44ConcResult, chan struct{}) {
			res, done := &c44ConcResult{}, make(chan struct{})
			go func() {
				defer close(done)
				defer func() {
					if p := recover(); p != nil {
						res.panic = p
					}
				}()
				var rng *storage.ByteRange
				if r.Rng != nil {
					rng = &storage.ByteRange{Start: r.Rng[0], End: r.Rng[1]}
				}
				if r.Kind == "getidx" {
					res.data, res.err = dual.DownloadIndex(ctx, c44Keys[r.Key])
				} else {
					res.data, res.err = dual.DownloadSegment(ctx, c44Keys[r.Key], rng)
				}
			}()
			return res, done
		}
		isDone := func(ch chan struct{}) bool {
			select {
			case <-ch:
				return true
			default:
				return false
			}
		}
		// settle: let every timer below one hour of virtual time fire, then wait until every other
		// goroutine of the bubble has returned or is durably blocked.
		settle := func() {
			time.Sleep(time.Hour)
			synctest.Wait()
		}

		ctxA, cancelA := context.WithCancel(context.Background())
		defer cancelA()
		ctxB, cancelB := context.WithCancel(context.Background())
		defer cancelB()

		resA, doneA := start(ctxA, c.A)
		settle()
		w.mu.Lock()
		parked := w.parked
		if !parked {
			w.holdAt = -1 // A made fewer bucket calls than ParkAt: nothing is held, the reads are sequential
		}
		w.mu.Unlock()
		resB, doneB := start(ctxB, c.B)
		settle()
		bEarly := isDone(doneB) // B returned while A was still parked (it did not wait for A)
		cancelled := false
		if c.CancelA && parked && !isDone(doneA) {
			cancelA()
			cancelled = true
			synctest.Wait()
		}
		close(w.gate)
		settle()
		hungA, hungB := !isDone(doneA), !isDone(doneB)
		if hungA || hungB {
			// unblock whatever can be unblocked so that the bubble can end
			cancelA()
			cancelB()
			settle()
		}

		w.mu.Lock()
		nPrimary, nReplica := w.primary, w.replica
		w.mu.Unlock()
		rep.Eval(1)
		wantA, wantB := c44ConcWant(c.A), c44ConcWant(c.B)
		classify := func(who string, r c44ConcRead, res *c44ConcResult, want, otherWant []byte, hung, ownCancelled, otherCancelled bool) string {
			what := fmt.Sprintf("read %s=%s (replica %s/%s, A parked in bucket call %d, cancelA=%v)", who, r, c.ReplicaA, c.ReplicaB, c.ParkAt, cancelled)
			switch {
			case hung:
				rep.Violation("overlapping-read-never-returns", what+": still blocked after the other read was released and one hour of virtual time", c)
				return "HUNG"
			case res.panic != nil:
				rep.Violation("overlapping-read-panics", fmt.Sprintf("%s: panic %v", what, res.panic), c)
				return "PANIC"
			case res.err == nil && bytes.Equal(res.data, want):
				return "ok"
			case res.err == nil:
				if bytes.Equal(res.data, otherWant) {
					rep.Violation("overlapping-read-gets-the-other-read's-bytes", fmt.Sprintf("%s: returned %q = the bytes of the OTHER in-flight read; the primary holds %q for this key/range", what, res.data, want), c)
					return "OTHERS-BYTES"
				}
				rep.Violation("overlapping-read-differs-from-primary", fmt.Sprintf("%s: returned %q, the primary holds %q for this key/range", what, res.data, want), c)
				return "DIFF"
			case ownCancelled && (errors.Is(res.err, context.Canceled) || errors.Is(res.err, context.DeadlineExceeded)):
				return "ctx-err"
			case otherCancelled && errors.Is(res.err, context.Canceled):
				rep.Violation("overlapping-read-fails-on-the-other-caller's-cancel", fmt.Sprintf("%s: failed with %v although its own context is live and the primary holds %q; only the OTHER caller was cancelled", what, res.err, want), c)
				return "OTHERS-CANCEL"
			default:
				rep.Violation("overlapping-read-fails", fmt.Sprintf("%s: failed with %v although the primary holds %q", what, res.err, want), c)
				return "FAIL"
			}
		}
		ca := classify("A", c.A, resA, wantA, wantB, hungA, cancelled, false)
		cb := classify("B", c.B, resB, wantB, wantA, hungB, false, cancelled)
		sameKey := c.A.Key == c.B.Key
		fallback := c.ReplicaA != "same" || c.ReplicaB != "same"
		// non-trivial: the two reads really overlapped (A was parked inside a bucket call while B ran)
		// and at least one of them had to fall back to the primary.
		nontrivial := parked && fallback
		rep.Outcome(fmt.Sprintf("conc|%s|%s|%s/%s|park%d|parked=%v|cancel=%v|samekey=%v|bEarly=%v|A=%s|B=%s|p=%d|r=%d",
			c.A, c.B, c.ReplicaA, c.ReplicaB, c.ParkAt, parked, cancelled, sameKey, bEarly, ca, cb, nPrimary, nReplica), nontrivial)
		if nontrivial && sameKey && c.A.String() != c.B.String() && c44ConcSampled < 2 && c.ParkAt == 2 {
			c44ConcSampled++
			rep.Sample(map[string]any{"case": c, "outcome": fmt.Sprintf("A=%s B=%s B-returned-while-A-parked=%v primary-calls=%d replica-calls=%d", ca, cb, bEarly, nPrimary, nReplica)})
		}
	})
}

func c44ConcReads() []c44ConcRead {
	return []c44ConcRead{
		{Kind: "get", Key: 0},
		{Kind: "get", Key: 0, Rng: &[2]int64{0, 3}},
		{Kind: "get", Key: 0, Rng: &[2]int64{2, 5}},
		{Kind: "get", Key: 0, Rng: &[2]int64{4, 7}},
		{Kind: "getidx", Key: 1},
		{Kind: "get", Key: 2},
		{Kind: "get", Key: 2, Rng: &[2]int64{2, 5}},
	}
}

// c44ConcCases: every ORDERED pair of reads (so both start orders, and a read paired with itself)
// x every replica state of each key touched x park point {replica call, primary call} x
// {release, cancel A then release}.
func c44ConcCases() []c44ConcCase {
	var out []c44ConcCase
	reads := c44ConcReads()
	for _, park := range []int{1, 2} {
		for _, cancel := range []bool{false, true} {
			for _, a := range reads {
				for _, b := range reads {
					for _, ra := range c44ConcReplicaStates {
						if a.Key == b.Key {
							out = append(out, c44ConcCase{Conc: true, A: a, B: b, ReplicaA: ra, ReplicaB: ra, ParkAt: park, CancelA: cancel})
							continue
						}
						for _, rb := range c44ConcReplicaStates {
							out = append(out, c44ConcCase{Conc: true, A: a, B: b, ReplicaA: ra, ReplicaB: rb, ParkAt: park, CancelA: cancel})
						}
					}
				}
			}
		}
	}
	return out
}
