//go:build verif

package main

import (
	"fmt"
	"strings"
	"testing"

	"github.com/KafScale/platform/internal/verif/sched"
	"github.com/KafScale/platform/internal/verif/vh"
)

// TestVerifC05: the next_offset published in the metadata store never decreases and
// never exceeds 1 + last offset held by a segment (with index) in the bucket, checked
// after every scheduler step of every explored execution.
func TestVerifC05(t *testing.T) {
	rep := vh.New(t, "C05")
	defer rep.Finish()
	rep.Rule = "same closed systems as C01 (real handleProduce threads, real getPartitionLog onFlush callback, UpdateOffsets as a scheduling point); invariant evaluated in every quiescent state; distinct = distinct sequences of published watermarks + outcome; non-trivial = >=1 preemption or injected failure"
	rep.Assumptions = []string{"S3 PUT is atomic", "in-memory metadata store stands for etcd (UpdateOffsets is an unconditional put in both)"}
	P, D := 2, 2
	if vh.Thorough() {
		P, D = 3, 2
	}
	rep.SetInfo("preemption_bound", P)
	rep.SetInfo("deviation_bound", D)
	deadline := vh.Deadline()
	shard, n := vh.Shard()
	for _, sc := range c05Scenarios() {
		sc := sc
		body := func(s *sched.Sched) {
			r := vRunProduce(s, sc, true)
			defer r.H.coordinator.Stop()
			if s.Deadlock {
				s.Fail("deadlock", "threads blocked forever: %s", s.Blocked())
				return
			}
			seen := map[string]bool{}
			for _, v := range r.MonitorViol {
				kind := v[:strings.IndexByte(v, ':')]
				if seen[kind] {
					continue
				}
				seen[kind] = true
				key := "watermark-" + kind
				if kind == "ahead" && len(r.injectedFailures()) > 0 {
					key = "watermark-ahead-after-failed-flush"
				}
				s.Fail(key, "%s (published sequence %v, injected failures %v)", v, r.Store.Published, r.injectedFailures())
			}
			s.Note("%s pub=%v", r.outcome(), r.Store.Published)
		}
		p, d := P, D
		if sc.P > 0 {
			p, d = sc.P, sc.D
		}
		st := sched.Explore(t, sched.Config{MaxPreempt: p, MaxDev: d, Deadline: deadline, Shard: shard, NShards: n, DelayBound: sc.Delay}, body, func(x *sched.Exec) {
			rep.Eval(1)
			sw, dev := x.NonDefault()
			rep.Outcome(sc.Name+"|"+fmt.Sprint(x.Notes), sw > 0 || dev > 0)
			if rep.WantSample() && sw > 0 && dev > 0 {
				rep.Sample(map[string]any{"scenario": sc.Name, "choices": x.Choices, "outcome": x.Notes})
			}
			for _, f := range x.Fails {
				rep.Violation(f.Key, sc.Name+": "+f.Detail, map[string]any{"scenario": sc.Name, "choices": x.Choices})
			}
		})
		rep.Count("executions_"+sc.Name, int64(st.Execs))
		if st.Capped {
			rep.Cap("deadline hit in scenario " + sc.Name)
		}
	}
}

func c05Scenarios() []vProdScenario {
	sc := []vProdScenario{
		{Name: "1p-2b", Producers: [][]int{{1, 2}}, PreOpen: true, FailS3: true, FailStore: true},
		{Name: "2p-explicit", Producers: [][]int{{1}, {2}}, PreOpen: true, FailS3: true},
		{Name: "2p-maxbatches1", Producers: [][]int{{1}, {2}}, MaxBatches: 1, PreOpen: true, FailS3: true},
		{Name: "2p-maxbatches2", Producers: [][]int{{1}, {2}}, MaxBatches: 2, PreOpen: true, FailS3: true},
		{Name: "2p-cold", Producers: [][]int{{1}, {1}}, PreOpen: false, FailS3: true},
		{Name: "2p-autocreate", Producers: [][]int{{1}, {1}}, PreOpen: false, AutoCreate: true},
	}
	if vh.Thorough() {
		sc = append(sc,
			vProdScenario{Name: "2p-2b", Producers: [][]int{{1, 1}, {2, 1}}, PreOpen: true, FailS3: true, P: 3, D: 2, Delay: true},
			vProdScenario{Name: "3p-maxbatches1", Producers: [][]int{{1}, {1}, {2}}, MaxBatches: 1, PreOpen: true, FailS3: true, P: 3, D: 2, Delay: true},
		)
	}
	return sc
}
