//go:build verif

package main

import (
	"fmt"
	"testing"

	"github.com/KafScale/platform/internal/verif/fakes3"
	"github.com/KafScale/platform/internal/verif/sched"
	"github.com/KafScale/platform/internal/verif/vh"
)

func c01Scenarios() []vProdScenario {
	// ctx-cancel scenarios: <=1 upload failure (quick; thorough 2), each of either kind (plain / request context ended)
	cd := 1
	if vh.Thorough() {
		cd = 2
	}
	sc := []vProdScenario{
		{Name: "1p-1b", Producers: [][]int{{1}}, PreOpen: true, FailS3: true},
		{Name: "1p-2b", Producers: [][]int{{1, 2}}, PreOpen: true, FailS3: true},
		{Name: "2p-explicit", Producers: [][]int{{1}, {2}}, PreOpen: true, FailS3: true},
		// upload failures of the kind "the flushing request's own context ended" (client gone / deadline)
		{Name: "2p-explicit-ctxcancel", Producers: [][]int{{1}, {2}}, PreOpen: true, FailS3: true, CancelOnFail: true, P: 2, D: cd},
		{Name: "2p-maxbatches2-ctxcancel", Producers: [][]int{{1}, {2}}, MaxBatches: 2, PreOpen: true, FailS3: true, CancelOnFail: true, P: 1, D: cd},
		{Name: "2p-maxbatches1", Producers: [][]int{{1}, {2}}, MaxBatches: 1, PreOpen: true, FailS3: true},
		{Name: "2p-maxbatches2", Producers: [][]int{{1}, {2}}, MaxBatches: 2, PreOpen: true, FailS3: true},
		{Name: "2p-cold", Producers: [][]int{{1}, {1}}, PreOpen: false, FailS3: true},
		{Name: "2p-autocreate", Producers: [][]int{{1}, {1}}, PreOpen: false, AutoCreate: true, P: 2, D: 0},
	}
	if vh.Thorough() {
		sc = append(sc,
			vProdScenario{Name: "2p-flusher", Producers: [][]int{{1}, {1}}, PreOpen: true, Flusher: true, FailS3: true, P: 3, D: 2, Delay: true},
			vProdScenario{Name: "3p-explicit", Producers: [][]int{{1}, {1}, {2}}, PreOpen: true, FailS3: true, P: 3, D: 2, Delay: true},
			vProdScenario{Name: "3p-maxbatches2", Producers: [][]int{{1}, {1}, {2}}, MaxBatches: 2, PreOpen: true, FailS3: true, P: 3, D: 2, Delay: true},
			vProdScenario{Name: "2p-2b", Producers: [][]int{{1, 1}, {2, 1}}, PreOpen: true, FailS3: true, P: 3, D: 2, Delay: true},
			vProdScenario{Name: "2p-2b-maxbatches2", Producers: [][]int{{1, 1}, {2, 1}}, MaxBatches: 2, PreOpen: true, FailS3: true, P: 3, D: 2, Delay: true},
		)
	}
	return sc
}

// c01Check is the C01 oracle for one finished execution.
func c01Check(s *sched.Sched, r *vProdRun) {
	if s.Deadlock {
		s.Fail("deadlock", "threads blocked forever: %s", s.Blocked())
		return
	}
	stored, _, err := vDurableBatches(r.Bucket, "default/t/0/")
	if err != nil {
		s.Fail("harness", "decode bucket: %v", err)
		return
	}
	fails := r.injectedFailures()
	anyErrOther := func(p int) bool {
		for _, o := range r.Sent {
			if o.Producer != p && o.Done && (o.Err != nil || o.Res.Code != 0) {
				return true
			}
		}
		return false
	}
	// acknowledged batches must occupy disjoint offset ranges
	for i, a := range r.Sent {
		for j, b := range r.Sent {
			if i >= j || !a.Done || !b.Done || a.Err != nil || b.Err != nil || a.Res.Code != 0 || b.Res.Code != 0 {
				continue
			}
			if a.Res.Base < b.Res.Base+int64(b.N) && b.Res.Base < a.Res.Base+int64(a.N) {
				s.Fail("acked-offsets-overlap", "producer %d batch %d acked at base %d (%d records) and producer %d batch %d acked at base %d (%d records)", a.Producer, a.Seq, a.Res.Base, a.N, b.Producer, b.Seq, b.Res.Base, b.N)
			}
		}
	}
	// restart: a fresh broker over the same store and bucket
	var h2 *handler
	for _, snt := range r.Sent {
		if !snt.Done || snt.Err != nil || snt.Res.Code != 0 {
			continue
		}
		// acknowledged: must be in a segment that also has its index
		found := false
		for _, sb := range stored {
			if sb.Batch.BaseOffset == snt.Res.Base && sb.HasIndex && vSameBatch(sb.Batch.Raw, snt.Bytes) {
				found = true
				break
			}
		}
		if !found {
			key := "acked-not-durable"
			if len(fails) > 0 && anyErrOther(snt.Producer) {
				key = "acked-lost-after-foreign-failed-flush"
				if r.cancelledFailures() > 0 {
					key = "acked-lost-after-foreign-ctx-cancelled-flush"
				}
			}
			s.Fail(key, "producer %d batch %d acked at base %d but no segment+index holds it (injected failures: %v)", snt.Producer, snt.Seq, snt.Res.Base, fails)
			continue
		}
		if h2 == nil {
			s3b := fakes3.New(r.Bucket, "b2")
			s3b.NoPoints = true
			h2 = vNewHandler(&vStore{Store: r.Inner, NoPoints: true}, s3b)
			defer h2.coordinator.Stop()
		}
		vCalm()
		fr, err := vFetchOne(h2, "t", 0, snt.Res.Base, 1<<20)
		ok := false
		if err == nil && fr.Code == 0 {
			for _, d := range vLooseBatches(fr.Records) {
				if d.BaseOffset == snt.Res.Base && vSameBatch(d.Raw, snt.Bytes) {
					ok = true
				}
			}
		}
		if !ok {
			s.Fail("acked-not-readable-after-restart", "producer %d batch %d acked at base %d: restart fetch err=%v code=%d len=%d", snt.Producer, snt.Seq, snt.Res.Base, err, fr.Code, len(fr.Records))
		}
	}
}

func TestVerifC01(t *testing.T) {
	rep := vh.New(t, "C01")
	defer rep.Finish()
	rep.Rule = "DFS over thread choices (preemption bound) x S3 upload failure decisions (deviation bound) of real handler.handleProduce threads on one partition; distinct = distinct (per-producer code/base offset, bucket size, failures) outcomes; non-trivial = execution with >=1 thread switch away from an enabled thread or >=1 injected failure"
	rep.Assumptions = []string{"S3 PUT is atomic", "fake S3 and in-memory metadata store stand for S3 and etcd", "scheduling points at PartitionLog locks/conds, S3 calls and UpdateOffsets"}
	P, D := 2, 2
	if vh.Thorough() {
		P, D = 2, 3
	}
	rep.SetInfo("preemption_bound", P)
	rep.SetInfo("deviation_bound", D)
	deadline := vh.Deadline()
	shard, n := vh.Shard()
	var names []string
	var rp struct {
		Scenario string
		Choices  []int
	}
	replaying, rerr := vh.LoadReplay(&rp)
	if rerr != nil {
		t.Fatalf("HARNESS-ERROR replay: %v", rerr)
	}
	for _, sc := range c01Scenarios() {
		sc := sc
		names = append(names, sc.Name)
		body := func(s *sched.Sched) {
			r := vRunProduce(s, sc, false)
			defer r.H.coordinator.Stop()
			c01Check(s, r)
			s.Note("%s", r.outcome())
			if replaying {
				s.Note("ops=%+v", r.Bucket.Ops())
			}
		}
		if replaying {
			if sc.Name != rp.Scenario {
				continue
			}
			x := sched.RunOnce(t, sched.Config{}, rp.Choices, true, body)
			fmt.Printf("REPLAY %s choices=%v\n steps=%v\n notes=%v\n fails=%+v deadlock=%v %s diverged=%q\n", sc.Name, rp.Choices, x.Steps, x.Notes, x.Fails, x.Deadlock, x.Blocked, x.Diverged)
			rep.Eval(1)
			for _, f := range x.Fails {
				rep.Violation(f.Key, sc.Name+": "+f.Detail, map[string]any{"scenario": sc.Name, "choices": x.Choices})
			}
			continue
		}
		p, d := P, D
		if sc.P > 0 {
			p, d = sc.P, sc.D
		}
		st := sched.Explore(t, sched.Config{MaxPreempt: p, MaxDev: d, Deadline: deadline, Shard: shard, NShards: n, DelayBound: sc.Delay}, body, func(x *sched.Exec) {
			rep.Eval(1)
			sw, dev := x.NonDefault()
			sig := sc.Name + "|" + fmt.Sprint(x.Notes)
			rep.Outcome(sig, sw > 0 || dev > 0)
			if rep.WantSample() && (sw > 0 && dev > 0) {
				rep.Sample(map[string]any{"scenario": sc.Name, "choices": x.Choices, "outcome": x.Notes})
			}
			for _, f := range x.Fails {
				rep.Violation(f.Key, sc.Name+": "+f.Detail, map[string]any{"scenario": sc.Name, "choices": x.Choices})
			}
		})
		rep.Count("executions_"+sc.Name, int64(st.Execs))
		if st.Capped {
			rep.Cap("deadline hit in scenario " + sc.Name)
		}
	}
	rep.SetInfo("scenarios", names)
}
