//go:build verif

package main

// C04 (handler part) — a fetch below the high watermark always makes progress, judged on
// the Fetch RESPONSE the broker sends (cmd/broker handleFetch), not only on
// PartitionLog.Read.
//
// E3: bounded-exhaustive enumeration of two-partition worlds (segment layouts with several
// batches per segment produced through the real produce handler x index interval x read
// path) x multi-partition Fetch requests (partition order x every fetch offset of each
// partition x request-level MaxBytes from a boundary-derived alphabet x PartitionMaxBytes
// x protocol version), sent through the wire codec (protocol.ParseRequest -> handler.Handle
// -> kmsg response decode). Oracle: the statement's progress clause per partition of the
// response.

import (
	"bytes"
	"encoding/binary"
	"fmt"
	"math"
	"runtime"
	"runtime/debug"
	"sort"
	"strings"
	"sync"
	"testing"
	"testing/synctest"
	"time"

	"github.com/KafScale/platform/internal/verif/enum"
	"github.com/KafScale/platform/internal/verif/fakes3"
	"github.com/KafScale/platform/internal/verif/vh"
	"github.com/KafScale/platform/pkg/metadata"
	"github.com/KafScale/platform/pkg/protocol"
	"github.com/twmb/franz-go/pkg/kmsg"
)

const c04fTopic = "t"

// c04fWorld is one closed system: topic t with two partitions whose logs are produced
// through the real handler.
type c04fWorld struct {
	Kind string `json:"kind"` // always "fetch" (tells the replay of this part from the storage part's)
	// Layouts[p]: batches of partition p in order, 'a' = 1 record, 'b' = 2 records (larger);
	// '|' = segment boundary (the batch before it is produced with acks=-1 and flushed on
	// ack, the batches since the previous boundary with acks=0 stay buffered and land in the
	// same segment); a final boundary is implied.
	Layouts  [2]string `json:"layouts"`
	Interval int32     `json:"index_interval_messages"`
	Path     string    `json:"path"` // "cached" (broker that flushed the segments) | "range" (restarted broker, cold cache, range GETs)
}

type c04fReq struct {
	Order    [2]int32 `json:"partition_order"`     // partitions as listed in the request
	Offsets  [2]int64 `json:"fetch_offsets"`       // by partition id
	PMB      [2]int32 `json:"partition_max_bytes"` // by partition id
	MaxBytes int32    `json:"max_bytes"`           // request level (fetch.max.bytes)
	Version  int16    `json:"version"`
}

type c04fReplay struct {
	c04fWorld
	Req *c04fReq `json:"request,omitempty"`
}

type c04fBatch struct {
	Base, Last int64
	Start, End int // byte positions in the partition's concatenated reference log
	Seg        int
}

type c04fPart struct {
	batches []c04fBatch
	raws    [][]byte // as sent (base offset 0)
	final   []bool   // batch ends its segment
	log     []byte   // reference log: batches with their assigned base offsets, concatenated
	end     int64    // high watermark = number of records
	nseg    int
}

func c04fBuildPart(p int, layout string) *c04fPart {
	pt := &c04fPart{}
	seg := 0
	for i := 0; i < len(layout); i++ {
		ch := layout[i]
		if ch == '|' {
			continue
		}
		n, vl := 1, 4
		if ch == 'b' {
			n, vl = 2, 24
		}
		raw := enum.SimpleBatch(fmt.Sprintf("%d%c%d", p, ch, len(pt.raws)%10), n, vl)
		fin := i == len(layout)-1 || layout[i+1] == '|'
		pt.raws = append(pt.raws, raw)
		pt.final = append(pt.final, fin)
		patched := append([]byte(nil), raw...)
		binary.BigEndian.PutUint64(patched[0:8], uint64(pt.end))
		b := c04fBatch{Base: pt.end, Last: pt.end + int64(n) - 1, Start: len(pt.log), Seg: seg}
		pt.log = append(pt.log, patched...)
		b.End = len(pt.log)
		pt.batches = append(pt.batches, b)
		pt.end += int64(n)
		if fin {
			seg++
		}
	}
	pt.nseg = seg
	return pt
}

// target returns the index of the batch holding offset o (o < end).
func (pt *c04fPart) target(o int64) int {
	for i, b := range pt.batches {
		if o >= b.Base && o <= b.Last {
			return i
		}
	}
	return -1
}

// c04fLocate places a non-empty record set on the reference log. It must be a run that
// starts at a batch boundary. When several boundaries match (record sets shorter than a
// base offset), the placement most favourable to the broker is taken.
func (pt *c04fPart) locate(rec []byte, tgt int) (start int, class string) {
	n := len(rec)
	ts := pt.batches[tgt].Start
	before, after := -1, -1
	for i, b := range pt.batches {
		if b.Start+n > len(pt.log) || !bytes.Equal(pt.log[b.Start:b.Start+n], rec) {
			continue
		}
		switch {
		case b.Start <= ts && b.Start+n > ts:
			return i, "reaches"
		case b.Start+n <= ts:
			before = i
		default:
			if after < 0 {
				after = i
			}
		}
	}
	if before >= 0 {
		return before, "before"
	}
	if after >= 0 {
		return after, "after"
	}
	return -1, "nomatch"
}

type c04fPartResp struct {
	Partition int32
	Code      int16
	HW        int64
	Records   []byte
}

// c04fFetch sends one Fetch request through the wire codec and the handler's dispatcher.
func c04fFetch(h *handler, topicID [16]byte, rq *c04fReq) (res []c04fPartResp, err error) {
	defer func() {
		if r := recover(); r != nil {
			err = fmt.Errorf("panic: %v", r)
		}
	}()
	req := kmsg.NewPtrFetchRequest()
	req.Version = rq.Version
	req.ReplicaID = -1
	req.MaxWaitMillis = 0
	req.MinBytes = 1
	req.MaxBytes = rq.MaxBytes
	req.SessionID = 0
	req.SessionEpoch = -1
	t := kmsg.NewFetchRequestTopic()
	t.Topic = c04fTopic
	t.TopicID = topicID
	for _, p := range rq.Order {
		fp := kmsg.NewFetchRequestTopicPartition()
		fp.Partition = p
		fp.FetchOffset = rq.Offsets[p]
		fp.PartitionMaxBytes = rq.PMB[p]
		t.Partitions = append(t.Partitions, fp)
	}
	req.Topics = append(req.Topics, t)
	const corr = 0x0c04
	frame := make([]byte, 0, 160)
	frame = binary.BigEndian.AppendUint16(frame, uint16(protocol.APIKeyFetch))
	frame = binary.BigEndian.AppendUint16(frame, uint16(rq.Version))
	frame = binary.BigEndian.AppendUint32(frame, corr)
	frame = binary.BigEndian.AppendUint16(frame, 5)
	frame = append(frame, "verif"...)
	if req.IsFlexible() {
		frame = append(frame, 0) // no tagged fields
	}
	frame = req.AppendTo(frame)
	hdr, parsed, perr := protocol.ParseRequest(frame)
	if perr != nil {
		return nil, fmt.Errorf("harness: request does not parse: %w", perr)
	}
	out, herr := h.Handle(bg(), hdr, parsed)
	if herr != nil {
		return nil, fmt.Errorf("handler error: %w", herr)
	}
	resp := kmsg.NewPtrFetchResponse()
	resp.Version = rq.Version
	skip := 4
	if resp.IsFlexible() {
		skip = 5
	}
	if len(out) < skip || binary.BigEndian.Uint32(out[:4]) != corr {
		return nil, fmt.Errorf("bad response header (%d bytes)", len(out))
	}
	if derr := resp.ReadFrom(out[skip:]); derr != nil {
		return nil, fmt.Errorf("response does not decode at version %d: %w", rq.Version, derr)
	}
	for _, rt := range resp.Topics {
		for _, rp := range rt.Partitions {
			res = append(res, c04fPartResp{Partition: rp.Partition, Code: rp.ErrorCode, HW: rp.HighWatermark, Records: rp.RecordBatches})
		}
	}
	return res, nil
}

type c04fViol struct {
	key, detail string
	req         c04fReq
}

type c04fOut struct {
	harness  string
	viols    []c04fViol // first per key
	requests int64
	counts   map[string]int64
	hash     uint64
	nontriv  bool
	sample   any
}

func (o *c04fOut) mix(v ...int64) {
	for _, x := range v {
		o.hash = (o.hash ^ uint64(x)) * 1099511628211
	}
}

// c04fJudge applies the progress clause to every partition of one response.
func c04fJudge(parts [2]*c04fPart, rq *c04fReq, resp []c04fPartResp, out *c04fOut, seen map[string]bool) {
	add := func(key, format string, a ...any) {
		out.counts["viol:"+key]++
		if seen[key] {
			return
		}
		seen[key] = true
		pre := fmt.Sprintf("Fetch v%d partitions %v offsets p0=%d p1=%d MaxBytes=%d PartitionMaxBytes p0=%d p1=%d: ", rq.Version, rq.Order, rq.Offsets[0], rq.Offsets[1], rq.MaxBytes, rq.PMB[0], rq.PMB[1])
		out.viols = append(out.viols, c04fViol{key: key, detail: pre + fmt.Sprintf(format, a...), req: *rq})
	}
	if len(resp) != 2 || resp[0].Partition != rq.Order[0] || resp[1].Partition != rq.Order[1] {
		var got []int32
		for _, r := range resp {
			got = append(got, r.Partition)
		}
		add("response-does-not-answer-the-requested-partitions", "response answers partitions %v", got)
		out.mix(-7, int64(len(resp)))
		return
	}
	earlier := 0 // record-set bytes of the partitions answered before this one
	for pos, fp := range resp {
		p := fp.Partition
		pt := parts[p]
		o := rq.Offsets[p]
		n := len(fp.Records)
		if o >= pt.end {
			// not below the high watermark: outside the property
			out.counts["partitions_at_high_watermark_not_judged"]++
			out.mix(int64(pos), -1, int64(fp.Code), int64(n))
			earlier += n
			continue
		}
		out.counts["partitions_judged"]++
		tgt := pt.target(o)
		tb := pt.batches[tgt]
		later := earlier > 0
		if later {
			out.counts["partitions_judged_after_an_earlier_partition_returned_bytes"]++
		}
		remaining := int64(math.MaxInt64)
		if rq.MaxBytes > 0 {
			remaining = int64(rq.MaxBytes) - int64(earlier)
		}
		switch {
		case fp.Code != 0:
			add(fmt.Sprintf("error-code-%d-below-high-watermark", fp.Code), "partition %d answered error code %d although its log ends at %d and no fault is injected; the same fetch repeats forever", p, fp.Code, pt.end)
			out.mix(int64(pos), -2, int64(fp.Code))
		case n == 0:
			if later && rq.MaxBytes > 0 && remaining < int64(tb.End-tb.Start) {
				// the request budget left after the earlier partitions cannot hold the batch:
				// an empty answer for this partition is the protocol's way to say "not this time"
				out.counts["partitions_empty_request_budget_exhausted"]++
				out.mix(int64(pos), -3)
			} else if later && rq.MaxBytes > 0 {
				add("empty-response-below-high-watermark:request-budget-left", "partition %d answered no records at offset %d (log ends at %d) although %d bytes of the request budget are left and the batch holding the offset has %d bytes", p, o, pt.end, remaining, tb.End-tb.Start)
				out.mix(int64(pos), -4)
			} else {
				add("empty-response-below-high-watermark", "partition %d answered no records at offset %d although its log ends at %d (no earlier partition used a request budget)", p, o, pt.end)
				out.mix(int64(pos), -5)
			}
		default:
			start, class := pt.locate(fp.Records, tgt)
			out.mix(int64(pos), int64(start), int64(tgt), int64(n))
			switch class {
			case "reaches":
				if start < tgt {
					out.nontriv = true // the run starts at an earlier batch (sparse index) and must still reach the target
					out.counts["partitions_run_starts_before_target_batch"]++
					if later && rq.MaxBytes > 0 && remaining < int64(n) {
						out.counts["partitions_run_longer_than_remaining_request_budget"]++
					}
				}
			case "before":
				sb := pt.batches[start]
				what := fmt.Sprintf("partition %d (answered %s, %d bytes already returned by earlier partitions) at offset %d below its high watermark %d got a non-empty record set of %d bytes = a run of the log from batch %d (offset %d) that ends before the first byte of batch %d [%d..%d] which holds the offset: only records before the offset, the consumer cannot progress on this partition and re-sends the same fetch", p, []string{"first", "second"}[pos], earlier, o, pt.end, n, start, sb.Base, tgt, tb.Base, tb.Last)
				byReq := later && rq.MaxBytes > 0 && int64(n) == remaining
				byPart := int64(n) == int64(rq.PMB[p])
				switch {
				case byReq && byPart:
					// both limits explain the length: reported only when no case in the run names one of them
					add(c04fAmbiguousKey, "%s (the record set has exactly PartitionMaxBytes bytes, which is also what is left of the request budget)", what)
				case byReq:
					add("response-only-records-before-offset:cut-to-remaining-request-max-bytes", "%s (the record set has exactly the MaxBytes - earlier = %d bytes left of the request budget)", what, remaining)
				case byPart:
					add("response-only-records-before-offset:cut-to-partition-max-bytes", "%s (the record set has exactly PartitionMaxBytes bytes)", what)
				default:
					add("response-only-records-before-offset", "%s", what)
				}
			case "after":
				add("response-starts-after-the-batch-holding-the-offset", "partition %d at offset %d: the %d-byte record set starts at batch %d (offset %d), after batch %d [%d..%d] which holds the offset", p, o, n, start, pt.batches[start].Base, tgt, tb.Base, tb.Last)
			default:
				add("response-not-a-run-of-the-log-from-a-batch-boundary", "partition %d at offset %d: the %d-byte record set is not a run of the partition's log starting at a batch boundary (first bytes %x)", p, o, n, fp.Records[:min(n, 16)])
			}
		}
		earlier += n
	}
}

// c04fMaxBytes is the request-level MaxBytes alphabet of one (order, offsets, limits)
// combination: 0 (unset), 1, large, and a+b and a+b+-1 for every size a the first listed
// partition may return (a run from a batch boundary of the segment at or before the batch
// holding its offset to a boundary after it; its PartitionMaxBytes when small; 0 at the
// high watermark) and every distance b from a possible run start of the second listed
// partition to a batch boundary up to the end of the batch holding its offset.
func c04fMaxBytes(first, second *c04fPart, oF, oS int64, pmbF int32) []int32 {
	var as, bs []int
	if oF >= first.end {
		as = []int{0}
	} else {
		t := first.target(oF)
		for i := 0; i <= t; i++ {
			if first.batches[i].Seg != first.batches[t].Seg {
				continue
			}
			for j := t; j < len(first.batches) && first.batches[j].Seg == first.batches[t].Seg; j++ {
				as = append(as, first.batches[j].End-first.batches[i].Start)
			}
		}
		if pmbF < 1<<16 {
			as = append(as, int(pmbF))
		}
	}
	if oS >= second.end {
		bs = []int{0}
	} else {
		t := second.target(oS)
		for i := 0; i <= t; i++ {
			if second.batches[i].Seg != second.batches[t].Seg {
				continue
			}
			for k := i; k <= t; k++ {
				bs = append(bs, second.batches[k].Start-second.batches[i].Start)
			}
			bs = append(bs, second.batches[t].End-second.batches[i].Start)
		}
	}
	set := map[int32]bool{0: true, 1: true, 1 << 20: true, math.MaxInt32: true}
	for _, a := range as {
		for _, b := range bs {
			for d := -1; d <= 1; d++ {
				if v := a + b + d; v > 0 {
					set[int32(v)] = true
				}
			}
		}
	}
	out := make([]int32, 0, len(set))
	for v := range set {
		out = append(out, v)
	}
	sort.Slice(out, func(i, j int) bool { return out[i] < out[j] })
	return out
}

// PartitionMaxBytes alphabet: tiny, exactly one class-a batch (a cut at this limit falls on
// or inside the first batch of a longer run), large.
var c04fPMBs = []int32{1, int32(len(enum.SimpleBatch("0a0", 1, 4))), 1 << 20}

const c04fAmbiguousKey = "response-only-records-before-offset:cut-to-a-byte-limit"

var c04fVersions = []int16{11, 13} // min and max Fetch version the broker advertises

// c04fRun builds the world and sends every request (or only one). Runs inside a bubble.
func c04fRun(w *c04fWorld, only *c04fReq) (out *c04fOut) {
	out = &c04fOut{counts: map[string]int64{}, hash: 14695981039346656037}
	var handlers []*handler
	defer func() {
		for _, h := range handlers {
			h.coordinator.Stop()
		}
		if r := recover(); r != nil {
			out.harness = fmt.Sprintf("panic while building the world: %v", r)
		}
	}()
	bucket := fakes3.NewBucket()
	meta := vMeta(map[string]int{c04fTopic: 2})
	topicID := meta.Topics[0].TopicID
	store := metadata.NewInMemoryStore(meta)
	newH := func(who string) *handler {
		s3 := fakes3.New(bucket, who)
		s3.NoPoints = true
		h := vNewHandler(store, s3)
		h.autoCreateTopics = false
		h.flushOnAck = true
		h.logConfig.Buffer.FlushInterval = 0 // segments are cut by the acknowledged produce only
		h.flushInterval = 0
		h.logConfig.ReadAheadSegments = 0
		h.readAhead = 0
		h.logConfig.Segment.IndexIntervalMessages = w.Interval
		handlers = append(handlers, h)
		return h
	}
	h := newH("b1")
	var parts [2]*c04fPart
	for p := 0; p < 2; p++ {
		pt := c04fBuildPart(p, w.Layouts[p])
		parts[p] = pt
		for i, raw := range pt.raws {
			acks := int16(0)
			if pt.final[i] {
				acks = -1
			}
			res, err := vProduce(h, acks, map[string]map[int32][]byte{c04fTopic: {int32(p): append([]byte(nil), raw...)}})
			if err != nil {
				out.harness = fmt.Sprintf("produce: %v", err)
				return
			}
			if acks != 0 && (len(res) != 1 || res[0].Code != 0) {
				out.harness = fmt.Sprintf("produce partition %d batch %d: %+v", p, i, res)
				return
			}
		}
	}
	// the world must be the one named: the stored segments hold exactly the reference batches
	for p := 0; p < 2; p++ {
		pt := parts[p]
		next, err := store.NextOffset(bg(), c04fTopic, int32(p))
		if err != nil || next != pt.end {
			out.harness = fmt.Sprintf("partition %d: committed next offset %d (%v), want %d", p, next, err, pt.end)
			return
		}
		stored, _, err := vDurableBatches(bucket, fmt.Sprintf("default/%s/%d/", c04fTopic, p))
		if err != nil || len(stored) != len(pt.batches) {
			out.harness = fmt.Sprintf("partition %d: %d stored batches (%v), want %d", p, len(stored), err, len(pt.batches))
			return
		}
		segs := map[string]int{}
		for i, sb := range stored {
			b := pt.batches[i]
			if !bytes.Equal(sb.Batch.Raw, pt.log[b.Start:b.End]) || !sb.HasIndex {
				out.harness = fmt.Sprintf("partition %d: stored batch %d differs from the reference (index object %v)", p, i, sb.HasIndex)
				return
			}
			if _, ok := segs[sb.SegKey]; !ok {
				segs[sb.SegKey] = len(segs)
			}
			if segs[sb.SegKey] != b.Seg {
				out.harness = fmt.Sprintf("partition %d: batch %d stored in segment #%d, layout says #%d", p, i, segs[sb.SegKey], b.Seg)
				return
			}
		}
	}
	if w.Path == "range" {
		h.coordinator.Stop()
		handlers = handlers[:0]
		h = newH("b2")
	}
	opsBefore := len(bucket.Ops())
	seen := map[string]bool{}
	do := func(rq *c04fReq) {
		resp, err := c04fFetch(h, topicID, rq)
		out.requests++
		if err != nil {
			key := "fetch-request-fails"
			if strings.HasPrefix(err.Error(), "harness:") {
				out.harness = err.Error()
				return
			}
			if strings.HasPrefix(err.Error(), "panic:") {
				key = "fetch-handler-panics"
			}
			out.counts["viol:"+key]++
			if !seen[key] {
				seen[key] = true
				out.viols = append(out.viols, c04fViol{key: key, detail: fmt.Sprintf("%+v: %v", *rq, err), req: *rq})
			}
			out.mix(-9)
			return
		}
		c04fJudge(parts, rq, resp, out, seen)
	}
	if only != nil {
		do(only)
	} else {
		for _, order := range [][2]int32{{0, 1}, {1, 0}} {
			pf, ps := parts[order[0]], parts[order[1]]
			for oF := int64(0); oF <= pf.end; oF++ {
				for oS := int64(0); oS <= ps.end; oS++ {
					for _, pmbF := range c04fPMBs {
						mbs := c04fMaxBytes(pf, ps, oF, oS, pmbF)
						for _, pmbS := range c04fPMBs {
							for _, mb := range mbs {
								for _, ver := range c04fVersions {
									rq := c04fReq{Order: order, MaxBytes: mb, Version: ver}
									rq.Offsets[order[0]], rq.Offsets[order[1]] = oF, oS
									rq.PMB[order[0]], rq.PMB[order[1]] = pmbF, pmbS
									do(&rq)
									if out.harness != "" {
										return
									}
								}
							}
						}
					}
				}
			}
		}
	}
	downloads := int64(0)
	for _, op := range bucket.Ops()[opsBefore:] {
		if op.Name == "DownloadSegment" {
			downloads++
		}
	}
	out.counts["fetch_phase_segment_downloads_"+w.Path] += downloads
	if w.Path == "cached" && downloads != 0 {
		out.harness = fmt.Sprintf("cached path issued %d segment downloads", downloads)
	}
	if w.Path == "range" && downloads == 0 && only == nil {
		out.harness = "range path issued no segment download"
	}
	return out
}

func c04fLayouts(maxBatches int) []string {
	var out []string
	for n := 1; n <= maxBatches; n++ {
		dims := make([]int, 2*n-1)
		for i := range dims {
			dims[i] = 2
		}
		enum.Product(dims, func(idx []int) bool {
			var b []byte
			for i := 0; i < n; i++ {
				b = append(b, "ab"[idx[i]])
				if i < n-1 && idx[n+i] == 1 {
					b = append(b, '|')
				}
			}
			out = append(out, string(b))
			return true
		})
	}
	return out
}

func TestVerifC04Fetch(t *testing.T) {
	rep := vh.New(t, "C04")
	defer rep.Finish()
	thorough := vh.Thorough()
	maxBatches := 3
	companions := []string{"a", "ab"}
	intervals := []int32{100, 2}
	if thorough {
		maxBatches = 4
		intervals = []int32{100, 2, 3}
	}
	rep.Rule = "handler part: world = topic with 2 partitions produced through the real produce handler (layout per partition: batches of class a (1 record) / b (2 records), every subset of segment boundaries; batches of one segment are sent acks=0 and the last one acks=-1 so that the flush-on-ack writes them as ONE segment) x IndexIntervalMessages (100 = newHandler's value, and small) x path (cached = the broker that flushed | range = restarted broker, cold cache, range GETs); one partition carries every layout of 1..N batches, the other a companion layout, in both assignments; in each world every Fetch request naming both partitions in both orders x every fetch offset 0..high watermark of each partition x PartitionMaxBytes {1, one class-a batch, 1MiB} per partition x request MaxBytes {0, 1, every (size the first listed partition can return) + (distance from a possible run start of the second partition to each batch boundary up to the end of the batch holding its offset) and +-1, 1MiB, MaxInt32} x versions {11, 13} is encoded, parsed by protocol.ParseRequest, dispatched by handler.Handle and the response decoded; every partition answered for an offset below its high watermark must carry error code 0 and a record set that is a run of the partition's log from a batch boundary reaching beyond the first byte of the batch holding the offset (an empty record set is accepted only for a partition listed after one that returned bytes when the remaining request budget is smaller than that batch); outcome signature = world + hash of (start batch, target batch, length) of all answers; non-trivial = some answer starts at an earlier batch than the one holding the offset"
	rep.Assumptions = []string{
		"handler part: high watermark = committed next offset = end of the flushed log (flush-on-ack default); offsets equal to the high watermark are sent (they make the first listed partition return nothing) but not judged",
		"handler part: an empty record set for a partition listed after one that returned bytes is accepted when MaxBytes > 0 and MaxBytes minus the bytes already returned is smaller than the batch holding the offset (request budget exhausted, as in Kafka); every other empty answer below the high watermark is a violation",
		"handler part: fake S3 without faults, virtual time (synctest bubble per world), read-ahead off (covered at the PartitionLog level), MaxWaitMillis 0, no ACL",
	}
	rep.SetInfo("fetch_part_max_batches", maxBatches)
	rep.SetInfo("fetch_part_companion_layouts", companions)
	rep.SetInfo("fetch_part_index_intervals", intervals)
	rep.SetInfo("fetch_part_versions", c04fVersions)
	rep.SetInfo("fetch_part_partition_max_bytes", c04fPMBs)
	rep.SetInfo("fetch_part_batch_bytes", map[string]int{"a": len(enum.SimpleBatch("0a0", 1, 4)), "b": len(enum.SimpleBatch("0b0", 2, 24))})

	runWorld := func(w *c04fWorld, only *c04fReq) (o *c04fOut) {
		synctest.Test(t, func(*testing.T) { o = c04fRun(w, only) })
		return o
	}

	var rp c04fReplay
	if ok, err := vh.LoadReplay(&rp); ok {
		if err != nil {
			t.Fatalf("HARNESS-ERROR load replay: %v", err)
		}
		if rp.Kind != "fetch" {
			return // a replay of the storage part
		}
		o := runWorld(&rp.c04fWorld, rp.Req)
		rep.Eval(o.requests)
		rep.Outcome(fmt.Sprintf("%+v|%x", rp.c04fWorld, o.hash), true)
		rep.Cap("replay of one case")
		if o.harness != "" {
			t.Fatalf("HARNESS-ERROR %s", o.harness)
		}
		for _, v := range o.viols {
			rep.Violation(v.key, v.detail, c04fReplay{c04fWorld: rp.c04fWorld, Req: &v.req})
		}
		return
	}

	defer debug.SetGCPercent(debug.SetGCPercent(400))
	var worlds []*c04fWorld
	dup := map[string]bool{}
	for _, rich := range c04fLayouts(maxBatches) {
		for _, comp := range companions {
			for _, lay := range [][2]string{{comp, rich}, {rich, comp}} {
				for _, iv := range intervals {
					for _, path := range []string{"cached", "range"} {
						w := &c04fWorld{Kind: "fetch", Layouts: lay, Interval: iv, Path: path}
						k := fmt.Sprintf("%+v", *w)
						if dup[k] {
							continue
						}
						dup[k] = true
						worlds = append(worlds, w)
					}
				}
			}
		}
	}
	rep.SetInfo("fetch_part_worlds", len(worlds))

	deadline := vh.Deadline()
	shard, nshards := vh.Shard()
	var mu sync.Mutex
	harnessErr := ""
	capped := false
	type found struct {
		seq int
		w   *c04fWorld
		v   c04fViol
	}
	best := map[string][]found{}
	counts := map[string]int64{}
	type job struct {
		seq int
		w   *c04fWorld
	}
	ch := make(chan job, 64)
	var wg sync.WaitGroup
	workers := runtime.GOMAXPROCS(0) / nshards
	if workers < 1 {
		workers = 1
	}
	for i := 0; i < workers; i++ {
		wg.Add(1)
		go func() {
			defer wg.Done()
			for j := range ch {
				o := runWorld(j.w, nil)
				rep.Eval(o.requests)
				mu.Lock()
				counts["fetch_part_worlds"]++
				for k, v := range o.counts {
					counts["fetch_part_"+k] += v
				}
				if o.harness != "" && harnessErr == "" {
					harnessErr = fmt.Sprintf("%s in %+v", o.harness, *j.w)
				}
				for _, v := range o.viols {
					best[v.key] = append(best[v.key], found{j.seq, j.w, v})
				}
				mu.Unlock()
				if o.harness != "" {
					continue
				}
				rep.Outcome(fmt.Sprintf("%+v|%x", *j.w, o.hash), o.nontriv)
				if o.nontriv && j.w.Path == "range" && strings.Count(j.w.Layouts[1], "|") == 0 && len(j.w.Layouts[1]) == 3 {
					rep.Sample(map[string]any{"part": "handler", "world": j.w, "fetch_requests": o.requests, "answers_starting_before_target_batch": o.counts["partitions_run_starts_before_target_batch"]})
				}
			}
		}()
	}
	for i, w := range worlds {
		if i%nshards != shard {
			continue
		}
		if time.Now().After(deadline) {
			capped = true
			break
		}
		ch <- job{i, w}
	}
	close(ch)
	wg.Wait()
	if capped {
		rep.Cap("handler part: time budget reached before all worlds were run")
	}
	for k, v := range counts {
		rep.Count(k, v)
	}
	if harnessErr != "" {
		t.Fatalf("HARNESS-ERROR %s", harnessErr)
	}
	// report the smallest world first for every mechanism
	keys := make([]string, 0, len(best))
	for k := range best {
		keys = append(keys, k)
	}
	sort.Strings(keys)
	specific := false
	for _, k := range keys {
		if k != c04fAmbiguousKey && strings.HasPrefix(k, "response-only-records-before-offset:") {
			specific = true
		}
	}
	for _, k := range keys {
		if k == c04fAmbiguousKey && specific {
			continue // the same mechanism is reported under the key that names the limit
		}
		fs := best[k]
		sort.Slice(fs, func(a, b int) bool { return fs[a].seq < fs[b].seq })
		for i, f := range fs {
			if i >= 3 {
				break
			}
			rep.Violation(k, fmt.Sprintf("%+v: %s", *f.w, f.v.detail), c04fReplay{c04fWorld: *f.w, Req: &f.v.req})
		}
	}
}
