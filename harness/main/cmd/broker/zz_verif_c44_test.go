//go:build verif

package main

// C44 — reads through an S3 read replica match the primary.
//
// Bounded-exhaustive enumeration of (per-object primary state x replica state) x operation
// histories on the real dualS3Client (newDualS3Client over two in-package fakes). Every operation
// is also applied to a shadow copy of the primary alone; the oracle compares the dual client with
// that shadow ("what the primary bucket would return") and checks that nothing but reads ever
// reaches the replica.

import (
	"bytes"
	"context"
	"errors"
	"fmt"
	"runtime"
	"runtime/debug"
	"sort"
	"strings"
	"sync"
	"testing"
	"time"

	"github.com/KafScale/platform/internal/verif/enum"
	"github.com/KafScale/platform/internal/verif/vh"
	"github.com/KafScale/platform/pkg/storage"
)

// ---------------------------------------------------------------- fake bucket

type c44Call struct {
	Op   string
	Key  string
	Body string
	Rng  [2]int64
	Has  bool
}

type c44Store struct {
	name    string
	obj     map[string][]byte
	readErr map[string]bool // reads of this key fail (transient / replica outage)
	failOps bool            // writes, deletes, list, ensure fail
	log     []c44Call
}

func c44NewStore(name string) *c44Store {
	return &c44Store{name: name, obj: map[string][]byte{}, readErr: map[string]bool{}}
}

func (s *c44Store) clone(name string) *c44Store {
	c := c44NewStore(name)
	for k, v := range s.obj {
		c.obj[k] = v
	}
	for k, v := range s.readErr {
		c.readErr[k] = v
	}
	return c
}

func (s *c44Store) errf(op, key string) error {
	return fmt.Errorf("%s: %s %s: injected failure", s.name, op, key)
}

func (s *c44Store) UploadSegment(ctx context.Context, key string, body []byte) error {
	s.log = append(s.log, c44Call{Op: "UploadSegment", Key: key, Body: string(body)})
	if s.failOps {
		return s.errf("UploadSegment", key)
	}
	s.obj[key] = append([]byte(nil), body...)
	return nil
}

func (s *c44Store) UploadIndex(ctx context.Context, key string, body []byte) error {
	s.log = append(s.log, c44Call{Op: "UploadIndex", Key: key, Body: string(body)})
	if s.failOps {
		return s.errf("UploadIndex", key)
	}
	s.obj[key] = append([]byte(nil), body...)
	return nil
}

func (s *c44Store) DeleteSegment(ctx context.Context, key string) error {
	s.log = append(s.log, c44Call{Op: "DeleteSegment", Key: key})
	if s.failOps {
		return s.errf("DeleteSegment", key)
	}
	delete(s.obj, key)
	return nil
}

func (s *c44Store) DeleteIndex(ctx context.Context, key string) error {
	s.log = append(s.log, c44Call{Op: "DeleteIndex", Key: key})
	if s.failOps {
		return s.errf("DeleteIndex", key)
	}
	delete(s.obj, key)
	return nil
}

// content is the fault-free read of the bucket content (range semantics of S3 / MemoryS3Client:
// inclusive, end clamped, start past the end is an error).
func (s *c44Store) content(key string, rng *storage.ByteRange) ([]byte, error) {
	data, ok := s.obj[key]
	if !ok {
		return nil, fmt.Errorf("%s: %s: %w", s.name, key, storage.ErrNotFound)
	}
	if rng == nil {
		return append([]byte(nil), data...), nil
	}
	start, end := rng.Start, rng.End
	if start < 0 {
		start = 0
	}
	if end >= int64(len(data)) {
		end = int64(len(data)) - 1
	}
	if start > end || start >= int64(len(data)) {
		return nil, fmt.Errorf("%s: %s: range %d-%d not satisfiable", s.name, key, rng.Start, rng.End)
	}
	return append([]byte(nil), data[start:end+1]...), nil
}

func (s *c44Store) DownloadSegment(ctx context.Context, key string, rng *storage.ByteRange) ([]byte, error) {
	c := c44Call{Op: "DownloadSegment", Key: key}
	if rng != nil {
		c.Rng, c.Has = [2]int64{rng.Start, rng.End}, true
	}
	s.log = append(s.log, c)
	if err := ctx.Err(); err != nil {
		return nil, err // like the S3 SDK: a request on a cancelled / expired context fails
	}
	if s.readErr[key] {
		return nil, s.errf("DownloadSegment", key)
	}
	return s.content(key, rng)
}

func (s *c44Store) DownloadIndex(ctx context.Context, key string) ([]byte, error) {
	s.log = append(s.log, c44Call{Op: "DownloadIndex", Key: key})
	if err := ctx.Err(); err != nil {
		return nil, err
	}
	if s.readErr[key] {
		return nil, s.errf("DownloadIndex", key)
	}
	return s.content(key, nil)
}

func (s *c44Store) ListSegments(ctx context.Context, prefix string) ([]storage.S3Object, error) {
	s.log = append(s.log, c44Call{Op: "ListSegments", Key: prefix})
	if s.failOps {
		return nil, s.errf("ListSegments", prefix)
	}
	var keys []string
	for k := range s.obj {
		if strings.HasPrefix(k, prefix) {
			keys = append(keys, k)
		}
	}
	sort.Strings(keys)
	out := make([]storage.S3Object, 0, len(keys))
	for _, k := range keys {
		out = append(out, storage.S3Object{Key: k, Size: int64(len(s.obj[k]))})
	}
	return out, nil
}

func (s *c44Store) EnsureBucket(ctx context.Context) error {
	s.log = append(s.log, c44Call{Op: "EnsureBucket"})
	if s.failOps {
		return s.errf("EnsureBucket", "")
	}
	return nil
}

func c44SameObjs(a, b map[string][]byte) bool {
	if len(a) != len(b) {
		return false
	}
	for k, v := range a {
		w, ok := b[k]
		if !ok || !bytes.Equal(v, w) {
			return false
		}
	}
	return true
}

// ---------------------------------------------------------------- case description (replayable)

var c44Keys = []string{
	"default/orders/0/segment-00000000000000000000.kfs",
	"default/orders/0/segment-00000000000000000000.index",
	"default/orders/0/segment-00000000000000000008.kfs",
}

const c44Prefix = "default/orders/0/"

var c44PrimaryStates = []string{"present", "missing", "present-read-error"}
var c44ReplicaStates = []string{"same", "missing", "error", "stale", "short", "longer"}

type c44Op struct {
	Kind         string    `json:"kind"` // get getidx putseg putidx delseg delidx list ensure
	Key          int       `json:"key"`
	Rng          *[2]int64 `json:"rng,omitempty"`
	PrimaryFails bool      `json:"primary_fails,omitempty"`
	str          string
}

func (o c44Op) String() string {
	if o.str != "" {
		return o.str
	}
	s := o.Kind
	if o.Kind != "list" && o.Kind != "ensure" {
		s += fmt.Sprintf("(k%d", o.Key)
		if o.Rng != nil {
			s += fmt.Sprintf(",%d-%d", o.Rng[0], o.Rng[1])
		}
		s += ")"
	}
	if o.PrimaryFails {
		s += "!pf"
	}
	return s
}

type c44Case struct {
	Init [][2]int `json:"init"` // per key: [primary state, replica state] (indices into the state lists)
	Ops  []c44Op  `json:"ops"`
}

var c44Contents, c44Stale, c44Longer = func() (p, st, lg [][]byte) {
	for i := range c44Keys {
		c := []byte(fmt.Sprintf("P%d:abcdefghijkl", i))[:8]
		p = append(p, c)
		st = append(st, []byte(fmt.Sprintf("S%d:ZYXWVUTSRQ", i))[:8])
		lg = append(lg, append(append([]byte(nil), c...), "+old"...))
	}
	return
}()

func c44Content(key int) []byte { return c44Contents[key] }

// bodies written by upload operations, by step and key
var c44Bodies = func() (b [8][3][]byte) {
	for st := range b {
		for k := range b[st] {
			b[st][k] = []byte(fmt.Sprintf("NEW%d-%d", st, k))
		}
	}
	return
}()

func c44Setup(c *c44Case) (primary, replica *c44Store) {
	primary, replica = c44NewStore("primary"), c44NewStore("replica")
	for i, st := range c.Init {
		k := c44Keys[i]
		p := c44Content(i)
		switch st[0] {
		case 0:
			primary.obj[k] = p
		case 2:
			primary.obj[k] = p
			primary.readErr[k] = true
		}
		switch st[1] {
		case 0:
			replica.obj[k] = p
		case 2:
			replica.obj[k] = p
			replica.readErr[k] = true
		case 3:
			replica.obj[k] = c44Stale[i]
		case 4:
			replica.obj[k] = p[:4]
		case 5:
			replica.obj[k] = c44Longer[i]
		}
	}
	return
}

// ---------------------------------------------------------------- execution + oracle

type c44Problem struct{ Key, Detail string }

func c44Run(c *c44Case) (probs []c44Problem, sig string, nontrivial bool) {
	ctx := context.Background()
	primary, replica := c44Setup(c)
	shadow := primary.clone("primary") // the primary bucket alone, same name so that error texts compare
	replica0 := replica.clone("replica")
	dual := newDualS3Client(primary, replica)
	var sb strings.Builder
	bad := func(key, format string, a ...any) {
		probs = append(probs, c44Problem{key, fmt.Sprintf(format, a...)})
	}
	defer func() {
		if r := recover(); r != nil {
			bad("panic", "%v", r)
			sig = sb.String() + "|panic"
		}
	}()
	for step, op := range c.Ops {
		key := c44Keys[op.Key]
		pl, rl, sl := len(primary.log), len(replica.log), len(shadow.log)
		var rng *storage.ByteRange
		if op.Rng != nil {
			rng = &storage.ByteRange{Start: op.Rng[0], End: op.Rng[1]}
		}
		primary.failOps, shadow.failOps = op.PrimaryFails, op.PrimaryFails
		isRead := op.Kind == "get" || op.Kind == "getidx"
		if isRead {
			var got, content []byte
			var err, derr, cerr error
			if op.Kind == "get" {
				got, err = dual.DownloadSegment(ctx, key, rng)
				_, derr = shadow.DownloadSegment(ctx, key, rng)
			} else {
				got, err = dual.DownloadIndex(ctx, key)
				_, derr = shadow.DownloadIndex(ctx, key)
			}
			content, cerr = shadow.content(key, rng)
			rcontent, rerr := replica.content(key, rng)
			replicaOK := rerr == nil && !replica.readErr[key]
			rstate := "replica-failing"
			if _, has := replica.obj[key]; !has {
				rstate = "replica-missing"
			} else if replicaOK {
				rstate = "replica-answers"
			}
			class := ""
			switch {
			case err == nil && cerr == nil && bytes.Equal(got, content):
				class = "ok-bytes"
				if !replicaOK {
					class = "ok-fallback"
					nontrivial = true
				}
			case err == nil:
				// bytes returned although the primary bucket would return other bytes or none
				nontrivial = true
				want := fmt.Sprintf("%q", content)
				if cerr != nil {
					want = "error " + cerr.Error()
				}
				if _, has := shadow.obj[key]; !has {
					class = "GHOST"
					bad("replica-serves-object-missing-on-primary", "step %d %s: %s does not exist in the primary bucket (read would fail: %v) but the dual client returned %q from the replica", step, op, key, cerr, got)
				} else if replicaOK && bytes.Equal(got, rcontent) && !bytes.Equal(replica.obj[key], shadow.obj[key]) {
					class = "STALE"
					bad("stale-replica-bytes-served", "step %d %s: the replica holds %q under %s while the primary holds %q; the dual client returned %q, the primary would return %s", step, op, replica.obj[key], key, shadow.obj[key], got, want)
				} else {
					class = "DIFF"
					bad("read-differs-from-primary", "step %d %s: dual client returned %q, the primary would return %s (replica holds %q, primary holds %q)", step, op, got, want, replica.obj[key], shadow.obj[key])
				}
			case err != nil && derr == nil:
				nontrivial = true
				class = "NOFALLBACK"
				bad("no-fallback-to-primary:"+rstate, "step %d %s: dual client failed with %v although the primary returns %q", step, op, err, content)
			default: // both fail
				nontrivial = nontrivial || !replicaOK
				class = "err"
				if err.Error() != derr.Error() {
					class = "ERRDIFF"
					bad("fallback-error-not-the-primary's:"+rstate, "step %d %s: dual client failed with %q, the primary alone fails with %q", step, op, err, derr)
				}
				if errors.Is(derr, storage.ErrNotFound) != errors.Is(err, storage.ErrNotFound) {
					bad("fallback-error-not-the-primary's:not-found-class", "step %d %s: errors.Is(err, ErrNotFound) differs: dual %v, primary %v", step, op, err, derr)
				}
			}
			// a read never modifies either bucket
			if !c44SameObjs(primary.obj, shadow.obj) {
				bad("read-modified-primary", "step %d %s", step, op)
			}
			sb.WriteString("|" + op.String() + ":" + c44PrimaryStates[c.Init[op.Key][0]] + "/" + rstate + ":" + class)
		} else {
			var err, serr error
			var list, slist []storage.S3Object
			body := c44Bodies[step%8][op.Key]
			switch op.Kind {
			case "putseg":
				err, serr = dual.UploadSegment(ctx, key, body), shadow.UploadSegment(ctx, key, body)
			case "putidx":
				err, serr = dual.UploadIndex(ctx, key, body), shadow.UploadIndex(ctx, key, body)
			case "delseg":
				err, serr = dual.DeleteSegment(ctx, key), shadow.DeleteSegment(ctx, key)
			case "delidx":
				err, serr = dual.DeleteIndex(ctx, key), shadow.DeleteIndex(ctx, key)
			case "list":
				list, err = dual.ListSegments(ctx, c44Prefix)
				slist, serr = shadow.ListSegments(ctx, c44Prefix)
			case "ensure":
				err, serr = dual.EnsureBucket(ctx), shadow.EnsureBucket(ctx)
			default:
				panic("bad op " + op.Kind)
			}
			if op.PrimaryFails {
				nontrivial = true
			}
			class := "ok"
			if len(replica.log) != rl {
				class = "REPLICA"
				bad(op.Kind+"-reached-replica", "step %d %s: replica received %+v", step, op, replica.log[rl:])
			}
			pn, sn := primary.log[pl:], shadow.log[sl:]
			same := len(pn) == len(sn)
			for i := 0; same && i < len(pn); i++ {
				same = pn[i] == sn[i]
			}
			if !same {
				class = "NOTPRIMARY"
				bad(op.Kind+"-not-forwarded-to-primary", "step %d %s: primary received %+v, expected %+v", step, op, pn, sn)
			}
			if (err == nil) != (serr == nil) || (err != nil && err.Error() != serr.Error()) {
				class = "RESULT"
				bad(op.Kind+"-result-differs-from-primary", "step %d %s: dual %v, primary alone %v", step, op, err, serr)
			}
			if op.Kind == "list" && err == nil && serr == nil {
				eq := len(list) == len(slist)
				for i := 0; eq && i < len(list); i++ {
					eq = list[i] == slist[i]
				}
				if !eq {
					class = "RESULT"
					bad("list-result-differs-from-primary", "step %d %s: dual %+v, primary alone %+v", step, op, list, slist)
				}
			}
			if !c44SameObjs(primary.obj, shadow.obj) {
				bad(op.Kind+"-primary-content-differs", "step %d %s: primary bucket content differs from the primary-only run", step, op)
			}
			if err != nil {
				class += "-err"
			}
			sb.WriteString("|" + op.String() + ":" + class)
		}
		if !c44SameObjs(replica.obj, replica0.obj) {
			bad("replica-content-modified", "step %d %s: replica bucket content changed", step, op)
		}
	}
	return probs, sb.String(), nontrivial
}

// ---------------------------------------------------------------- enumeration

func c44OpAlphabet(allRanges bool) []c44Op {
	var ops []c44Op
	ops = append(ops, c44Op{Kind: "get", Key: 0})
	if allRanges {
		// every inclusive range with 0 <= start <= end <= L+2 over the 8-byte object (the "longer" replica has 12)
		for s := int64(0); s <= 10; s++ {
			for e := s; e <= 13; e++ {
				ops = append(ops, c44Op{Kind: "get", Key: 0, Rng: &[2]int64{s, e}})
			}
		}
	} else {
		for _, r := range [][2]int64{{0, 3}, {2, 5}, {6, 13}, {8, 11}} {
			r := r
			ops = append(ops, c44Op{Kind: "get", Key: 0, Rng: &r})
		}
	}
	ops = append(ops, c44Op{Kind: "getidx", Key: 1}, c44Op{Kind: "get", Key: 2})
	for _, pf := range []bool{false, true} {
		ops = append(ops,
			c44Op{Kind: "putseg", Key: 0, PrimaryFails: pf}, c44Op{Kind: "putidx", Key: 1, PrimaryFails: pf},
			c44Op{Kind: "delseg", Key: 0, PrimaryFails: pf}, c44Op{Kind: "delidx", Key: 1, PrimaryFails: pf},
			c44Op{Kind: "list", PrimaryFails: pf}, c44Op{Kind: "ensure", PrimaryFails: pf})
	}
	for i := range ops {
		ops[i].str = ops[i].String()
	}
	return ops
}

// c44Cases enumerates: (1) every single operation incl. every range x every state of all three
// objects' (primary, replica) pair; (2) every history of 2..depth operations over the short
// alphabet x every initial state.
func c44Cases(depth int, f func(c44Case) bool) {
	np, nr := len(c44PrimaryStates), len(c44ReplicaStates)
	states := func(g func(init [][2]int) bool) {
		enum.Product([]int{np, nr, np, nr, np, nr}, func(idx []int) bool {
			return g([][2]int{{idx[0], idx[1]}, {idx[2], idx[3]}, {idx[4], idx[5]}})
		})
	}
	ok := true
	wide := c44OpAlphabet(true)
	states(func(init [][2]int) bool {
		for _, op := range wide {
			if ok = f(c44Case{Init: init, Ops: []c44Op{op}}); !ok {
				return false
			}
		}
		return true
	})
	if !ok {
		return
	}
	short := c44OpAlphabet(false)
	for l := 2; l <= depth && ok; l++ {
		dims := make([]int, l)
		for i := range dims {
			dims[i] = len(short)
		}
		states(func(init [][2]int) bool {
			enum.Product(dims, func(idx []int) bool {
				ops := make([]c44Op, l)
				for i, x := range idx {
					ops[i] = short[x]
				}
				ok = f(c44Case{Init: init, Ops: ops})
				return ok
			})
			return ok
		})
	}
}

type c44Found struct {
	idx    int64
	detail string
	replay c44Case
	count  int64
}

func TestVerifC44(t *testing.T) {
	rep := vh.New(t, "C44")
	defer rep.Finish()
	rep.Rule = "case = initial state of 3 objects (segment, its index, a second segment), each primary in {present, missing, present-but-reads-fail} x replica in {same bytes, missing, error, stale same-length bytes, short prefix, longer stale bytes}, x a history of operations through the real dualS3Client (reads: full / ranged segment, index; writes: upload/delete segment/index, list, ensure-bucket, each also with the primary failing). Depth 1 uses every inclusive range [s,e] with 0<=s<=10, s<=e<=13 over the 8-byte object; deeper histories use 4 ranges. Every op is mirrored on a shadow copy of the primary alone. Plus the slow-replica section: a replica that answers a read only after 10 ms .. 31 s of virtual time (then with the same bytes, an error or not-found) x {full segment, ranged segment, index} read with a caller context without deadline. Plus the overlapping-reads section: every ordered pair of reads from {full segment, ranges [0,3] [2,5] [4,7], index, second segment full and [2,5]} run concurrently through ONE dual client (primary healthy and holding all objects; replica of each key touched in {same, missing, error, slow-same, slow-missing}); the first read is parked inside its 1st (replica) or 2nd (primary fallback) bucket call while the second runs until it returned or is durably blocked (testing/synctest), then the first is released or its caller context cancelled first; each read must return the primary's bytes for its own key and range (a cancelled caller may get a context error). Non-trivial = some read hit a replica that is missing, answers with an error (outage or range it cannot satisfy) or holds different bytes, or a write/list ran with the primary failing; in the overlapping-reads section: the first read really was parked inside a bucket call while the second ran and at least one of them had a replica that is not 'same'."
	rep.Assumptions = []string{
		"both buckets are in-package fakes with S3 range semantics (inclusive, end clamped, start past the end is an error) and lexicographic listing",
		"'what the primary would return' = the primary bucket's content for (key, range); a transient primary read error does not make a correct answer from an identical replica wrong",
		"replica read failures and primary read failures are persistent per key within one history; primary write/list failures are per operation",
	}
	var sc c44SlowCase
	if ok, err := vh.LoadReplay(&sc); ok && err == nil && sc.Slow {
		c44RunSlow(t, rep, sc)
		return
	}
	var cc c44ConcCase
	if ok, err := vh.LoadReplay(&cc); ok && err == nil && cc.Conc {
		c44RunConc(t, rep, cc)
		return
	}
	var rc c44Case
	if ok, err := vh.LoadReplay(&rc); ok {
		if err != nil {
			t.Fatalf("HARNESS-ERROR replay: %v", err)
		}
		probs, sig, nt := c44Run(&rc)
		rep.Eval(1)
		rep.Outcome(sig, nt)
		rep.Sample(map[string]any{"case": rc, "outcome": sig})
		for _, p := range probs {
			rep.Violation(p.Key, p.Detail, rc)
		}
		return
	}
	if sh, _ := vh.Shard(); sh == 0 {
		slow := c44SlowCases()
		rep.SetInfo("slow_replica_cases", len(slow))
		for _, c := range slow {
			c44RunSlow(t, rep, c)
		}
		conc := c44ConcCases()
		rep.SetInfo("overlapping_read_cases", len(conc))
		rep.SetInfo("overlapping_read_alphabet", fmt.Sprint(c44ConcReads()))
		rep.SetInfo("overlapping_read_replica_states", c44ConcReplicaStates)
		for _, c := range conc {
			c44RunConc(t, rep, c)
		}
	}
	depth := 2
	if vh.Thorough() {
		depth = 3
	}
	rep.SetInfo("objects", c44Keys)
	rep.SetInfo("primary_states", c44PrimaryStates)
	rep.SetInfo("replica_states", c44ReplicaStates)
	rep.SetInfo("history_depth", depth)
	rep.SetInfo("ops_depth1", len(c44OpAlphabet(true)))
	rep.SetInfo("ops_deeper", len(c44OpAlphabet(false)))

	defer debug.SetGCPercent(debug.SetGCPercent(800)) // allocation-heavy, tiny live heap
	deadline := vh.Deadline()
	shard, nshards := vh.Shard()
	type job struct {
		idx int64
		c   c44Case
	}
	jobs := make(chan []job, 64)
	capped := false
	go func() {
		defer close(jobs)
		var idx int64
		batch := make([]job, 0, 512)
		c44Cases(depth, func(c c44Case) bool {
			i := idx
			idx++
			if int(i%int64(nshards)) != shard {
				return true
			}
			batch = append(batch, job{i, c})
			if len(batch) == cap(batch) {
				if time.Now().After(deadline) {
					capped = true
					return false
				}
				jobs <- batch
				batch = make([]job, 0, 512)
			}
			return true
		})
		if len(batch) > 0 && !capped {
			jobs <- batch
		}
	}()
	var mu sync.Mutex
	found := map[string]*c44Found{}
	var wg sync.WaitGroup
	for w := 0; w < runtime.GOMAXPROCS(0); w++ {
		wg.Add(1)
		go func() {
			defer wg.Done()
			seen := map[string]bool{}
			var evals int64
			for batch := range jobs {
				for _, j := range batch {
					c := j.c
					probs, sig, nt := c44Run(&c)
					evals++
					if !seen[sig] {
						seen[sig] = true
						rep.Outcome(sig, nt)
						if nt && len(seen)%211 == 5 && rep.WantSample() {
							rep.Sample(map[string]any{"case": c, "outcome": sig})
						}
					}
					if len(probs) > 0 {
						mu.Lock()
						for _, p := range probs {
							fd := found[p.Key]
							if fd == nil {
								fd = &c44Found{idx: -1}
								found[p.Key] = fd
							}
							fd.count++
							if fd.idx < 0 || j.idx < fd.idx {
								fd.idx, fd.detail, fd.replay = j.idx, p.Detail, c
							}
						}
						mu.Unlock()
					}
				}
			}
			rep.Eval(evals)
		}()
	}
	wg.Wait()
	if capped {
		rep.Cap("deadline reached before the enumeration finished")
	}
	keys := make([]string, 0, len(found))
	for k := range found {
		keys = append(keys, k)
	}
	sort.Slice(keys, func(i, j int) bool {
		a, b := found[keys[i]], found[keys[j]]
		if a.idx != b.idx {
			return a.idx < b.idx
		}
		return keys[i] < keys[j]
	})
	for _, k := range keys {
		fd := found[k]
		rep.Violation(k, fd.detail, fd.replay)
		rep.ViolCount[k] = fd.count
	}
}
