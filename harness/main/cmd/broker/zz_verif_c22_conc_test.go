//go:build verif

package main

import (
	"fmt"
	"sort"
	"strings"
	"testing"

	"github.com/KafScale/platform/internal/verif/enum"
	"github.com/KafScale/platform/internal/verif/fakes3"
	"github.com/KafScale/platform/internal/verif/sched"
	"github.com/KafScale/platform/internal/verif/vh"
	"github.com/KafScale/platform/pkg/metadata"
)

// C22 (concurrent part): two (thorough: three) first-touch requests on COLD partition
// logs of one real handler, for every pair of (topic, partition) identities from an
// alphabet of textual neighbours (names that are another name plus digits x partition
// numbers whose decimal text completes the other name), under every schedule within
// the preemption bound. After quiescence nothing of one identity may have been stored
// under, read from, or accounted to another identity.

type c22ID struct {
	Topic string
	Part  int32
}

func (id c22ID) String() string { return fmt.Sprintf("%s#%d", id.Topic, id.Part) }
func (id c22ID) prefix() string { return fmt.Sprintf("default/%s/%d/", id.Topic, id.Part) }

// tag of the records written for id by writer w ("pre" or "w<i>"). '|' and '#' occur
// in no candidate topic name, so owner(tag) is unambiguous.
func (id c22ID) tag(w string) string { return id.String() + "|" + w }

func c22Owner(recordKey []byte) string {
	s := string(recordKey)
	if i := strings.IndexByte(s, '|'); i >= 0 {
		return s[:i]
	}
	return "?" + s
}

var c22TopicCandidates = []string{"t", "t1", "t10", "t/1"}
var c22Partitions = []int32{0, 1, 10, 11}

const c22NumPartitions = 12

// c22AcceptedTopics asks the real store which candidate names it accepts.
func c22AcceptedTopics() (acc, rej []string) {
	st := metadata.NewInMemoryStore(vMeta(nil))
	for _, n := range c22TopicCandidates {
		if _, err := st.CreateTopic(bg(), metadata.TopicSpec{Name: n, NumPartitions: c22NumPartitions, ReplicationFactor: 1}); err == nil {
			acc = append(acc, n)
		} else {
			rej = append(rej, n)
		}
	}
	return
}

func c22Alphabet(topics []string) []c22ID {
	var ids []c22ID
	for _, t := range topics {
		for _, p := range c22Partitions {
			ids = append(ids, c22ID{t, p})
		}
	}
	return ids
}

// c22Collides reports whether two identities have equal separator-less concatenations
// (in either order of topic and partition text), i.e. are "textual neighbours".
func c22Collides(a, b c22ID) bool {
	sa, sb := fmt.Sprintf("%s%d", a.Topic, a.Part), fmt.Sprintf("%s%d", b.Topic, b.Part)
	return sa == sb
}

type c22Scenario struct {
	Name  string
	IDs   []c22ID // one thread per entry
	Ops   string  // per thread: 'P' produce one record, 'F' fetch from offset 0
	Pre   bool    // every identity of the scenario holds records (written by an earlier broker) before the run
	P     int     // schedule bound of this scenario (see c22Bound)
	Delay bool
}

// c22Bound is the schedule bound of one op shape: P preemptions (switches away from a
// still-enabled thread; choices among other threads when the running one blocks are
// free), or, with Delay, P deviations of any kind from the canonical default order.
// A produce has ~10 points and two upload goroutines of its own, so two cold produces
// cost ~2.8k executions per pair at preemption bound 1 and ~15k at bound 2: the quick
// tier explores them delay-bounded.
type c22Bound struct {
	P     int
	Delay bool
}

func c22Bounds() map[string][]c22Bound {
	if vh.Thorough() {
		return map[string][]c22Bound{"PP": {{2, true}}, "PF": {{2, false}}, "FP": {{2, false}}, "FF": {{2, false}}}
	}
	return map[string][]c22Bound{"PP": {{1, true}}, "PF": {{1, false}}, "FP": {{1, false}}, "FF": {{2, false}}}
}

func c22Scenarios(ids []c22ID) []c22Scenario {
	var out []c22Scenario
	name := func(ops string, pre bool, bd c22Bound, xs ...c22ID) string {
		parts := make([]string, len(xs))
		for i, x := range xs {
			parts[i] = x.String()
		}
		s := ops + ":" + strings.Join(parts, ",")
		if pre {
			s += ":pre"
		}
		if bd.Delay {
			return s + fmt.Sprintf(":d%d", bd.P)
		}
		return s + fmt.Sprintf(":p%d", bd.P)
	}
	bounds := c22Bounds()
	for i := 0; i < len(ids); i++ {
		for j := i + 1; j < len(ids); j++ {
			a, b := ids[i], ids[j]
			for _, v := range []struct {
				ops string
				pre bool
			}{{"PP", false}, {"PF", true}, {"FP", true}, {"FF", true}} {
				bds := bounds[v.ops]
				if vh.Thorough() && v.ops == "PP" && (c22Collides(a, b) || (a.Part == 0 && b.Part == 0) || (a.Topic == b.Topic && a.Part == 0 && b.Part == 1)) {
					// additionally two cold produces at preemption bound 2 for every pair with
					// colliding concatenations and for control pairs (x#0,y#0), (x#0,x#1)
					bds = append(append([]c22Bound(nil), bds...), c22Bound{2, false})
				}
				for _, bd := range bds {
					out = append(out, c22Scenario{Name: name(v.ops, v.pre, bd, a, b), IDs: []c22ID{a, b}, Ops: v.ops, Pre: v.pre, P: bd.P, Delay: bd.Delay})
				}
			}
		}
	}
	if vh.Thorough() {
		// three threads (delay bound 2): every pair of different topics plus a second
		// request on either member, issued by a third thread, on pre-populated partitions
		for i := 0; i < len(ids); i++ {
			for j := i + 1; j < len(ids); j++ {
				a, b := ids[i], ids[j]
				if a.Topic == b.Topic {
					continue
				}
				for _, ops := range []string{"PFF", "FPF", "FFP", "FFF"} {
					out = append(out, c22Scenario{Name: name(ops, true, c22Bound{2, true}, a, b, a), IDs: []c22ID{a, b, a}, Ops: ops, Pre: true, P: 2, Delay: true})
					out = append(out, c22Scenario{Name: name(ops, true, c22Bound{2, true}, a, b, b), IDs: []c22ID{a, b, b}, Ops: ops, Pre: true, P: 2, Delay: true})
				}
			}
		}
	}
	return out
}

type c22Thread struct {
	ID    c22ID
	Op    byte
	Tag   string
	Bytes []byte
	Prod  vPartResult
	Fetch vFetchResult
	Err   error
	Done  bool
}

type c22Run struct {
	Sc      c22Scenario
	Bucket  *fakes3.Bucket
	Inner   *metadata.InMemoryStore
	H       *handler
	Threads []*c22Thread
	PreN    map[c22ID]int // records present before the run
}

func c22Tune(h *handler) {
	h.logConfig.Buffer.MaxBatches = 0
	h.logConfig.Buffer.FlushInterval = 0
	h.logConfig.ReadAheadSegments = 0
	h.readAhead = 0
}

func c22RunScenario(s *sched.Sched, sc c22Scenario, topics []string) *c22Run {
	r := &c22Run{Sc: sc, PreN: map[c22ID]int{}}
	r.Bucket = fakes3.NewBucket()
	r.Inner = metadata.NewInMemoryStore(vMeta(nil))
	for _, n := range topics {
		if _, err := r.Inner.CreateTopic(bg(), metadata.TopicSpec{Name: n, NumPartitions: c22NumPartitions, ReplicationFactor: 1}); err != nil {
			s.Fail("harness", "create topic %q: %v", n, err)
			return r
		}
	}
	if sc.Pre {
		// an earlier broker incarnation wrote i+1 records to the i-th distinct identity
		s0 := fakes3.New(r.Bucket, "b0")
		s0.NoPoints = true
		h0 := vNewHandler(&vStore{Store: r.Inner, NoPoints: true}, s0)
		c22Tune(h0)
		for _, id := range sc.IDs {
			if _, ok := r.PreN[id]; ok {
				continue
			}
			n := len(r.PreN) + 1
			res, err := vProduceOne(h0, id.Topic, id.Part, -1, enum.SimpleBatch(id.tag("pre"), n, 6))
			if err != nil || res.Code != 0 || res.Base != 0 {
				s.Fail("harness", "pre-populate %s: err=%v code=%d base=%d", id, err, res.Code, res.Base)
			}
			r.PreN[id] = n
		}
		h0.coordinator.Stop()
	}
	s3 := fakes3.New(r.Bucket, "b1")
	r.H = vNewHandler(&vStore{Store: r.Inner, S3: s3, AllPoints: true}, s3)
	c22Tune(r.H)
	for i, id := range sc.IDs {
		th := &c22Thread{ID: id, Op: sc.Ops[i], Tag: id.tag(fmt.Sprintf("w%d", i))}
		if th.Op == 'P' {
			th.Bytes = enum.SimpleBatch(th.Tag, 1, 6)
		}
		r.Threads = append(r.Threads, th)
	}
	for i, th := range r.Threads {
		th := th
		s.Go(fmt.Sprintf("T%d", i), func() {
			if th.Op == 'P' {
				th.Prod, th.Err = vProduceOne(r.H, th.ID.Topic, th.ID.Part, -1, th.Bytes)
			} else {
				th.Fetch, th.Err = vFetchOne(r.H, th.ID.Topic, th.ID.Part, 0, 1<<20)
			}
			th.Done = true
		})
	}
	s.Run()
	return r
}

// c22Check is the oracle for one finished execution.
func c22Check(s *sched.Sched, r *c22Run, alphabet []c22ID) {
	if r.H == nil {
		return
	}
	if s.Deadlock {
		s.Fail("deadlock", "threads blocked forever: %s", s.Blocked())
		return
	}
	inScenario := func(id c22ID) bool {
		for _, x := range r.Sc.IDs {
			if x == id {
				return true
			}
		}
		return false
	}
	// 1. every object lies under the prefix of exactly one identity of the scenario, and a
	//    segment holds only records written for that identity
	segs, idx := r.Bucket.Snapshot()
	keys := make([]string, 0, len(segs)+len(idx))
	for k := range segs {
		keys = append(keys, k)
	}
	for k := range idx {
		keys = append(keys, k)
	}
	sort.Strings(keys)
	for _, k := range keys {
		var owners []c22ID
		for _, id := range alphabet {
			if strings.HasPrefix(k, id.prefix()) {
				owners = append(owners, id)
			}
		}
		if len(owners) != 1 {
			s.Fail("object-not-under-exactly-one-partition-prefix", "object %q lies under the prefixes of %v", k, owners)
			continue
		}
		if !inScenario(owners[0]) {
			s.Fail("object-created-for-untouched-partition", "object %q belongs to %s, which no request of %s addressed", k, owners[0], r.Sc.Name)
		}
	}
	type where struct {
		id   c22ID
		base int64
	}
	stored := map[string][]where{} // record tag ("<id>|<writer>") -> where its batch is stored
	for _, id := range alphabet {
		bs, _, err := vDurableBatches(r.Bucket, id.prefix())
		if err != nil {
			s.Fail("harness", "decode segments of %s: %v", id, err)
			return
		}
		for _, sb := range bs {
			seen := map[string]bool{}
			for _, rec := range sb.Batch.Records {
				key := string(rec.Key)
				tag := key
				if i := strings.LastIndexByte(key, '-'); i >= 0 {
					tag = key[:i]
				}
				if !seen[tag] {
					seen[tag] = true
					stored[tag] = append(stored[tag], where{id, sb.Batch.BaseOffset})
				}
				if own := c22Owner(rec.Key); own != id.String() {
					s.Fail("records-stored-under-foreign-topic-prefix", "segment %s (partition %s) holds record %q written for %s", sb.SegKey, id, key, own)
				}
			}
		}
	}
	// 2. every acknowledged produce is stored under, and readable from, its own partition
	acked := map[c22ID]int{}
	sent := map[c22ID]int{}
	var h2 *handler
	for ti, th := range r.Threads {
		if th.Op != 'P' {
			continue
		}
		sent[th.ID]++
		if !th.Done || th.Err != nil || th.Prod.Code != 0 {
			continue
		}
		acked[th.ID]++
		if th.Prod.Topic != th.ID.Topic || th.Prod.Partition != th.ID.Part {
			s.Fail("produce-reply-names-foreign-partition", "thread %d produced to %s, reply is for %s#%d", ti, th.ID, th.Prod.Topic, th.Prod.Partition)
		}
		own := false
		for _, w := range stored[th.Tag] {
			if w.id == th.ID && w.base == th.Prod.Base {
				own = true
			}
		}
		if !own {
			s.Fail("acked-records-not-in-own-partition", "thread %d: produce to %s acked at base %d; its records are stored at %v", ti, th.ID, th.Prod.Base, stored[th.Tag])
			continue
		}
		if h2 == nil {
			s3b := fakes3.New(r.Bucket, "b2")
			s3b.NoPoints = true
			h2 = vNewHandler(&vStore{Store: r.Inner, NoPoints: true}, s3b)
			c22Tune(h2)
			defer h2.coordinator.Stop()
		}
		vCalm()
		fr, err := vFetchOne(h2, th.ID.Topic, th.ID.Part, th.Prod.Base, 1<<20)
		ok := false
		if err == nil && fr.Code == 0 {
			for _, d := range vLooseBatches(fr.Records) {
				if d.BaseOffset == th.Prod.Base && vSameBatch(d.Raw, th.Bytes) {
					ok = true
				}
			}
		}
		if !ok {
			s.Fail("acked-not-readable-from-own-partition", "thread %d: produce to %s acked at base %d: fetch by a fresh broker err=%v code=%d len=%d", ti, th.ID, th.Prod.Base, err, fr.Code, len(fr.Records))
		}
	}
	// 3. a fetch returns only records of the partition it asked for
	for ti, th := range r.Threads {
		if th.Op != 'F' || !th.Done || th.Err != nil {
			continue
		}
		bs, err := enum.DecodeBatches(th.Fetch.Records)
		if err != nil {
			s.Fail("harness", "thread %d: decode fetched records: %v", ti, err)
			continue
		}
		for _, b := range bs {
			for _, rec := range b.Records {
				if own := c22Owner(rec.Key); own != th.ID.String() {
					s.Fail("fetch-returned-foreign-topic-records", "thread %d: fetch %s offset 0 returned record %q written for %s", ti, th.ID, string(rec.Key), own)
				}
			}
		}
	}
	// 4. offset keys: each partition's next offset accounts for its own records only
	for _, id := range alphabet {
		next, err := r.Inner.NextOffset(bg(), id.Topic, id.Part)
		if err != nil {
			s.Fail("harness", "NextOffset %s: %v", id, err)
			continue
		}
		lo, hi := int64(r.PreN[id]+acked[id]), int64(r.PreN[id]+sent[id])
		switch {
		case !inScenario(id) && next != 0:
			s.Fail("offset-key-of-untouched-partition-changed", "next offset of %s is %d although no request of %s addressed it", id, next, r.Sc.Name)
		case next > hi:
			s.Fail("offset-key-advanced-by-foreign-records", "next offset of %s is %d; it held %d records and was sent %d", id, next, r.PreN[id], sent[id])
		case next < lo:
			s.Fail("offset-key-misses-own-acked-records", "next offset of %s is %d; it held %d records and %d more were acknowledged", id, next, r.PreN[id], acked[id])
		}
	}
}

func (r *c22Run) outcome() string {
	var b strings.Builder
	for i, th := range r.Threads {
		if th.Op == 'P' {
			fmt.Fprintf(&b, "T%d:P c%d@%d;", i, th.Prod.Code, th.Prod.Base)
		} else {
			fmt.Fprintf(&b, "T%d:F c%d hw%d len%d;", i, th.Fetch.Code, th.Fetch.HW, len(th.Fetch.Records))
		}
	}
	fmt.Fprintf(&b, "keys=%d", len(r.Bucket.Keys()))
	return b.String()
}

func TestVerifC22Conc(t *testing.T) {
	rep := vh.New(t, "C22")
	defer rep.Finish()
	rep.Rule = "DFS over thread choices (preemption bound) of 2-3 real handleProduce/handleFetch threads that first-touch cold partition logs of every pair of (topic,partition) identities from a textual-neighbour alphabet; distinct = distinct (scenario shape, per-thread code/offset, object count) outcomes; non-trivial = execution with >=1 switch away from an enabled thread"
	rep.Assumptions = []string{"fake S3 and in-memory metadata store stand for S3 and etcd", "scheduling points at PartitionLog locks/conds, S3 calls, NextOffset and UpdateOffsets; the handler's own maps are touched only between points"}
	accepted, rejected := c22AcceptedTopics()
	alphabet := c22Alphabet(accepted)
	rep.SetInfo("conc_topics_accepted", accepted)
	rep.SetInfo("conc_topics_rejected", rejected)
	rep.SetInfo("conc_partitions", c22Partitions)
	if len(accepted) < 2 {
		t.Fatalf("HARNESS-ERROR: fewer than two candidate topic names accepted: %v", accepted)
	}
	deadline := vh.Deadline()
	shard, n := vh.Shard()
	var rp struct {
		Scenario string
		Choices  []int
	}
	replaying, rerr := vh.LoadReplay(&rp)
	if rerr != nil {
		t.Fatalf("HARNESS-ERROR replay: %v", rerr)
	}
	scs := c22Scenarios(alphabet)
	var nsc, ncoll, execs int64
	for si, sc := range scs {
		sc := sc
		body := func(s *sched.Sched) {
			r := c22RunScenario(s, sc, accepted)
			if r.H != nil {
				defer r.H.coordinator.Stop()
			}
			c22Check(s, r, alphabet)
			s.Note("%s", r.outcome())
		}
		if replaying {
			if sc.Name != rp.Scenario {
				continue
			}
			x := sched.RunOnce(t, sched.Config{}, rp.Choices, true, body)
			fmt.Printf("REPLAY %s choices=%v\n steps=%v\n notes=%v\n fails=%+v deadlock=%v %s diverged=%q\n", sc.Name, rp.Choices, x.Steps, x.Notes, x.Fails, x.Deadlock, x.Blocked, x.Diverged)
			rep.Eval(1)
			for _, f := range x.Fails {
				rep.Violation(f.Key, sc.Name+": "+f.Detail, map[string]any{"scenario": sc.Name, "choices": x.Choices})
			}
			continue
		}
		if (si/4+si%4)%n != shard { // (about four op shapes per pair: spread the shapes over the shards)
			continue
		}
		nsc++
		coll := false
		for i := range sc.IDs {
			for j := i + 1; j < len(sc.IDs); j++ {
				if sc.IDs[i] != sc.IDs[j] && c22Collides(sc.IDs[i], sc.IDs[j]) {
					coll = true
				}
			}
		}
		if coll {
			ncoll++
		}
		bname := fmt.Sprintf("%s_p%d", sc.Ops, sc.P)
		if sc.Delay {
			bname = fmt.Sprintf("%s_d%d", sc.Ops, sc.P)
		}
		shape := fmt.Sprintf("%s|coll=%v|sametopic=%v", sc.Ops, coll, sc.IDs[0].Topic == sc.IDs[1].Topic)
		st := sched.Explore(t, sched.Config{MaxPreempt: sc.P, MaxDev: 0, Deadline: deadline, DelayBound: sc.Delay}, body, func(x *sched.Exec) {
			rep.Eval(1)
			sw, _ := x.NonDefault()
			rep.Outcome(shape+"|"+fmt.Sprint(x.Notes), sw > 0)
			if rep.WantSample() && sw > 1 && coll {
				rep.Sample(map[string]any{"scenario": sc.Name, "choices": x.Choices, "outcome": x.Notes})
			}
			for _, f := range x.Fails {
				rep.Violation(f.Key, sc.Name+": "+f.Detail, map[string]any{"scenario": sc.Name, "choices": x.Choices})
			}
		})
		execs += int64(st.Execs)
		rep.Count("conc_executions_"+bname, int64(st.Execs))
		rep.Count("conc_scenarios_"+bname, 1)
		if st.Capped {
			rep.Cap("deadline hit in concurrent scenario " + sc.Name)
			break
		}
	}
	rep.Count("conc_scenarios", nsc)
	rep.Count("conc_scenarios_colliding_concatenation", ncoll)
	rep.Count("conc_executions", execs)
}
