//go:build verif

package main

// C11 (parts "shared"): unordered-pair runner and race-detector log reader. This file is kept
// BYTE-IDENTICAL in harness/main/cmd/broker and harness/main/cmd/proxy (both are package
// main). Same technique as harness/main/pkg/protocol/zz_verif_c10_shared_test.go.
//
// The broker and the proxy serve every client connection in its own goroutine, so "a request
// at an advertised version gets a reply the codec decodes at that version" has to hold whatever
// reply is being built for another connection at the same moment. Building one reply is
// deterministic and has no point at which a cooperative scheduler could usefully switch (the
// reply is assembled and encoded by straight-line code), so instead of enumerating
// interleavings these parts decide the condition under which two reply constructions cannot
// influence each other in any interleaving: no conflicting access (write/write or read/write)
// to the same memory without a happens-before edge between them.
//
// Technique (binary built with -race): fa runs in goroutine G1 and then fb in goroutine G2.
// The hand-off "G1 finished -> start G2" is hidden from the race detector
// (runtime.RaceDisable around the channel operations), so the detector sees the two as
// unordered and reports every conflicting access pair between them deterministically,
// whatever the real timing would have been. Synchronisation inside the code under test
// (mutexes, atomics, sync.Once) stays visible, so properly synchronised sharing is not
// reported. After the pair the driver joins both goroutines VISIBLY, so later pairs
// happen-after this one and every report is attributable to exactly this pair. The
// detector's log is read back after each pair.

import (
	"os"
	"path/filepath"
	"regexp"
	"runtime"
	"sort"
	"strings"

	"github.com/KafScale/platform/internal/verif/sched"
	"github.com/twmb/franz-go/pkg/kmsg"
)

// vC11sRunPair runs fa in one goroutine and then fb in another one such that the race
// detector sees no happens-before edge between fa and fb, but sees both happen before the
// return (and therefore before everything the caller does or starts afterwards).
func vC11sRunPair(fa, fb func()) {
	hidden := make(chan struct{})
	joined := make(chan struct{}, 2)
	go func() {
		fa()
		sched.RaceOff() // the detector must not learn that fb starts after fa ended
		hidden <- struct{}{}
		sched.RaceOn()
		joined <- struct{}{}
	}()
	sched.RaceOff()
	<-hidden
	sched.RaceOn()
	go func() {
		fb()
		joined <- struct{}{}
	}()
	<-joined
	<-joined
}

// ---- harness-owned controls: is the detector able to see a conflict between fa and fb, and
// does it stay silent on two executions that are ordered by the visible join? ----

var vC11sCtlPos, vC11sCtlPos2, vC11sCtlNeg int

//go:noinline
func vC11sTouchPos() { vC11sCtlPos++ }

//go:noinline
func vC11sTouchPos2() { vC11sCtlPos2++ }

//go:noinline
func vC11sTouchNeg() { vC11sCtlNeg++ }

// ---- race log ----

type vC11sAccess struct {
	Owner    string // innermost function outside runtime / standard library
	OwnerLib bool   // owner is a third-party module
	Harness  bool   // owner is harness or engine code
	RepoFn   string // innermost repository (non-harness) function on the stack
	Restored bool   // the detector could print this stack
}

type vC11sRace struct {
	Key    string
	Report string
}

type vC11sLog struct {
	base    string
	offsets map[string]int64
	repo    string
	goroot  string
}

func newVC11sLog() *vC11sLog {
	repo := os.Getenv("VERIF_REPO")
	if repo == "" {
		repo = "/repo"
	}
	return &vC11sLog{base: os.Getenv("VERIF_RACE_LOG"), offsets: map[string]int64{}, repo: strings.TrimSuffix(repo, "/") + "/", goroot: runtime.GOROOT()}
}

var (
	vC11sFrameRe  = regexp.MustCompile(`(?m)^  (\S.*)\n\s+(\S+\.go):(\d+)`)
	vC11sAccessRe = regexp.MustCompile(`(?m)^(Previous )?(Read|Write|Atomic read|Atomic write|read|write|atomic read|atomic write) at 0x[0-9a-f]+ by .*$`)
)

func vC11sShort(fn string) string {
	fn = strings.TrimSuffix(fn, "()")
	if i := strings.LastIndexByte(fn, '/'); i >= 0 {
		fn = fn[i+1:]
	}
	return fn
}

// vC11sLibOp names a library operation without its receiver type:
// kmsg.(*ApiVersionsResponse).SetVersion -> kmsg.SetVersion (one mechanism, whatever the type).
func vC11sLibOp(fn string) string {
	s := vC11sShort(fn)
	i := strings.IndexByte(s, '.')
	j := strings.LastIndexByte(s, '.')
	if i < 0 || j <= i {
		return s
	}
	return s[:i] + s[j:]
}

func (l *vC11sLog) classify(stack string) (a vC11sAccess) {
	ms := vC11sFrameRe.FindAllStringSubmatch(stack, -1)
	a.Restored = len(ms) > 0
	for _, m := range ms {
		fn, path := m[1], m[2]
		std := strings.Contains(path, "/toolchain@") || strings.Contains(path, "/go/src/") || strings.HasPrefix(path, "/usr/") ||
			(l.goroot != "" && strings.HasPrefix(path, l.goroot+"/"))
		if std {
			continue
		}
		harness := strings.Contains(path, "/internal/verif/") || strings.Contains(filepath.Base(path), "zz_verif_")
		lib := strings.Contains(path, "/pkg/mod/")
		if a.Owner == "" {
			a.Owner, a.OwnerLib, a.Harness = fn, lib, harness
		}
		if !harness && !lib && strings.HasPrefix(path, l.repo) && a.RepoFn == "" {
			a.RepoFn = fn
		}
	}
	return a
}

func (a vC11sAccess) desc() string {
	switch {
	case !a.Restored:
		return "?"
	case a.OwnerLib:
		return vC11sShort(a.RepoFn) + "@" + vC11sLibOp(a.Owner)
	}
	return vC11sShort(a.Owner)
}

// counts reports whether the access is made by repository code or by library code reached
// from repository code (never harness/engine code, never a bare runtime/stdlib stack).
func (a vC11sAccess) counts() bool {
	return a.Restored && !a.Harness && a.Owner != "" && a.RepoFn != ""
}

// newRaces returns what the detector reported since the last call: the reports between two
// accesses of the code under test (key "shared-reply-state:<fn1>|<fn2>"), the reports owned
// by harness/engine code (controls, fakes), and the others (written out for inspection).
func (l *vC11sLog) newRaces() (found []vC11sRace, control []string, other []string) {
	if l.base == "" {
		return
	}
	files, _ := filepath.Glob(l.base + ".*")
	sort.Strings(files)
	for _, f := range files {
		st, err := os.Stat(f)
		if err != nil || st.Size() <= l.offsets[f] {
			continue
		}
		data, err := os.ReadFile(f)
		if err != nil {
			continue
		}
		off := l.offsets[f]
		chunk := string(data[off:])
		l.offsets[f] = int64(len(data))
		for _, rep := range strings.Split(chunk, "==================") {
			if !strings.Contains(rep, "WARNING: DATA RACE") {
				continue
			}
			body := rep
			if i := strings.Index(body, "\nGoroutine "); i >= 0 {
				body = body[:i]
			}
			parts := vC11sAccessRe.Split(body, -1)
			if len(parts) < 3 {
				other = append(other, strings.TrimSpace(rep))
				continue
			}
			a1, a2 := l.classify(parts[1]), l.classify(parts[2])
			switch {
			case a1.Harness || a2.Harness:
				control = append(control, a1.Owner+"|"+a2.Owner)
			case (a1.counts() && (a2.counts() || !a2.Restored)) || (a2.counts() && !a1.Restored):
				ds := []string{a1.desc(), a2.desc()}
				sort.Strings(ds)
				found = append(found, vC11sRace{Key: "shared-reply-state:" + ds[0] + "|" + ds[1], Report: strings.TrimSpace(rep)})
			default:
				other = append(other, strings.TrimSpace(rep))
			}
		}
	}
	return
}

// vC11sVersions: the versions of one advertised range that are enumerated in the shared-state
// parts: min and max advertised, the first flexible version of the key's request and the
// version before it (the latter two when advertised); thorough: every advertised version.
func vC11sVersions(key int16, a vC11Range, thorough bool) []int16 {
	cand := []int16{a.Min, a.Max}
	if rq := kmsg.RequestForKey(key); rq != nil {
		for v := int16(0); v <= rq.MaxVersion(); v++ {
			rq.SetVersion(v)
			if rq.IsFlexible() {
				cand = append(cand, v-1, v)
				break
			}
		}
	}
	if thorough {
		for v := a.Min; v <= a.Max; v++ {
			cand = append(cand, v)
		}
	}
	sort.Slice(cand, func(i, j int) bool { return cand[i] < cand[j] })
	var out []int16
	for _, v := range cand {
		if v < a.Min || v > a.Max || (len(out) > 0 && out[len(out)-1] == v) {
			continue
		}
		out = append(out, v)
	}
	return out
}

// vC11sRank orders the pairs of one enumeration: the detector prints a conflict between two
// given code locations once per process, so the pairs on which shared reply state would
// change a reply come first and get the report: same api key at versions of different
// flexibility, then same key / different version, then identical requests, then different
// keys. The set of pairs does not depend on the order.
func vC11sRank(aKey, aVer int16, aFlex bool, bKey, bVer int16, bFlex bool) int {
	switch {
	case aKey == bKey && aFlex != bFlex:
		return 0
	case aKey == bKey && aVer != bVer:
		return 1
	case aKey == bKey:
		return 2
	}
	return 3
}
