//go:build verif

package main

import (
	"context"
	"encoding/binary"
	"encoding/hex"
	"fmt"
	"os"
	"runtime"
	"runtime/debug"
	"sort"
	"strings"
	"sync"
	"testing"
	"testing/synctest"
	"time"

	"github.com/KafScale/platform/internal/verif/enum"
	"github.com/KafScale/platform/internal/verif/fakes3"
	"github.com/KafScale/platform/internal/verif/vh"
	"github.com/KafScale/platform/internal/verif/xstate"
	"github.com/KafScale/platform/pkg/acl"
	"github.com/KafScale/platform/pkg/broker"
	metadatapb "github.com/KafScale/platform/pkg/gen/metadata"
	"github.com/KafScale/platform/pkg/metadata"
	"github.com/KafScale/platform/pkg/protocol"
	"github.com/twmb/franz-go/pkg/kmsg"
	"google.golang.org/protobuf/proto"
)

// C24 — with ACLs on, unauthorized requests change nothing and leak nothing.
//
// World = (permission set of principal "alice" ⊆ {produce:t, fetch:t, group_write:g,
// group_read:g, admin}, topic auto-creation on/off, topic t exists or not, group g exists
// or not, how the identity reaches the handler). Every request type handler.Handle
// accepts is sent as alice through the real Handle, alone and after every state-changing
// earlier request (explicit-state BFS over request histories, states merged by a
// canonical snapshot). Around every request the broker state is snapshotted: topics and
// partitions, next offsets, topic configs, bucket objects, buffered-but-unflushed
// offsets, consumer groups, committed offsets.
//
// Oracle (from the statement): for every resource named by the request for which alice
// lacks the permission that request type needs, the part of the snapshot belonging to
// that resource is unchanged (for cluster-level admin requests: the whole snapshot), every
// reply entry for it carries TOPIC/GROUP/CLUSTER_AUTHORIZATION_FAILED, and no record bytes
// are returned for it. Metadata needs no permission, but it must not create a topic that
// alice could not have created through any request she is authorized for.
//
// Requests naming several resources: Metadata with every ordered list of 2 (thorough: 3)
// topic names over {t, s, u, n} (existing / non-existent permitted, existing / non-existent
// forbidden), and pairs in both orders for every other request type that takes a list
// (see c24Requests). Each named resource is judged on its own, so a permission decision
// that leaks from one list element to another shows up as a change in (or a non-error
// reply entry for) the forbidden element.

const (
	c24Alice = "alice"
	c24Root  = "root"
	c24T     = "t" // topic the permission atoms talk about (exists or not)
	c24U     = "u" // existing topic alice never has rights on
	c24N     = "n" // topic that never exists and alice never has rights on
	c24C     = "c" // name used by CreateTopics
	c24G     = "g" // group the permission atoms talk about (exists or not)
	c24S     = "s" // second topic covered by the same atoms as t (produce:t / fetch:t grant t AND s); never exists initially
	c24H     = "h" // group that never exists and alice never has rights on
	// names that differ from a permitted name only in letter case: the store, the partition
	// logs and the coordinator keep them apart from t / g, so they are different resources
	// and no permission atom covers them
	c24TUp = "T" // topic; exists (with data) in the worlds where t exists, otherwise missing and auto-creatable
	c24GUp = "G" // group; never exists initially
)

// c24TopicAlphabet: the names multi-topic requests are built from. In a world where t
// exists they are: existing allowed (t), non-existent allowed (s), existing forbidden (u),
// non-existent forbidden (n) - "allowed" as far as alice's permission set of the world goes.
var c24TopicAlphabet = []string{c24T, c24S, c24U, c24N}

var c24Atoms = []string{"produce:t", "fetch:t", "group_write:g", "group_read:g", "admin"}

type c24WorldCfg struct {
	Perms       uint `json:"perms"` // bitmask over c24Atoms
	AutoCreate  bool `json:"auto_create"`
	TopicExists bool `json:"topic_exists"`
	GroupExists bool `json:"group_exists"`
	ViaConn     bool `json:"identity_via_conn_context"` // true: ConnContext.Principal=alice and ClientID=root (decoy); false: ClientID=alice
	// WildFetch: alice additionally has allow fetch on topic "*" and an explicit deny of
	// fetch on topic u (a wildcard grant with one exception)
	WildFetch bool `json:"wildcard_fetch_except_u"`
}

func (w c24WorldCfg) has(atom string) bool {
	if w.WildFetch && atom == "fetch:t" {
		return true
	}
	for i, a := range c24Atoms {
		if a == atom {
			return w.Perms>>uint(i)&1 == 1
		}
	}
	return false
}

func (w c24WorldCfg) String() string {
	var ps []string
	for i, a := range c24Atoms {
		if w.Perms>>uint(i)&1 == 1 {
			ps = append(ps, a)
		}
	}
	id := "client.id=alice"
	if w.ViaConn {
		id = "conn-principal=alice,client.id=root"
	}
	if w.WildFetch {
		ps = append(ps, "fetch:*-except-u")
	}
	return fmt.Sprintf("perms={%s} auto_create=%v topic_t_exists=%v group_g_exists=%v %s", strings.Join(ps, ","), w.AutoCreate, w.TopicExists, w.GroupExists, id)
}

func (w c24WorldCfg) aclConfig() acl.Config {
	var rules []acl.Rule
	for i, a := range c24Atoms {
		if w.Perms>>uint(i)&1 == 0 {
			continue
		}
		switch a {
		case "produce:t":
			rules = append(rules, acl.Rule{Action: acl.ActionProduce, Resource: acl.ResourceTopic, Name: c24T})
			rules = append(rules, acl.Rule{Action: acl.ActionProduce, Resource: acl.ResourceTopic, Name: c24S})
		case "fetch:t":
			rules = append(rules, acl.Rule{Action: acl.ActionFetch, Resource: acl.ResourceTopic, Name: c24T})
			rules = append(rules, acl.Rule{Action: acl.ActionFetch, Resource: acl.ResourceTopic, Name: c24S})
		case "group_write:g":
			rules = append(rules, acl.Rule{Action: acl.ActionGroupWrite, Resource: acl.ResourceGroup, Name: c24G})
		case "group_read:g":
			rules = append(rules, acl.Rule{Action: acl.ActionGroupRead, Resource: acl.ResourceGroup, Name: c24G})
		case "admin":
			rules = append(rules, acl.Rule{Action: acl.ActionAdmin, Resource: acl.ResourceCluster, Name: "*"})
		}
	}
	var deny []acl.Rule
	if w.WildFetch {
		rules = append(rules, acl.Rule{Action: acl.ActionFetch, Resource: acl.ResourceTopic, Name: "*"})
		deny = append(deny, acl.Rule{Action: acl.ActionFetch, Resource: acl.ResourceTopic, Name: c24U})
	}
	return acl.Config{Enabled: true, DefaultPolicy: "deny", Principals: []acl.PrincipalRules{
		{Name: c24Alice, Allow: rules, Deny: deny},
		{Name: c24Root, Allow: []acl.Rule{{Action: acl.ActionAny, Resource: acl.ResourceAny, Name: "*"}}},
	}}
}

// ---- requests ----

// c24Need is one permission a request needs: alice must hold Atom ("" = nobody in the
// permission alphabet holds it) for the named resource.
type c24Need struct {
	Kind string // topic | group | cluster | create-topic
	Name string
	Atom string
}

type c24ReqSpec struct {
	Name  string
	Ver   int16
	Build func(w *c24World) kmsg.Request
	Needs func(w *c24World) []c24Need
}

func c24TopicNeeds(atom func(topic string) string, topics ...string) func(*c24World) []c24Need {
	return func(w *c24World) []c24Need {
		var out []c24Need
		for _, t := range topics {
			a := atom(t)
			if a == "" && w.cfg.WildFetch && t != c24U && atom(c24T) == "fetch:t" {
				a = "fetch:t" // the wildcard fetch grant covers every topic but u
			}
			out = append(out, c24Need{Kind: "topic", Name: t, Atom: a})
		}
		return out
	}
}

func c24ProduceAtom(t string) string {
	if t == c24T || t == c24S {
		return "produce:t"
	}
	return ""
}

func c24FetchAtom(t string) string {
	if t == c24T || t == c24S {
		return "fetch:t"
	}
	return ""
}

func c24GroupNeed(atom string) func(*c24World) []c24Need {
	return func(*c24World) []c24Need { return []c24Need{{Kind: "group", Name: c24G, Atom: atom}} }
}

func c24AdminNeed(*c24World) []c24Need {
	return []c24Need{{Kind: "cluster", Name: "cluster", Atom: "admin"}}
}

func c24NoNeed(*c24World) []c24Need { return nil }

func c24Subscription(topics ...string) []byte {
	b := []byte{0, 0}
	b = binary.BigEndian.AppendUint32(b, uint32(len(topics)))
	for _, t := range topics {
		b = binary.BigEndian.AppendUint16(b, uint16(len(t)))
		b = append(b, t...)
	}
	return binary.BigEndian.AppendUint32(b, 0) // empty user data
}

func c24ProduceReq(acks int16, tag string, topics ...string) kmsg.Request {
	req := kmsg.NewPtrProduceRequest()
	req.Acks = acks
	req.TimeoutMillis = 1000
	for _, tn := range topics {
		t := kmsg.NewProduceRequestTopic()
		t.Topic = tn
		p := kmsg.NewProduceRequestTopicPartition()
		p.Partition = 0
		p.Records = enum.SimpleBatch(tag+tn, 1, 6)
		t.Partitions = append(t.Partitions, p)
		req.Topics = append(req.Topics, t)
	}
	return req
}

func c24FetchReq(topics ...string) kmsg.Request {
	req := kmsg.NewPtrFetchRequest()
	req.MaxWaitMillis = 0
	req.MaxBytes = 1 << 30
	for _, tn := range topics {
		t := kmsg.NewFetchRequestTopic()
		t.Topic = tn
		p := kmsg.NewFetchRequestTopicPartition()
		p.Partition = 0
		p.FetchOffset = 0
		p.PartitionMaxBytes = 1 << 20
		t.Partitions = append(t.Partitions, p)
		req.Topics = append(req.Topics, t)
	}
	return req
}

// c24FetchByIDReq fetches (v13 style) by topic id with an empty topic name.
func c24FetchByIDReq(w *c24World, topics ...string) kmsg.Request {
	req := c24FetchReq(topics...).(*kmsg.FetchRequest)
	for i := range req.Topics {
		req.Topics[i].TopicID = w.topicID(req.Topics[i].Topic)
		req.Topics[i].Topic = ""
	}
	return req
}

func (w *c24World) topicID(name string) [16]byte {
	m, err := w.store.Metadata(context.Background(), nil)
	if err == nil {
		for _, t := range m.Topics {
			if t.Topic != nil && *t.Topic == name {
				return t.TopicID
			}
		}
	}
	return [16]byte{0xEE}
}

func (w *c24World) topicName(id [16]byte) string {
	m, err := w.store.Metadata(context.Background(), nil)
	if err == nil {
		for _, t := range m.Topics {
			if t.TopicID == id && t.Topic != nil {
				return *t.Topic
			}
		}
	}
	return ""
}

func c24ListOffsetsReq(ts int64, topics ...string) kmsg.Request {
	req := kmsg.NewPtrListOffsetsRequest()
	req.ReplicaID = -1
	for _, tn := range topics {
		t := kmsg.NewListOffsetsRequestTopic()
		t.Topic = tn
		p := kmsg.NewListOffsetsRequestTopicPartition()
		p.Partition = 0
		p.Timestamp = ts
		p.MaxNumOffsets = 1
		t.Partitions = append(t.Partitions, p)
		req.Topics = append(req.Topics, t)
	}
	return req
}

func c24MetadataReq(topics ...string) kmsg.Request {
	req := kmsg.NewPtrMetadataRequest()
	if topics == nil {
		req.Topics = nil
		return req
	}
	req.Topics = []kmsg.MetadataRequestTopic{}
	for _, tn := range topics {
		t := kmsg.NewMetadataRequestTopic()
		t.Topic = kmsg.StringPtr(tn)
		req.Topics = append(req.Topics, t)
	}
	return req
}

// c24MetadataNeeds: Metadata needs nothing; creating a missing topic X is covered iff alice
// could create X through a request she is authorized for (admin, or produce/fetch on X, both
// of which auto-create when auto-creation is on).
func c24MetadataNeeds(topics ...string) func(*c24World) []c24Need {
	return func(w *c24World) []c24Need {
		var out []c24Need
		for _, tn := range topics {
			atom := ""
			switch {
			case w.cfg.WildFetch && tn != c24U:
				atom = "fetch:t" // the wildcard fetch grant covers every topic but u
			case w.cfg.has("admin"):
				atom = "admin"
			case (tn == c24T || tn == c24S) && w.cfg.has("produce:t"):
				atom = "produce:t"
			case (tn == c24T || tn == c24S) && w.cfg.has("fetch:t"):
				atom = "fetch:t"
			}
			out = append(out, c24Need{Kind: "create-topic", Name: tn, Atom: atom})
		}
		return out
	}
}

// c24BaseRequests: every request type once (plus the first mixed lists); the indexes of
// these variants are referenced by stored replays, new variants are appended after them.
func c24BaseRequests() []c24ReqSpec {
	return []c24ReqSpec{
		{"ApiVersions", 0, func(*c24World) kmsg.Request { return kmsg.NewPtrApiVersionsRequest() }, c24NoNeed},
		{"Metadata(all)", 8, func(*c24World) kmsg.Request { return c24MetadataReq() }, c24NoNeed},
		{"Metadata[t]", 8, func(*c24World) kmsg.Request { return c24MetadataReq(c24T) }, c24MetadataNeeds(c24T)},
		{"Metadata[n]", 8, func(*c24World) kmsg.Request { return c24MetadataReq(c24N) }, c24MetadataNeeds(c24N)},
		{"Produce[t]acks=1", 7, func(w *c24World) kmsg.Request { return c24ProduceReq(1, w.tag(), c24T) }, c24TopicNeeds(c24ProduceAtom, c24T)},
		{"Produce[t]acks=0", 7, func(w *c24World) kmsg.Request { return c24ProduceReq(0, w.tag(), c24T) }, c24TopicNeeds(c24ProduceAtom, c24T)},
		{"Produce[t,u]acks=-1", 7, func(w *c24World) kmsg.Request { return c24ProduceReq(-1, w.tag(), c24T, c24U) }, c24TopicNeeds(c24ProduceAtom, c24T, c24U)},
		{"Fetch[t]", 11, func(*c24World) kmsg.Request { return c24FetchReq(c24T) }, c24TopicNeeds(c24FetchAtom, c24T)},
		{"Fetch[t,u]", 11, func(*c24World) kmsg.Request { return c24FetchReq(c24T, c24U) }, c24TopicNeeds(c24FetchAtom, c24T, c24U)},
		{"FetchByID[u]", 13, func(w *c24World) kmsg.Request { return c24FetchByIDReq(w, c24U) }, c24TopicNeeds(c24FetchAtom, c24U)},
		{"FindCoordinator[g]", 3, func(*c24World) kmsg.Request {
			r := kmsg.NewPtrFindCoordinatorRequest()
			r.CoordinatorKey = c24G
			return r
		}, c24NoNeed},
		{"JoinGroup[g]", 4, func(*c24World) kmsg.Request { return c24JoinReq("") }, c24GroupNeed("group_write:g")},
		{"SyncGroup[g]", 4, func(w *c24World) kmsg.Request {
			r := kmsg.NewPtrSyncGroupRequest()
			r.Group, r.MemberID, r.Generation = c24G, w.member, w.generation
			return r
		}, c24GroupNeed("group_write:g")},
		{"Heartbeat[g]", 4, func(w *c24World) kmsg.Request {
			r := kmsg.NewPtrHeartbeatRequest()
			r.Group, r.MemberID, r.Generation = c24G, w.member, w.generation
			return r
		}, c24GroupNeed("group_write:g")},
		{"LeaveGroup[g]", 4, func(w *c24World) kmsg.Request {
			r := kmsg.NewPtrLeaveGroupRequest()
			r.Group, r.MemberID = c24G, w.member
			return r
		}, c24GroupNeed("group_write:g")},
		{"OffsetCommit[g]", 3, func(w *c24World) kmsg.Request {
			r := kmsg.NewPtrOffsetCommitRequest()
			r.Group, r.MemberID, r.Generation = c24G, w.member, w.generation
			t := kmsg.NewOffsetCommitRequestTopic()
			t.Topic = c24T
			p := kmsg.NewOffsetCommitRequestTopicPartition()
			p.Partition, p.Offset = 0, 7
			t.Partitions = append(t.Partitions, p)
			r.Topics = append(r.Topics, t)
			return r
		}, c24GroupNeed("group_write:g")},
		{"OffsetFetch[g]", 5, func(*c24World) kmsg.Request {
			r := kmsg.NewPtrOffsetFetchRequest()
			r.Group = c24G
			t := kmsg.NewOffsetFetchRequestTopic()
			t.Topic = c24T
			t.Partitions = []int32{0}
			r.Topics = append(r.Topics, t)
			return r
		}, c24GroupNeed("group_read:g")},
		{"DescribeGroups[g]", 5, func(*c24World) kmsg.Request {
			r := kmsg.NewPtrDescribeGroupsRequest()
			r.Groups = []string{c24G}
			return r
		}, c24GroupNeed("group_read:g")},
		{"ListGroups", 4, func(*c24World) kmsg.Request { return kmsg.NewPtrListGroupsRequest() },
			func(*c24World) []c24Need { return []c24Need{{Kind: "group", Name: "*", Atom: ""}} }}, // needs group_read on every group: not in the alphabet
		{"DeleteGroups[g]", 1, func(*c24World) kmsg.Request {
			r := kmsg.NewPtrDeleteGroupsRequest()
			r.Groups = []string{c24G}
			return r
		}, c24GroupNeed("")}, // needs group_admin: not in the alphabet
		{"OffsetForLeaderEpoch[t]", 3, func(*c24World) kmsg.Request {
			r := kmsg.NewPtrOffsetForLeaderEpochRequest()
			r.ReplicaID = -1
			t := kmsg.NewOffsetForLeaderEpochRequestTopic()
			t.Topic = c24T
			p := kmsg.NewOffsetForLeaderEpochRequestTopicPartition()
			p.Partition = 0
			t.Partitions = append(t.Partitions, p)
			r.Topics = append(r.Topics, t)
			return r
		}, c24TopicNeeds(c24FetchAtom, c24T)},
		{"DescribeConfigs[topic t]", 4, func(*c24World) kmsg.Request {
			r := kmsg.NewPtrDescribeConfigsRequest()
			res := kmsg.NewDescribeConfigsRequestResource()
			res.ResourceType, res.ResourceName = kmsg.ConfigResourceTypeTopic, c24T
			r.Resources = append(r.Resources, res)
			return r
		}, c24TopicNeeds(c24FetchAtom, c24T)},
		{"DescribeConfigs[broker]", 4, func(*c24World) kmsg.Request {
			r := kmsg.NewPtrDescribeConfigsRequest()
			res := kmsg.NewDescribeConfigsRequestResource()
			res.ResourceType, res.ResourceName = kmsg.ConfigResourceTypeBroker, "1"
			r.Resources = append(r.Resources, res)
			return r
		}, c24AdminNeed},
		{"AlterConfigs[t]", 1, func(*c24World) kmsg.Request {
			r := kmsg.NewPtrAlterConfigsRequest()
			res := kmsg.NewAlterConfigsRequestResource()
			res.ResourceType, res.ResourceName = kmsg.ConfigResourceTypeTopic, c24T
			c := kmsg.NewAlterConfigsRequestResourceConfig()
			c.Name, c.Value = "retention.ms", kmsg.StringPtr("1234")
			res.Configs = append(res.Configs, c)
			r.Resources = append(r.Resources, res)
			return r
		}, c24AdminNeed},
		{"CreatePartitions[t]", 1, func(*c24World) kmsg.Request {
			r := kmsg.NewPtrCreatePartitionsRequest()
			t := kmsg.NewCreatePartitionsRequestTopic()
			t.Topic, t.Count = c24T, 3
			r.Topics = append(r.Topics, t)
			return r
		}, c24AdminNeed},
		{"CreateTopics[c]", 2, func(*c24World) kmsg.Request {
			r := kmsg.NewPtrCreateTopicsRequest()
			t := kmsg.NewCreateTopicsRequestTopic()
			t.Topic, t.NumPartitions, t.ReplicationFactor = c24C, 1, 1
			r.Topics = append(r.Topics, t)
			return r
		}, c24AdminNeed},
		{"DeleteTopics[t]", 2, func(*c24World) kmsg.Request {
			r := kmsg.NewPtrDeleteTopicsRequest()
			r.TopicNames = []string{c24T}
			return r
		}, c24AdminNeed},
		{"ListOffsets[t]latest", 1, func(*c24World) kmsg.Request { return c24ListOffsetsReq(-1, c24T) }, c24TopicNeeds(c24FetchAtom, c24T)},
		{"ListOffsets[t]earliest", 1, func(*c24World) kmsg.Request { return c24ListOffsetsReq(-2, c24T) }, c24TopicNeeds(c24FetchAtom, c24T)},
		{"ListOffsets[t,u]earliest", 1, func(*c24World) kmsg.Request { return c24ListOffsetsReq(-2, c24T, c24U) }, c24TopicNeeds(c24FetchAtom, c24T, c24U)},
	}
}

// c24Lists: every ordered list of length k over the topic-name alphabet (repeated names
// included), simplest first.
func c24Lists(k int) [][]string {
	out := [][]string{nil}
	for i := 0; i < k; i++ {
		var next [][]string
		for _, l := range out {
			for _, a := range c24TopicAlphabet {
				next = append(next, append(append([]string(nil), l...), a))
			}
		}
		out = next
	}
	return out
}

// c24ThoroughOnly: Metadata requests naming three topics are enumerated in the thorough tier only.
func c24ThoroughOnly(s c24ReqSpec) bool {
	return strings.HasPrefix(s.Name, "Metadata[") && strings.Count(s.Name, ",") >= 2
}

func c24OffsetCommitReq(w *c24World, topics ...string) kmsg.Request {
	r := kmsg.NewPtrOffsetCommitRequest()
	r.Group, r.MemberID, r.Generation = c24G, w.member, w.generation
	for _, tn := range topics {
		t := kmsg.NewOffsetCommitRequestTopic()
		t.Topic = tn
		p := kmsg.NewOffsetCommitRequestTopicPartition()
		p.Partition, p.Offset = 0, 7
		t.Partitions = append(t.Partitions, p)
		r.Topics = append(r.Topics, t)
	}
	return r
}

func c24OffsetForLeaderEpochReq(topics ...string) kmsg.Request {
	r := kmsg.NewPtrOffsetForLeaderEpochRequest()
	r.ReplicaID = -1
	for _, tn := range topics {
		t := kmsg.NewOffsetForLeaderEpochRequestTopic()
		t.Topic = tn
		p := kmsg.NewOffsetForLeaderEpochRequestTopicPartition()
		p.Partition = 0
		t.Partitions = append(t.Partitions, p)
		r.Topics = append(r.Topics, t)
	}
	return r
}

// c24DescribeConfigsReq: resources are topic names, "" stands for the broker resource.
func c24DescribeConfigsReq(resources ...string) kmsg.Request {
	r := kmsg.NewPtrDescribeConfigsRequest()
	for _, name := range resources {
		res := kmsg.NewDescribeConfigsRequestResource()
		if name == "" {
			res.ResourceType, res.ResourceName = kmsg.ConfigResourceTypeBroker, "1"
		} else {
			res.ResourceType, res.ResourceName = kmsg.ConfigResourceTypeTopic, name
		}
		r.Resources = append(r.Resources, res)
	}
	return r
}

func c24DescribeConfigsNeeds(resources ...string) func(*c24World) []c24Need {
	return func(*c24World) []c24Need {
		var out []c24Need
		for _, name := range resources {
			if name == "" {
				out = append(out, c24Need{Kind: "cluster", Name: "cluster", Atom: "admin"})
			} else {
				out = append(out, c24Need{Kind: "topic", Name: name, Atom: c24FetchAtom(name)})
			}
		}
		return out
	}
}

func c24GroupsNeeds(atom func(g string) string, groups ...string) func(*c24World) []c24Need {
	return func(*c24World) []c24Need {
		var out []c24Need
		for _, g := range groups {
			out = append(out, c24Need{Kind: "group", Name: g, Atom: atom(g)})
		}
		return out
	}
}

func c24GroupReadAtom(g string) string {
	if g == c24G {
		return "group_read:g"
	}
	return ""
}

// c24Requests = the base variants followed by the requests that name SEVERAL resources, so
// that a decision taken for one list element can be seen leaking to another one:
//   - Metadata: every ordered list of 2 (thorough: also 3) names over {t, s, u, n};
//   - the other handlers that decide per list element (Produce, Fetch, DescribeConfigs,
//     DescribeGroups, DeleteGroups): allowed-before-forbidden and forbidden-before-allowed,
//     with an existing (u) and a non-existent (n) forbidden topic;
//   - the handlers that decide once for the whole list (ListOffsets, OffsetForLeaderEpoch: every
//     topic; OffsetCommit/OffsetFetch: the group; CreateTopics, DeleteTopics, AlterConfigs,
//     CreatePartitions: cluster admin): one or two lists of two.
func c24Requests() []c24ReqSpec {
	c24SpecsOnce.Do(func() { c24Specs = c24BuildRequests() })
	return c24Specs
}

var (
	c24SpecsOnce sync.Once
	c24Specs     []c24ReqSpec // read-only after construction: the builders only read their world argument
)

func c24BuildRequests() []c24ReqSpec {
	out := c24BaseRequests()
	add := func(name string, ver int16, build func(w *c24World) kmsg.Request, needs func(w *c24World) []c24Need) {
		out = append(out, c24ReqSpec{name, ver, build, needs})
	}
	name := func(api string, l []string, suffix string) string {
		return api + "[" + strings.Join(l, ",") + "]" + suffix
	}
	for _, l := range c24Lists(2) {
		l := l
		add(name("Metadata", l, ""), 8, func(*c24World) kmsg.Request { return c24MetadataReq(l...) }, c24MetadataNeeds(l...))
	}
	for _, l := range [][]string{{c24U, c24T}, {c24T, c24N}, {c24N, c24T}} {
		l := l
		add(name("Produce", l, "acks=1"), 7, func(w *c24World) kmsg.Request { return c24ProduceReq(1, w.tag(), l...) }, c24TopicNeeds(c24ProduceAtom, l...))
	}
	for _, l := range [][]string{{c24U, c24T}, {c24T, c24N}, {c24N, c24T}} {
		l := l
		add(name("Fetch", l, ""), 11, func(*c24World) kmsg.Request { return c24FetchReq(l...) }, c24TopicNeeds(c24FetchAtom, l...))
	}
	add("ListOffsets[u,t]earliest", 1, func(*c24World) kmsg.Request { return c24ListOffsetsReq(-2, c24U, c24T) }, c24TopicNeeds(c24FetchAtom, c24U, c24T))
	for _, l := range [][]string{{c24T, c24U}, {c24U, c24T}} {
		l := l
		add(name("OffsetForLeaderEpoch", l, ""), 3, func(*c24World) kmsg.Request { return c24OffsetForLeaderEpochReq(l...) }, c24TopicNeeds(c24FetchAtom, l...))
	}
	for _, l := range [][]string{{c24T, c24U}, {c24U, c24T}, {"", c24U}, {c24T, ""}} {
		l := l
		shown := make([]string, len(l))
		for i, x := range l {
			shown[i] = "topic " + x
			if x == "" {
				shown[i] = "broker"
			}
		}
		add(name("DescribeConfigs", shown, ""), 4, func(*c24World) kmsg.Request { return c24DescribeConfigsReq(l...) }, c24DescribeConfigsNeeds(l...))
	}
	for _, l := range [][]string{{c24G, c24H}, {c24H, c24G}} {
		l := l
		add(name("DescribeGroups", l, ""), 5, func(*c24World) kmsg.Request {
			r := kmsg.NewPtrDescribeGroupsRequest()
			r.Groups = append([]string(nil), l...)
			return r
		}, c24GroupsNeeds(c24GroupReadAtom, l...))
	}
	add("DeleteGroups[h,g]", 1, func(*c24World) kmsg.Request {
		r := kmsg.NewPtrDeleteGroupsRequest()
		r.Groups = []string{c24H, c24G}
		return r
	}, c24GroupsNeeds(func(string) string { return "" }, c24H, c24G)) // group_admin: not in the alphabet
	add("OffsetCommit[g][t,u]", 3, func(w *c24World) kmsg.Request { return c24OffsetCommitReq(w, c24T, c24U) }, c24GroupNeed("group_write:g"))
	add("OffsetFetch[g][t,u]", 5, func(*c24World) kmsg.Request {
		r := kmsg.NewPtrOffsetFetchRequest()
		r.Group = c24G
		for _, tn := range []string{c24T, c24U} {
			t := kmsg.NewOffsetFetchRequestTopic()
			t.Topic = tn
			t.Partitions = []int32{0}
			r.Topics = append(r.Topics, t)
		}
		return r
	}, c24GroupNeed("group_read:g"))
	add("CreateTopics[c,t]", 2, func(*c24World) kmsg.Request {
		r := kmsg.NewPtrCreateTopicsRequest()
		for _, tn := range []string{c24C, c24T} {
			t := kmsg.NewCreateTopicsRequestTopic()
			t.Topic, t.NumPartitions, t.ReplicationFactor = tn, 1, 1
			r.Topics = append(r.Topics, t)
		}
		return r
	}, c24AdminNeed)
	add("DeleteTopics[n,t]", 2, func(*c24World) kmsg.Request {
		r := kmsg.NewPtrDeleteTopicsRequest()
		r.TopicNames = []string{c24N, c24T}
		return r
	}, c24AdminNeed)
	add("AlterConfigs[t,u]", 1, func(*c24World) kmsg.Request {
		r := kmsg.NewPtrAlterConfigsRequest()
		for _, tn := range []string{c24T, c24U} {
			res := kmsg.NewAlterConfigsRequestResource()
			res.ResourceType, res.ResourceName = kmsg.ConfigResourceTypeTopic, tn
			c := kmsg.NewAlterConfigsRequestResourceConfig()
			c.Name, c.Value = "retention.ms", kmsg.StringPtr("1234")
			res.Configs = append(res.Configs, c)
			r.Resources = append(r.Resources, res)
		}
		return r
	}, c24AdminNeed)
	add("CreatePartitions[t,u]", 1, func(*c24World) kmsg.Request {
		r := kmsg.NewPtrCreatePartitionsRequest()
		for _, tn := range []string{c24T, c24U} {
			t := kmsg.NewCreatePartitionsRequestTopic()
			t.Topic, t.Count = tn, 3
			r.Topics = append(r.Topics, t)
		}
		return r
	}, c24AdminNeed)
	// thorough tier only (see Enabled), kept last so that the indexes above are the same in both tiers
	for _, l := range c24Lists(3) {
		l := l
		add(name("Metadata", l, ""), 8, func(*c24World) kmsg.Request { return c24MetadataReq(l...) }, c24MetadataNeeds(l...))
	}
	// names differing from a permitted name only in letter case (appended last: the indexes
	// above are referenced by stored replays). Topic T next to t in every request type that
	// authorizes by topic name, alone and next to t in both orders; group G next to g in every
	// request type that authorizes by group name. No atom covers them (the wildcard fetch
	// grant of the WildFetch worlds does, as it covers every topic but u).
	add("Metadata[T]", 8, func(*c24World) kmsg.Request { return c24MetadataReq(c24TUp) }, c24MetadataNeeds(c24TUp))
	add("Produce[T]acks=1", 7, func(w *c24World) kmsg.Request { return c24ProduceReq(1, w.tag(), c24TUp) }, c24TopicNeeds(c24ProduceAtom, c24TUp))
	add("Produce[T]acks=0", 7, func(w *c24World) kmsg.Request { return c24ProduceReq(0, w.tag(), c24TUp) }, c24TopicNeeds(c24ProduceAtom, c24TUp))
	for _, l := range [][]string{{c24T, c24TUp}, {c24TUp, c24T}} {
		l := l
		add(name("Produce", l, "acks=1"), 7, func(w *c24World) kmsg.Request { return c24ProduceReq(1, w.tag(), l...) }, c24TopicNeeds(c24ProduceAtom, l...))
	}
	for _, l := range [][]string{{c24TUp}, {c24T, c24TUp}, {c24TUp, c24T}} {
		l := l
		add(name("Fetch", l, ""), 11, func(*c24World) kmsg.Request { return c24FetchReq(l...) }, c24TopicNeeds(c24FetchAtom, l...))
	}
	add("FetchByID[T]", 13, func(w *c24World) kmsg.Request { return c24FetchByIDReq(w, c24TUp) }, func(w *c24World) []c24Need {
		if w.topicName(w.topicID(c24TUp)) != c24TUp {
			return nil // T does not exist: the request carries an unknown id and names no resource
		}
		return c24TopicNeeds(c24FetchAtom, c24TUp)(w)
	})
	add("ListOffsets[T]latest", 1, func(*c24World) kmsg.Request { return c24ListOffsetsReq(-1, c24TUp) }, c24TopicNeeds(c24FetchAtom, c24TUp))
	add("ListOffsets[t,T]earliest", 1, func(*c24World) kmsg.Request { return c24ListOffsetsReq(-2, c24T, c24TUp) }, c24TopicNeeds(c24FetchAtom, c24T, c24TUp))
	add("OffsetForLeaderEpoch[T]", 3, func(*c24World) kmsg.Request { return c24OffsetForLeaderEpochReq(c24TUp) }, c24TopicNeeds(c24FetchAtom, c24TUp))
	for _, l := range [][]string{{c24TUp}, {c24T, c24TUp}} {
		l := l
		shown := make([]string, len(l))
		for i, x := range l {
			shown[i] = "topic " + x
		}
		add(name("DescribeConfigs", shown, ""), 4, func(*c24World) kmsg.Request { return c24DescribeConfigsReq(l...) }, c24TopicNeeds(c24FetchAtom, l...))
	}
	needG := func(*c24World) []c24Need { return []c24Need{{Kind: "group", Name: c24GUp, Atom: ""}} }
	add("JoinGroup[G]", 4, func(*c24World) kmsg.Request {
		r := c24JoinReq("")
		r.Group = c24GUp
		return r
	}, needG)
	add("SyncGroup[G]", 4, func(w *c24World) kmsg.Request {
		r := kmsg.NewPtrSyncGroupRequest()
		r.Group, r.MemberID, r.Generation = c24GUp, w.member, w.generation
		return r
	}, needG)
	add("Heartbeat[G]", 4, func(w *c24World) kmsg.Request {
		r := kmsg.NewPtrHeartbeatRequest()
		r.Group, r.MemberID, r.Generation = c24GUp, w.member, w.generation
		return r
	}, needG)
	add("LeaveGroup[G]", 4, func(w *c24World) kmsg.Request {
		r := kmsg.NewPtrLeaveGroupRequest()
		r.Group, r.MemberID = c24GUp, w.member
		return r
	}, needG)
	add("OffsetCommit[G][t]", 3, func(w *c24World) kmsg.Request {
		r := c24OffsetCommitReq(w, c24T).(*kmsg.OffsetCommitRequest)
		r.Group = c24GUp
		return r
	}, needG)
	add("OffsetFetch[G][t]", 5, func(*c24World) kmsg.Request {
		r := kmsg.NewPtrOffsetFetchRequest()
		r.Group = c24GUp
		t := kmsg.NewOffsetFetchRequestTopic()
		t.Topic = c24T
		t.Partitions = []int32{0}
		r.Topics = append(r.Topics, t)
		return r
	}, needG)
	for _, l := range [][]string{{c24GUp}, {c24G, c24GUp}, {c24GUp, c24G}} {
		l := l
		add(name("DescribeGroups", l, ""), 5, func(*c24World) kmsg.Request {
			r := kmsg.NewPtrDescribeGroupsRequest()
			r.Groups = append([]string(nil), l...)
			return r
		}, c24GroupsNeeds(c24GroupReadAtom, l...))
	}
	return out
}

func c24JoinReq(member string) *kmsg.JoinGroupRequest {
	r := kmsg.NewPtrJoinGroupRequest()
	r.Group = c24G
	r.SessionTimeoutMillis = 10000
	r.RebalanceTimeoutMillis = 10000
	r.MemberID = member
	r.ProtocolType = "consumer"
	p := kmsg.NewJoinGroupRequestProtocol()
	p.Name = "range"
	p.Metadata = c24Subscription(c24T)
	r.Protocols = append(r.Protocols, p)
	return r
}

// ---- the world: a fresh real handler ----

type c24World struct {
	cfg        c24WorldCfg
	h          *handler
	store      *metadata.InMemoryStore
	bucket     *fakes3.Bucket
	member     string // member of group g created by the set-up (or a ghost id)
	generation int32
	ids        []string // member ids seen, in order of appearance (normalised in snapshots)
	nreq       int
	specs      []c24ReqSpec
	hist       []int
	stats      *c24Stats
}

type c24Stats struct {
	mu         sync.Mutex
	judgedUnau int64 // requests executed (prefix replays included) for which alice lacked a needed permission
	judgedAuth int64
}

func (w *c24World) tag() string { w.nreq++; return fmt.Sprintf("r%d", w.nreq) }

func (w *c24World) ctxAndHeader(key, ver int16) (context.Context, *protocol.RequestHeader) {
	ctx := context.Background()
	hdr := &protocol.RequestHeader{APIKey: key, APIVersion: ver, CorrelationID: 42}
	if w.cfg.ViaConn {
		ctx = broker.ContextWithConnInfo(ctx, &broker.ConnContext{Principal: c24Alice, RemoteAddr: "10.0.0.9:1234"})
		hdr.ClientID = kmsg.StringPtr(c24Root)
	} else {
		hdr.ClientID = kmsg.StringPtr(c24Alice)
	}
	return ctx, hdr
}

func c24Decode(req kmsg.Request, ver int16, out []byte) (kmsg.Response, error) {
	resp := req.ResponseKind()
	resp.SetVersion(ver)
	if len(out) < 4 {
		return nil, fmt.Errorf("short reply (%d bytes)", len(out))
	}
	body := out[4:]
	if resp.IsFlexible() && resp.Key() != 18 {
		if len(body) < 1 || body[0] != 0 {
			return nil, fmt.Errorf("unexpected response header tags")
		}
		body = body[1:]
	}
	if err := resp.ReadFrom(body); err != nil {
		return nil, err
	}
	return resp, nil
}

func c24NewWorld(cfg c24WorldCfg, stats *c24Stats) *c24World {
	w := &c24World{cfg: cfg, stats: stats, specs: c24Requests()}
	w.bucket = fakes3.NewBucket()
	s3 := fakes3.New(w.bucket, "b1")
	s3.NoPoints = true
	topics := map[string]int{c24U: 1}
	if cfg.TopicExists {
		topics[c24T] = 1
		topics[c24TUp] = 1
	}
	w.store = metadata.NewInMemoryStore(vMeta(topics))
	w.h = vNewHandler(w.store, s3)
	w.h.autoCreateTopics = cfg.AutoCreate
	w.h.autoCreatePartitions = 1
	w.h.allowAdminAPIs = true
	w.h.logConfig.ReadAheadSegments = 0
	w.h.readAhead = 0
	w.h.flushOnAck = true
	w.h.authorizer = nil
	// existing data
	seed := map[string]map[int32][]byte{c24U: {0: enum.SimpleBatch("seed-u", 2, 6)}}
	if cfg.TopicExists {
		seed[c24T] = map[int32][]byte{0: enum.SimpleBatch("seed-t", 2, 6)}
		seed[c24TUp] = map[int32][]byte{0: enum.SimpleBatch("seed-T", 2, 6)}
	}
	res, err := vProduce(w.h, -1, seed)
	if err != nil {
		panic(fmt.Sprintf("HARNESS-ERROR c24 seed produce: %v", err))
	}
	for _, r := range res {
		if r.Code != 0 {
			panic(fmt.Sprintf("HARNESS-ERROR c24 seed produce: %+v", res))
		}
	}
	w.member, w.generation = "ghost-member", 1
	if cfg.GroupExists {
		call := func(req kmsg.Request, ver int16) kmsg.Response {
			out, err := w.h.Handle(context.Background(), &protocol.RequestHeader{APIKey: req.Key(), APIVersion: ver, CorrelationID: 1, ClientID: kmsg.StringPtr("setup")}, req)
			if err != nil {
				panic(fmt.Sprintf("HARNESS-ERROR c24 group set-up: %v", err))
			}
			resp, err := c24Decode(req, ver, out)
			if err != nil {
				panic(fmt.Sprintf("HARNESS-ERROR c24 group set-up decode: %v", err))
			}
			return resp
		}
		jr := call(c24JoinReq(""), 4).(*kmsg.JoinGroupResponse)
		if jr.ErrorCode != 0 || jr.MemberID == "" {
			panic(fmt.Sprintf("HARNESS-ERROR c24 join: %+v", jr))
		}
		w.member, w.generation = jr.MemberID, jr.Generation
		w.ids = append(w.ids, jr.MemberID)
		sr := kmsg.NewPtrSyncGroupRequest()
		sr.Group, sr.MemberID, sr.Generation = c24G, w.member, w.generation
		if r := call(sr, 4).(*kmsg.SyncGroupResponse); r.ErrorCode != 0 {
			panic(fmt.Sprintf("HARNESS-ERROR c24 sync: %+v", r))
		}
		oc := kmsg.NewPtrOffsetCommitRequest()
		oc.Group, oc.MemberID, oc.Generation = c24G, w.member, w.generation
		ot := kmsg.NewOffsetCommitRequestTopic()
		ot.Topic = c24T
		op := kmsg.NewOffsetCommitRequestTopicPartition()
		op.Partition, op.Offset = 0, 1
		ot.Partitions = append(ot.Partitions, op)
		oc.Topics = append(oc.Topics, ot)
		if r := call(oc, 3).(*kmsg.OffsetCommitResponse); len(r.Topics) != 1 || r.Topics[0].Partitions[0].ErrorCode != 0 {
			panic(fmt.Sprintf("HARNESS-ERROR c24 commit: %+v", r))
		}
	}
	w.h.authorizer = acl.NewAuthorizer(cfg.aclConfig())
	return w
}

func (w *c24World) Close() { w.h.coordinator.Stop(); synctest.Wait() }

func (w *c24World) Enabled() []int {
	var out []int
	for i, s := range w.specs {
		if c24ThoroughOnly(s) && !vh.Thorough() {
			continue
		}
		out = append(out, i)
	}
	return out
}

// snapshot returns the observable broker state as scope-prefixed key/value pairs.
// canon=false: exact (used by the oracle, compared within one replay only);
// canon=true: consumer groups rendered without the random member ids (used to merge states).
func (w *c24World) snapshot(canon bool) map[string]string {
	s := map[string]string{}
	ctx := context.Background()
	meta, err := w.store.Metadata(ctx, nil)
	if err != nil {
		panic("HARNESS-ERROR c24 snapshot metadata: " + err.Error())
	}
	for _, t := range meta.Topics {
		name := *t.Topic
		s["topic/"+name+"/meta"] = fmt.Sprintf("partitions=%d err=%d", len(t.Partitions), t.ErrorCode)
		for _, p := range t.Partitions {
			n, err := w.store.NextOffset(ctx, name, p.Partition)
			s[fmt.Sprintf("topic/%s/next/%d", name, p.Partition)] = fmt.Sprintf("%d %v", n, err)
		}
		if cfg, err := w.store.FetchTopicConfig(ctx, name); err == nil {
			b, _ := proto.MarshalOptions{Deterministic: true}.Marshal(cfg)
			s["topic/"+name+"/config"] = hex.EncodeToString(b)
		}
	}
	segs, idx := w.bucket.Snapshot()
	for _, m := range []map[string][]byte{segs, idx} {
		for k, v := range m {
			parts := strings.Split(k, "/") // namespace/topic/partition/file
			tn := "?"
			if len(parts) >= 2 {
				tn = parts[1]
			}
			s["topic/"+tn+"/s3/"+k] = fmt.Sprint(len(v))
		}
	}
	w.h.logMu.RLock()
	for tn, ps := range w.h.logs {
		for p, pl := range ps {
			hw := pl.BufferedHighWatermark()
			if n, err := w.store.NextOffset(ctx, tn, p); err != nil || n != hw {
				s[fmt.Sprintf("topic/%s/buffered/%d", tn, p)] = fmt.Sprint(hw)
			}
		}
	}
	w.h.logMu.RUnlock()
	groups, err := w.store.ListConsumerGroups(ctx)
	if err != nil {
		panic("HARNESS-ERROR c24 snapshot groups: " + err.Error())
	}
	for _, g := range groups {
		if canon {
			s["group/"+g.GetGroupId()+"/state"] = w.renderGroup(g)
			continue
		}
		b, _ := proto.MarshalOptions{Deterministic: true}.Marshal(g)
		s["group/"+g.GetGroupId()+"/state"] = hex.EncodeToString(b)
	}
	offs, err := w.store.ListConsumerOffsets(ctx)
	if err != nil {
		panic("HARNESS-ERROR c24 snapshot offsets: " + err.Error())
	}
	for _, o := range offs {
		_, md, _ := w.store.FetchConsumerOffset(ctx, o.Group, o.Topic, o.Partition)
		s[fmt.Sprintf("group/%s/offset/%s/%d", o.Group, o.Topic, o.Partition)] = fmt.Sprintf("%d %q", o.Offset, md)
	}
	return s
}

// renderGroup describes a stored group without the random member ids: the leader by order
// of appearance, the members as a sorted list of their id-free descriptions.
func (w *c24World) renderGroup(g *metadatapb.ConsumerGroup) string {
	leader := g.GetLeader()
	for i, id := range w.ids {
		if id == leader {
			leader = fmt.Sprintf("<member%d>", i+1)
		}
	}
	var ms []string
	for _, m := range g.GetMembers() {
		b, _ := proto.MarshalOptions{Deterministic: true}.Marshal(m)
		ms = append(ms, hex.EncodeToString(b))
	}
	sort.Strings(ms)
	return fmt.Sprintf("state=%s type=%s proto=%s leader=%s gen=%d rebalance=%d members=%v", g.GetState(), g.GetProtocolType(), g.GetProtocol(), leader, g.GetGenerationId(), g.GetRebalanceTimeoutMs(), ms)
}

func (w *c24World) Canon() string {
	s := w.snapshot(true)
	keys := make([]string, 0, len(s))
	for k := range s {
		keys = append(keys, k)
	}
	sort.Strings(keys)
	var b strings.Builder
	for _, k := range keys {
		b.WriteString(k + "=" + s[k] + "\n")
	}
	var open []string
	w.h.logMu.RLock()
	for tn, ps := range w.h.logs {
		for p := range ps {
			open = append(open, fmt.Sprintf("%s/%d", tn, p))
		}
	}
	w.h.logMu.RUnlock()
	sort.Strings(open)
	b.WriteString("open=" + strings.Join(open, ","))
	return b.String()
}

type c24Entry struct {
	Kind string // topic | group | cluster
	Name string
	Code int16
	Data int // record bytes
}

func c24IsAuthErr(code int16) bool {
	return code == protocol.TOPIC_AUTHORIZATION_FAILED || code == protocol.GROUP_AUTHORIZATION_FAILED || code == protocol.CLUSTER_AUTHORIZATION_FAILED
}

// c24Entries lists the per-resource results of a reply.
func (w *c24World) entries(req kmsg.Request, resp kmsg.Response) []c24Entry {
	var out []c24Entry
	switch r := resp.(type) {
	case *kmsg.ProduceResponse:
		for _, t := range r.Topics {
			for _, p := range t.Partitions {
				out = append(out, c24Entry{"topic", t.Topic, p.ErrorCode, 0})
			}
		}
	case *kmsg.FetchResponse:
		for _, t := range r.Topics {
			name := t.Topic
			if name == "" {
				name = w.topicName(t.TopicID) // v13 replies carry the id only
			}
			for _, p := range t.Partitions {
				out = append(out, c24Entry{"topic", name, p.ErrorCode, len(p.RecordBatches)})
			}
		}
	case *kmsg.ListOffsetsResponse:
		for _, t := range r.Topics {
			for _, p := range t.Partitions {
				out = append(out, c24Entry{"topic", t.Topic, p.ErrorCode, 0})
			}
		}
	case *kmsg.OffsetForLeaderEpochResponse:
		for _, t := range r.Topics {
			for _, p := range t.Partitions {
				out = append(out, c24Entry{"topic", t.Topic, p.ErrorCode, 0})
			}
		}
	case *kmsg.JoinGroupResponse:
		if r.ErrorCode == 0 && r.MemberID != "" {
			w.ids = append(w.ids, r.MemberID)
		}
		out = append(out, c24Entry{"group", c24ReqGroup(req), r.ErrorCode, 0})
	case *kmsg.SyncGroupResponse:
		out = append(out, c24Entry{"group", c24ReqGroup(req), r.ErrorCode, 0})
	case *kmsg.HeartbeatResponse:
		out = append(out, c24Entry{"group", c24ReqGroup(req), r.ErrorCode, 0})
	case *kmsg.LeaveGroupResponse:
		out = append(out, c24Entry{"group", c24ReqGroup(req), r.ErrorCode, 0})
	case *kmsg.OffsetCommitResponse:
		for _, t := range r.Topics {
			for _, p := range t.Partitions {
				out = append(out, c24Entry{"group", c24ReqGroup(req), p.ErrorCode, 0})
			}
		}
	case *kmsg.OffsetFetchResponse:
		for _, t := range r.Topics {
			for _, p := range t.Partitions {
				out = append(out, c24Entry{"group", c24ReqGroup(req), p.ErrorCode, 0})
			}
		}
	case *kmsg.DescribeGroupsResponse:
		for _, g := range r.Groups {
			out = append(out, c24Entry{"group", g.Group, g.ErrorCode, 0})
		}
	case *kmsg.ListGroupsResponse:
		out = append(out, c24Entry{"group", "*", r.ErrorCode, 0})
	case *kmsg.DeleteGroupsResponse:
		for _, g := range r.Groups {
			out = append(out, c24Entry{"group", g.Group, g.ErrorCode, 0})
		}
	case *kmsg.DescribeConfigsResponse:
		for _, x := range r.Resources {
			if x.ResourceType == kmsg.ConfigResourceTypeTopic {
				out = append(out, c24Entry{"topic", x.ResourceName, x.ErrorCode, 0})
			} else {
				out = append(out, c24Entry{"cluster", "cluster", x.ErrorCode, 0})
			}
		}
	case *kmsg.AlterConfigsResponse:
		for _, x := range r.Resources {
			out = append(out, c24Entry{"cluster", "cluster", x.ErrorCode, 0})
		}
	case *kmsg.CreatePartitionsResponse:
		for _, x := range r.Topics {
			out = append(out, c24Entry{"cluster", "cluster", x.ErrorCode, 0})
		}
	case *kmsg.CreateTopicsResponse:
		for _, x := range r.Topics {
			out = append(out, c24Entry{"cluster", "cluster", x.ErrorCode, 0})
		}
	case *kmsg.DeleteTopicsResponse:
		for _, x := range r.Topics {
			out = append(out, c24Entry{"cluster", "cluster", x.ErrorCode, 0})
		}
	}
	return out
}

// c24ReqGroup: the group a single-group request names (its reply does not repeat the name).
func c24ReqGroup(req kmsg.Request) string {
	switch r := req.(type) {
	case *kmsg.JoinGroupRequest:
		return r.Group
	case *kmsg.SyncGroupRequest:
		return r.Group
	case *kmsg.HeartbeatRequest:
		return r.Group
	case *kmsg.LeaveGroupRequest:
		return r.Group
	case *kmsg.OffsetCommitRequest:
		return r.Group
	case *kmsg.OffsetFetchRequest:
		return r.Group
	}
	return c24G
}

func c24Category(key, before, after string, hadBefore, hasAfter bool) string {
	parts := strings.Split(key, "/")
	cat := "state"
	if len(parts) >= 3 {
		cat = parts[2]
	}
	switch cat {
	case "meta":
		switch {
		case !hadBefore:
			return "topic-created"
		case !hasAfter:
			return "topic-deleted"
		}
		return "partitions-changed"
	case "next", "s3", "buffered":
		return "records-written"
	case "config":
		return "config-changed"
	case "offset":
		return "offset-committed"
	}
	return "group-changed"
}

func (w *c24World) Apply(ev int) (string, []xstate.Violation) {
	w.hist = append(w.hist, ev)
	spec := w.specs[ev]
	req := spec.Build(w)
	needs := spec.Needs(w)
	ctx, hdr := w.ctxAndHeader(req.Key(), spec.Ver)
	before := w.snapshot(false)
	{ // Metadata: a named topic that already exists cannot be created, nothing is needed for it
		kept := needs[:0:0]
		for _, n := range needs {
			if _, exists := before["topic/"+n.Name+"/meta"]; n.Kind == "create-topic" && exists {
				continue
			}
			kept = append(kept, n)
		}
		needs = kept
	}
	var out []byte
	var err error
	var panicked any
	func() {
		defer func() { panicked = recover() }()
		out, err = w.h.Handle(ctx, hdr, req)
	}()
	after := w.snapshot(false)
	var resp kmsg.Response
	var entries []c24Entry
	decodeErr := ""
	if panicked == nil && err == nil && out != nil {
		var derr error
		resp, derr = c24Decode(req, spec.Ver, out)
		if derr != nil {
			decodeErr = derr.Error()
		} else {
			entries = w.entries(req, resp)
		}
	}
	// which parts of the snapshot changed
	changed := map[string]string{} // key -> category
	for k, v := range before {
		if av, ok := after[k]; !ok || av != v {
			changed[k] = c24Category(k, v, av, true, ok)
		}
	}
	for k, v := range after {
		if _, ok := before[k]; !ok {
			changed[k] = c24Category(k, "", v, false, true)
		}
	}
	var viol []xstate.Violation
	unauth := 0
	var needDesc []string
	mixed := false // the request names cluster-level and other resources side by side
	for _, n := range needs {
		mixed = mixed || n.Kind != "cluster"
	}
	for _, n := range needs {
		ok := n.Atom != "" && w.cfg.has(n.Atom)
		needDesc = append(needDesc, fmt.Sprintf("%s:%s=%v", n.Kind, n.Name, ok))
		if ok {
			continue
		}
		unauth++
		what := spec.Name + " as alice (" + w.cfg.String() + ")"
		// 1. nothing belonging to the resource changed
		prefix := ""
		switch n.Kind {
		case "topic", "create-topic":
			prefix = "topic/" + n.Name + "/"
		case "group":
			prefix = "group/"
			if n.Name != "*" {
				prefix = "group/" + n.Name + "/"
			}
		}
		var bad []string
		for k, cat := range changed {
			if !strings.HasPrefix(k, prefix) { // cluster: prefix "" = everything
				continue
			}
			if parts := strings.Split(k, "/"); len(parts) >= 3 && parts[0] == "topic" && parts[2] != "meta" {
				if c := changed["topic/"+parts[1]+"/meta"]; c == "topic-created" || c == "topic-deleted" {
					continue // offsets/config of a topic that appeared or vanished: reported once, as the topic
				}
			}
			bad = append(bad, cat+" ("+k+")")
		}
		sort.Slice(bad, func(i, j int) bool {
			pi, pj := c24CatPriority(bad[i]), c24CatPriority(bad[j])
			if pi != pj {
				return pi < pj
			}
			return bad[i] < bad[j]
		})
		if len(bad) > 0 {
			cat := bad[0][:strings.Index(bad[0], " (")]
			viol = append(viol, xstate.Violation{Key: c24Api(spec.Name) + ":" + cat + "-without-permission",
				Detail: fmt.Sprintf("%s lacks %s on %s %q but the broker state changed: %s", what, c24NeedName(spec, n), n.Kind, n.Name, strings.Join(bad, ", "))})
		}
		if n.Kind == "create-topic" {
			continue // Metadata itself needs no permission: no authorization error is due
		}
		// 2. the client gets an authorization error, 3. and no record data
		switch {
		case panicked != nil:
			viol = append(viol, xstate.Violation{Key: c24Api(spec.Name) + ":panic", Detail: fmt.Sprintf("%s: handler panicked: %v", what, panicked)})
		case err != nil:
			viol = append(viol, xstate.Violation{Key: c24Api(spec.Name) + ":handler-error-instead-of-authorization-error", Detail: fmt.Sprintf("%s: Handle returned error %v", what, err)})
		case out == nil:
			// no reply is sent for this request (acks=0): only "nothing written" can be demanded
		case decodeErr != "":
			viol = append(viol, xstate.Violation{Key: c24Api(spec.Name) + ":undecodable-reply", Detail: what + ": " + decodeErr})
		default:
			found := false
			for _, e := range entries {
				if n.Kind == "cluster" {
					// a cluster-level request: every reply entry; a request that mixes
					// cluster-level and topic resources: the cluster-level entries
					if mixed && e.Kind != "cluster" {
						continue
					}
				} else if e.Kind != n.Kind || e.Name != n.Name {
					continue
				}
				found = true
				if !c24IsAuthErr(e.Code) {
					viol = append(viol, xstate.Violation{Key: c24Api(spec.Name) + ":no-authorization-error",
						Detail: fmt.Sprintf("%s lacks %s on %s %q but the reply entry for %s %q has error code %d", what, c24NeedName(spec, n), n.Kind, n.Name, e.Kind, e.Name, e.Code)})
				}
				if e.Data > 0 {
					viol = append(viol, xstate.Violation{Key: c24Api(spec.Name) + ":record-data-without-permission",
						Detail: fmt.Sprintf("%s lacks %s on %s %q but %d record bytes were returned", what, c24NeedName(spec, n), n.Kind, n.Name, e.Data)})
				}
			}
			if !found {
				viol = append(viol, xstate.Violation{Key: c24Api(spec.Name) + ":no-authorization-error",
					Detail: fmt.Sprintf("%s lacks %s on %s %q but the reply has no entry for it", what, c24NeedName(spec, n), n.Kind, n.Name)})
			}
		}
	}
	w.stats.mu.Lock()
	if unauth > 0 {
		w.stats.judgedUnau++
	} else {
		w.stats.judgedAuth++
	}
	w.stats.mu.Unlock()
	// observation
	var codes []string
	for _, e := range entries {
		codes = append(codes, fmt.Sprintf("%s:%s=%d/%dB", e.Kind, e.Name, e.Code, e.Data))
	}
	cats := map[string]bool{}
	for _, c := range changed {
		cats[c] = true
	}
	var catl []string
	for c := range cats {
		catl = append(catl, c)
	}
	sort.Strings(catl)
	status := "authorized"
	if unauth > 0 {
		status = "UNAUTHORIZED"
	}
	obs := fmt.Sprintf("%s %s needs[%s] reply[%s] changed[%s]", spec.Name, status, strings.Join(needDesc, ","), strings.Join(codes, ","), strings.Join(catl, ","))
	if err != nil {
		obs += " goerr"
	}
	if out == nil && err == nil {
		obs += " noreply"
	}
	return obs, viol
}

func c24CatPriority(s string) int {
	for i, c := range []string{"topic-created", "topic-deleted", "partitions-changed", "records-written", "offset-committed", "group-changed", "config-changed"} {
		if strings.HasPrefix(s, c+" ") {
			return i
		}
	}
	return 99
}

func c24Api(name string) string {
	if i := strings.IndexAny(name, "[("); i > 0 {
		return name[:i]
	}
	return name
}

func c24NeedName(spec c24ReqSpec, n c24Need) string {
	if n.Atom != "" {
		return n.Atom
	}
	switch {
	case n.Kind == "create-topic":
		return "any permission that lets her create it (admin, produce or fetch on it)"
	case strings.HasPrefix(spec.Name, "DeleteGroups"):
		return "group_admin"
	case strings.HasPrefix(spec.Name, "ListGroups"):
		return "group_read on all groups"
	case strings.HasPrefix(spec.Name, "Produce"):
		return "produce"
	}
	return "fetch"
}

type c24Replay struct {
	World  c24WorldCfg `json:"world"`
	Events []int       `json:"events"`
	Names  []string    `json:"requests"`
	Trace  []string    `json:"trace"`
}

func c24Worlds() []c24WorldCfg {
	var out []c24WorldCfg
	// simplest first: fewer permissions, defaults (auto-create on, everything exists, client.id identity)
	masks := make([]uint, 0, 32)
	for m := uint(0); m < 32; m++ {
		masks = append(masks, m)
	}
	sort.SliceStable(masks, func(i, j int) bool { return c24Pop(masks[i]) < c24Pop(masks[j]) })
	for _, m := range masks {
		for _, via := range []bool{false, true} {
			for _, ge := range []bool{true, false} {
				for _, te := range []bool{true, false} {
					for _, ac := range []bool{true, false} {
						out = append(out, c24WorldCfg{Perms: m, AutoCreate: ac, TopicExists: te, GroupExists: ge, ViaConn: via})
					}
				}
			}
		}
	}
	// wildcard grant with an explicit exception
	for _, via := range []bool{false, true} {
		for _, te := range []bool{true, false} {
			for _, ac := range []bool{true, false} {
				out = append(out, c24WorldCfg{Perms: 0, AutoCreate: ac, TopicExists: te, GroupExists: true, ViaConn: via, WildFetch: true})
			}
		}
	}
	return out
}

func c24Pop(m uint) int {
	n := 0
	for ; m != 0; m &= m - 1 {
		n++
	}
	return n
}

func TestVerifC24(t *testing.T) {
	rep := vh.New(t, "C24")
	defer rep.Finish()
	// every transition builds a fresh world (handler, store, bucket with preallocated logs):
	// short-lived garbage only, so collect less often (performance only, no effect on results)
	if os.Getenv("GOGC") == "" {
		defer debug.SetGCPercent(debug.SetGCPercent(400))
	}
	rep.Rule = "case = one request (naming one or several resources: every ordered list of 2, thorough 3, topic names over {existing/non-existent allowed, existing/non-existent forbidden} for Metadata; allowed-before-forbidden and forbidden-before-allowed pairs for the other list-taking requests; topic T next to the permitted t and group G next to the permitted g - names differing only in letter case - in every request type authorized by topic or group name) sent as principal alice through the real handler.Handle in a world (alice's permission set, auto-create, topic t / group g existing or not, identity via client.id or via connection principal with a privileged decoy client.id), alone or after a history of earlier requests (BFS over histories, states merged by canonical broker snapshot), judged by comparing full broker snapshots before/after and decoding the reply; signature = (world, request, which needed permissions are held, reply codes and record bytes, categories of state that changed); non-trivial = alice lacks at least one permission the request needs (the oracle constrains it)"
	rep.Assumptions = []string{
		"required permission per request type as the broker's allow* calls intend: produce->produce on topic; fetch/list-offsets/offset-for-leader-epoch/describe topic config->fetch on topic; join/sync/heartbeat/leave/offset-commit->group_write; offset-fetch/describe-groups->group_read (list-groups: on all groups); delete-groups->group_admin; alter-configs/create-partitions/create-topics/delete-topics/describe broker config->cluster admin; api-versions/find-coordinator/metadata->none",
		"Metadata: creating a missing topic is only flagged when alice holds no permission through which she could have created it anyway (admin, or produce/fetch on it - both auto-create)",
		"acks=0 produce has no reply: only the absence of any write is demanded",
		"the atoms produce:t / fetch:t grant the action on topic t and on topic s (s never exists initially), so that one request can name an existing and a non-existent permitted topic next to an existing (u) and a non-existent (n) forbidden one",
		"a request naming several resources is judged resource by resource: each resource alice lacks the permission for must be untouched and answered with an authorization error, whatever else the request names (ListOffsets/OffsetForLeaderEpoch refusing the whole list is accepted)",
		"'leaks nothing' is checked as the statement words it: no record bytes and an authorization error code in every reply entry of the unauthorized resource",
		"topic and group names are case-sensitive resources (the store, the partition logs and the coordinator keep T and t, G and g apart): a permission on t / g is no permission on T / G; T exists with data in the worlds where t exists and is missing otherwise, G never exists initially",
		"in-memory metadata store and fake S3 bucket stand for etcd and S3; states are merged on the observable snapshot plus the set of open partition logs (deny-log rate limiter state is ignored)",
	}
	var rp c24Replay
	if ok, err := vh.LoadReplay(&rp); ok {
		if err != nil {
			t.Fatalf("HARNESS-ERROR replay: %v", err)
		}
		stats := &c24Stats{}
		synctest.Test(t, func(*testing.T) {
			w := c24NewWorld(rp.World, stats)
			defer w.Close()
			var trace []string
			for i, e := range rp.Events {
				obs, v := w.Apply(e)
				trace = append(trace, obs)
				rep.Eval(1)
				rep.Outcome(fmt.Sprintf("replay|%d|%s", i, obs), true)
				if i == len(rp.Events)-1 {
					for _, x := range v {
						rep.Violation(x.Key, x.Detail+" | history: "+strings.Join(trace, " ; "), rp)
					}
				}
			}
		})
		rep.Outcome("replay-done", true)
		return
	}
	depth := 2
	if vh.Thorough() {
		depth = 3
	}
	worlds := c24Worlds()
	specs := c24Requests()
	var names []string
	for _, s := range specs {
		if c24ThoroughOnly(s) && !vh.Thorough() {
			continue
		}
		names = append(names, s.Name)
	}
	rep.SetInfo("topic_name_alphabet", "t (covered by produce:t/fetch:t; exists or not per world), s (covered by the same atoms; never exists initially), u (exists; never permitted), n (never exists; never permitted); T (differs from t only in letter case; exists iff t exists; never permitted)")
	rep.SetInfo("group_name_alphabet", "g (covered by group_write:g/group_read:g; exists or not per world), h (never exists; never permitted), G (differs from g only in letter case; never exists initially; never permitted)")
	rep.SetInfo("metadata_topic_list_lengths", map[bool][]int{false: {0, 1, 2}, true: {0, 1, 2, 3}}[vh.Thorough()])
	rep.SetInfo("worlds", len(worlds))
	rep.SetInfo("permission_atoms", c24Atoms)
	rep.SetInfo("request_variants", names)
	rep.SetInfo("request_types", 21)
	rep.SetInfo("max_history_length", depth)
	deadline := vh.Deadline()
	shard, nshards := vh.Shard()
	stats := &c24Stats{}
	type wres struct {
		st     xstate.Stats
		founds []xstate.Found[int]
		sigs   map[string]bool
		sample any
	}
	results := make([]*wres, len(worlds))
	var wg sync.WaitGroup
	next := make(chan int)
	for k := 0; k < runtime.GOMAXPROCS(0); k++ {
		wg.Add(1)
		go func() {
			defer wg.Done()
			for wi := range next {
				cfg := worlds[wi]
				r := &wres{sigs: map[string]bool{}}
				res := xstate.Run(xstate.Options[int]{
					Config: xstate.Config{MaxDepth: depth, Deadline: deadline, Workers: 1},
					Build:  func() xstate.System[int] { return c24NewWorld(cfg, stats) },
					Wrap:   func(f func()) { synctest.Test(t, func(*testing.T) { f() }) },
					Found:  func(f xstate.Found[int]) { r.founds = append(r.founds, f) },
					Transition: func(hist []int, obs []string, _ string, _ bool) {
						last := obs[len(obs)-1]
						sig := cfg.String() + " | " + last
						r.sigs[sig] = r.sigs[sig] || strings.Contains(last, " UNAUTHORIZED ")
						if r.sample == nil && len(hist) == 2 && strings.Contains(last, " UNAUTHORIZED ") && !strings.Contains(obs[0], " UNAUTHORIZED ") && strings.Contains(obs[0], "changed[") && !strings.Contains(obs[0], "changed[]") {
							r.sample = map[string]any{"world": cfg.String(), "history": obs}
						}
					},
				})
				r.st = res.Stats
				results[wi] = r
			}
		}()
	}
	for wi := range worlds {
		if wi%nshards != shard {
			continue
		}
		if time.Now().After(deadline) {
			rep.Cap("deadline before all worlds were explored")
			break
		}
		next <- wi
	}
	close(next)
	wg.Wait()
	sigs := map[string]bool{}
	kept := map[string]int{}
	for wi, r := range results {
		if r == nil {
			continue
		}
		rep.Eval(int64(r.st.Transitions))
		rep.Count("states", int64(r.st.States))
		rep.Count("transitions", int64(r.st.Transitions))
		rep.Count("worlds_explored", 1)
		if r.st.Capped != "" {
			rep.Cap(fmt.Sprintf("world %d: %s", wi, r.st.Capped))
		}
		for s, nt := range r.sigs {
			sigs[s] = sigs[s] || nt
		}
		for _, f := range r.founds {
			kept[f.Key]++
			if kept[f.Key] > 3 {
				rep.Violation(f.Key, "", nil)
				continue
			}
			var hn []string
			for _, e := range f.History {
				hn = append(hn, specs[e].Name)
			}
			rep.Violation(f.Key, f.Detail+" | history: "+strings.Join(f.Obs, " ; "), c24Replay{World: worlds[wi], Events: f.History, Names: hn, Trace: f.Obs})
		}
		if r.sample != nil && rep.WantSample() && wi%37 == 5 {
			rep.Sample(r.sample)
		}
	}
	for s, nt := range sigs {
		rep.Outcome(s, nt)
	}
	rep.Count("executed_requests_lacking_permission", stats.judgedUnau)
	rep.Count("executed_requests_fully_authorized", stats.judgedAuth)
}
