//go:build verif

package main

import (
	"fmt"
	"os"
	"path/filepath"
	"regexp"
	"sort"
	"strings"
	"sync"
	"sync/atomic"
	"testing"

	"github.com/KafScale/platform/internal/verif/enum"
	"github.com/KafScale/platform/internal/verif/fakes3"
	"github.com/KafScale/platform/internal/verif/sched"
	"github.com/KafScale/platform/internal/verif/vh"
	"github.com/KafScale/platform/pkg/cache"
	"github.com/KafScale/platform/pkg/metadata"
)

// C41: concurrent produce, fetch, flush, read-ahead prefetch and cache access on shared
// partitions never race on shared memory.
//
// The binary is built with -race. Every interleaving (preemption bound) of 2-3 data-path
// operations on one partition of one real handler (shared PartitionLog, WriteBuffer and
// SegmentCache; their mutexes and every S3 call are scheduling points) is executed under
// the controlled scheduler, whose own hand-offs are hidden from the detector
// (runtime.RaceDisable around every scheduler-internal synchronisation), so the detector
// sees exactly the synchronisation the code under test performs. After each execution
// the detector's log is read back; a report whose two accesses are both in repository
// code is a violation attributed to that schedule. A free-running pass of the same
// bodies (real parallelism, bounded iterations; sampling) is a cross-check only.

type c41Op string

const (
	c41Produce   c41Op = "produce"     // handleProduce acks=-1 (append + flush)
	c41Produce0  c41Op = "produce0"    // handleProduce acks=0 (append only, buffered)
	c41FetchOld  c41Op = "fetch-old"   // handleFetch at offset 0 (flushed segment: cache / S3 / prefetch)
	c41FetchTail c41Op = "fetch-tail"  // handleFetch at the first unflushed offset (two buffered batches + whatever is appended; buffer / mid-flush window)
	c41Flush     c41Op = "flush"       // PartitionLog.Flush
	c41CacheSet  c41Op = "cache-set"   // SegmentCache.SetSegment on the partition's first segment key
	c41CacheGet  c41Op = "cache-get"   // SegmentCache.GetSegment + read of the returned bytes
	c41ReadSmall c41Op = "fetch-small" // handleFetch offset 1 with a small maxBytes (range-read path)
	c41ProduceP1 c41Op = "produce-p1"  // handleProduce acks=-1 to the topic's OTHER partition (its first touch on this broker)
	c41FetchP1   c41Op = "fetch-p1"    // handleFetch on the other partition (first touch: log initialisation)
	c41CacheSetB c41Op = "cache-set-b" // SetSegment of another key (evicts under cache pressure)
	c41CacheSetC c41Op = "cache-set-c" // SetSegment of a third key
)

var c41Ops = []c41Op{c41Produce, c41Produce0, c41FetchOld, c41FetchTail, c41Flush, c41CacheSet, c41CacheGet, c41ReadSmall}

type c41World struct {
	h      *handler
	bucket *fakes3.Bucket
	end    int64
	seg0   []byte
}

func c41Setup(points bool, buffered bool, tiny ...bool) *c41World {
	w := &c41World{bucket: fakes3.NewBucket()}
	s3 := fakes3.New(w.bucket, "b1")
	s3.NoPoints = !points
	store := metadata.NewInMemoryStore(vMeta(map[string]int{"t": 2})) // partition 1 stays cold: its first touch registers a sibling log
	w.h = vNewHandler(store, s3)
	w.h.logConfig.Buffer.FlushInterval = 0
	w.h.logConfig.ReadAheadSegments = 1
	w.h.logConfig.CacheEnabled = true
	w.h.readAhead = 1
	if len(tiny) > 0 && tiny[0] {
		// room for one segment of this world (about 150 bytes each): every insert of another key evicts
		w.h.cache = cache.NewSegmentCache(200)
	}
	// three flushed segments so that fetches exercise cache, S3 and prefetch paths
	for i := 0; i < 3; i++ {
		r, err := vProduceOne(w.h, "t", 0, -1, enum.SimpleBatch(fmt.Sprintf("seed%d", i), 1, 8))
		if err != nil || r.Code != 0 {
			panic(fmt.Sprintf("c41 setup produce: %v code=%d", err, r.Code))
		}
		w.end = r.Base + 1
	}
	segs, _ := w.bucket.Snapshot()
	w.seg0 = segs["default/t/0/segment-00000000000000000000.kfs"]
	// two acknowledged-but-unflushed batches of different sizes stay in the write buffer, so that tail
	// fetches assemble a multi-batch record set from buffered batches and flushes have work to do. As on
	// the wire (record sets are sub-slices of the request frame) the batch bytes have spare capacity.
	// Sizes: the allocator's size classes leave the first (about 2 KiB) batch more spare capacity than the
	// second batch is long, whichever layer copies it.
	if buffered {
		// read-after-ack mode (flushOnAck=false): fetches see acknowledged records that are still buffered
		w.h.flushOnAck = false
	}
	for i, n := range []int{2000, 8} {
		if !buffered {
			break
		}
		b := enum.SimpleBatch(fmt.Sprintf("buf%d", i), 1, n)
		withCap := make([]byte, len(b), len(b)+512)
		copy(withCap, b)
		if _, err := vProduce(w.h, 0, map[string]map[int32][]byte{"t": {0: withCap}}); err != nil {
			panic(fmt.Sprintf("c41 setup buffered produce: %v", err))
		}
	}
	return w
}

func (w *c41World) run(op c41Op, tag string) {
	switch op {
	case c41Produce:
		_, _ = vProduceOne(w.h, "t", 0, -1, enum.SimpleBatch(tag, 1, 8))
	case c41Produce0:
		_, _ = vProduce(w.h, 0, map[string]map[int32][]byte{"t": {0: enum.SimpleBatch(tag, 1, 8)}})
	case c41FetchOld:
		fr, _ := vFetchOne(w.h, "t", 0, 0, 1<<20)
		c41Touch(fr.Records)
	case c41FetchTail:
		fr, _ := vFetchOne(w.h, "t", 0, w.end, 1<<20)
		c41Touch(fr.Records)
	case c41ReadSmall:
		fr, _ := vFetchOne(w.h, "t", 0, 1, 64)
		c41Touch(fr.Records)
	case c41Flush:
		if plog, err := w.h.getPartitionLog(bg(), "t", 0); err == nil {
			_ = plog.Flush(bg())
		}
	case c41CacheSet:
		// re-store the real bytes of the first segment (what Read does after a download)
		if w.seg0 != nil {
			w.h.cache.SetSegment("default/t", 0, 0, w.seg0)
		}
	case c41CacheGet:
		if b, ok := w.h.cache.GetSegment("default/t", 0, 0); ok {
			c41Touch(b)
		}
	case c41ProduceP1:
		_, _ = vProduceOne(w.h, "t", 1, -1, enum.SimpleBatch(tag, 1, 8))
	case c41FetchP1:
		fr, _ := vFetchOne(w.h, "t", 1, 0, 1<<20)
		c41Touch(fr.Records)
	case c41CacheSetB:
		if w.seg0 != nil {
			w.h.cache.SetSegment("default/t", 0, 1000, w.seg0)
		}
	case c41CacheSetC:
		if w.seg0 != nil {
			w.h.cache.SetSegment("default/t", 0, 2000, w.seg0[:len(w.seg0)-1])
		}
	}
}

var c41Sink atomic.Uint32

// c41Touch reads every byte (a reader really looks at what it was handed).
func c41Touch(b []byte) {
	var x byte
	for _, v := range b {
		x ^= v
	}
	c41Sink.Add(uint32(x))
}

// ---- race log ----

type c41Race struct {
	Key    string
	Report string
}

var c41LogOffsets = map[string]int64{}

var c41FrameRe = regexp.MustCompile(`(?m)^  (\S.*)\n\s+(\S+\.go):(\d+)`)

func c41Owner(stack string) (fn, file string, repo bool) {
	for _, m := range c41FrameRe.FindAllStringSubmatch(stack, -1) {
		f, path := m[1], m[2]
		if strings.Contains(path, "/toolchain@") || strings.Contains(path, "/go/src/") || strings.HasPrefix(path, "/usr/") {
			continue // runtime / standard library
		}
		if strings.Contains(path, "/pkg/mod/") {
			continue // third-party module
		}
		isRepo := strings.HasPrefix(path, "/repo/") && !strings.Contains(path, "/internal/verif/") && !strings.Contains(path, "zz_verif_")
		return strings.TrimSuffix(f, "()"), path, isRepo
	}
	return "", "", false
}

// c41NewRaces returns the repository-code races reported since the last call.
func c41NewRaces() (found []c41Race, ignored int) {
	base := os.Getenv("VERIF_RACE_LOG")
	if base == "" {
		return nil, 0
	}
	files, _ := filepath.Glob(base + ".*")
	for _, f := range files {
		data, err := os.ReadFile(f)
		if err != nil {
			continue
		}
		off := c41LogOffsets[f]
		if int64(len(data)) <= off {
			continue
		}
		chunk := string(data[off:])
		c41LogOffsets[f] = int64(len(data))
		for _, rep := range strings.Split(chunk, "==================") {
			if !strings.Contains(rep, "WARNING: DATA RACE") {
				continue
			}
			// the two access stacks: up to the first "Goroutine ... created at"
			body := rep
			if i := strings.Index(body, "\nGoroutine "); i >= 0 {
				body = body[:i]
			}
			parts := regexp.MustCompile(`(?m)^(Previous )?(Read|Write|Atomic read|Atomic write|read|write) at 0x[0-9a-f]+ by .*$`).Split(body, -1)
			if len(parts) < 3 {
				ignored++
				continue
			}
			f1, p1, r1 := c41Owner(parts[1])
			f2, p2, r2 := c41Owner(parts[2])
			if !r1 || !r2 {
				ignored++
				continue
			}
			fs := []string{f1, f2}
			sort.Strings(fs)
			_ = p1
			_ = p2
			found = append(found, c41Race{Key: "data-race:" + fs[0] + "|" + fs[1], Report: strings.TrimSpace(rep)})
		}
	}
	return found, ignored
}

// c41Buffered marks a scenario that starts with two unflushed batches in the write buffer.
const c41Buffered c41Op = "world:buffered"

// c41Tiny marks a scenario whose segment cache holds one segment only (every insert of another key
// evicts), with the first segment resident: readers hold handed-out bytes while inserts evict.
const c41Tiny c41Op = "world:tiny-cache"

func c41Split(ops []c41Op) (bool, []c41Op) {
	if len(ops) > 0 && ops[0] == c41Buffered {
		return true, ops[1:]
	}
	if len(ops) > 0 && ops[0] == c41Tiny {
		return false, ops[1:]
	}
	return false, ops
}

func c41IsTiny(ops []c41Op) bool { return len(ops) > 0 && ops[0] == c41Tiny }

func c41Body(all []c41Op) func(s *sched.Sched) {
	return func(s *sched.Sched) {
		buffered, ops := c41Split(all)
		w := c41Setup(true, buffered, c41IsTiny(all))
		defer w.h.coordinator.Stop()
		for i, op := range ops {
			i, op := i, op
			s.Go(fmt.Sprintf("T%d", i), func() { w.run(op, fmt.Sprintf("t%d", i)) })
		}
		s.Run()
		if s.Deadlock {
			s.Fail("deadlock", "blocked: %s", s.Blocked())
		}
		s.Note("%v", all)
	}
}

func TestVerifC41(t *testing.T) {
	rep := vh.New(t, "C41")
	defer rep.Finish()
	rep.Rule = "-race build; every pair of data-path operations (and every triple containing a produce) over {produce, produce acks=0, fetch old/tail/small, flush, cache set/get} on one partition of one real handler; DFS over all interleavings within the preemption bound with the scheduler's own synchronisation hidden from the detector; the detector's log is read after each execution; distinct = distinct (operation set, schedule signature); non-trivial = >=1 preemptive switch"
	rep.Assumptions = []string{"Go race detector (bounded per-location history) is the happens-before oracle", "reports with an access outside repository code (harness, engine, fakes) are ignored and counted", "free-running pass is sampling and can only add detections"}
	if !sched.RaceBuild {
		t.Fatalf("HARNESS-ERROR C41 must be built with -race")
	}
	P := 2
	if vh.Thorough() {
		P = 3
	}
	rep.SetInfo("preemption_bound", P)
	rep.SetInfo("preemption_bound_triples", P-1)
	deadline := vh.Deadline()
	shard, nsh := vh.Shard()
	var scen [][]c41Op
	for i, a := range c41Ops {
		for _, b := range c41Ops[i:] {
			scen = append(scen, []c41Op{a, b})
		}
	}
	for i, a := range c41Ops[2:] {
		for _, b := range c41Ops[2+i:] {
			scen = append(scen, []c41Op{c41Produce, a, b})
		}
	}
	// the same world with two unflushed batches already in the write buffer: operations that touch the buffer
	tailOps := []c41Op{c41FetchTail, c41Flush, c41Produce0, c41Produce}
	for i, a := range tailOps {
		for _, b := range tailOps[i:] {
			scen = append(scen, []c41Op{c41Buffered, a, b})
		}
	}
	scen = append(scen, []c41Op{c41Buffered, c41Produce0, c41FetchTail, c41FetchTail}, []c41Op{c41Buffered, c41Flush, c41FetchTail, c41FetchTail})
	// sibling partition: requests on the warm partition against the first touch of the topic's other partition
	sib := []c41Op{c41FetchOld}
	if vh.Thorough() {
		sib = []c41Op{c41FetchOld, c41FetchTail, c41Produce, c41ReadSmall, c41Flush}
	}
	for _, a := range sib {
		scen = append(scen, []c41Op{a, c41ProduceP1}, []c41Op{a, c41FetchP1})
	}
	if vh.Thorough() {
		scen = append(scen, []c41Op{c41ProduceP1, c41FetchP1}, []c41Op{c41FetchOld, c41FetchOld, c41ProduceP1})
	}
	// tiny-cache world: a reader of handed-out cache bytes against inserts that evict (and may recycle)
	scen = append(scen,
		[]c41Op{c41Tiny, c41FetchOld, c41CacheSetB},
		[]c41Op{c41Tiny, c41FetchOld, c41CacheSetB, c41CacheSetC},
		[]c41Op{c41Tiny, c41FetchOld, c41FetchOld},
		[]c41Op{c41Tiny, c41FetchOld, c41ReadSmall, c41CacheSetB},
	)
	rep.SetInfo("scenarios", len(scen))
	var rp struct {
		Ops     []c41Op
		Choices []int
	}
	if ok, err := vh.LoadReplay(&rp); ok {
		if err != nil {
			t.Fatalf("HARNESS-ERROR %v", err)
		}
		x := sched.RunOnce(t, sched.Config{}, rp.Choices, true, c41Body(rp.Ops))
		races, ign := c41NewRaces()
		fmt.Printf("REPLAY %v choices=%v steps=%v races=%d ignored=%d\n", rp.Ops, rp.Choices, x.Steps, len(races), ign)
		rep.Eval(1)
		for _, r := range races {
			fmt.Println(r.Report)
			rep.Violation(r.Key, r.Report, rp)
		}
		return
	}
	ignoredTotal := 0
	for si, ops := range scen {
		if si%nsh != shard {
			continue
		}
		ops := ops
		c41NewRaces() // drain anything reported by set-up of a previous scenario
		p := P
		if _, real := c41Split(ops); len(real) > 2 {
			p = P - 1 // triples: one preemption less (reported in bounds)
		}
		st := sched.Explore(t, sched.Config{MaxPreempt: p, Deadline: deadline}, c41Body(ops), func(x *sched.Exec) {
			rep.Eval(1)
			sw, _ := x.NonDefault()
			rep.Outcome(fmt.Sprint(ops, x.Signature()), sw > 0)
			if sw > 1 {
				rep.Sample(map[string]any{"ops": ops, "choices": x.Choices})
			}
			races, ign := c41NewRaces()
			ignoredTotal += ign
			for _, r := range races {
				rep.Violation(r.Key, fmt.Sprintf("ops=%v\n%s", ops, r.Report), map[string]any{"Ops": ops, "Choices": x.Choices})
			}
			for _, f := range x.Fails {
				rep.Violation(f.Key, fmt.Sprintf("ops=%v: %s", ops, f.Detail), map[string]any{"Ops": ops, "Choices": x.Choices})
			}
		})
		rep.Count("scheduled_executions", int64(st.Execs))
		if st.Capped {
			rep.Cap(fmt.Sprintf("deadline in scenario %v", ops))
			break
		}
	}
	// free-running cross-check (sampling): the same bodies with real parallelism
	iters := 30
	if vh.Thorough() {
		iters = 200
	}
	free := 0
	for si, ops := range scen {
		if si%nsh != shard {
			continue
		}
		for it := 0; it < iters; it++ {
			buffered, real := c41Split(ops)
			w := c41Setup(false, buffered, c41IsTiny(ops))
			var wg sync.WaitGroup
			for i, op := range real {
				wg.Add(1)
				go func(i int, op c41Op) {
					defer wg.Done()
					w.run(op, fmt.Sprintf("f%d", i))
				}(i, op)
			}
			wg.Wait()
			w.h.coordinator.Stop()
			free++
		}
		races, ign := c41NewRaces()
		ignoredTotal += ign
		for _, r := range races {
			rep.Violation(r.Key, fmt.Sprintf("free-running ops=%v\n%s", ops, r.Report), map[string]any{"Ops": ops, "FreeRunning": true})
		}
	}
	rep.Count("free_running_iterations", int64(free))
	rep.Count("reports_outside_repository_code_ignored", int64(ignoredTotal))
}
