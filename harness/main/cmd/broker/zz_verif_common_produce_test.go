//go:build verif

package main

import (
	"context"
	"fmt"
	"strings"

	"github.com/KafScale/platform/internal/verif/enum"
	"github.com/KafScale/platform/internal/verif/fakes3"
	"github.com/KafScale/platform/internal/verif/sched"
	"github.com/KafScale/platform/pkg/metadata"
)

// vProdScenario is one closed system: T producer threads, each sending a list of
// batches (acks=-1, flush-on-ack) to partition t/0 of one real handler.
type vProdScenario struct {
	Name       string
	Producers  [][]int // per producer: record counts of its batches
	MaxBatches int     // WriteBuffer.MaxBatches (0 = only explicit flushes)
	PreOpen    bool    // open the partition log before the threads start
	Flusher    bool    // extra thread calling plog.Flush directly
	FailS3     bool    // offer upload failures
	FailStore  bool    // offer UpdateOffsets failures
	P, D       int     // per-scenario bounds (0 = the check's default)
	Delay      bool    // delay bounding: every non-default thread choice counts against P (for 3-thread / long scenarios)
	AutoCreate bool    // the topic does not exist yet: the first produce auto-creates it (store calls are scheduling points)
	// CancelOnFail (C01 only): every produce request runs with its own cancellable context and an
	// injected upload failure may be of the kind "the flushing request's context ended" (fake S3
	// cancels that request's context, see fakes3.Client.CancelOnFail). Requires FailS3.
	CancelOnFail bool
}

type vProdSent struct {
	Producer int
	Seq      int
	Bytes    []byte
	N        int
	Res      vPartResult
	Err      error
	Done     bool
}

type vProdRun struct {
	Sc     vProdScenario
	Bucket *fakes3.Bucket
	S3     *fakes3.Client
	Store  *vStore
	Inner  *metadata.InMemoryStore
	H      *handler
	Sent   []*vProdSent
	// monitor (C05)
	MonitorViol []string
	lastNext    int64
}

// vRunProduce builds the system, runs the threads under s and returns the run.
// It must be called inside an execution (bubble). The caller stops the coordinator.
func vRunProduce(s *sched.Sched, sc vProdScenario, monitor bool) *vProdRun {
	r := &vProdRun{Sc: sc}
	r.Bucket = fakes3.NewBucket()
	r.S3 = fakes3.New(r.Bucket, "b1")
	if sc.FailS3 {
		r.S3.FailOn["UploadSegment"] = true
		r.S3.FailOn["UploadIndex"] = true
		r.S3.CancelOnFail = sc.CancelOnFail
	}
	topics := map[string]int{"t": 1}
	if sc.AutoCreate {
		topics = map[string]int{"other": 1}
	}
	r.Inner = metadata.NewInMemoryStore(vMeta(topics))
	r.Store = &vStore{Store: r.Inner, S3: r.S3, FailUpd: sc.FailStore, AllPoints: sc.AutoCreate}
	r.H = vNewHandler(r.Store, r.S3)
	r.H.logConfig.Buffer.MaxBatches = sc.MaxBatches
	r.H.logConfig.Buffer.FlushInterval = 0
	r.H.logConfig.ReadAheadSegments = 0
	r.H.readAhead = 0
	if sc.PreOpen {
		if _, err := r.H.getPartitionLog(bg(), "t", 0); err != nil {
			s.Fail("harness", "pre-open: %v", err)
			return r
		}
	}
	for pi, batches := range sc.Producers {
		for bi, n := range batches {
			tag := fmt.Sprintf("p%db%d", pi, bi)
			r.Sent = append(r.Sent, &vProdSent{Producer: pi, Seq: bi, N: n, Bytes: enum.SimpleBatch(tag, n, 6)})
		}
	}
	for pi := range sc.Producers {
		pi := pi
		s.Go(fmt.Sprintf("P%d", pi), func() {
			for _, snt := range r.Sent {
				if snt.Producer != pi {
					continue
				}
				if sc.CancelOnFail {
					cctx, cancel := context.WithCancel(context.Background())
					cc := &fakes3.Canceller{Ctx: cctx, Cancel: cancel}
					snt.Res, snt.Err = vProduceOneCtx(context.WithValue(cctx, fakes3.CancelKey{}, cc), r.H, "t", 0, -1, snt.Bytes)
					cancel()
				} else {
					snt.Res, snt.Err = vProduceOne(r.H, "t", 0, -1, snt.Bytes)
				}
				snt.Done = true
			}
		})
	}
	if sc.Flusher {
		s.Go("F", func() {
			plog, err := r.H.getPartitionLog(bg(), "t", 0)
			if err == nil {
				_ = plog.Flush(bg())
			}
		})
	}
	if monitor {
		s.StepHook = func() { r.monitorStep() }
	}
	s.Run()
	if monitor {
		r.monitorStep()
	}
	return r
}

// monitorStep checks the C05 invariant in the current (quiescent) state.
func (r *vProdRun) monitorStep() {
	next, err := r.Inner.NextOffset(bg(), "t", 0)
	if err != nil {
		return
	}
	if next < r.lastNext {
		r.MonitorViol = append(r.MonitorViol, fmt.Sprintf("regress:%d->%d", r.lastNext, next))
	}
	r.lastNext = next
	_, maxLast, derr := vDurableBatches(r.Bucket, "default/t/0/")
	if derr == nil && next > maxLast+1 {
		r.MonitorViol = append(r.MonitorViol, fmt.Sprintf("ahead:next=%d s3last=%d", next, maxLast))
	}
}

// injectedFailures lists the keys of uploads the explorer made fail.
func (r *vProdRun) injectedFailures() []string {
	var out []string
	for _, op := range r.Bucket.Ops() {
		if op.Err == fakes3.ErrInjected.Error() {
			out = append(out, op.Name+":"+op.Key)
		} else if op.Err == fakes3.ErrInjectedCancel.Error() {
			out = append(out, op.Name+"(ctx-cancelled):"+op.Key)
		}
	}
	return out
}

// cancelledFailures counts the injected failures of the kind "request context ended".
func (r *vProdRun) cancelledFailures() int {
	n := 0
	for _, op := range r.Bucket.Ops() {
		if op.Err == fakes3.ErrInjectedCancel.Error() {
			n++
		}
	}
	return n
}

func (r *vProdRun) outcome() string {
	var b strings.Builder
	for _, snt := range r.Sent {
		fmt.Fprintf(&b, "p%d.%d:c%d@%d;", snt.Producer, snt.Seq, snt.Res.Code, snt.Res.Base)
	}
	fmt.Fprintf(&b, "keys=%d;fail=%d", len(r.Bucket.Keys()), len(r.injectedFailures()))
	if r.Sc.CancelOnFail {
		fmt.Fprintf(&b, ";ctxcancel=%d", r.cancelledFailures())
	}
	return b.String()
}
