//go:build verif

package main

// C11 oracle and request-body generators. This file is kept BYTE-IDENTICAL in
// harness/main/cmd/broker and harness/main/cmd/proxy (both are package main; the two
// halves of the check cannot share a package), so both halves judge replies the same way.

import (
	"encoding/binary"
	"errors"
	"fmt"
	"reflect"
	"sort"

	"github.com/KafScale/platform/internal/verif/vh"
	"github.com/twmb/franz-go/pkg/kmsg"
)

// vC11Fx is what the body generators may refer to: an existing topic (2 partitions, one
// batch in partition 0) and an existing stable consumer group with one member.
type vC11Fx struct {
	Topic      string
	TopicID    [16]byte
	Group      string
	MemberID   string
	Generation int32
	Batch      []byte // one well-formed v2 record batch
}

// vC11Body builds one request body for a version.
type vC11Body struct {
	Name  string
	Build func(v int16, fx *vC11Fx) kmsg.Request
}

// vC11Case identifies one evaluated case; it is also the replay artefact.
type vC11Case struct {
	Half       string `json:"half"` // broker | proxy
	Mode       string `json:"mode"` // broker: inproc | wire ; proxy: ready | notready | backend-down
	Key        int16  `json:"key"`
	Version    int16  `json:"version"`
	Body       string `json:"body"`
	Fixture    string `json:"fixture"` // broker: loaded | bare ; proxy: static
	Advertised bool   `json:"advertised"`
}

// vC11Got is what the driver observed for one request.
type vC11Got struct {
	Frames [][]byte // reply frames attributable to the request (0 or 1 expected)
	Closed bool     // the server refused the request / closed the connection without replying
	Panic  string   // recovered panic inside the code under test
}

type vC11Range struct{ Min, Max int16 }

// vC11Advertised turns ApiVersions entries into key -> advertised range. An entry with
// MaxVersion < 0 (the repo's marker for "known key, not supported") advertises no version.
func vC11Advertised(sets ...[]kmsg.ApiVersionsResponseApiKey) (keys []int16, adv map[int16]vC11Range, listed map[int16]vC11Range) {
	adv = map[int16]vC11Range{}
	listed = map[int16]vC11Range{}
	for _, set := range sets {
		for _, e := range set {
			r, ok := listed[e.ApiKey]
			if !ok {
				r = vC11Range{e.MinVersion, e.MaxVersion}
				keys = append(keys, e.ApiKey)
			} else {
				if e.MinVersion < r.Min {
					r.Min = e.MinVersion
				}
				if e.MaxVersion > r.Max {
					r.Max = e.MaxVersion
				}
			}
			listed[e.ApiKey] = r
		}
	}
	for k, r := range listed {
		if r.Max >= 0 && r.Min <= r.Max {
			a := r
			if a.Min < 0 {
				a.Min = 0
			}
			adv[k] = a
		}
	}
	sort.Slice(keys, func(i, j int) bool { return keys[i] < keys[j] })
	return keys, adv, listed
}

// vC11Window is the version window around each listed range: quick min-1..max+2,
// thorough min-2..max+4.
func vC11Window() (below, above int) {
	if vh.Thorough() {
		return 2, 4
	}
	return 1, 2
}

// vC11Cases enumerates fixture x mode x key x (min-below .. max+above) x bodies, simplest first.
func vC11Cases(half string, fixtures, modes []string, keys []int16, adv, listed map[int16]vC11Range) []vC11Case {
	below, above := vC11Window()
	var out []vC11Case
	for _, fxn := range fixtures {
		for _, mode := range modes {
			for _, k := range keys {
				r := listed[k]
				for v := int(r.Min) - below; v <= int(r.Max)+above; v++ {
					a, isAdv := adv[k]
					isAdv = isAdv && int16(v) >= a.Min && int16(v) <= a.Max
					for _, b := range vC11Bodies(k) {
						out = append(out, vC11Case{Half: half, Mode: mode, Key: k, Version: int16(v), Body: b.Name, Fixture: fxn, Advertised: isAdv})
					}
				}
			}
		}
	}
	return out
}

// vC11Select narrows the cases to the one named by a replay artefact.
func vC11Select(cases []vC11Case, only vC11Case) []vC11Case {
	var sel []vC11Case
	for _, c := range cases {
		if c.Mode == only.Mode && c.Key == only.Key && c.Version == only.Version && c.Body == only.Body && (only.Fixture == "" || c.Fixture == only.Fixture) {
			sel = append(sel, c)
		}
	}
	return sel
}

func vC11FindBody(key int16, name string) *vC11Body {
	for _, b := range vC11Bodies(key) {
		if b.Name == name {
			bb := b
			return &bb
		}
	}
	return nil
}

func vC11Name(key int16) string {
	n := kmsg.NameForKey(key)
	if n == "" || n == "Unknown" {
		n = fmt.Sprintf("Key%d", key)
	}
	return n
}

// ---------------------------------------------------------------------------------------
// request bodies

func vC11Str(s string) *string { return &s }

// vC11Bodies returns the generated bodies of a key: "empty" (the zero request), then one
// topic-partition / one group operation against the existing topic/group, then the same
// against an unknown topic/group (and acks=0 for Produce).
func vC11Bodies(key int16) []vC11Body {
	empty := vC11Body{Name: "empty", Build: func(v int16, fx *vC11Fx) kmsg.Request {
		r := kmsg.RequestForKey(key)
		if r == nil {
			return nil
		}
		r.SetVersion(v)
		return r
	}}
	mk := func(name string, f func(v int16, fx *vC11Fx) kmsg.Request) vC11Body {
		return vC11Body{Name: name, Build: func(v int16, fx *vC11Fx) kmsg.Request {
			r := f(v, fx)
			r.SetVersion(v)
			return r
		}}
	}
	produce := func(topic string, acks int16) func(v int16, fx *vC11Fx) kmsg.Request {
		return func(v int16, fx *vC11Fx) kmsg.Request {
			r := kmsg.NewPtrProduceRequest()
			r.Acks = acks
			r.TimeoutMillis = 1000
			t := kmsg.NewProduceRequestTopic()
			t.Topic = topic
			p := kmsg.NewProduceRequestTopicPartition()
			p.Partition = 0
			p.Records = fx.Batch
			t.Partitions = append(t.Partitions, p)
			r.Topics = append(r.Topics, t)
			return r
		}
	}
	fetch := func(known bool) func(v int16, fx *vC11Fx) kmsg.Request {
		return func(v int16, fx *vC11Fx) kmsg.Request {
			r := kmsg.NewPtrFetchRequest()
			r.MaxWaitMillis = 0
			r.MaxBytes = 1 << 20
			t := kmsg.NewFetchRequestTopic()
			if known {
				t.Topic, t.TopicID = fx.Topic, fx.TopicID
			} else {
				t.Topic, t.TopicID = "nope", [16]byte{0xee, 1}
			}
			p := kmsg.NewFetchRequestTopicPartition()
			p.Partition = 0
			p.FetchOffset = 0
			p.PartitionMaxBytes = 1 << 20
			t.Partitions = append(t.Partitions, p)
			r.Topics = append(r.Topics, t)
			return r
		}
	}
	topicOr := func(known bool, fx *vC11Fx) string {
		if known {
			return fx.Topic
		}
		return "nope"
	}
	groupOr := func(known bool, fx *vC11Fx) string {
		if known {
			return fx.Group
		}
		return "nogroup"
	}
	memberOr := func(known bool, fx *vC11Fx) string {
		if known {
			return fx.MemberID
		}
		return "nomember"
	}
	subscription := func(fx *vC11Fx) []byte {
		m := kmsg.NewConsumerMemberMetadata()
		m.Version = 0
		m.Topics = []string{fx.Topic}
		return m.AppendTo(nil)
	}
	assignment := func(fx *vC11Fx) []byte {
		a := kmsg.NewConsumerMemberAssignment()
		a.Version = 0
		t := kmsg.NewConsumerMemberAssignmentTopic()
		t.Topic = fx.Topic
		t.Partitions = []int32{0, 1}
		a.Topics = append(a.Topics, t)
		return a.AppendTo(nil)
	}
	both := func(f func(known bool) func(v int16, fx *vC11Fx) kmsg.Request) []vC11Body {
		return []vC11Body{empty, mk("one", f(true)), mk("unknown", f(false))}
	}

	switch key {
	case 0:
		multiProduce := mk("multi", func(v int16, fx *vC11Fx) kmsg.Request {
			r := produce(fx.Topic, -1)(v, fx).(*kmsg.ProduceRequest)
			p1 := kmsg.NewProduceRequestTopicPartition()
			p1.Partition = 1
			p1.Records = fx.Batch
			r.Topics[0].Partitions = append(r.Topics[0].Partitions, p1)
			r.Topics = append(r.Topics, produce("nope", -1)(v, fx).(*kmsg.ProduceRequest).Topics[0])
			return r
		})
		return []vC11Body{empty, mk("no-topics", func(v int16, fx *vC11Fx) kmsg.Request {
			r := kmsg.NewPtrProduceRequest()
			r.Acks = -1
			r.TimeoutMillis = 1000
			return r
		}), mk("one", produce("t", -1)), mk("unknown", produce("nope", 1)), mk("acks0", produce("t", 0)), multiProduce}
	case 1:
		return append(both(fetch), mk("multi", func(v int16, fx *vC11Fx) kmsg.Request {
			r := fetch(true)(v, fx).(*kmsg.FetchRequest)
			p1 := kmsg.NewFetchRequestTopicPartition()
			p1.Partition = 1
			p1.FetchOffset = 5 // beyond the end
			p1.PartitionMaxBytes = 1 << 20
			r.Topics[0].Partitions = append(r.Topics[0].Partitions, p1)
			r.Topics = append(r.Topics, fetch(false)(v, fx).(*kmsg.FetchRequest).Topics[0])
			return r
		}))
	case 2:
		return both(func(known bool) func(v int16, fx *vC11Fx) kmsg.Request {
			return func(v int16, fx *vC11Fx) kmsg.Request {
				r := kmsg.NewPtrListOffsetsRequest()
				r.ReplicaID = -1
				t := kmsg.NewListOffsetsRequestTopic()
				t.Topic = topicOr(known, fx)
				p := kmsg.NewListOffsetsRequestTopicPartition()
				p.Partition = 0
				p.Timestamp = -1
				p.MaxNumOffsets = 1
				t.Partitions = append(t.Partitions, p)
				r.Topics = append(r.Topics, t)
				return r
			}
		})
	case 3:
		byName := func(known bool) func(v int16, fx *vC11Fx) kmsg.Request {
			return func(v int16, fx *vC11Fx) kmsg.Request {
				r := kmsg.NewPtrMetadataRequest()
				t := kmsg.NewMetadataRequestTopic()
				t.Topic = vC11Str(topicOr(known, fx))
				r.Topics = append(r.Topics, t)
				return r
			}
		}
		byID := func(known bool) func(v int16, fx *vC11Fx) kmsg.Request {
			return func(v int16, fx *vC11Fx) kmsg.Request {
				r := kmsg.NewPtrMetadataRequest()
				t := kmsg.NewMetadataRequestTopic()
				t.Topic = nil
				if known {
					t.TopicID = fx.TopicID
				} else {
					t.TopicID = [16]byte{0xee, 2}
				}
				r.Topics = append(r.Topics, t)
				return r
			}
		}
		return []vC11Body{empty, mk("one", byName(true)), mk("unknown", byName(false)), mk("one-by-id", byID(true)), mk("unknown-by-id", byID(false)),
			mk("multi", func(v int16, fx *vC11Fx) kmsg.Request {
				r := byName(true)(v, fx).(*kmsg.MetadataRequest)
				r.Topics = append(r.Topics, byName(false)(v, fx).(*kmsg.MetadataRequest).Topics[0])
				r.IncludeTopicAuthorizedOperations = true
				return r
			})}
	case 8:
		return both(func(known bool) func(v int16, fx *vC11Fx) kmsg.Request {
			return func(v int16, fx *vC11Fx) kmsg.Request {
				r := kmsg.NewPtrOffsetCommitRequest()
				r.Group = groupOr(known, fx)
				r.Generation = fx.Generation
				r.MemberID = memberOr(known, fx)
				t := kmsg.NewOffsetCommitRequestTopic()
				t.Topic = fx.Topic
				p := kmsg.NewOffsetCommitRequestTopicPartition()
				p.Partition = 0
				p.Offset = 1
				p.Metadata = vC11Str("m")
				t.Partitions = append(t.Partitions, p)
				r.Topics = append(r.Topics, t)
				return r
			}
		})
	case 9:
		return both(func(known bool) func(v int16, fx *vC11Fx) kmsg.Request {
			return func(v int16, fx *vC11Fx) kmsg.Request {
				r := kmsg.NewPtrOffsetFetchRequest()
				r.Group = groupOr(known, fx)
				t := kmsg.NewOffsetFetchRequestTopic()
				t.Topic = fx.Topic
				t.Partitions = []int32{0}
				r.Topics = append(r.Topics, t)
				g := kmsg.NewOffsetFetchRequestGroup()
				g.Group = groupOr(known, fx)
				gt := kmsg.NewOffsetFetchRequestGroupTopic()
				gt.Topic = fx.Topic
				gt.Partitions = []int32{0}
				g.Topics = append(g.Topics, gt)
				r.Groups = append(r.Groups, g)
				return r
			}
		})
	case 10:
		return both(func(known bool) func(v int16, fx *vC11Fx) kmsg.Request {
			return func(v int16, fx *vC11Fx) kmsg.Request {
				r := kmsg.NewPtrFindCoordinatorRequest()
				r.CoordinatorKey = groupOr(known, fx)
				r.CoordinatorType = 0
				r.CoordinatorKeys = []string{groupOr(known, fx)}
				return r
			}
		})
	case 11:
		return both(func(known bool) func(v int16, fx *vC11Fx) kmsg.Request {
			return func(v int16, fx *vC11Fx) kmsg.Request {
				r := kmsg.NewPtrJoinGroupRequest()
				r.Group = groupOr(known, fx)
				r.SessionTimeoutMillis = 3600000
				r.RebalanceTimeoutMillis = 3600000
				if known {
					r.MemberID = fx.MemberID // rejoin of the existing member
				}
				r.ProtocolType = "consumer"
				p := kmsg.NewJoinGroupRequestProtocol()
				p.Name = "range"
				p.Metadata = subscription(fx)
				r.Protocols = append(r.Protocols, p)
				return r
			}
		})
	case 12:
		return both(func(known bool) func(v int16, fx *vC11Fx) kmsg.Request {
			return func(v int16, fx *vC11Fx) kmsg.Request {
				r := kmsg.NewPtrHeartbeatRequest()
				r.Group = groupOr(known, fx)
				r.Generation = fx.Generation
				r.MemberID = memberOr(known, fx)
				return r
			}
		})
	case 13:
		return both(func(known bool) func(v int16, fx *vC11Fx) kmsg.Request {
			return func(v int16, fx *vC11Fx) kmsg.Request {
				r := kmsg.NewPtrLeaveGroupRequest()
				r.Group = groupOr(known, fx)
				r.MemberID = memberOr(known, fx)
				m := kmsg.NewLeaveGroupRequestMember()
				m.MemberID = memberOr(known, fx)
				r.Members = append(r.Members, m)
				return r
			}
		})
	case 14:
		return both(func(known bool) func(v int16, fx *vC11Fx) kmsg.Request {
			return func(v int16, fx *vC11Fx) kmsg.Request {
				r := kmsg.NewPtrSyncGroupRequest()
				r.Group = groupOr(known, fx)
				r.Generation = fx.Generation
				r.MemberID = memberOr(known, fx)
				r.ProtocolType = vC11Str("consumer")
				r.Protocol = vC11Str("range")
				a := kmsg.NewSyncGroupRequestGroupAssignment()
				a.MemberID = memberOr(known, fx)
				a.MemberAssignment = assignment(fx)
				r.GroupAssignment = append(r.GroupAssignment, a)
				return r
			}
		})
	case 15:
		return append(both(func(known bool) func(v int16, fx *vC11Fx) kmsg.Request {
			return func(v int16, fx *vC11Fx) kmsg.Request {
				r := kmsg.NewPtrDescribeGroupsRequest()
				r.Groups = []string{groupOr(known, fx)}
				r.IncludeAuthorizedOperations = known
				return r
			}
		}), mk("multi", func(v int16, fx *vC11Fx) kmsg.Request {
			r := kmsg.NewPtrDescribeGroupsRequest()
			r.Groups = []string{fx.Group, "nogroup"}
			return r
		}))
	case 16:
		return []vC11Body{empty, mk("filtered", func(v int16, fx *vC11Fx) kmsg.Request {
			r := kmsg.NewPtrListGroupsRequest()
			r.StatesFilter = []string{"Stable"}
			r.TypesFilter = []string{"classic"}
			return r
		})}
	case 18:
		return []vC11Body{empty, mk("client", func(v int16, fx *vC11Fx) kmsg.Request {
			r := kmsg.NewPtrApiVersionsRequest()
			r.ClientSoftwareName = "verif"
			r.ClientSoftwareVersion = "1.0"
			return r
		})}
	case 19:
		return both(func(known bool) func(v int16, fx *vC11Fx) kmsg.Request {
			return func(v int16, fx *vC11Fx) kmsg.Request {
				r := kmsg.NewPtrCreateTopicsRequest()
				r.TimeoutMillis = 1000
				t := kmsg.NewCreateTopicsRequestTopic()
				if known {
					t.Topic = fx.Topic // already exists
				} else {
					t.Topic = "fresh"
				}
				t.NumPartitions = 1
				t.ReplicationFactor = 1
				r.Topics = append(r.Topics, t)
				return r
			}
		})
	case 20:
		return both(func(known bool) func(v int16, fx *vC11Fx) kmsg.Request {
			return func(v int16, fx *vC11Fx) kmsg.Request {
				r := kmsg.NewPtrDeleteTopicsRequest()
				r.TimeoutMillis = 1000
				r.TopicNames = []string{topicOr(known, fx)}
				t := kmsg.NewDeleteTopicsRequestTopic()
				t.Topic = vC11Str(topicOr(known, fx))
				r.Topics = append(r.Topics, t)
				return r
			}
		})
	case 23:
		return both(func(known bool) func(v int16, fx *vC11Fx) kmsg.Request {
			return func(v int16, fx *vC11Fx) kmsg.Request {
				r := kmsg.NewPtrOffsetForLeaderEpochRequest()
				r.ReplicaID = -1
				t := kmsg.NewOffsetForLeaderEpochRequestTopic()
				t.Topic = topicOr(known, fx)
				p := kmsg.NewOffsetForLeaderEpochRequestTopicPartition()
				p.Partition = 0
				p.CurrentLeaderEpoch = -1
				p.LeaderEpoch = 0
				t.Partitions = append(t.Partitions, p)
				r.Topics = append(r.Topics, t)
				return r
			}
		})
	case 32:
		return both(func(known bool) func(v int16, fx *vC11Fx) kmsg.Request {
			return func(v int16, fx *vC11Fx) kmsg.Request {
				r := kmsg.NewPtrDescribeConfigsRequest()
				res := kmsg.NewDescribeConfigsRequestResource()
				if known {
					res.ResourceType = kmsg.ConfigResourceTypeTopic
					res.ResourceName = fx.Topic
				} else {
					res.ResourceType = kmsg.ConfigResourceTypeBroker
					res.ResourceName = "99"
				}
				r.Resources = append(r.Resources, res)
				r.IncludeSynonyms = known
				r.IncludeDocumentation = known
				return r
			}
		})
	case 33:
		return both(func(known bool) func(v int16, fx *vC11Fx) kmsg.Request {
			return func(v int16, fx *vC11Fx) kmsg.Request {
				r := kmsg.NewPtrAlterConfigsRequest()
				res := kmsg.NewAlterConfigsRequestResource()
				res.ResourceType = kmsg.ConfigResourceTypeTopic
				res.ResourceName = topicOr(known, fx)
				c := kmsg.NewAlterConfigsRequestResourceConfig()
				c.Name = "retention.ms"
				c.Value = vC11Str("60000")
				res.Configs = append(res.Configs, c)
				r.Resources = append(r.Resources, res)
				return r
			}
		})
	case 37:
		return both(func(known bool) func(v int16, fx *vC11Fx) kmsg.Request {
			return func(v int16, fx *vC11Fx) kmsg.Request {
				r := kmsg.NewPtrCreatePartitionsRequest()
				r.TimeoutMillis = 1000
				t := kmsg.NewCreatePartitionsRequestTopic()
				t.Topic = topicOr(known, fx)
				t.Count = 3
				r.Topics = append(r.Topics, t)
				return r
			}
		})
	case 42:
		return both(func(known bool) func(v int16, fx *vC11Fx) kmsg.Request {
			return func(v int16, fx *vC11Fx) kmsg.Request {
				r := kmsg.NewPtrDeleteGroupsRequest()
				r.Groups = []string{groupOr(known, fx)}
				return r
			}
		})
	}
	return []vC11Body{empty}
}

// vC11Format encodes a request exactly like a franz-go client: size prefix, request header
// (v1, or v2 with the tag section when the request version is flexible), body.
func vC11Format(req kmsg.Request, corr int32) []byte {
	f := kmsg.NewRequestFormatter(kmsg.FormatterClientID("verif"))
	return f.AppendRequest(nil, req, corr)
}

func vC11ProduceAcks0(req kmsg.Request) bool {
	p, ok := req.(*kmsg.ProduceRequest)
	return ok && p.Acks == 0
}

// ---------------------------------------------------------------------------------------
// reply oracle

var errVC11Trailing = errors.New("body not consumed completely")

func vC11SkipTags(b []byte) ([]byte, error) {
	n, l := binary.Uvarint(b)
	if l <= 0 {
		return nil, errors.New("response header: tag count unreadable")
	}
	b = b[l:]
	for i := uint64(0); i < n; i++ {
		_, l = binary.Uvarint(b)
		if l <= 0 {
			return nil, errors.New("response header: tag key unreadable")
		}
		b = b[l:]
		sz, l := binary.Uvarint(b)
		if l <= 0 || uint64(len(b)-l) < sz {
			return nil, errors.New("response header: tag value short")
		}
		b = b[l+int(sz):]
	}
	return b, nil
}

// vC11TryDecode decodes the bytes after the correlation id as (header tag section iff
// flexHdr) + body of key at version ver, and demands that the body is consumed completely:
// re-encoding the decoded message gives the same length and the body minus its last byte
// no longer decodes (the decoder is sequential, so it touched the last byte).
func vC11TryDecode(key, ver int16, flexHdr bool, rest []byte) (kmsg.Response, error) {
	body := rest
	if flexHdr {
		var err error
		if body, err = vC11SkipTags(rest); err != nil {
			return nil, err
		}
	}
	resp := kmsg.ResponseForKey(key)
	resp.SetVersion(ver)
	if err := resp.ReadFrom(body); err != nil {
		return nil, err
	}
	if re := resp.AppendTo(nil); len(re) != len(body) {
		return resp, fmt.Errorf("%w: body is %d bytes, decoded message re-encodes to %d", errVC11Trailing, len(body), len(re))
	}
	if len(body) > 0 {
		r2 := kmsg.ResponseForKey(key)
		r2.SetVersion(ver)
		if r2.ReadFrom(body[:len(body)-1]) == nil {
			return resp, fmt.Errorf("%w: last byte not needed by the decoder", errVC11Trailing)
		}
	}
	return resp, nil
}

func vC11RespFlexible(key, ver int16) bool {
	r := kmsg.ResponseForKey(key)
	r.SetVersion(ver)
	return r.IsFlexible() && key != 18
}

// vC11CheckReply applies the statement to one reply payload (frame without size prefix).
// It returns an outcome label, the decoded response (nil if not decoded) and, on a
// violation, a mechanism key (without the API name) and detail.
func vC11CheckReply(c vC11Case, corr int32, reply []byte) (outcome string, resp kmsg.Response, viol, detail string) {
	if len(reply) < 4 {
		return "short", nil, "reply-shorter-than-correlation-id", fmt.Sprintf("reply has %d bytes", len(reply))
	}
	if got := int32(binary.BigEndian.Uint32(reply[:4])); got != corr {
		return "badcorr", nil, "correlation-id-mismatch", fmt.Sprintf("request correlation id %d, reply starts with %d", corr, got)
	}
	if kmsg.ResponseForKey(c.Key) == nil {
		return "reply-for-key-unknown-to-codec", nil, "", ""
	}
	rest := reply[4:]
	ver := c.Version
	label := "decoded"
	// KIP-511: a broker that does not support the requested ApiVersions version answers
	// with a v0 body carrying UNSUPPORTED_VERSION; every standard client re-reads it as v0.
	if c.Key == 18 && !c.Advertised && len(rest) >= 2 && int16(binary.BigEndian.Uint16(rest[:2])) == 35 {
		ver = 0
		label = "kip511-v0-downgrade"
	}
	flex := vC11RespFlexible(c.Key, ver)
	resp, err := vC11TryDecode(c.Key, ver, flex, rest)
	if err == nil {
		if flex {
			return label + "/flexhdr", resp, "", ""
		}
		return label + "/plainhdr", resp, "", ""
	}
	// classify the mechanism
	if _, err2 := vC11TryDecode(c.Key, ver, !flex, rest); err2 == nil {
		if flex {
			return "bad", nil, "header-tag-byte-missing", fmt.Sprintf("response v%d is flexible but the reply only decodes without the header tag section (%v)", ver, err)
		}
		return "bad", nil, "header-tag-byte-unexpected", fmt.Sprintf("response v%d header must not carry a tag section but the reply only decodes with one (%v)", ver, err)
	}
	for w := int16(0); w <= 20; w++ {
		if w == ver {
			continue
		}
		if _, err2 := vC11TryDecode(c.Key, w, vC11RespFlexible(c.Key, w), rest); err2 == nil {
			return "bad", nil, "reply-encoded-at-other-version", fmt.Sprintf("reply does not decode at v%d (%v) but decodes completely at v%d", ver, err, w)
		}
	}
	if errors.Is(err, errVC11Trailing) {
		return "bad", nil, "reply-trailing-bytes", err.Error()
	}
	return "bad", nil, "reply-undecodable", fmt.Sprintf("kmsg decode at v%d: %v", ver, err)
}

// vC11FirstError returns the first non-zero field named ErrorCode in a decoded response.
func vC11FirstError(v any) int16 {
	var walk func(rv reflect.Value, depth int) int16
	walk = func(rv reflect.Value, depth int) int16 {
		if depth > 6 {
			return 0
		}
		switch rv.Kind() {
		case reflect.Ptr, reflect.Interface:
			if rv.IsNil() {
				return 0
			}
			return walk(rv.Elem(), depth+1)
		case reflect.Struct:
			if f := rv.FieldByName("ErrorCode"); f.IsValid() && f.Kind() == reflect.Int16 && f.Int() != 0 {
				return int16(f.Int())
			}
			for i := 0; i < rv.NumField(); i++ {
				f := rv.Field(i)
				if f.Kind() == reflect.Slice && f.Type().Elem().Kind() == reflect.Struct {
					for j := 0; j < f.Len(); j++ {
						if ec := walk(f.Index(j), depth+1); ec != 0 {
							return ec
						}
					}
				}
			}
		}
		return 0
	}
	return walk(reflect.ValueOf(v), 0)
}

// vC11Judge applies the property to one observed case and records it in the report.
// mustReply: the statement demands a reply (advertised version, not acks=0, backend up).
func vC11Judge(rep *vh.Report, c vC11Case, req kmsg.Request, corr int32, got vC11Got, mustReply bool) {
	rep.Eval(1)
	api := vC11Name(c.Key)
	rep.Count("cases_"+c.Mode, 1)
	if c.Advertised {
		rep.Count("advertised_cases", 1)
	} else {
		rep.Count("unadvertised_cases", 1)
	}
	sig := func(outcome string, ec int16) string {
		return fmt.Sprintf("%s/%s/%s %s adv=%t -> %s ec=%d", c.Half, c.Fixture, c.Mode, api, c.Advertised, outcome, ec)
	}
	if got.Panic != "" {
		rep.Count("panics", 1)
		if c.Advertised {
			rep.Violation("panic-on-advertised-version:"+api,
				fmt.Sprintf("%s v%d body=%s (%s/%s): the code under test panicked instead of replying: %s", api, c.Version, c.Body, c.Half, c.Mode, got.Panic), c)
		}
		rep.Outcome(sig("panic", 0), false)
		return
	}
	if len(got.Frames) == 0 {
		outcome := "no-reply"
		if got.Closed {
			outcome = "refused"
		}
		rep.Count(outcome, 1)
		vC11Note(rep, c, outcome)
		if mustReply {
			key := "advertised-version-no-reply:"
			if got.Closed {
				key = "advertised-version-refused:"
			}
			rep.Violation(key+api,
				fmt.Sprintf("%s v%d body=%s (%s/%s) is advertised but got no reply (%s)", api, c.Version, c.Body, c.Half, c.Mode, outcome), c)
		}
		rep.Outcome(sig(outcome, 0), false)
		return
	}
	if len(got.Frames) > 1 {
		rep.Violation("more-than-one-reply:"+api,
			fmt.Sprintf("%s v%d body=%s (%s/%s): %d reply frames for one request", api, c.Version, c.Body, c.Half, c.Mode, len(got.Frames)), c)
	}
	outcome, resp, viol, detail := vC11CheckReply(c, corr, got.Frames[0])
	if viol != "" {
		rep.Violation(viol+":"+api,
			fmt.Sprintf("%s v%d body=%s advertised=%t (%s/%s): %s; reply=%x", api, c.Version, c.Body, c.Advertised, c.Half, c.Mode, detail, vC11Clip(got.Frames[0], 96)), c)
		rep.Outcome(sig(outcome+":"+viol, 0), false)
		return
	}
	ec := int16(0)
	if resp != nil {
		ec = vC11FirstError(resp)
		rep.Count("replies_decoded", 1)
	}
	rep.Outcome(sig(outcome, ec), resp != nil)
	if rep.WantSample() && c.Body != "empty" && c.Advertised && !vC11Sampled[api] {
		vC11Sampled[api] = true
		rep.Sample(map[string]any{"case": c, "request": fmt.Sprintf("%x", vC11Clip(vC11Format(req, corr), 64)),
			"reply": fmt.Sprintf("%x", vC11Clip(got.Frames[0], 64)), "outcome": outcome, "first_error_code": ec})
	}
}

var vC11Sampled = map[string]bool{} // one written-out sample per API

// vC11Note lists (in the report's bounds) the cases that ended without a reply.
var vC11Notes = map[string][]string{}

func vC11Note(rep *vh.Report, c vC11Case, outcome string) {
	k := c.Half + "_" + outcome + "_cases"
	if len(vC11Notes[k]) < 24 { // the counter of the same name has the total
		vC11Notes[k] = append(vC11Notes[k], fmt.Sprintf("%s/%s %s v%d %s adv=%t", c.Fixture, c.Mode, vC11Name(c.Key), c.Version, c.Body, c.Advertised))
	}
	rep.SetInfo(k, vC11Notes[k])
}

func vC11Clip(b []byte, n int) []byte {
	if len(b) > n {
		return b[:n]
	}
	return b
}

const vC11Rule = "cases = fixture x mode x every key listed by the real ApiVersions reply / generate*ApiVersions() x every version from min-1 to max+2 (thorough: min-2 to max+4) x 1-7 generated bodies per key (empty request; one topic-partition or one group operation on the existing topic/group; the same on an unknown topic/group; Produce also no-topics, acks=0; Metadata also by topic id; Produce/Fetch/Metadata/DescribeGroups also a known+unknown multi body), each sent as franz-go-formatted bytes through the real request path. Outcome signature = (half/fixture/mode, API, advertised?, reply kind and response-header shape, first error code in the decoded reply). Non-trivial = a reply was produced and kmsg decoded it completely at the request version (trivial: no reply, refused, panic)."
