//go:build verif

package main

// C11 (broker half): every advertised API version is served with a decodable reply.
//
// Bounded-exhaustive enumeration (E3): every key listed by the broker's ApiVersions reply
// x every version from min-1 to max+2 x the generated bodies of that key, each against a
// fresh real handler (in-memory store, fake S3, one topic with data, one stable group):
//   mode inproc: franz-go formatted bytes -> protocol.ReadFrame -> protocol.ParseRequest ->
//                handler.Handle, i.e. the body of broker.Server.handleConnection;
//   mode wire:   the same bytes over a loopback TCP connection to a real broker.Server
//                whose Handler is that handler (covers the server's own error reply).
// The proxy half lives in cmd/proxy (same test name, same property id).

import (
	"bytes"
	"context"
	"encoding/binary"
	"errors"
	"fmt"
	"net"
	"os"
	"strings"
	"sync/atomic"
	"testing"
	"time"

	"github.com/KafScale/platform/internal/verif/enum"
	"github.com/KafScale/platform/internal/verif/fakes3"
	"github.com/KafScale/platform/internal/verif/vh"
	"github.com/KafScale/platform/pkg/acl"
	"github.com/KafScale/platform/pkg/broker"
	"github.com/KafScale/platform/pkg/metadata"
	"github.com/KafScale/platform/pkg/protocol"
	"github.com/twmb/franz-go/pkg/kmsg"
)

const vC11SentinelCorr = int32(0x5E171E1)

// vC11NewBroker builds the fixture of one case: real handler over an in-memory store and a
// fake bucket, topic "t" (2 partitions) with one flushed batch in partition 0, group "g"
// stable with one member that committed offset 1 on t/0.
// vC11DownStore reports the metadata store as unreachable (what EtcdStore.Available does
// after a failed etcd operation): the handler answers several APIs from its
// "etcd unavailable" branches.
type vC11DownStore struct{ metadata.Store }

func (vC11DownStore) Available() bool { return false }

// vC11NewBroker also builds the environment variants "loaded+etcd-down" (store reports
// unavailable), "loaded+acl-deny" (ACL enforcement on, nothing allowed) and
// "loaded+s3-unavailable" (S3 health monitor rates S3 unavailable): the same requests must
// still get decodable replies from those branches.
func vC11NewBroker(kind string) (*handler, *vC11Fx, error) {
	if strings.HasPrefix(kind, "loaded+") {
		h, fx, err := vC11NewBroker("loaded")
		if err != nil {
			return nil, nil, err
		}
		switch strings.TrimPrefix(kind, "loaded+") {
		case "etcd-down":
			h.store = vC11DownStore{h.store}
		case "acl-deny":
			h.authorizer = acl.NewAuthorizer(acl.Config{Enabled: true, DefaultPolicy: "deny"})
		case "s3-unavailable":
			for i := 0; i < 20; i++ {
				h.s3Health.RecordOperation("upload", 0, fmt.Errorf("verif: s3 down"))
			}
		}
		return h, fx, nil
	}
	meta := vMeta(map[string]int{"t": 2})
	store := metadata.NewInMemoryStore(meta)
	s3 := fakes3.New(fakes3.NewBucket(), "b1")
	s3.NoPoints = true
	h := vNewHandler(store, s3)
	fx := &vC11Fx{Topic: "t", TopicID: meta.Topics[0].TopicID, Group: "g", Batch: enum.SimpleBatch("c11", 1, 4)}
	fail := func(format string, a ...any) (*handler, *vC11Fx, error) {
		h.coordinator.Stop()
		return nil, nil, fmt.Errorf(format, a...)
	}
	if kind == "bare" { // topic without data, no group; bodies refer to a member that never joined
		fx.MemberID, fx.Generation = "never-joined", 1
		return h, fx, nil
	}
	res, err := vProduceOne(h, "t", 0, -1, fx.Batch)
	if err != nil || res.Code != 0 {
		return fail("fixture produce: err=%v code=%d", err, res.Code)
	}
	// group: join (new member), sync as leader -> stable
	join := kmsg.NewPtrJoinGroupRequest()
	join.Version = 4
	join.Group = "g"
	join.SessionTimeoutMillis = 3600000
	join.RebalanceTimeoutMillis = 3600000
	join.ProtocolType = "consumer"
	jp := kmsg.NewJoinGroupRequestProtocol()
	jp.Name = "range"
	sub := kmsg.NewConsumerMemberMetadata()
	sub.Topics = []string{"t"}
	jp.Metadata = sub.AppendTo(nil)
	join.Protocols = append(join.Protocols, jp)
	out, err := h.Handle(bg(), &protocol.RequestHeader{APIKey: 11, APIVersion: 4, CorrelationID: 1}, join)
	if err != nil || len(out) < 4 {
		return fail("fixture join: %v", err)
	}
	jr := kmsg.NewPtrJoinGroupResponse()
	jr.Version = 4
	if err := jr.ReadFrom(out[4:]); err != nil || jr.ErrorCode != 0 || jr.MemberID == "" {
		return fail("fixture join reply: err=%v code=%d member=%q", err, jr.ErrorCode, jr.MemberID)
	}
	fx.MemberID, fx.Generation = jr.MemberID, jr.Generation
	sync := kmsg.NewPtrSyncGroupRequest()
	sync.Version = 4
	sync.Group = "g"
	sync.Generation = fx.Generation
	sync.MemberID = fx.MemberID
	out, err = h.Handle(bg(), &protocol.RequestHeader{APIKey: 14, APIVersion: 4, CorrelationID: 2}, sync)
	if err != nil || len(out) < 5 {
		return fail("fixture sync: %v", err)
	}
	sr := kmsg.NewPtrSyncGroupResponse()
	sr.Version = 4
	if err := sr.ReadFrom(out[5:]); err != nil || sr.ErrorCode != 0 {
		return fail("fixture sync reply: err=%v code=%d", err, sr.ErrorCode)
	}
	commit := kmsg.NewPtrOffsetCommitRequest()
	commit.Version = 3
	commit.Group = "g"
	commit.Generation = fx.Generation
	commit.MemberID = fx.MemberID
	ct := kmsg.NewOffsetCommitRequestTopic()
	ct.Topic = "t"
	cp := kmsg.NewOffsetCommitRequestTopicPartition()
	cp.Partition = 0
	cp.Offset = 1
	ct.Partitions = append(ct.Partitions, cp)
	commit.Topics = append(commit.Topics, ct)
	out, err = h.Handle(bg(), &protocol.RequestHeader{APIKey: 8, APIVersion: 3, CorrelationID: 3}, commit)
	if err != nil || len(out) < 4 {
		return fail("fixture commit: %v", err)
	}
	cr := kmsg.NewPtrOffsetCommitResponse()
	cr.Version = 3
	if err := cr.ReadFrom(out[4:]); err != nil || vC11FirstError(cr) != 0 {
		return fail("fixture commit reply: err=%v code=%d", err, vC11FirstError(cr))
	}
	return h, fx, nil
}

// vC11ServerErrorReply is a literal copy of pkg/broker.buildErrorResponse (unexported in
// another package): what Server.handleConnection writes when Handle returns an error.
func vC11ServerErrorReply(header *protocol.RequestHeader) []byte {
	resp := kmsg.ResponseForKey(header.APIKey)
	if resp == nil {
		return nil
	}
	resp.SetVersion(header.APIVersion)
	return protocol.EncodeResponse(header.CorrelationID, header.APIVersion, resp)
}

// vC11Inproc performs one iteration of broker.Server.handleConnection's loop on wire bytes.
func vC11Inproc(h *handler, wire []byte) (got vC11Got, handleErr error) {
	defer func() {
		if r := recover(); r != nil {
			got = vC11Got{Panic: fmt.Sprint(r)}
		}
	}()
	frame, err := protocol.ReadFrame(bytes.NewReader(wire))
	if err != nil {
		return vC11Got{Closed: true}, nil
	}
	header, req, err := protocol.ParseRequest(frame.Payload)
	if err != nil {
		return vC11Got{Closed: true}, nil // server logs and drops the connection
	}
	payload, err := h.Handle(context.Background(), header, req)
	if err != nil {
		if e := vC11ServerErrorReply(header); e != nil {
			return vC11Got{Frames: [][]byte{e}}, err
		}
		return vC11Got{}, err
	}
	if payload == nil {
		return vC11Got{}, nil
	}
	return vC11Got{Frames: [][]byte{payload}}, nil
}

// vC11Switch lets one broker.Server serve the fresh handler of the current case.
type vC11Switch struct{ cur atomic.Pointer[handler] }

func (s *vC11Switch) Handle(ctx context.Context, header *protocol.RequestHeader, req kmsg.Request) ([]byte, error) {
	return s.cur.Load().Handle(ctx, header, req)
}

type vC11Wire struct {
	sw   *vC11Switch
	addr string
	stop context.CancelFunc
}

func vC11StartWire() (*vC11Wire, error) {
	sw := &vC11Switch{}
	srv := &broker.Server{Addr: "127.0.0.1:0", Handler: sw}
	ctx, cancel := context.WithCancel(context.Background())
	errc := make(chan error, 1)
	go func() { errc <- srv.ListenAndServe(ctx) }()
	for i := 0; i < 500; i++ {
		select {
		case err := <-errc:
			cancel()
			return nil, fmt.Errorf("broker.Server did not start: %v", err)
		default:
		}
		if a := srv.ListenAddress(); a != "127.0.0.1:0" {
			return &vC11Wire{sw: sw, addr: a, stop: cancel}, nil
		}
		time.Sleep(10 * time.Millisecond)
	}
	cancel()
	return nil, errors.New("broker.Server did not report a listen address")
}

// vC11Exchange writes the request followed by a sentinel ApiVersions v0 request and reads
// frames until the sentinel's reply or EOF: what arrived before belongs to the request.
// No timeouts are involved in the verdict.
func vC11Exchange(conn net.Conn, wire []byte) (vC11Got, error) {
	sent := kmsg.NewPtrApiVersionsRequest()
	sent.Version = 0
	go func() {
		_, _ = conn.Write(wire)
		_, _ = conn.Write(vC11Format(sent, vC11SentinelCorr))
	}()
	var got vC11Got
	for {
		f, err := protocol.ReadFrame(conn)
		if err != nil {
			if errors.Is(err, os.ErrDeadlineExceeded) {
				return got, errors.New("server did not answer or close within the liveness guard")
			}
			got.Closed = true
			return got, nil
		}
		if len(f.Payload) >= 4 && int32(binary.BigEndian.Uint32(f.Payload[:4])) == vC11SentinelCorr {
			return got, nil
		}
		got.Frames = append(got.Frames, f.Payload)
		if len(got.Frames) > 4 {
			return got, nil
		}
	}
}

func (w *vC11Wire) run(h *handler, wire []byte) (vC11Got, error) {
	w.sw.cur.Store(h)
	conn, err := net.Dial("tcp", w.addr)
	if err != nil {
		return vC11Got{}, err
	}
	defer conn.Close()
	_ = conn.SetDeadline(time.Now().Add(60 * time.Second)) // liveness guard only; expiry is a harness error
	return vC11Exchange(conn, wire)
}

func TestVerifC11(t *testing.T) {
	rep := vh.New(t, "C11")
	defer rep.Finish()
	rep.Rule = vC11Rule
	rep.Assumptions = []string{
		"broker half: handler = newHandler(metadata.InMemoryStore, fake S3) with default environment (no ACL, auto-create on, admin APIs on); every case starts from a fresh fixture",
		"standard client codec = franz-go kmsg v1.12 (request formatter, ResponseForKey(k).ReadFrom at the request version); for ApiVersions at a non-advertised version a v0 body with UNSUPPORTED_VERSION is accepted (KIP-511 downgrade implemented by standard clients)",
		"an ApiVersions entry with MaxVersion<0 advertises no version; its key is still probed at versions -2..1 as non-advertised",
		"inproc mode reproduces broker.Server.handleConnection (ReadFrame, ParseRequest, Handle, error reply) in the harness; wire mode uses the real broker.Server over loopback TCP for the cases that did not panic in-process",
	}

	// the advertised set, read at run time from the real function and from the real reply
	h0, _, err := vC11NewBroker("loaded")
	if err != nil {
		t.Fatalf("HARNESS-ERROR fixture: %v", err)
	}
	probe := kmsg.NewPtrApiVersionsRequest()
	probe.Version = 0
	g0, _ := vC11Inproc(h0, vC11Format(probe, 77))
	h0.coordinator.Stop()
	var fromReply []kmsg.ApiVersionsResponseApiKey
	if len(g0.Frames) == 1 && len(g0.Frames[0]) > 4 {
		ar := kmsg.NewPtrApiVersionsResponse()
		ar.Version = 0
		if ar.ReadFrom(g0.Frames[0][4:]) == nil {
			fromReply = ar.ApiKeys
		}
	}
	if len(fromReply) == 0 {
		rep.Violation("apiversions-v0-unusable:ApiVersions", "the broker's ApiVersions v0 reply could not be decoded; advertised set taken from generateApiVersions() only", vC11Case{Half: "broker", Mode: "inproc", Key: 18, Version: 0, Body: "empty"})
	}
	keys, adv, listed := vC11Advertised(generateApiVersions(), fromReply)
	advInfo := map[string]string{}
	nAdv := 0
	for _, k := range keys {
		if a, ok := adv[k]; ok {
			advInfo[fmt.Sprintf("%d %s", k, vC11Name(k))] = fmt.Sprintf("%d-%d", a.Min, a.Max)
			nAdv += int(a.Max-a.Min) + 1
		} else {
			advInfo[fmt.Sprintf("%d %s", k, vC11Name(k))] = "listed, no version advertised"
		}
	}
	rep.SetInfo("broker_advertised", advInfo)
	rep.SetInfo("broker_advertised_pairs", nAdv)
	below, above := vC11Window()
	rep.SetInfo("version_window", fmt.Sprintf("min-%d .. max+%d per listed key", below, above))
	rep.SetInfo("broker_fixtures", "loaded (topic t: 2 partitions, one batch in p0; group g stable, one member, committed offset) | bare (topic t without data, no group)")

	cases := vC11Cases("broker", []string{"loaded", "bare"}, []string{"inproc", "wire"}, keys, adv, listed)
	cases = append(cases, vC11Cases("broker", []string{"loaded+etcd-down", "loaded+acl-deny", "loaded+s3-unavailable"}, []string{"inproc"}, keys, adv, listed)...)
	var only vC11Case
	if replaying, err := vh.LoadReplay(&only); replaying {
		if err != nil {
			t.Fatalf("HARNESS-ERROR replay: %v", err)
		}
		if only.Half != "broker" {
			t.Skipf("replay is for half %q", only.Half)
		}
		cases = vC11Select(cases, only)
	}
	rep.SetInfo("broker_cases", len(cases))

	var wire *vC11Wire
	defer func() {
		if wire != nil {
			wire.stop()
		}
	}()
	shard, nshards := vh.Shard()
	deadline := vh.Deadline()
	panicked := map[string]bool{}
	corr := int32(1000)
	for i, c := range cases {
		if i%nshards != shard {
			continue
		}
		if time.Now().After(deadline) {
			rep.Cap(fmt.Sprintf("deadline reached after %d of %d cases", i, len(cases)))
			break
		}
		corr++
		body := vC11FindBody(c.Key, c.Body)
		h, fx, err := vC11NewBroker(c.Fixture)
		if err != nil {
			t.Fatalf("HARNESS-ERROR fixture: %v", err)
		}
		req := body.Build(c.Version, fx)
		if req == nil {
			h.coordinator.Stop()
			t.Fatalf("HARNESS-ERROR kmsg has no request type for listed key %d", c.Key)
		}
		wireBytes := vC11Format(req, corr)
		mustReply := c.Advertised && !vC11ProduceAcks0(req)
		id := fmt.Sprintf("%s/%d/%d/%s", c.Fixture, c.Key, c.Version, c.Body)
		switch c.Mode {
		case "inproc":
			got, herr := vC11Inproc(h, wireBytes)
			if herr != nil {
				rep.Count("handle_returned_error", 1)
				if c.Advertised {
					rep.Count("handle_returned_error_on_advertised", 1)
					vC11Note(rep, c, "handle-error-on-advertised")
				}
			}
			if got.Panic != "" {
				panicked[id] = true
			}
			vC11Judge(rep, c, req, corr, got, mustReply)
		case "wire":
			if panicked[id] || (nshards > 1 && vC11WouldPanic(c, corr)) {
				// a panic in a connection goroutine of the real server kills the process; the
				// in-process pass already reported it
				rep.Count("wire_skipped_after_inproc_panic", 1)
				h.coordinator.Stop()
				continue
			}
			if wire == nil {
				if wire, err = vC11StartWire(); err != nil {
					h.coordinator.Stop()
					t.Fatalf("HARNESS-ERROR %v", err)
				}
			}
			got, err := wire.run(h, wireBytes)
			if err != nil {
				h.coordinator.Stop()
				t.Fatalf("HARNESS-ERROR wire: %v", err)
			}
			vC11Judge(rep, c, req, corr, got, mustReply)
		}
		h.coordinator.Stop()
	}
}

// vC11WouldPanic re-runs a case in-process on its own fixture (used only when the work is
// sharded, so the wire pass cannot rely on this process having run the inproc twin).
func vC11WouldPanic(c vC11Case, corr int32) bool {
	h, fx, err := vC11NewBroker(c.Fixture)
	if err != nil {
		return true
	}
	defer h.coordinator.Stop()
	req := vC11FindBody(c.Key, c.Body).Build(c.Version, fx)
	got, _ := vC11Inproc(h, vC11Format(req, corr))
	return got.Panic != ""
}
