//go:build verif

package main

import (
	"context"
	"encoding/binary"
	"fmt"
	"sort"
	"strconv"
	"strings"
	"sync"
	"testing"
	"testing/synctest"
	"time"

	"github.com/KafScale/platform/internal/verif/enum"
	"github.com/KafScale/platform/internal/verif/fakes3"
	"github.com/KafScale/platform/internal/verif/vh"
	"github.com/KafScale/platform/pkg/broker"
	"github.com/KafScale/platform/pkg/metadata"
	"github.com/KafScale/platform/pkg/protocol"
	"github.com/KafScale/platform/pkg/storage"
	"github.com/twmb/franz-go/pkg/kmsg"
)

// C25 part (iii): the S3 rating changes DURING one multi-partition request.
//
// One produce (flush-on-ack, acks 1/-1) or fetch (freshly started broker: empty cache, no
// open partition logs) over 2-3 partitions of one or two topics goes through the real
// handler. The S3 fake gives every S3 call of the request an outcome {ok, fail, ok but as
// slow as the critical latency}; every assignment of outcomes to the calls the request
// actually makes is enumerated (depth-first over the calls in the order they are made).
// At the entry of every S3 call the fake reads the broker's own rating from the real
// monitor. The rating under which a partition was handled is
//   - the rating read at the partition's first S3 call of the request, or
//   - for a partition that made no S3 call: the rating read at the next observation after
//     it (first S3 call of a later partition of the request, else right after the
//     request) -- no sample is recorded and no virtual time passes in between.
// A partition handled under degraded/unavailable must not be acknowledged / must carry no
// record bytes, must get REQUEST_TIMED_OUT or UNKNOWN_SERVER_ERROR, and (produce) nothing
// of it may be appended, uploaded or published.

type c25TP struct {
	Topic string `json:"topic"`
	Part  int32  `json:"partition"`
}

func (p c25TP) String() string { return fmt.Sprintf("%s/%d", p.Topic, p.Part) }

type c25MidShape struct {
	Name  string
	Parts []c25TP // request order; neighbours of one topic share a topic entry
}

var c25MidTopics = map[string]int{"t": 3, "u": 2}

func c25MidShapes() []c25MidShape {
	return []c25MidShape{
		{"t[0,1]", []c25TP{{"t", 0}, {"t", 1}}},
		{"t[1,0]", []c25TP{{"t", 1}, {"t", 0}}},
		{"t[0] u[0]", []c25TP{{"t", 0}, {"u", 0}}},
		{"t[0,1,2]", []c25TP{{"t", 0}, {"t", 1}, {"t", 2}}},
		{"t[0,1] u[0]", []c25TP{{"t", 0}, {"t", 1}, {"u", 0}}},
		{"u[1] t[2,0]", []c25TP{{"u", 1}, {"t", 2}, {"t", 0}}},
	}
}

type c25MidCfg struct {
	Name string
	Cfg  func() broker.S3HealthConfig
}

func c25MidCfgs() []c25MidCfg {
	return []c25MidCfg{
		{"broker-defaults(err0.2/0.6 lat500ms/3s)", s3HealthConfigFromEnv},
		{"tolerant(err0.6/0.9 lat2s/5s)", func() broker.S3HealthConfig {
			return broker.S3HealthConfig{ErrorWarn: 0.6, ErrorCrit: 0.9, LatencyWarn: 2 * time.Second, LatencyCrit: 5 * time.Second}
		}},
	}
}

// outcomes of one S3 call
const (
	c25OutOK   = 0
	c25OutFail = 1
	c25OutSlow = 2 // succeeds after the critical latency
	c25NOut    = 3
)

var c25OutName = [c25NOut]string{"ok", "FAIL", "slow-ok"}

type c25MidObs struct {
	Slot    string
	PartIx  int // index of the partition in the request, -1 = not a partition of the request
	Rating  broker.S3HealthState
	Outcome int
	At      time.Duration
}

// c25MidS3 wraps the in-memory bucket client. While armed, each data call takes virtual
// time (index upload 1ms, everything else 2ms, slow = critical latency: the two uploads of
// one flush, which the broker issues concurrently, thereby enter at the same virtual instant
// and complete in a fixed order), follows the plan, honours a cancelled context like a real
// client, and logs the broker's rating read at its entry.
type c25MidS3 struct {
	*fakes3.Client
	mu     sync.Mutex
	armed  bool
	t0     time.Time
	rating func() broker.S3HealthState
	index  map[c25TP]int
	plan   map[string]int
	nth    map[string]int
	obs    []c25MidObs
	slow   time.Duration
}

func c25KeyTP(key string) (c25TP, bool) {
	parts := strings.Split(strings.TrimSuffix(key, "/"), "/")
	if len(parts) < 3 {
		return c25TP{}, false
	}
	n, err := strconv.Atoi(parts[len(parts)-2])
	if err != nil {
		return c25TP{}, false
	}
	return c25TP{Topic: parts[len(parts)-3], Part: int32(n)}, true
}

func (s *c25MidS3) enter(op, key string) (int, bool) {
	s.mu.Lock()
	defer s.mu.Unlock()
	if !s.armed {
		return 0, false
	}
	tp, ok := c25KeyTP(key)
	base := tp.String() + ":" + op
	s.nth[base]++
	slot := fmt.Sprintf("%s#%d", base, s.nth[base])
	ix := -1
	if ok {
		if i, f := s.index[tp]; f {
			ix = i
		}
	}
	out := s.plan[slot]
	s.obs = append(s.obs, c25MidObs{Slot: slot, PartIx: ix, Rating: s.rating(), Outcome: out, At: time.Since(s.t0)})
	return out, true
}

// wait plays the planned outcome; it returns an error when the call is to fail.
func (s *c25MidS3) wait(ctx context.Context, op, key string, base time.Duration) (bool, error) {
	out, armed := s.enter(op, key)
	if !armed {
		return false, nil
	}
	switch out {
	case c25OutFail:
		time.Sleep(base)
		return true, c25ErrS3
	case c25OutSlow:
		time.Sleep(s.slow)
	default:
		time.Sleep(base)
	}
	return true, ctx.Err()
}

func (s *c25MidS3) UploadSegment(ctx context.Context, key string, body []byte) error {
	if _, err := s.wait(ctx, "UploadSegment", key, 2*time.Millisecond); err != nil {
		return err
	}
	return s.Client.UploadSegment(ctx, key, body)
}

func (s *c25MidS3) UploadIndex(ctx context.Context, key string, body []byte) error {
	if _, err := s.wait(ctx, "UploadIndex", key, time.Millisecond); err != nil {
		return err
	}
	return s.Client.UploadIndex(ctx, key, body)
}

func (s *c25MidS3) DownloadSegment(ctx context.Context, key string, rng *storage.ByteRange) ([]byte, error) {
	if _, err := s.wait(ctx, "DownloadSegment", key, 2*time.Millisecond); err != nil {
		return nil, err
	}
	return s.Client.DownloadSegment(ctx, key, rng)
}

func (s *c25MidS3) DownloadIndex(ctx context.Context, key string) ([]byte, error) {
	if _, err := s.wait(ctx, "DownloadIndex", key, 2*time.Millisecond); err != nil {
		return nil, err
	}
	return s.Client.DownloadIndex(ctx, key)
}

// ListSegments is not a sample of the monitor (the broker does not record it): always ok.

type c25MidCase struct {
	Part  string         `json:"part"` // "midrequest"
	Kind  string         `json:"kind"` // produce | fetch
	Shape string         `json:"shape"`
	Req   []c25TP        `json:"request"`
	Cfg   string         `json:"monitor_config"`
	Pre   int            `json:"ok_samples_in_window_before"`
	Acks  int16          `json:"acks,omitempty"`
	Plan  map[string]int `json:"s3_plan"` // call -> 1 fail, 2 slow (absent: ok)
	Trace []string       `json:"trace,omitempty"`
}

type c25MidPart struct {
	TP      c25TP
	Present bool
	Code    int16
	Base    int64
	Bytes   int
	Rating  broker.S3HealthState // rating under which the partition was handled ("" = not determined)
	Source  string
	Calls   int
	Changed string // produce: what of the partition changed over the request ("" = nothing)
}

type c25MidViol struct{ Key, Detail string }

type c25MidRun struct {
	Used      []string // S3 calls made, in canonical order
	Parts     []c25MidPart
	T0, TEnd  broker.S3HealthState
	Err       error
	Viol      []c25MidViol
	Trace     []string
	Unordered bool
}

type c25PartSnap struct {
	Next, Buffered int64
	Keys           string
}

func c25SnapPart(h *handler, store *metadata.InMemoryStore, b *fakes3.Bucket, tp c25TP) c25PartSnap {
	var s c25PartSnap
	n, err := store.NextOffset(bg(), tp.Topic, tp.Part)
	if err != nil {
		n = -1
	}
	s.Next = n
	s.Buffered = -1
	h.logMu.RLock()
	if pl := h.logs[tp.Topic][tp.Part]; pl != nil {
		s.Buffered = pl.BufferedHighWatermark()
	}
	h.logMu.RUnlock()
	var keys []string
	for _, k := range b.Keys() {
		if ktp, ok := c25KeyTP(k); ok && ktp == tp {
			keys = append(keys, k)
		}
	}
	s.Keys = strings.Join(keys, ",")
	return s
}

func c25MidConfigure(h *handler) {
	h.logConfig.ReadAheadSegments = 0
	h.readAhead = 0
	h.flushOnAck = true
	h.authorizer = nil
}

// c25MidExec runs one case on a fresh world. Must be called inside a synctest bubble.
func c25MidExec(c c25MidCase, cfg broker.S3HealthConfig) (run c25MidRun) {
	bucket := fakes3.NewBucket()
	inner := fakes3.New(bucket, "b1")
	inner.NoPoints = true
	s3 := &c25MidS3{Client: inner}
	store := metadata.NewInMemoryStore(vMeta(c25MidTopics))
	h := newHandler(store, s3, vBroker, vLogger())
	c25MidConfigure(h)
	handlers := []*handler{h}
	defer func() {
		for _, x := range handlers {
			x.coordinator.Stop()
		}
		synctest.Wait()
	}()
	// existing data: one acknowledged batch of two records in every partition
	seed := map[string]map[int32][]byte{}
	nparts := 0
	for tn, np := range c25MidTopics {
		seed[tn] = map[int32][]byte{}
		for p := 0; p < np; p++ {
			seed[tn][int32(p)] = enum.SimpleBatch(fmt.Sprintf("seed%s%d", tn, p), 2, 6)
			nparts++
		}
	}
	res, err := vProduce(h, -1, seed)
	if err != nil || len(res) != nparts {
		panic(fmt.Sprintf("HARNESS-ERROR c25 midrequest setup produce: %v %+v", err, res))
	}
	for _, r := range res {
		if r.Code != 0 {
			panic(fmt.Sprintf("HARNESS-ERROR c25 midrequest setup produce: %+v", res))
		}
	}
	if c.Kind == "fetch" {
		// a freshly started broker on the same bucket and metadata: nothing cached, no partition log open
		h = newHandler(store, s3, vBroker, vLogger())
		c25MidConfigure(h)
		handlers = append(handlers, h)
	}
	h.s3Health = broker.NewS3HealthMonitor(cfg)
	_, _, crit := c25Effective(cfg)
	for i := 0; i < c.Pre; i++ {
		h.recordS3Op("verif", 0, nil)
	}
	s3.rating = h.s3Health.State
	s3.slow = crit
	s3.index = map[c25TP]int{}
	for i, tp := range c.Req {
		s3.index[tp] = i
	}
	s3.plan = c.Plan
	s3.nth = map[string]int{}
	run.Parts = make([]c25MidPart, len(c.Req))
	before := make([]c25PartSnap, len(c.Req))
	for i, tp := range c.Req {
		run.Parts[i].TP = tp
		before[i] = c25SnapPart(h, store, bucket, tp)
	}
	run.T0 = h.s3Health.State()
	s3.mu.Lock()
	s3.t0 = time.Now()
	s3.armed = true
	s3.mu.Unlock()

	switch c.Kind {
	case "produce":
		run.Err = c25MidProduce(h, c, run.Parts)
	case "fetch":
		run.Err = c25MidFetch(h, c, run.Parts)
	default:
		panic("c25 midrequest: unknown kind " + c.Kind)
	}

	run.TEnd = h.s3Health.State()
	s3.mu.Lock()
	s3.armed = false
	obs := append([]c25MidObs(nil), s3.obs...)
	s3.mu.Unlock()
	sort.SliceStable(obs, func(i, j int) bool {
		if obs[i].At != obs[j].At {
			return obs[i].At < obs[j].At
		}
		return obs[i].Slot < obs[j].Slot
	})
	last := -1
	for _, o := range obs {
		run.Used = append(run.Used, o.Slot)
		run.Trace = append(run.Trace, fmt.Sprintf("+%v %s %s (rated %s at entry)", o.At, o.Slot, c25OutName[o.Outcome], o.Rating))
		if o.PartIx < 0 {
			continue
		}
		if o.PartIx < last {
			run.Unordered = true
		}
		last = o.PartIx
		p := &run.Parts[o.PartIx]
		p.Calls++
		if p.Calls == 1 {
			p.Rating, p.Source = o.Rating, "its first S3 call"
		}
	}
	// partitions without an S3 call: the next observation (only if the calls seen came in request order)
	if !run.Unordered {
		for i := range run.Parts {
			p := &run.Parts[i]
			if p.Calls > 0 {
				continue
			}
			p.Rating, p.Source = run.TEnd, "the end of the request (no S3 call after it)"
			for _, o := range obs {
				if o.PartIx > i {
					p.Rating, p.Source = o.Rating, "the next S3 call of the request ("+o.Slot+")"
					break
				}
			}
		}
	}
	if c.Kind == "produce" {
		for i, tp := range c.Req {
			after := c25SnapPart(h, store, bucket, tp)
			if after != before[i] {
				run.Parts[i].Changed = fmt.Sprintf("before %+v after %+v", before[i], after)
			}
		}
	}
	run.Trace = append([]string{fmt.Sprintf("rated %s before the request", run.T0)}, run.Trace...)
	for _, p := range run.Parts {
		run.Trace = append(run.Trace, fmt.Sprintf("reply %s: present=%v code=%d bytes=%d handled under %q (read at %s)", p.TP, p.Present, p.Code, p.Bytes, p.Rating, p.Source))
	}
	run.Trace = append(run.Trace, fmt.Sprintf("rated %s after the request", run.TEnd))
	run.Viol = c25MidJudge(c, &run)
	return run
}

func c25MidJudge(c c25MidCase, run *c25MidRun) []c25MidViol {
	var v []c25MidViol
	add := func(key, f string, a ...any) { v = append(v, c25MidViol{key, fmt.Sprintf(f, a...)}) }
	anyBad := run.TEnd != broker.S3StateHealthy
	for _, p := range run.Parts {
		if p.Rating != "" && p.Rating != broker.S3StateHealthy {
			anyBad = true
		}
	}
	if run.Err != nil {
		if anyBad {
			add("midrequest-"+c.Kind+"-request-failed", "handler returned error %v instead of per-partition backpressure codes", run.Err)
		}
		return v
	}
	for _, p := range run.Parts {
		if p.Rating == "" || p.Rating == broker.S3StateHealthy {
			continue
		}
		r := string(p.Rating)
		where := fmt.Sprintf("partition %s was handled while S3 was rated %s (rating read at %s)", p.TP, r, p.Source)
		if !p.Present {
			add("midrequest-"+c.Kind+"-partition-entry-missing-while-"+r, "%s but the reply has no entry for it", where)
			continue
		}
		switch c.Kind {
		case "produce":
			switch {
			case p.Code == 0:
				add("midrequest-produce-acked-while-"+r, "%s and was acknowledged at base offset %d", where, p.Base)
			case !c25Backpressure(p.Code):
				add("midrequest-produce-non-backpressure-code-while-"+r, "%s and got error code %d", where, p.Code)
			}
			if p.Changed != "" {
				add("midrequest-produce-wrote-while-"+r, "%s yet its offsets/buffer/objects changed (%d S3 calls made for it): %s", where, p.Calls, p.Changed)
			}
		case "fetch":
			switch {
			case p.Bytes > 0:
				add("midrequest-fetch-returned-data-while-"+r, "%s and got %d record bytes (code %d)", where, p.Bytes, p.Code)
			case !c25Backpressure(p.Code):
				add("midrequest-fetch-non-backpressure-code-while-"+r, "%s and got code %d", where, p.Code)
			}
		}
	}
	return v
}

// c25MidProduce sends the partitions in the given order (neighbours of one topic share a topic entry).
func c25MidProduce(h *handler, c c25MidCase, out []c25MidPart) error {
	req := kmsg.NewPtrProduceRequest()
	req.Version = 7
	req.Acks = c.Acks
	req.TimeoutMillis = 1000
	for i, tp := range c.Req {
		if i == 0 || c.Req[i-1].Topic != tp.Topic {
			t := kmsg.NewProduceRequestTopic()
			t.Topic = tp.Topic
			req.Topics = append(req.Topics, t)
		}
		pp := kmsg.NewProduceRequestTopicPartition()
		pp.Partition = tp.Part
		pp.Records = enum.SimpleBatch(fmt.Sprintf("m%s%d", tp.Topic, tp.Part), 1, 6)
		t := &req.Topics[len(req.Topics)-1]
		t.Partitions = append(t.Partitions, pp)
	}
	hdr := &protocol.RequestHeader{APIKey: 0, APIVersion: 7, CorrelationID: 7}
	raw, err := h.handleProduce(context.Background(), hdr, req)
	if err != nil {
		return err
	}
	if len(raw) < 4 || int32(binary.BigEndian.Uint32(raw[:4])) != 7 {
		return fmt.Errorf("bad produce reply frame (%d bytes)", len(raw))
	}
	resp := kmsg.NewPtrProduceResponse()
	resp.Version = 7
	if err := resp.ReadFrom(raw[4:]); err != nil {
		return fmt.Errorf("decode produce reply: %w", err)
	}
	for _, t := range resp.Topics {
		for _, p := range t.Partitions {
			for i := range out {
				if out[i].TP == (c25TP{t.Topic, p.Partition}) && !out[i].Present {
					out[i].Present, out[i].Code, out[i].Base = true, p.ErrorCode, p.BaseOffset
					break
				}
			}
		}
	}
	return nil
}

func c25MidFetch(h *handler, c c25MidCase, out []c25MidPart) error {
	req := kmsg.NewPtrFetchRequest()
	req.Version = 11
	req.MaxWaitMillis = 0
	req.MaxBytes = 1 << 30
	for i, tp := range c.Req {
		if i == 0 || c.Req[i-1].Topic != tp.Topic {
			t := kmsg.NewFetchRequestTopic()
			t.Topic = tp.Topic
			req.Topics = append(req.Topics, t)
		}
		fp := kmsg.NewFetchRequestTopicPartition()
		fp.Partition = tp.Part
		fp.FetchOffset = 0
		fp.PartitionMaxBytes = 1 << 20
		t := &req.Topics[len(req.Topics)-1]
		t.Partitions = append(t.Partitions, fp)
	}
	hdr := &protocol.RequestHeader{APIKey: 1, APIVersion: 11, CorrelationID: 9}
	raw, err := h.Handle(context.Background(), hdr, req)
	if err != nil {
		return err
	}
	if len(raw) < 4 {
		return fmt.Errorf("bad fetch reply frame (%d bytes)", len(raw))
	}
	resp := kmsg.NewPtrFetchResponse()
	resp.Version = 11
	if err := resp.ReadFrom(raw[4:]); err != nil {
		return fmt.Errorf("decode fetch reply: %w", err)
	}
	for _, t := range resp.Topics {
		for _, p := range t.Partitions {
			for i := range out {
				if out[i].TP == (c25TP{t.Topic, p.Partition}) && !out[i].Present {
					out[i].Present, out[i].Code, out[i].Bytes = true, p.ErrorCode, len(p.RecordBatches)
					break
				}
			}
		}
	}
	return nil
}

func c25MidCfgByName(name string) (broker.S3HealthConfig, bool) {
	for _, c := range c25MidCfgs() {
		if c.Name == name {
			return c.Cfg(), true
		}
	}
	return broker.S3HealthConfig{}, false
}

func c25MidPlanString(used []string, plan map[string]int) string {
	var parts []string
	for _, s := range used {
		parts = append(parts, s+"="+c25OutName[plan[s]])
	}
	return strings.Join(parts, " ")
}

func c25MidRequestPart(t *testing.T, rep *vh.Report, deadline time.Time) {
	shard, nshards := vh.Shard()
	shapes, cfgs := c25MidShapes(), c25MidCfgs()
	pres := []int{0, 4}
	type world struct {
		c   c25MidCase
		cfg broker.S3HealthConfig
	}
	var worlds []world
	for _, sh := range shapes { // simplest first
		for _, pre := range pres {
			for ci, cf := range cfgs {
				// quick tier: the tolerant configuration (where few assignments turn the rating, so the
				// tree of assignments is widest) only for 2-partition requests on an empty window
				if ci > 0 && !vh.Thorough() && (pre > 0 || len(sh.Parts) > 2) {
					continue
				}
				for _, acks := range []int16{1, -1} {
					worlds = append(worlds, world{c25MidCase{Part: "midrequest", Kind: "produce", Shape: sh.Name, Req: sh.Parts, Cfg: cf.Name, Pre: pre, Acks: acks}, cf.Cfg()})
				}
				worlds = append(worlds, world{c25MidCase{Part: "midrequest", Kind: "fetch", Shape: sh.Name, Req: sh.Parts, Cfg: cf.Name, Pre: pre}, cf.Cfg()})
			}
		}
	}
	var shapeNames, cfgNames []string
	for _, s := range shapes {
		shapeNames = append(shapeNames, s.Name)
	}
	for _, c := range cfgs {
		cfgNames = append(cfgNames, c.Name)
	}
	rep.SetInfo("midrequest_request_shapes", shapeNames)
	rep.SetInfo("midrequest_monitor_configs", cfgNames)
	rep.SetInfo("midrequest_ok_samples_before", pres)
	rep.SetInfo("midrequest_worlds", len(worlds))
	if !vh.Thorough() {
		rep.SetInfo("midrequest_quick_bound", "second (tolerant) monitor configuration only for 2-partition requests with an empty window; thorough: all combinations")
	}
	rep.SetInfo("midrequest_s3_call_outcomes", "ok | fail | ok after the critical latency; every assignment to the S3 calls the request makes (segment+index upload per produced partition; footer, index and data download per fetched partition)")
	var cases, judged, turned, ackedThenRejected, unordered int64
	nv := map[string]int{}
	for wi, w := range worlds {
		if wi%nshards != shard {
			continue
		}
		plan := map[string]int{}
		for {
			if time.Now().After(deadline) {
				rep.Cap("deadline before all S3 outcome assignments of the mid-request part were enumerated")
				return
			}
			c := w.c
			c.Plan = plan
			var run c25MidRun
			synctest.Test(t, func(*testing.T) { run = c25MidExec(c, w.cfg) })
			cases++
			rep.Eval(1)
			usedSet := map[string]bool{}
			for _, s := range run.Used {
				usedSet[s] = true
			}
			for s, o := range plan {
				if o != 0 && !usedSet[s] {
					t.Fatalf("HARNESS-ERROR c25 midrequest: planned S3 call %s was not made (plan %v, calls %v): the request is not deterministic", s, plan, run.Used)
				}
			}
			if run.Unordered {
				unordered++
			}
			// the experiment must work: nothing injected, healthy before => every partition served
			if len(plan) == 0 && run.T0 == broker.S3StateHealthy {
				for _, p := range run.Parts {
					if run.Err != nil || !p.Present || p.Code != 0 || (c.Kind == "fetch" && p.Bytes == 0) {
						t.Fatalf("HARNESS-ERROR c25 midrequest: fault-free %s %s not served: err=%v %+v", c.Kind, c.Shape, run.Err, run.Parts)
					}
				}
			}
			// outcome signature
			sig := fmt.Sprintf("mid|%s|%s|%s|pre%d|acks%d|%s", c.Kind, c.Shape, c.Cfg, c.Pre, c.Acks, run.T0)
			turn, served, rejectedAfterServed := false, false, false
			for _, p := range run.Parts {
				sig += fmt.Sprintf("|%s:%d:%v:%d", p.Rating, p.Code, p.Bytes > 0, p.Calls)
				if p.Rating != "" && p.Rating != broker.S3StateHealthy {
					judged++
					turn = turn || run.T0 == broker.S3StateHealthy
					if served && p.Present && p.Code != 0 {
						rejectedAfterServed = true
					}
				} else if p.Present && p.Code == 0 {
					served = true
				}
			}
			if turn {
				turned++
			}
			if rejectedAfterServed {
				ackedThenRejected++
			}
			rep.Outcome(sig, turn)
			if turn && rejectedAfterServed && len(c.Req) == 3 && rep.WantSample() {
				rep.Sample(map[string]any{"part": "midrequest", "case": c, "s3_calls": c25MidPlanString(run.Used, plan), "trace": run.Trace})
			}
			for _, x := range run.Viol {
				nv[x.Key]++
				if nv[x.Key] > 3 {
					rep.Violation(x.Key, "", nil)
					continue
				}
				rc := c
				rc.Plan = map[string]int{}
				for k, o := range plan {
					rc.Plan[k] = o
				}
				rc.Trace = run.Trace
				rep.Violation(x.Key, fmt.Sprintf("%s %s, monitor %s, %d ok samples in the window before, S3 calls [%s]: %s | %s",
					c.Kind, c.Shape, c.Cfg, c.Pre, c25MidPlanString(run.Used, plan), x.Detail, strings.Join(run.Trace, " ; ")), rc)
			}
			// next assignment: depth-first over the calls actually made
			i := len(run.Used) - 1
			for i >= 0 && plan[run.Used[i]] == c25NOut-1 {
				i--
			}
			if i < 0 {
				break
			}
			next := map[string]int{}
			for _, s := range run.Used[:i] {
				if plan[s] != 0 {
					next[s] = plan[s]
				}
			}
			next[run.Used[i]] = plan[run.Used[i]] + 1
			plan = next
		}
	}
	rep.Count("midrequest_cases", cases)
	rep.Count("midrequest_partitions_handled_while_unhealthy", judged)
	rep.Count("midrequest_cases_rating_turned_during_request", turned)
	rep.Count("midrequest_cases_served_then_rejected", ackedThenRejected)
	rep.Count("midrequest_cases_calls_not_in_request_order", unordered)
}

func c25MidReplay(t *testing.T, rep *vh.Report) {
	var c c25MidCase
	if _, err := vh.LoadReplay(&c); err != nil {
		t.Fatalf("HARNESS-ERROR replay: %v", err)
	}
	cfg, ok := c25MidCfgByName(c.Cfg)
	if !ok {
		t.Fatalf("HARNESS-ERROR replay: unknown monitor config %q", c.Cfg)
	}
	if c.Plan == nil {
		c.Plan = map[string]int{}
	}
	var run c25MidRun
	synctest.Test(t, func(*testing.T) { run = c25MidExec(c, cfg) })
	rep.Eval(1)
	rep.Outcome("replay|"+strings.Join(run.Trace, ";"), true)
	rep.Outcome("replay|ran", true)
	for _, x := range run.Viol {
		c.Trace = run.Trace
		rep.Violation(x.Key, x.Detail+" | "+strings.Join(run.Trace, " ; "), c)
	}
}
