//go:build verif

package main

import (
	"context"
	"fmt"
	"sort"
	"strings"
	"sync/atomic"
	"testing"
	"testing/synctest"

	"github.com/KafScale/platform/internal/verif/enum"
	"github.com/KafScale/platform/internal/verif/fakeetcd"
	"github.com/KafScale/platform/internal/verif/fakes3"
	"github.com/KafScale/platform/internal/verif/vh"
	"github.com/KafScale/platform/pkg/metadata"
)

// C19: with partition leasing active, a produce to partition p is acknowledged only if
// this broker held p's lease when it appended; otherwise NOT_LEADER_OR_FOLLOWER (another
// owner) or a retriable error, and nothing is written.
//
// Enumerated: lease state of t/0 and t/1 x etcd reachable or not x request shape x acks,
// on the real handler with a real PartitionLeaseManager (and a second broker's manager)
// over the fake etcd. Sequential: the lease state cannot change during the request, so
// "held when it appended" is the manager's belief right after the request.
//
// Second dimension (c19Case.Avail != nil): etcd itself reachable, but the metadata store's
// Available() flag - what handler.etcdAvailable() reads, and what in production follows the
// outcome of the latest etcd operation of ANY goroutine - answers per call from an enumerated
// bit vector: the k-th call during the request answers Avail[k] (true afterwards). Every vector
// of length c19AvailLen is covered; a run that consumed k answers stands for all vectors that
// share these k answers (the handler is sequential in its Available() calls, hence deterministic).

const (
	c19Unowned      = iota // nobody holds the lease
	c19Mine                // this broker acquired it earlier
	c19Other               // broker 2 holds it
	c19MineExpired         // this broker held it, its session expired (monitor cleared ownership)
	c19OtherExpired        // broker 2 held it, its session expired
	c19MineStolen          // this broker's session expired and broker 2 acquired the lease since
	c19Restarted           // a previous incarnation of this broker (same id) held it; this incarnation re-acquired it; the old incarnation's session then expired
	c19RestartedRace       // as c19Restarted, and broker 2 then tried to acquire it
	c19States
)

var c19StateNames = []string{"unowned", "mine", "other", "mine-expired", "other-expired", "mine-expired-then-other", "mine-reacquired-after-restart-old-session-expired", "mine-reacquired-after-restart-old-session-expired-then-other-tries"}

type c19Case struct {
	State    [2]int
	EtcdDown bool
	Parts    int // bitmask: 1 = t/0, 2 = t/1, 4 = unknown topic u/0
	Acks     int16
	Avail    []bool `json:",omitempty"` // answers of the store's Available() during the request, in call order (true afterwards); nil = store without availability flag
}

const c19AvailLen = 6

// c19AvailStore is a metadata.Store whose Available() (the handler's etcdAvailability interface)
// answers from a per-call script once armed.
type c19AvailStore struct {
	metadata.Store
	answers []bool
	armed   atomic.Bool
	calls   atomic.Int32
}

func (s *c19AvailStore) Available() bool {
	if !s.armed.Load() {
		return true
	}
	k := int(s.calls.Add(1)) - 1
	if k < len(s.answers) {
		return s.answers[k]
	}
	return true
}

func c19AvailString(a []bool) string {
	if a == nil {
		return "-"
	}
	b := make([]byte, len(a))
	for i, v := range a {
		b[i] = 'U'
		if !v {
			b[i] = 'd'
		}
	}
	return string(b)
}

func (c c19Case) String() string {
	if c.Avail != nil {
		return fmt.Sprintf("t/0=%s t/1=%s storeAvailable()=%s(then up) parts=%03b acks=%d", c19StateNames[c.State[0]], c19StateNames[c.State[1]], c19AvailString(c.Avail), c.Parts, c.Acks)
	}
	return fmt.Sprintf("t/0=%s t/1=%s etcdDown=%v parts=%03b acks=%d", c19StateNames[c.State[0]], c19StateNames[c.State[1]], c.EtcdDown, c.Parts, c.Acks)
}

// c19Run executes one case; it returns the number of Available() answers the request consumed.
func c19Run(rep *vh.Report, c c19Case) (consumed int) {
	srv := fakeetcd.NewServer()
	cli1 := srv.NewClient("b1")
	cli1.NoPoints = true
	cli2 := srv.NewClient("b2")
	cli2.NoPoints = true
	lm1 := metadata.NewPartitionLeaseManager(cli1.C, metadata.PartitionLeaseConfig{BrokerID: "1", Logger: vLogger()})
	lm2 := metadata.NewPartitionLeaseManager(cli2.C, metadata.PartitionLeaseConfig{BrokerID: "2", Logger: vLogger()})
	ctx := context.Background()
	expire := func() {
		for _, id := range srv.LiveLeases() {
			srv.ExpireLease(id)
		}
		synctest.Wait() // monitorSession goroutines clear ownership
	}
	// stage 1: leases that will expire
	needExpire := false
	for p, st := range c.State {
		switch st {
		case c19MineExpired, c19MineStolen:
			_ = lm1.Acquire(ctx, "t", int32(p))
			needExpire = true
		case c19OtherExpired:
			_ = lm2.Acquire(ctx, "t", int32(p))
			needExpire = true
		}
	}
	if needExpire {
		expire()
	}
	// stage 1b: restart. The previous incarnation's lease key is still in etcd when the new incarnation
	// acquires; only the OLD incarnation's session lease expires afterwards.
	for p, st := range c.State {
		if st != c19Restarted && st != c19RestartedRace {
			continue
		}
		before := map[int64]bool{}
		for _, id := range srv.LiveLeases() {
			before[id] = true
		}
		cli0 := srv.NewClient(fmt.Sprintf("b1.old%d", p))
		cli0.NoPoints = true
		lm0 := metadata.NewPartitionLeaseManager(cli0.C, metadata.PartitionLeaseConfig{BrokerID: "1", Logger: vLogger()})
		_ = lm0.Acquire(ctx, "t", int32(p))
		var old []int64
		for _, id := range srv.LiveLeases() {
			if !before[id] {
				old = append(old, id)
			}
		}
		_ = lm1.Acquire(ctx, "t", int32(p)) // the restarted broker takes its partition back
		for _, id := range old {
			srv.ExpireLease(id)
		}
		synctest.Wait()
	}
	// stage 2: live leases
	for p, st := range c.State {
		switch st {
		case c19RestartedRace:
			_ = lm2.Acquire(ctx, "t", int32(p))
		case c19Mine:
			_ = lm1.Acquire(ctx, "t", int32(p))
		case c19Other, c19MineStolen:
			_ = lm2.Acquire(ctx, "t", int32(p))
		}
	}
	bucket := fakes3.NewBucket()
	s3 := fakes3.New(bucket, "b1")
	s3.NoPoints = true
	var store metadata.Store = metadata.NewInMemoryStore(vMeta(map[string]int{"t": 2}))
	var avail *c19AvailStore
	if c.Avail != nil {
		avail = &c19AvailStore{Store: store, answers: c.Avail}
		store = avail
	}
	h := vNewHandler(store, s3)
	h.leaseManager = lm1
	h.autoCreateTopics = false
	h.logConfig.Buffer.FlushInterval = 0
	h.logConfig.ReadAheadSegments = 0
	defer h.coordinator.Stop()
	if c.EtcdDown {
		cli1.SetUnavailable(true)
	}
	parts := map[string]map[int32][]byte{}
	sent := map[string][]byte{}
	add := func(topic string, p int32) {
		if parts[topic] == nil {
			parts[topic] = map[int32][]byte{}
		}
		b := enum.SimpleBatch(fmt.Sprintf("%s%d", topic, p), 1, 4)
		parts[topic][p] = b
		sent[fmt.Sprintf("%s/%d", topic, p)] = b
	}
	if c.Parts&1 != 0 {
		add("t", 0)
	}
	if c.Parts&2 != 0 {
		add("t", 1)
	}
	if c.Parts&4 != 0 {
		add("u", 0)
	}
	if avail != nil {
		avail.armed.Store(true)
	}
	res, err := vProduce(h, c.Acks, parts)
	sawDown := false
	if avail != nil {
		avail.armed.Store(false)
		consumed = int(avail.calls.Load())
		for k := 0; k < consumed && k < len(c.Avail); k++ {
			if !c.Avail[k] {
				sawDown = true
			}
		}
	}
	rep.Eval(1)
	if err != nil {
		rep.Violationf("harness", c, "produce: %v", err)
		return
	}
	keys := bucket.Keys()
	written := func(topic string, p int32) bool {
		for _, k := range keys {
			if strings.HasPrefix(k, fmt.Sprintf("default/%s/%d/", topic, p)) {
				return true
			}
		}
		return false
	}
	var sig []string
	if c.Acks == 0 {
		// no reply: only "written => lease held" can be judged
		for tp := range sent {
			var topic string
			var p int32
			fmt.Sscanf(strings.Replace(tp, "/", " ", 1), "%s %d", &topic, &p)
			if written(topic, p) && !(topic == "t" && lm1.Owns("t", p)) {
				rep.Violationf("written-without-lease:acks0", c, "%s written although this broker does not hold the lease (%s)", tp, c)
			}
			sig = append(sig, fmt.Sprintf("%s:w%v", tp, written(topic, p)))
		}
	}
	for _, r := range res {
		tp := fmt.Sprintf("%s/%d", r.Topic, r.Partition)
		owns := r.Topic == "t" && lm1.Owns("t", r.Partition)
		w := written(r.Topic, r.Partition)
		sig = append(sig, fmt.Sprintf("%s:c%d:o%v:w%v", tp, r.Code, owns, w))
		if r.Code == 0 {
			if !owns {
				rep.Violationf("acked-without-lease", c, "%s acknowledged but this broker does not hold its lease (%s)", tp, c)
			} else if owner := srv.Dump("/kafscale/partition-leases/")[fmt.Sprintf("/kafscale/partition-leases/%s/%d", r.Topic, r.Partition)]; owner != "1" {
				// "held the lease" is a fact of the lease store, not only of the broker's own bookkeeping
				rep.Violationf("acked-while-etcd-names-other-owner", c, "%s acknowledged and this broker believes it owns the lease, but the lease key in etcd holds %q (%s)", tp, owner, c)
			}
			continue
		}
		if w {
			rep.Violationf("rejected-but-written", c, "%s answered code %d but objects were written (%s)", tp, r.Code, c)
		}
		st := -1
		if r.Topic == "t" {
			st = c.State[r.Partition]
		}
		retriable := r.Code == 6 || r.Code == 7 || r.Code == -1 || r.Code == 3
		if !retriable {
			rep.Violationf("non-retriable-error-code", c, "%s answered code %d (%s)", tp, r.Code, c)
		}
		// a store that reported itself unavailable during the request may answer the retriable REQUEST_TIMED_OUT instead
		if (st == c19Other || st == c19MineStolen) && !c.EtcdDown && !sawDown && r.Code != 6 {
			rep.Violationf("other-owner-not-reported-as-not-leader", c, "%s is owned by broker 2 but the reply code is %d, want NOT_LEADER_OR_FOLLOWER (%s)", tp, r.Code, c)
		}
	}
	sort.Strings(sig)
	nontrivial := c.State[0] != c19Unowned || c.State[1] != c19Unowned || c.EtcdDown
	availSig := "-"
	if avail != nil {
		n := consumed
		if n > len(c.Avail) {
			n = len(c.Avail)
		}
		availSig = fmt.Sprintf("%s/%d", c19AvailString(c.Avail[:n]), consumed)
		nontrivial = sawDown
	}
	rep.Outcome(fmt.Sprintf("%v|%v|%s|%v", c.State, c.EtcdDown, availSig, sig), nontrivial)
	if nontrivial && c.Parts == 3 && avail == nil {
		rep.Sample(map[string]any{"case": c.String(), "result": sig})
	}
	lm1.ReleaseAll()
	lm2.ReleaseAll()
	for _, id := range srv.LiveLeases() {
		srv.ExpireLease(id)
	}
	return consumed
}

func TestVerifC19(t *testing.T) {
	rep := vh.New(t, "C19")
	defer rep.Finish()
	rep.Rule = "every (lease state of t/0) x (lease state of t/1) over {unowned, mine, other, mine-expired, other-expired, mine-expired-then-other, re-acquired after a same-id restart whose old session then expired (and then broker 2 tries to acquire)} x etcd reachable/unreachable x non-empty subsets of {t/0, t/1, unknown u/0} x acks {-1,1,0}: one produce through the real handler with a real PartitionLeaseManager over the fake etcd; distinct = (states, etcd, per-partition code/owns/written); non-trivial = some lease state other than unowned or etcd down. Second part: the same lease states x request shapes x acks with etcd reachable and the metadata store's Available() flag (read by handler.etcdAvailable()) answering the k-th call of the request from a bit vector, every vector of length 6 (up afterwards), explored by consumed prefix: a run that consumed k answers stands for all vectors sharing them; non-trivial there = the request consumed at least one 'down' answer"
	rep.Assumptions = []string{"fake etcd stands for etcd", "the availability flag may change between any two reads of one request (in production it follows the latest etcd operation of any goroutine); the request's Available() calls are sequential, so equal consumed answers give equal runs", "sequential: no lease change during the request (a lease lost between check and append cannot be fenced without a fencing token and is outside the property's quantifier)", "retriable = NOT_LEADER_OR_FOLLOWER, REQUEST_TIMED_OUT, UNKNOWN_SERVER_ERROR, UNKNOWN_TOPIC_OR_PARTITION"}
	var rp c19Case
	if ok, err := vh.LoadReplay(&rp); ok {
		if err != nil {
			t.Fatalf("HARNESS-ERROR %v", err)
		}
		synctest.Test(t, func(t *testing.T) { c19Run(rep, rp) })
		return
	}
	enum.Product([]int{c19States, c19States, 2, 7, 3}, func(idx []int) bool {
		c := c19Case{State: [2]int{idx[0], idx[1]}, EtcdDown: idx[2] == 1, Parts: idx[3] + 1, Acks: []int16{-1, 1, 0}[idx[4]]}
		synctest.Test(t, func(t *testing.T) { c19Run(rep, c) })
		return true
	})
	// Availability-flag dimension: etcd reachable, Available() answers scripted per call.
	var availRuns, availVectors, maxConsumed int64
	enum.Product([]int{c19States, c19States, 7, 3}, func(idx []int) bool {
		// vectors in lexicographic order, "up" before "down"; bit i of v (from the left) = 1 means the i-th answer is "down"
		v := 0
		for {
			a := make([]bool, c19AvailLen)
			for i := range a {
				a[i] = v>>(c19AvailLen-1-i)&1 == 0
			}
			c := c19Case{State: [2]int{idx[0], idx[1]}, Parts: idx[2] + 1, Acks: []int16{-1, 1, 0}[idx[3]], Avail: a}
			k := 0
			synctest.Test(t, func(t *testing.T) { k = c19Run(rep, c) })
			availRuns++
			if int64(k) > maxConsumed {
				maxConsumed = int64(k)
			}
			if k > c19AvailLen {
				k = c19AvailLen
			}
			// this run stands for every vector sharing the k consumed answers; continue with the next k-prefix
			availVectors += int64(1) << (c19AvailLen - k)
			if k == 0 {
				break
			}
			next := v>>(c19AvailLen-k) + 1
			if next >= 1<<k {
				break
			}
			v = next << (c19AvailLen - k)
		}
		return true
	})
	rep.Count("avail_runs", availRuns)
	rep.Count("avail_vectors_covered", availVectors)
	rep.SetInfo("avail_max_answers_consumed_by_one_request", maxConsumed)
	if maxConsumed > c19AvailLen {
		rep.Cap(fmt.Sprintf("a request consumed %d Available() answers, more than the scripted %d", maxConsumed, c19AvailLen))
	}
}
