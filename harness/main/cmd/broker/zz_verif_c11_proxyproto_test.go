//go:build verif

package main

// C11, part "connection" (TestVerifC11ProxyProto): the replies of a CONNECTION.
//
// The other broker parts judge one request at a time on a connection that carries nothing
// else. This part covers what lies between the socket and the handler in the broker
// program: the real broker.Server (accept loop, handleConnection) with the connection
// hook the program installs, the real buildConnContextFunc (cmd/broker/main.go), in the
// configurations with and without the PROXY protocol, and the real handler on the "loaded"
// fixture. A connection = an optional PROXY protocol header followed by 1-3 pipelined
// requests at advertised versions, delivered to the server under every chunking of a bounded
// family (everything in ONE segment ... one byte per segment).
//
// Oracle (the statement: a request at an advertised version gets a reply, the reply carries
// the request's correlation id and decodes completely at the request's version): the k-th
// reply frame on the connection carries the k-th request's correlation id and passes
// vC11CheckReply; no request stays unanswered; nothing else is written. "Unanswered" is
// decided when the server has closed the connection (it does so when the delivered bytes
// are exhausted) - no clock is involved.
//
// Transport: broker.Server only listens on TCP and the segmentation of a loopback TCP stream
// is not under the client's control, so the client's byte stream is handed to the server by
// a scripted net.Conn (vC11ppConn) that is put around the accepted socket before the real
// connection hook runs: Read hands out the stream in the case's segments and then reports
// EOF; Write, Close, addresses and deadlines are the accepted socket's. The client end of
// the socket only reads: reply frames until EOF.

import (
	"context"
	"encoding/binary"
	"errors"
	"fmt"
	"io"
	"log"
	"net"
	"os"
	"runtime"
	"strings"
	"sync"
	"sync/atomic"
	"testing"
	"time"

	"github.com/KafScale/platform/internal/verif/vh"
	"github.com/KafScale/platform/pkg/broker"
	"github.com/KafScale/platform/pkg/protocol"
)

// ---- configurations, preludes, requests, chunkings ----

type vC11ppConfig struct {
	Name   string
	Source *string // KAFSCALE_PRINCIPAL_SOURCE (nil = unset)
	Proxy  *string // KAFSCALE_PROXY_PROTOCOL (nil = unset)
	On     bool    // the PROXY protocol is on: every connection starts with a header
}

func vC11ppPtr(s string) *string { return &s }

func vC11ppConfigs() []vC11ppConfig {
	return []vC11ppConfig{
		{Name: "off/default"},
		{Name: "off/principal-source=remote_addr", Source: vC11ppPtr("remote_addr")},
		{Name: "on/KAFSCALE_PROXY_PROTOCOL=true", Proxy: vC11ppPtr("true"), On: true},
		{Name: "on/principal-source=proxy_addr", Source: vC11ppPtr("proxy_addr"), On: true},
	}
}

type vC11ppPrelude struct {
	Name  string
	Bytes []byte
}

func vC11ppV2(verCmd, famProto byte, payload []byte) []byte {
	b := []byte{'\r', '\n', '\r', '\n', 0x00, '\r', '\n', 'Q', 'U', 'I', 'T', '\n', verCmd, famProto}
	b = binary.BigEndian.AppendUint16(b, uint16(len(payload)))
	return append(b, payload...)
}

// vC11ppPreludes: what a PROXY protocol speaking balancer sends first (simplest first).
func vC11ppPreludes(on bool) []vC11ppPrelude {
	if !on {
		return []vC11ppPrelude{{Name: "none"}}
	}
	inet := []byte{10, 1, 2, 3, 10, 0, 0, 1}
	inet = binary.BigEndian.AppendUint16(inet, 40000)
	inet = binary.BigEndian.AppendUint16(inet, 9092)
	return []vC11ppPrelude{
		{Name: "v1-TCP4", Bytes: []byte("PROXY TCP4 10.1.2.3 10.0.0.1 40000 9092\r\n")},
		{Name: "v2-PROXY-inet", Bytes: vC11ppV2(0x21, 0x11, inet)},
		{Name: "v2-LOCAL", Bytes: vC11ppV2(0x20, 0x00, nil)},
	}
}

type vC11ppReq struct {
	Name    string `json:"name"`
	Key     int16  `json:"key"`
	Version int16  `json:"version"`
	Body    string `json:"body"`
}

// vC11ppAlphabet: ApiVersions and Metadata at the lowest and highest advertised version
// (non-flexible and flexible header shapes) and one more key; thorough adds three keys.
func vC11ppAlphabet(adv map[int16]vC11Range) []vC11ppReq {
	type pick struct {
		key  int16
		max  bool
		body string
	}
	picks := []pick{{18, false, "empty"}, {18, true, "client"}, {3, false, "one"}, {3, true, "one"}, {10, true, "one"}}
	if vh.Thorough() {
		picks = append(picks, pick{16, true, "empty"}, pick{9, true, "one"}, pick{1, true, "one"})
	}
	var out []vC11ppReq
	for _, p := range picks {
		a, ok := adv[p.key]
		if !ok || vC11FindBody(p.key, p.body) == nil {
			continue
		}
		v := a.Min
		if p.max {
			v = a.Max
		}
		out = append(out, vC11ppReq{Name: fmt.Sprintf("%s.v%d(%s)", vC11Name(p.key), v, p.body), Key: p.key, Version: v, Body: p.body})
	}
	return out
}

type vC11ppChunk struct {
	Mode string `json:"mode"`
	Cuts []int  `json:"cuts,omitempty"` // segment ends (stream offsets)
}

// vC11ppChunks: the chunkings of one stream (hdr = header length, ends = end offset of every
// request frame). every = also a single cut at every offset of the header and of the first
// request.
func vC11ppChunks(hdr int, ends []int, every bool) []vC11ppChunk {
	first := ends[0]
	out := []vC11ppChunk{{Mode: "one-segment"}}
	seen := map[string]bool{"[]": true}
	add := func(mode string, cuts ...int) {
		k := fmt.Sprint(cuts)
		if seen[k] {
			return
		}
		seen[k] = true
		out = append(out, vC11ppChunk{Mode: mode, Cuts: cuts})
	}
	if hdr > 0 {
		add("header|requests", hdr)
	}
	var per []int
	if hdr > 0 {
		per = append(per, hdr)
	}
	per = append(per, ends[:len(ends)-1]...)
	if len(per) > 0 {
		add("header|request|request...", per...)
	}
	if len(ends) > 1 {
		add("header+first-request|rest", first)
	}
	if hdr > 1 {
		add("split-inside-header", hdr/2)
	}
	add("split-inside-first-request-size", hdr+2)
	add("split-inside-first-request", hdr+(first-hdr)/2)
	if len(ends) > 1 {
		add("split-inside-second-request", first+(ends[1]-first)/2)
	}
	out = append(out, vC11ppChunk{Mode: "byte-per-segment"})
	if every {
		for k := 1; k < first; k++ {
			mode := "cut-in-first-request"
			if k < hdr {
				mode = "cut-in-header"
			} else if k == hdr {
				continue
			}
			add(mode, k)
		}
	}
	return out
}

// ---- scripted connection ----

type vC11ppConn struct {
	net.Conn // the accepted socket
	data     []byte
	pos      int
	cuts     []int
	ci       int
	byteway  bool
	first    int // bytes handed out by the first Read
	nreads   int
	// framing of UNBUFFERED reads (protocol.ReadFrame directly on this connection: a Read of
	// exactly the missing size bytes, then Reads of the payload); see Read
	inLen, need int
	announced   int32
	closed      bool
	cur         *vC11ppCur
}

// Read hands out the next bytes up to the end of the current segment. One shortcut, which
// does not change the outcome: protocol.ReadFrame allocates the announced frame length
// before it reads the payload, and request bytes read as a size field (a server that lost
// its place in the stream) spell up to 2 GiB. When an unbuffered size read announces more
// bytes than the rest of the stream holds, the frame can never complete - the real server
// would allocate, wait for the peer to close and drop the connection without a reply; the
// scripted connection reports the peer's close right away instead (the server drops the
// connection without a reply, no allocation). Buffered readers (bufio) never issue reads of
// 1-4 bytes, and inside a correctly framed stream every size field fits, so the shortcut
// cannot trigger on a server that keeps its place.
func (c *vC11ppConn) Read(p []byte) (int, error) {
	if c.closed || c.pos >= len(c.data) {
		return 0, io.EOF
	}
	if len(p) == 0 {
		return 0, nil
	}
	sizeRead := c.need == 0 && len(p) == 4-c.inLen
	if sizeRead && c.inLen == 0 {
		c.announced = 0
		if len(c.data)-c.pos >= 4 {
			c.announced = int32(binary.BigEndian.Uint32(c.data[c.pos:]))
		}
		if int64(c.announced) > int64(len(c.data)-c.pos-4) {
			c.closed = true
			c.cur.cutShort.Store(true)
			return 0, io.EOF
		}
	}
	end := len(c.data)
	if c.byteway {
		end = c.pos + 1
	} else {
		for c.ci < len(c.cuts) && c.cuts[c.ci] <= c.pos {
			c.ci++
		}
		if c.ci < len(c.cuts) && c.cuts[c.ci] < end {
			end = c.cuts[c.ci]
		}
	}
	n := copy(p, c.data[c.pos:end])
	c.pos += n
	switch {
	case sizeRead:
		if c.inLen += n; c.inLen == 4 {
			c.inLen = 0
			if c.announced > 0 {
				c.need = int(c.announced)
			}
		}
	case c.need > 0:
		if c.need -= n; c.need < 0 {
			c.need = 0
		}
	}
	if c.nreads == 0 {
		c.first = n
	}
	c.nreads++
	return n, nil
}

// ---- one server per worker ----

type vC11ppCur struct {
	hook    broker.ConnContextFunc // the real buildConnContextFunc result (nil = the program installs none)
	data    []byte
	chunk   vC11ppChunk
	hookErr atomic.Value // string: the hook rejected the connection
	first   atomic.Int64 // bytes the first Read handed out
	hooks   atomic.Int64
	// an unbuffered size read announced more than the stream holds (see vC11ppConn.Read)
	cutShort atomic.Bool
}

type vC11ppServer struct {
	sw   *vC11Switch
	cur  atomic.Pointer[vC11ppCur]
	addr string
	stop context.CancelFunc
}

func vC11ppStart() (*vC11ppServer, error) {
	s := &vC11ppServer{sw: &vC11Switch{}}
	srv := &broker.Server{Addr: "127.0.0.1:0", Handler: s.sw}
	srv.ConnContextFunc = func(sock net.Conn) (net.Conn, *broker.ConnContext, error) {
		cur := s.cur.Load()
		cur.hooks.Add(1)
		sc := &vC11ppConn{Conn: sock, data: cur.data, cuts: cur.chunk.Cuts, byteway: cur.chunk.Mode == "byte-per-segment", cur: cur}
		if cur.hook == nil {
			return sc, nil, nil
		}
		conn, info, err := cur.hook(sc)
		cur.first.Store(int64(sc.first))
		if err != nil {
			cur.hookErr.Store(err.Error())
		}
		return conn, info, err
	}
	ctx, cancel := context.WithCancel(context.Background())
	errc := make(chan error, 1)
	go func() { errc <- srv.ListenAndServe(ctx) }()
	for i := 0; i < 1000; i++ {
		select {
		case err := <-errc:
			cancel()
			return nil, fmt.Errorf("broker.Server did not start: %v", err)
		default:
		}
		if a := srv.ListenAddress(); a != "127.0.0.1:0" {
			s.addr, s.stop = a, cancel
			return s, nil
		}
		time.Sleep(5 * time.Millisecond)
	}
	cancel()
	return nil, errors.New("broker.Server did not report a listen address")
}

// ---- cases ----

type vC11ppCase struct {
	Kind     string      `json:"kind"` // proxyproto-conn
	Half     string      `json:"half"` // broker-proxyproto
	Config   string      `json:"config"`
	Prelude  string      `json:"prelude"`
	Requests []string    `json:"requests"`
	Chunk    vC11ppChunk `json:"chunk"`
}

type vC11ppResult struct {
	done       bool
	sig        string
	nontrivial bool
	key        string
	detail     string
	decoded    int
	spans      bool // the first segment carried the header and request bytes
	cutShort   bool
	harnessErr string
}

type vC11ppWorld struct {
	cfgs     map[string]vC11ppConfig
	hooks    map[string]broker.ConnContextFunc
	preludes map[string]vC11ppPrelude
	reqs     map[string]vC11ppReq
}

const vC11ppCorrBase = int32(7100)

// vC11ppRun serves one connection and judges it.
func vC11ppRun(s *vC11ppServer, w *vC11ppWorld, hook broker.ConnContextFunc, c vC11ppCase) (r vC11ppResult) {
	h, fx, err := vC11NewBroker("loaded")
	if err != nil {
		r.harnessErr = "fixture: " + err.Error()
		return r
	}
	defer h.coordinator.Stop()
	pre := w.preludes[c.Prelude]
	stream := append([]byte(nil), pre.Bytes...)
	var reqs []vC11ppReq
	for i, n := range c.Requests {
		rq := w.reqs[n]
		req := vC11FindBody(rq.Key, rq.Body).Build(rq.Version, fx)
		stream = append(stream, vC11Format(req, vC11ppCorrBase+int32(i))...)
		reqs = append(reqs, rq)
	}
	cur := &vC11ppCur{hook: hook, data: stream, chunk: c.Chunk}
	s.sw.cur.Store(h)
	s.cur.Store(cur)

	sock, err := net.Dial("tcp", s.addr)
	if err != nil {
		r.harnessErr = "dial: " + err.Error()
		return r
	}
	defer sock.Close()
	_ = sock.SetDeadline(time.Now().Add(120 * time.Second)) // liveness guard only; expiry is a harness error
	var frames [][]byte
	for {
		f, err := protocol.ReadFrame(sock)
		if err != nil {
			if errors.Is(err, os.ErrDeadlineExceeded) {
				r.harnessErr = "the server neither answered nor closed within the liveness guard"
				return r
			}
			break // the server closed the connection
		}
		frames = append(frames, f.Payload)
		if len(frames) > len(reqs)+2 {
			break
		}
	}
	if cur.hooks.Load() != 1 {
		r.harnessErr = fmt.Sprintf("the connection hook ran %d times for one connection", cur.hooks.Load())
		return r
	}
	r.done = true
	r.cutShort = cur.cutShort.Load()
	r.spans = len(pre.Bytes) > 0 && int(cur.first.Load()) > len(pre.Bytes)

	hdr := "no-proxy-header"
	if len(pre.Bytes) > 0 {
		hdr = "after-proxy-header"
	}
	pos := func(k int) string {
		if k == 0 {
			return "first-request"
		}
		return "later-request"
	}
	var labels []string
	rejected, _ := cur.hookErr.Load().(string)
	for k, rq := range reqs {
		api := vC11Name(rq.Key)
		cc := vC11Case{Half: "broker-proxyproto", Mode: c.Config, Key: rq.Key, Version: rq.Version, Body: rq.Body, Fixture: "loaded", Advertised: true}
		corr := vC11ppCorrBase + int32(k)
		if k >= len(frames) {
			why := "the server closed the connection"
			if rejected != "" {
				why = "the connection hook rejected the connection: " + rejected
			}
			r.key = fmt.Sprintf("conn-request-unanswered@%s/%s:%s", pos(k), hdr, api)
			r.detail = fmt.Sprintf("request #%d of %d (%s, correlation id %d) got no reply: %d reply frames arrived, then %s", k+1, len(reqs), rq.Name, corr, len(frames), why)
			labels = append(labels, "unanswered")
			break
		}
		outcome, resp, viol, detail := vC11CheckReply(cc, corr, frames[k])
		if viol == "correlation-id-mismatch" {
			got := int32(binary.BigEndian.Uint32(frames[k][:4]))
			whose := "no request of the connection"
			if j := int(got - vC11ppCorrBase); j >= 0 && j < len(reqs) {
				whose = fmt.Sprintf("request #%d (%s)", j+1, reqs[j].Name)
				viol = "conn-reply-carries-other-request-correlation-id"
			}
			detail = fmt.Sprintf("reply frame #%d carries correlation id %d (%s), request #%d (%s) has %d: its reply is missing or out of order", k+1, got, whose, k+1, rq.Name, corr)
		}
		if viol != "" {
			r.key = fmt.Sprintf("%s@%s/%s:%s", viol, pos(k), hdr, api)
			r.detail = fmt.Sprintf("reply to request #%d of %d (%s): %s; reply=%x", k+1, len(reqs), rq.Name, detail, vC11Clip(frames[k], 64))
			labels = append(labels, "bad:"+viol)
			break
		}
		ec := int16(0)
		if resp != nil {
			ec = vC11FirstError(resp)
			r.decoded++
		}
		labels = append(labels, fmt.Sprintf("%s ec=%d", outcome, ec))
	}
	if r.key == "" && len(frames) > len(reqs) {
		r.key = "conn-more-replies-than-requests/" + hdr
		r.detail = fmt.Sprintf("%d requests, at least %d reply frames; extra frame=%x", len(reqs), len(frames), vC11Clip(frames[len(reqs)], 64))
		labels = append(labels, "extra-reply")
	}
	if r.key != "" {
		r.detail = fmt.Sprintf("config %s, prelude %s, requests %v, segments %s%v: %s", c.Config, c.Prelude, c.Requests, c.Chunk.Mode, c.Chunk.Cuts, r.detail)
	}
	mode := c.Chunk.Mode
	r.sig = fmt.Sprintf("broker-proxyproto/%s/%s/%s %v -> %s", c.Config, c.Prelude, mode, c.Requests, strings.Join(labels, ", "))
	r.nontrivial = r.key == "" && r.decoded == len(reqs)
	return r
}

func vC11ppSetenv(t *testing.T, key string, v *string) {
	t.Setenv(key, "x") // registers the restore of the original value
	if v == nil {
		if err := os.Unsetenv(key); err != nil {
			t.Fatalf("HARNESS-ERROR unsetenv: %v", err)
		}
		return
	}
	if err := os.Setenv(key, *v); err != nil {
		t.Fatalf("HARNESS-ERROR setenv: %v", err)
	}
}

// vC11ppLeakyHook is the control: a connection hook that parses the header through a
// buffered reader and hands the server the unbuffered connection. The oracle must object.
func vC11ppLeakyHook(conn net.Conn) (net.Conn, *broker.ConnContext, error) {
	_, _, err := broker.ReadProxyProtocol(conn)
	return conn, &broker.ConnContext{}, err
}

const vC11ppRule = "connection part: case = PROXY protocol configuration of buildConnContextFunc (off: default, principal source remote_addr; on: KAFSCALE_PROXY_PROTOCOL=true, principal source proxy_addr) x header the peer sends first (off: none; on: v1 TCP4, v2 PROXY inet, v2 LOCAL) x every sequence of 1-3 pipelined requests over {ApiVersions min/max, Metadata min/max advertised version, FindCoordinator max} x segmentation of the byte stream (one segment; header | requests; header | request | request; header + first request | rest; split inside the header, inside the first request's size field, inside the first request, inside the second request; one byte per segment; connections of 1-2 requests also a single cut at every offset of header and first request; thorough: three more keys in the alphabet - ListGroups, OffsetFetch, Fetch at their highest advertised version), served by the real broker.Server with the real connection hook and handler on the loaded fixture. Outcome signature = (configuration, header, segmentation, requests, per reply: decode outcome, header shape, first error code). Non-trivial = every request of the connection was answered in order and every reply decoded completely at its request's version."

func TestVerifC11ProxyProto(t *testing.T) {
	rep := vh.New(t, "C11")
	defer rep.Finish()
	rep.Rule = vC11ppRule
	rep.SetInfo("proxyproto_rule", vC11ppRule)
	rep.Assumptions = []string{
		"connection part: the client's byte stream reaches the real broker.Server through a scripted net.Conn placed around the accepted loopback socket before the real connection hook (buildConnContextFunc) runs; its Read hands out the stream in the case's segments (what a TCP peer may do with any byte stream) and then EOF, everything else is the socket's. With the default configuration buildConnContextFunc installs no hook; the server is then given the scripted connection by a hook that returns no connection info",
		"connection part: with the PROXY protocol on, a connection without a header is not a connection of a conforming peer and is not enumerated; all enumerated requests are at advertised versions and expect a reply",
	}
	log.SetOutput(io.Discard)
	defer log.SetOutput(os.Stderr)

	// advertised set, from the real function
	_, adv, _ := vC11Advertised(generateApiVersions())
	alphabet := vC11ppAlphabet(adv)
	if len(alphabet) < 5 {
		t.Fatalf("HARNESS-ERROR connection part: only %d of the request alphabet are advertised", len(alphabet))
	}
	w := &vC11ppWorld{cfgs: map[string]vC11ppConfig{}, hooks: map[string]broker.ConnContextFunc{}, preludes: map[string]vC11ppPrelude{}, reqs: map[string]vC11ppReq{}}
	var reqNames []string
	for _, rq := range alphabet {
		w.reqs[rq.Name] = rq
		reqNames = append(reqNames, rq.Name)
	}
	cfgs := vC11ppConfigs()
	var cfgNames []string
	for _, cfg := range cfgs {
		vC11ppSetenv(t, "KAFSCALE_PRINCIPAL_SOURCE", cfg.Source)
		vC11ppSetenv(t, "KAFSCALE_PROXY_PROTOCOL", cfg.Proxy)
		vC11ppSetenv(t, "KAFSCALE_ACL_ENABLED", nil)
		hook := buildConnContextFunc(vLogger())
		if (hook == nil) != (cfg.Name == "off/default") {
			t.Fatalf("HARNESS-ERROR connection part: buildConnContextFunc for %s returned nil=%t", cfg.Name, hook == nil)
		}
		w.cfgs[cfg.Name] = cfg
		w.hooks[cfg.Name] = hook
		cfgNames = append(cfgNames, cfg.Name)
		for _, p := range vC11ppPreludes(cfg.On) {
			w.preludes[p.Name] = p
		}
	}
	maxLen, everyLen := 3, 2
	rep.SetInfo("proxyproto_configs", cfgNames)
	rep.SetInfo("proxyproto_headers", []string{"none (protocol off)", "v1-TCP4", "v2-PROXY-inet", "v2-LOCAL"})
	rep.SetInfo("proxyproto_requests", reqNames)
	rep.SetInfo("proxyproto_pipeline_depth", fmt.Sprintf("1..%d requests per connection; every-offset cuts for 1..%d", maxLen, everyLen))

	// frame lengths per request (they do not depend on the fixture instance)
	_, fx0, err := func() (*handler, *vC11Fx, error) {
		h, fx, err := vC11NewBroker("loaded")
		if err == nil {
			h.coordinator.Stop()
		}
		return h, fx, err
	}()
	if err != nil {
		t.Fatalf("HARNESS-ERROR fixture: %v", err)
	}
	flen := map[string]int{}
	for _, rq := range alphabet {
		flen[rq.Name] = len(vC11Format(vC11FindBody(rq.Key, rq.Body).Build(rq.Version, fx0), vC11ppCorrBase))
	}

	// sequences, simplest first
	var seqs [][]string
	level := [][]string{{}}
	for l := 1; l <= maxLen; l++ {
		var next [][]string
		for _, s := range level {
			for _, n := range reqNames {
				next = append(next, append(append([]string(nil), s...), n))
			}
		}
		seqs = append(seqs, next...)
		level = next
	}
	var cases []vC11ppCase
	for _, cfg := range cfgs {
		for _, pre := range vC11ppPreludes(cfg.On) {
			for _, seq := range seqs {
				off := len(pre.Bytes)
				var ends []int
				for _, n := range seq {
					off += flen[n]
					ends = append(ends, off)
				}
				for _, ch := range vC11ppChunks(len(pre.Bytes), ends, len(seq) <= everyLen) {
					cases = append(cases, vC11ppCase{Kind: "proxyproto-conn", Half: "broker-proxyproto", Config: cfg.Name, Prelude: pre.Name, Requests: seq, Chunk: ch})
				}
			}
		}
	}

	nworkers := runtime.GOMAXPROCS(0)
	if nworkers > 8 {
		nworkers = 8
	}
	var servers []*vC11ppServer
	defer func() {
		for _, s := range servers {
			s.stop()
		}
	}()
	for i := 0; i < nworkers; i++ {
		s, err := vC11ppStart()
		if err != nil {
			t.Fatalf("HARNESS-ERROR %v", err)
		}
		servers = append(servers, s)
	}

	// control: the oracle objects to a hook that loses the buffered bytes, on the transport used here
	{
		c := vC11ppCase{Config: "control", Prelude: "v1-TCP4", Requests: []string{reqNames[0], reqNames[1]}, Chunk: vC11ppChunk{Mode: "one-segment"}}
		r := vC11ppRun(servers[0], w, vC11ppLeakyHook, c)
		if r.harnessErr != "" || !strings.HasPrefix(r.key, "conn-request-unanswered@first-request/after-proxy-header") || !r.spans {
			t.Fatalf("HARNESS-ERROR connection part control: a hook that drops the buffered bytes was not reported (key=%q spans=%t err=%q)", r.key, r.spans, r.harnessErr)
		}
		c.Chunk = vC11ppChunk{Mode: "header|requests", Cuts: []int{len(w.preludes["v1-TCP4"].Bytes)}}
		r = vC11ppRun(servers[0], w, vC11ppLeakyHook, c)
		if r.harnessErr != "" || r.key != "" || r.spans {
			t.Fatalf("HARNESS-ERROR connection part control: header in its own segment must leave nothing in the buffer (key=%q spans=%t err=%q)", r.key, r.spans, r.harnessErr)
		}
		rep.Count("proxyproto_controls_passed", 2)
	}

	var rp vC11ppCase
	if ok, err := vh.LoadReplay(&rp); ok {
		if err != nil {
			t.Fatalf("HARNESS-ERROR replay: %v", err)
		}
		if rp.Kind != "proxyproto-conn" || rp.Half != "broker-proxyproto" {
			return // a replay of another half
		}
		if _, ok := w.cfgs[rp.Config]; !ok {
			t.Fatalf("HARNESS-ERROR replay names an unknown configuration")
		}
		if _, ok := w.preludes[rp.Prelude]; !ok {
			t.Fatalf("HARNESS-ERROR replay names an unknown header")
		}
		for _, n := range rp.Requests {
			if _, ok := w.reqs[n]; !ok {
				t.Fatalf("HARNESS-ERROR replay names an unknown request %q", n)
			}
		}
		r := vC11ppRun(servers[0], w, w.hooks[rp.Config], rp)
		if r.harnessErr != "" {
			t.Fatalf("HARNESS-ERROR replay: %s", r.harnessErr)
		}
		rep.Eval(1)
		rep.Outcome(r.sig, true)
		rep.Outcome("replay-done", true)
		rep.Cap("replay of one connection")
		if r.key != "" {
			rep.Violation(r.key, r.detail, rp)
		}
		return
	}
	rep.SetInfo("proxyproto_connections_enumerated", len(cases))

	shard, nshards := vh.Shard()
	deadline := vh.Deadline()
	results := make([]vC11ppResult, len(cases))
	var violating atomic.Int64
	const maxViolating = 512 // a mis-framed stream makes ReadFrame allocate whatever length the request bytes spell
	var wg sync.WaitGroup
	for wi := 0; wi < nworkers; wi++ {
		wg.Add(1)
		go func(wi int) {
			defer wg.Done()
			for i := range cases {
				if i%nshards != shard || (i/nshards)%nworkers != wi {
					continue
				}
				if time.Now().After(deadline) || violating.Load() >= maxViolating {
					return
				}
				r := vC11ppRun(servers[wi], w, w.hooks[cases[i].Config], cases[i])
				if r.key != "" {
					violating.Add(1)
				}
				results[i] = r
				if r.harnessErr != "" {
					return
				}
			}
		}(wi)
	}
	wg.Wait()

	mine, ran := 0, 0
	samples := 0
	for i, r := range results {
		if i%nshards != shard {
			continue
		}
		mine++
		if r.harnessErr != "" {
			t.Fatalf("HARNESS-ERROR connection part, %+v: %s", cases[i], r.harnessErr)
		}
		if !r.done {
			continue
		}
		ran++
		c := cases[i]
		rep.Eval(1)
		rep.Outcome(r.sig, r.nontrivial)
		rep.Count("proxyproto_connections", 1)
		rep.Count("proxyproto_requests", int64(len(c.Requests)))
		rep.Count("proxyproto_replies_decoded", int64(r.decoded))
		if w.cfgs[c.Config].On {
			rep.Count("proxyproto_connections_protocol_on", 1)
		}
		if r.cutShort {
			rep.Count("proxyproto_unbuffered_size_read_beyond_stream_cut_short", 1)
		}
		if r.spans {
			rep.Count("proxyproto_first_segment_carried_header_and_request_bytes", 1)
		}
		if r.key != "" {
			rep.Violation(r.key, r.detail, c)
		} else if r.spans && samples < 2 && len(c.Requests) == 2 && rep.WantSample() {
			samples++
			rep.Sample(map[string]any{"part": "connection", "case": c, "outcome": r.sig})
		}
	}
	if ran < mine {
		if violating.Load() >= maxViolating {
			rep.Cap(fmt.Sprintf("connection part stopped after %d violating connections (%d of %d connections run)", violating.Load(), ran, mine))
		} else {
			rep.Cap(fmt.Sprintf("connection part: deadline reached after %d of %d connections", ran, mine))
		}
	}
}
