package main

import (
	"fmt"
	"testing"
	"testing/synctest"
	"time"

	"github.com/KafScale/platform/pkg/broker"

	vh "github.com/KafScale/platform/internal/verif/vh"
)

// Part (iv): the sample cap (S3HealthConfig.MaxSamples). When more samples than the cap arrive inside one
// window the rating must still follow the *recent* samples: a history h rated on a monitor with cap k must be
// rated like its last k samples alone (differential oracle between two fresh real monitors; the thresholds
// are never used). Sequences, not multisets: order is the point here.

type c25CapReplay struct {
	Part    string                  `json:"part"` // "cap"
	Thr     broker.S3HealthConfig   `json:"thresholds"`
	Hist    []c25Sample             `json:"history"`
	Ratings [2]broker.S3HealthState `json:"ratings"`
}

func c25CapJudge(rep *vh.Report, name string, cfg broker.S3HealthConfig, h []c25Sample) (broker.S3HealthState, broker.S3HealthState) {
	k := cfg.MaxSamples
	full := c25RunMonitor(cfg, h)
	tail := c25RunMonitor(cfg, h[len(h)-k:])
	if full != tail {
		rep.Violation("rating-ignores-recent-samples-beyond-sample-cap",
			fmt.Sprintf("%s MaxSamples=%d: history %s (all inside the window, oldest first) is rated %s, but its %d most recent samples %s alone are rated %s: samples older than the cap outweigh newer ones",
				name, k, c25Fmt(h), full, k, c25Fmt(h[len(h)-k:]), tail),
			c25CapReplay{Part: "cap", Thr: cfg, Hist: h, Ratings: [2]broker.S3HealthState{full, tail}})
	}
	return full, tail
}

func c25CapPart(t *testing.T, rep *vh.Report, deadline time.Time) {
	thrs := c25ThrConfigs()
	pick := []int{0, 6} // lat100ms/1s err0.2/0.6 ; lat-defaults err-defaults
	caps := []int{1, 2, 3}
	extra := 2
	if vh.Thorough() {
		pick = []int{0, 6, 4, 13}
		caps = []int{1, 2, 3, 4}
	}
	rep.SetInfo("cap_part", fmt.Sprintf("MaxSamples in %v x %d threshold configurations x every in-window sample sequence of cap+1..cap+%d samples over latency {0,warn-1ns,warn,crit} x err {no,yes}", caps, len(pick), extra))
	shard, nshards := vh.Shard()
	job := 0
	for _, ti := range pick {
		for _, k := range caps {
			job++
			if job%nshards != shard {
				continue
			}
			if time.Now().After(deadline) {
				rep.Cap("deadline before all sample-cap configurations were enumerated")
				return
			}
			thr := thrs[ti]
			cfg := thr.Cfg
			cfg.MaxSamples = k
			_, warn, crit := c25Effective(cfg)
			var types []c25Sample
			for _, e := range []bool{false, true} {
				for _, l := range []time.Duration{0, warn - 1, warn, crit} {
					types = append(types, c25Sample{LatNs: int64(l), Err: e})
				}
			}
			var n int64
			synctest.Test(t, func(t *testing.T) {
				var rec func(cur []c25Sample, size int)
				rec = func(cur []c25Sample, size int) {
					if len(cur) == size {
						h := append([]c25Sample(nil), cur...)
						full, tail := c25CapJudge(rep, thr.Name, cfg, h)
						n++
						// non-trivial: the dropped prefix alone would be rated differently from the kept suffix
						pre := c25RunMonitor(cfg, h[:len(h)-k])
						rep.Outcome(fmt.Sprintf("cap|%d|%d|%s|%s|%s", ti, k, full, tail, pre), pre != tail)
						return
					}
					for _, s := range types {
						rec(append(cur, s), size)
					}
				}
				for size := k + 1; size <= k+extra; size++ {
					rec(nil, size)
				}
			})
			rep.Eval(n)
			rep.Count("cap_histories", n)
		}
	}
}

func c25CapReplayRun(t *testing.T, rep *vh.Report) {
	var r c25CapReplay
	if _, err := vh.LoadReplay(&r); err != nil {
		t.Fatalf("HARNESS-ERROR replay: %v", err)
	}
	synctest.Test(t, func(*testing.T) {
		full, tail := c25CapJudge(rep, "replay", r.Thr, r.Hist)
		rep.Eval(2)
		rep.Outcome("replay|cap|"+string(full)+"|"+string(tail), true)
	})
}
