//go:build verif

package main

import (
	"context"
	"errors"
	"fmt"
	"sort"
	"strings"
	"sync/atomic"
	"testing"
	"testing/synctest"
	"time"

	"github.com/KafScale/platform/internal/verif/enum"
	"github.com/KafScale/platform/internal/verif/fakes3"
	"github.com/KafScale/platform/internal/verif/vh"
	"github.com/KafScale/platform/internal/verif/xstate"
	"github.com/KafScale/platform/pkg/broker"
	"github.com/KafScale/platform/pkg/metadata"
	"github.com/KafScale/platform/pkg/protocol"
	"github.com/twmb/franz-go/pkg/kmsg"
)

// C25 — unhealthy S3 rejects produce and fetch with backpressure errors.
//
// Part (i): the real broker.S3HealthMonitor alone, on a virtual clock (testing/synctest):
// every multiset of <=N samples over latency {0, warn-1ns, warn, crit} x error {no,yes} x
// age {inside, outside the window} for every threshold configuration. Oracle (relational,
// from the statement): two histories with the same (error rate, average latency) of their
// in-window samples get the same rating, whatever lies outside the window; and a history
// with error rate and average latency both >= another's never gets a better rating.
//
// Part (ii): the real handler; explicit-state search over histories of events
// {record S3 sample (4 kinds), let half/all of the window pass, produce acks 1/-1/0,
// fetch}. Before each produce/fetch the monitor's own rating is read; degraded or
// unavailable => every partition entry carries REQUEST_TIMED_OUT or UNKNOWN_SERVER_ERROR,
// no offset moves, nothing is buffered or uploaded, no record bytes are returned.

// ---------------------------------------------------------------- part (i)

type c25Thr struct {
	Name string
	Cfg  broker.S3HealthConfig
}

func c25ThrConfigs() []c25Thr {
	type lp struct {
		n          string
		warn, crit time.Duration
	}
	type ep struct {
		n          string
		warn, crit float64
	}
	lats := []lp{{"lat100ms/1s", 100 * time.Millisecond, time.Second}, {"lat-defaults(0/0)", 0, 0}, {"lat-warn>crit(1s/100ms)", time.Second, 100 * time.Millisecond}, {"lat-equal(200ms)", 200 * time.Millisecond, 200 * time.Millisecond}}
	errs := []ep{{"err0.2/0.6", 0.2, 0.6}, {"err-defaults(0/0)", 0, 0}, {"err-warn>crit(0.6/0.2)", 0.6, 0.2}, {"err-equal(0.5)", 0.5, 0.5}, {"err0.34/1.0", 0.34, 1.0}}
	wins := []time.Duration{0, time.Second}
	var out []c25Thr
	for _, w := range wins {
		for _, l := range lats {
			for _, e := range errs {
				out = append(out, c25Thr{Name: fmt.Sprintf("%s %s window=%v", l.n, e.n, w),
					Cfg: broker.S3HealthConfig{Window: w, LatencyWarn: l.warn, LatencyCrit: l.crit, ErrorWarn: e.warn, ErrorCrit: e.crit}})
			}
		}
	}
	return out
}

// effective thresholds (only used to choose sharp latency values, never by the oracle)
func c25Effective(c broker.S3HealthConfig) (window, warn, crit time.Duration) {
	window, warn, crit = c.Window, c.LatencyWarn, c.LatencyCrit
	if window <= 0 {
		window = time.Minute
	}
	if warn <= 0 {
		warn = 500 * time.Millisecond
	}
	if crit <= 0 {
		crit = 3 * time.Second
	}
	return
}

type c25Sample struct {
	LatNs   int64 `json:"latency_ns"`
	Err     bool  `json:"err"`
	Outside bool  `json:"outside_window"`
}

var c25ErrS3 = errors.New("verif: s3 error sample")

func c25Rank(s broker.S3HealthState) int {
	switch s {
	case broker.S3StateHealthy:
		return 0
	case broker.S3StateDegraded:
		return 1
	case broker.S3StateUnavailable:
		return 2
	}
	return -1
}

// c25RunMonitor replays one sample history on a fresh monitor (inside a bubble) and
// returns the rating once the "outside" samples are older than the window.
func c25RunMonitor(cfg broker.S3HealthConfig, samples []c25Sample) broker.S3HealthState {
	window, _, _ := c25Effective(cfg)
	m := broker.NewS3HealthMonitor(cfg)
	rec := func(s c25Sample) {
		var err error
		if s.Err {
			err = c25ErrS3
		}
		m.RecordOperation("verif", time.Duration(s.LatNs), err)
	}
	for _, s := range samples {
		if s.Outside {
			rec(s)
		}
	}
	time.Sleep(2 * time.Nanosecond)
	for _, s := range samples {
		if !s.Outside {
			rec(s)
		}
	}
	time.Sleep(window - time.Nanosecond) // outside samples: age window+1ns; inside samples: age window-1ns
	return m.State()
}

// window statistics as exact integers: rate*420 and avg*420 (every n <= 7 divides 420)
func c25Stats(samples []c25Sample) (rate420, avg420 int64, n int) {
	var errs, total int64
	for _, s := range samples {
		if s.Outside {
			continue
		}
		n++
		total += s.LatNs
		if s.Err {
			errs++
		}
	}
	if n == 0 {
		return 0, 0, 0
	}
	return errs * 420 / int64(n), total * 420 / int64(n), n
}

type c25Group struct {
	Rate, Avg int64 // x420
	State     broker.S3HealthState
	Example   []c25Sample
}

type c25MonReplay struct {
	Part    string                  `json:"part"` // "monitor"
	Kind    string                  `json:"kind"` // function | monotone
	Thr     broker.S3HealthConfig   `json:"thresholds"`
	HistA   []c25Sample             `json:"history_a"`
	HistB   []c25Sample             `json:"history_b"`
	Ratings [2]broker.S3HealthState `json:"ratings"`
}

func c25HasOutside(s []c25Sample) bool {
	for _, x := range s {
		if x.Outside {
			return true
		}
	}
	return false
}

// c25Compare judges a pair of histories of one threshold configuration.
func c25Compare(a, b []c25Sample, sa, sb broker.S3HealthState) (key, detail string) {
	ra, la, _ := c25Stats(a)
	rb, lb, _ := c25Stats(b)
	desc := func(s []c25Sample, r, l int64, st broker.S3HealthState) string {
		return fmt.Sprintf("%v -> in-window error rate %.4f avg latency %v rated %s", c25Fmt(s), float64(r)/420, time.Duration(l/420), st)
	}
	switch {
	case ra == rb && la == lb && sa != sb:
		key = "rating-not-function-of-window-rate-and-latency"
		if c25HasOutside(a) != c25HasOutside(b) || c25HasOutside(a) {
			key = "rating-depends-on-expired-samples"
		}
	case ra <= rb && la <= lb && c25Rank(sa) > c25Rank(sb):
		switch {
		case ra == rb:
			key = "rating-not-monotone-in-latency"
		case la == lb:
			key = "rating-not-monotone-in-error-rate"
		default:
			key = "rating-not-monotone"
		}
	default:
		return "", ""
	}
	return key, desc(a, ra, la, sa) + " BUT " + desc(b, rb, lb, sb)
}

func c25Fmt(s []c25Sample) string {
	var parts []string
	for _, x := range s {
		p := time.Duration(x.LatNs).String()
		if x.Err {
			p += "!err"
		}
		if x.Outside {
			p += "@expired"
		}
		parts = append(parts, p)
	}
	return "[" + strings.Join(parts, " ") + "]"
}

func c25MonitorPart(t *testing.T, rep *vh.Report, deadline time.Time) {
	maxN := 6
	if vh.Thorough() {
		maxN = 7
	}
	thrs := c25ThrConfigs()
	rep.SetInfo("monitor_max_samples", maxN)
	rep.SetInfo("monitor_threshold_configs", len(thrs))
	rep.SetInfo("monitor_sample_alphabet", "latency {0, warn-1ns, warn, crit} x err {no,yes} x age {window-1ns, window+1ns}; MaxSamples left at its default (512)")
	shard, nshards := vh.Shard()
	for ti, thr := range thrs {
		if ti%nshards != shard {
			continue
		}
		if time.Now().After(deadline) {
			rep.Cap("deadline before all threshold configurations of the monitor part were enumerated")
			return
		}
		_, warn, crit := c25Effective(thr.Cfg)
		var types []c25Sample
		for _, outside := range []bool{false, true} {
			for _, e := range []bool{false, true} {
				for _, l := range []time.Duration{0, warn - 1, warn, crit} {
					types = append(types, c25Sample{LatNs: int64(l), Err: e, Outside: outside})
				}
			}
		}
		groups := map[[2]int64]*c25Group{}
		var order [][2]int64
		var nhist int64
		type sigKey struct {
			r, l int64
			st   broker.S3HealthState
			out  bool
		}
		sigs := map[sigKey]bool{}
		synctest.Test(t, func(t *testing.T) {
			// multisets = non-decreasing index sequences, shorter first; plus the reversed order
			var rec func(start int, cur []int)
			run := func(cur []int, reversed bool) {
				h := make([]c25Sample, len(cur))
				for i, x := range cur {
					if reversed {
						h[len(cur)-1-i] = types[x]
					} else {
						h[i] = types[x]
					}
				}
				st := c25RunMonitor(thr.Cfg, h)
				nhist++
				r, l, n := c25Stats(h)
				k := [2]int64{r, l}
				g := groups[k]
				if g == nil {
					groups[k] = &c25Group{Rate: r, Avg: l, State: st, Example: h}
					order = append(order, k)
				} else if g.State != st {
					key, detail := c25Compare(g.Example, h, g.State, st)
					rep.Violation(key, thr.Name+": "+detail, c25MonReplay{Part: "monitor", Kind: "function", Thr: thr.Cfg, HistA: g.Example, HistB: h, Ratings: [2]broker.S3HealthState{g.State, st}})
				}
				sig := sigKey{r, l, st, c25HasOutside(h)}
				sigs[sig] = sigs[sig] || (n > 0 && (sig.out || st != broker.S3StateHealthy))
				if rep.WantSample() && len(h) == 4 && st == broker.S3StateDegraded && c25HasOutside(h) && ti == 0 {
					rep.Sample(map[string]any{"part": "monitor", "thresholds": thr.Name, "history": c25Fmt(h), "rating": st})
				}
			}
			rec = func(start int, cur []int) { // all multisets of exactly cap(cur) samples extending cur
				if len(cur) == cap(cur) {
					run(cur, false)
					if len(cur) >= 2 && len(cur) <= 4 && cur[0] != cur[len(cur)-1] {
						run(cur, true)
					}
					return
				}
				for x := start; x < len(types); x++ {
					rec(x, append(cur, x))
				}
			}
			for size := 0; size <= maxN; size++ { // shorter histories first
				rec(0, make([]int, 0, size))
			}
		})
		rep.Eval(nhist)
		rep.Count("monitor_histories", nhist)
		rep.Count("monitor_rate_latency_classes", int64(len(order)))
		for s, nt := range sigs {
			rep.Outcome(fmt.Sprintf("mon|%d|%d|%d|%s|%v", ti, s.r, s.l, s.st, s.out), nt)
		}
		// monotonicity over the classes of this configuration
		var pairs int64
		for _, ka := range order {
			for _, kb := range order {
				a, b := groups[ka], groups[kb]
				if a == b || a.Rate > b.Rate || a.Avg > b.Avg {
					continue
				}
				pairs++
				if key, detail := c25Compare(a.Example, b.Example, a.State, b.State); key != "" {
					rep.Violation(key, thr.Name+": "+detail, c25MonReplay{Part: "monitor", Kind: "monotone", Thr: thr.Cfg, HistA: a.Example, HistB: b.Example, Ratings: [2]broker.S3HealthState{a.State, b.State}})
				}
			}
		}
		rep.Count("monitor_monotone_pairs", pairs)
	}
}

// ---------------------------------------------------------------- part (ii)

type c25Ev struct {
	K    string `json:"k"` // sample | sleep | produce | fetch
	Lat  string `json:"lat,omitempty"`
	Err  bool   `json:"err,omitempty"`
	Half bool   `json:"half,omitempty"`
	Acks int16  `json:"acks,omitempty"`
}

func (e c25Ev) String() string {
	switch e.K {
	case "sample":
		if e.Err {
			return "sample(" + e.Lat + ",err)"
		}
		return "sample(" + e.Lat + ",ok)"
	case "sleep":
		if e.Half {
			return "sleep(window/2+1ns)"
		}
		return "sleep(window+1s)"
	case "produce":
		return fmt.Sprintf("produce(acks=%d)", e.Acks)
	}
	return e.K
}

var c25Events = []c25Ev{
	{K: "sample", Lat: "0"}, {K: "sample", Lat: "0", Err: true}, {K: "sample", Lat: "warn"}, {K: "sample", Lat: "crit"},
	{K: "produce", Acks: 1}, {K: "fetch"}, {K: "produce", Acks: -1}, {K: "produce", Acks: 0},
	{K: "sleep", Half: true}, {K: "sleep"},
}

type c25World struct {
	h      *handler
	store  *metadata.InMemoryStore
	bucket *fakes3.Bucket
	cfg    broker.S3HealthConfig
	hist   []string
	seq    int
	ok     *c25Sanity
}

type c25Sanity struct {
	healthyProduceOK, healthyFetchOK, healthyFail atomic.Int64
	rejected                                      atomic.Int64
}

const c25Topic = "t"

func c25Build(ok *c25Sanity) *c25World {
	w := &c25World{ok: ok}
	w.bucket = fakes3.NewBucket()
	s3 := fakes3.New(w.bucket, "b1")
	s3.NoPoints = true
	w.store = metadata.NewInMemoryStore(vMeta(map[string]int{c25Topic: 2}))
	w.h = vNewHandler(w.store, s3)
	w.h.logConfig.ReadAheadSegments = 0
	w.h.readAhead = 0
	w.h.flushOnAck = true
	w.h.authorizer = nil
	// existing data: one acked batch of two records in each partition
	res, err := vProduce(w.h, -1, map[string]map[int32][]byte{c25Topic: {0: enum.SimpleBatch("seed0", 2, 6), 1: enum.SimpleBatch("seed1", 2, 6)}})
	if err != nil || len(res) != 2 || res[0].Code != 0 || res[1].Code != 0 {
		panic(fmt.Sprintf("HARNESS-ERROR c25 setup produce: %v %+v", err, res))
	}
	// a fresh monitor with the broker's own configuration: the samples of the set-up do not count
	w.cfg = s3HealthConfigFromEnv()
	w.h.s3Health = broker.NewS3HealthMonitor(w.cfg)
	return w
}

func (w *c25World) Enabled() []c25Ev { return c25Events }
func (w *c25World) Canon() string    { return strings.Join(w.hist, ";") }
func (w *c25World) Close()           { w.h.coordinator.Stop(); synctest.Wait() }

type c25Snap struct {
	Next     [2]int64
	Buffered [2]int64
	Keys     string
}

func (w *c25World) snap() c25Snap {
	var s c25Snap
	for p := int32(0); p < 2; p++ {
		n, err := w.store.NextOffset(bg(), c25Topic, p)
		if err != nil {
			n = -1
		}
		s.Next[p] = n
		s.Buffered[p] = -1
		w.h.logMu.RLock()
		if pl := w.h.logs[c25Topic][p]; pl != nil {
			s.Buffered[p] = pl.BufferedHighWatermark()
		}
		w.h.logMu.RUnlock()
	}
	s.Keys = strings.Join(w.bucket.Keys(), ",")
	return s
}

func c25Backpressure(code int16) bool {
	return code == protocol.REQUEST_TIMED_OUT || code == protocol.UNKNOWN_SERVER_ERROR
}

func (w *c25World) Apply(e c25Ev) (string, []xstate.Violation) {
	w.hist = append(w.hist, e.String())
	var viol []xstate.Violation
	window, warn, crit := c25Effective(w.cfg)
	switch e.K {
	case "sample":
		lat := map[string]time.Duration{"0": 0, "warn": warn, "crit": crit}[e.Lat]
		var err error
		if e.Err {
			err = c25ErrS3
		}
		w.h.recordS3Op("verif", lat, err) // the handler's own recording path
		return "rated:" + string(w.h.s3Health.State()), nil
	case "sleep":
		if e.Half {
			time.Sleep(window/2 + time.Nanosecond)
		} else {
			time.Sleep(window + time.Second)
		}
		return "rated:" + string(w.h.s3Health.State()), nil
	case "produce":
		pre := w.h.s3Health.State()
		before := w.snap()
		w.seq++
		res, err := vProduce(w.h, e.Acks, map[string]map[int32][]byte{c25Topic: {
			0: enum.SimpleBatch(fmt.Sprintf("h%dp0", w.seq), 1, 6), 1: enum.SimpleBatch(fmt.Sprintf("h%dp1", w.seq), 1, 6)}})
		after := w.snap()
		obs := fmt.Sprintf("produce(acks=%d)@%s:", e.Acks, pre)
		if err != nil {
			obs += "goerr"
		}
		for _, r := range res {
			obs += fmt.Sprintf("p%d=%d;", r.Partition, r.Code)
		}
		if after != before {
			obs += "state-changed"
		}
		if pre != broker.S3StateHealthy {
			w.ok.rejected.Add(1)
			if err != nil {
				viol = append(viol, xstate.Violation{Key: "produce-request-failed-while-" + string(pre), Detail: fmt.Sprintf("handler returned error %v instead of per-partition backpressure codes", err)})
			}
			if e.Acks != 0 && err == nil {
				if len(res) != 2 {
					viol = append(viol, xstate.Violation{Key: "produce-partition-entry-missing-while-" + string(pre), Detail: fmt.Sprintf("2 partitions sent, reply has %d entries", len(res))})
				}
				for _, r := range res {
					switch {
					case r.Code == 0:
						viol = append(viol, xstate.Violation{Key: "produce-acked-while-" + string(pre), Detail: fmt.Sprintf("partition %d acknowledged at base offset %d while S3 is rated %s", r.Partition, r.Base, pre)})
					case !c25Backpressure(r.Code):
						viol = append(viol, xstate.Violation{Key: "produce-non-backpressure-code-while-" + string(pre), Detail: fmt.Sprintf("partition %d got error code %d while S3 is rated %s", r.Partition, r.Code, pre)})
					}
				}
			}
			if after != before {
				viol = append(viol, xstate.Violation{Key: "produce-wrote-while-" + string(pre), Detail: fmt.Sprintf("acks=%d: offsets/buffer/bucket changed while S3 is rated %s: before %+v after %+v", e.Acks, pre, before, after)})
			}
		} else {
			good := err == nil && after != before
			for _, r := range res {
				good = good && r.Code == 0
			}
			if good {
				w.ok.healthyProduceOK.Add(1)
			} else {
				w.ok.healthyFail.Add(1)
			}
		}
		return obs, viol
	case "fetch":
		pre := w.h.s3Health.State()
		before := w.snap()
		parts, err := c25Fetch(w.h)
		after := w.snap()
		obs := fmt.Sprintf("fetch@%s:", pre)
		if err != nil {
			obs += "goerr"
		}
		for _, p := range parts {
			obs += fmt.Sprintf("p%d=%d/%dB;", p.Partition, p.Code, len(p.Records))
		}
		if pre != broker.S3StateHealthy {
			w.ok.rejected.Add(1)
			if err != nil {
				viol = append(viol, xstate.Violation{Key: "fetch-request-failed-while-" + string(pre), Detail: fmt.Sprintf("handler returned error %v instead of per-partition backpressure codes", err)})
			} else if len(parts) != 2 {
				viol = append(viol, xstate.Violation{Key: "fetch-partition-entry-missing-while-" + string(pre), Detail: fmt.Sprintf("2 partitions requested, reply has %d entries", len(parts))})
			}
			for _, p := range parts {
				switch {
				case len(p.Records) > 0:
					viol = append(viol, xstate.Violation{Key: "fetch-returned-data-while-" + string(pre), Detail: fmt.Sprintf("partition %d: %d record bytes (code %d) while S3 is rated %s", p.Partition, len(p.Records), p.Code, pre)})
				case !c25Backpressure(p.Code):
					viol = append(viol, xstate.Violation{Key: "fetch-non-backpressure-code-while-" + string(pre), Detail: fmt.Sprintf("partition %d got code %d while S3 is rated %s", p.Partition, p.Code, pre)})
				}
			}
			if after != before {
				viol = append(viol, xstate.Violation{Key: "fetch-changed-state-while-" + string(pre), Detail: fmt.Sprintf("before %+v after %+v", before, after)})
			}
		} else {
			good := err == nil && len(parts) == 2
			for _, p := range parts {
				good = good && p.Code == 0 && len(p.Records) > 0
			}
			if good {
				w.ok.healthyFetchOK.Add(1)
			} else {
				w.ok.healthyFail.Add(1)
			}
		}
		return obs, viol
	}
	panic("unknown event " + e.K)
}

type c25FetchPart struct {
	Partition int32
	Code      int16
	Records   []byte
}

// c25Fetch fetches both partitions from offset 0 through the real dispatcher.
func c25Fetch(h *handler) ([]c25FetchPart, error) {
	req := kmsg.NewPtrFetchRequest()
	req.Version = 11
	req.MaxWaitMillis = 0
	req.MaxBytes = 1 << 30
	t := kmsg.NewFetchRequestTopic()
	t.Topic = c25Topic
	for p := int32(0); p < 2; p++ {
		fp := kmsg.NewFetchRequestTopicPartition()
		fp.Partition = p
		fp.FetchOffset = 0
		fp.PartitionMaxBytes = 1 << 20
		t.Partitions = append(t.Partitions, fp)
	}
	req.Topics = append(req.Topics, t)
	hdr := &protocol.RequestHeader{APIKey: 1, APIVersion: 11, CorrelationID: 9}
	out, err := h.Handle(context.Background(), hdr, req)
	if err != nil {
		return nil, err
	}
	resp := kmsg.NewPtrFetchResponse()
	resp.Version = 11
	if err := resp.ReadFrom(out[4:]); err != nil {
		return nil, fmt.Errorf("decode fetch reply: %w", err)
	}
	var parts []c25FetchPart
	for _, rt := range resp.Topics {
		for _, rp := range rt.Partitions {
			parts = append(parts, c25FetchPart{Partition: rp.Partition, Code: rp.ErrorCode, Records: rp.RecordBatches})
		}
	}
	sort.Slice(parts, func(i, j int) bool { return parts[i].Partition < parts[j].Partition })
	return parts, nil
}

type c25HandlerReplay struct {
	Part   string   `json:"part"` // "handler"
	Events []c25Ev  `json:"events"`
	Trace  []string `json:"trace"`
}

func c25HandlerPart(t *testing.T, rep *vh.Report, deadline time.Time) {
	depth := 4
	if vh.Thorough() {
		depth = 5
	}
	shard, nshards := vh.Shard()
	rep.SetInfo("handler_history_depth", depth)
	rep.SetInfo("handler_events", fmt.Sprint(c25Events))
	rep.SetInfo("handler_monitor_config", "broker defaults (s3HealthConfigFromEnv): window 60s, latency 500ms/3s, error rate 0.2/0.6")
	var sanity c25Sanity
	nv := map[string]int{}
	res := xstate.Run(xstate.Options[c25Ev]{
		Config: xstate.Config{MaxDepth: depth, Deadline: deadline, NoMerge: true, Shard: shard, NShards: nshards},
		Build:  func() xstate.System[c25Ev] { return c25Build(&sanity) },
		Wrap:   func(f func()) { synctest.Test(t, func(*testing.T) { f() }) },
		Found: func(f xstate.Found[c25Ev]) {
			nv[f.Key]++
			if nv[f.Key] > 3 {
				rep.Violation(f.Key, "", nil)
				return
			}
			rep.Violation(f.Key, fmt.Sprintf("%s | history: %s", f.Detail, strings.Join(f.Obs, " ; ")), c25HandlerReplay{Part: "handler", Events: f.History, Trace: f.Obs})
		},
		Transition: func(hist []c25Ev, obs []string, _ string, _ bool) {
			rep.Eval(1)
			last := obs[len(obs)-1]
			// signature: the judged event's observation plus the ratings seen on the way
			var path []string
			for _, o := range obs[:len(obs)-1] {
				if i := strings.IndexByte(o, ':'); i > 0 {
					path = append(path, o[:i])
				}
			}
			nontriv := (strings.HasPrefix(last, "produce") || strings.HasPrefix(last, "fetch")) && !strings.Contains(last, "@healthy")
			rep.Outcome("h|"+strings.Join(path, ">")+"|"+last, nontriv)
			if nontriv && len(hist) == 3 && rep.WantSample() && hist[0].K == "sample" && hist[1].K == "sleep" {
				rep.Sample(map[string]any{"part": "handler", "history": fmt.Sprint(hist), "observations": obs})
			}
		},
	})
	rep.Count("states", int64(res.States))
	rep.Count("transitions", int64(res.Transitions))
	rep.Count("handler_requests_while_unhealthy", sanity.rejected.Load())
	rep.Count("handler_healthy_produce_ok", sanity.healthyProduceOK.Load())
	rep.Count("handler_healthy_fetch_ok", sanity.healthyFetchOK.Load())
	if res.Capped != "" {
		rep.Cap("handler part: " + res.Capped)
	}
	// a produce/fetch issued while the monitor says healthy must work, otherwise the experiment is broken;
	// vacuity (no healthy or no unhealthy request at all) is only decidable when one process sees every history
	vacuous := nshards == 1 && (sanity.healthyProduceOK.Load() == 0 || sanity.healthyFetchOK.Load() == 0 || sanity.rejected.Load() == 0)
	if res.Capped == "" && (sanity.healthyFail.Load() > 0 || vacuous) {
		t.Fatalf("HARNESS-ERROR c25 handler part is vacuous or broken: healthy produce ok=%d fetch ok=%d healthy failures=%d unhealthy requests=%d",
			sanity.healthyProduceOK.Load(), sanity.healthyFetchOK.Load(), sanity.healthyFail.Load(), sanity.rejected.Load())
	}
}

func TestVerifC25(t *testing.T) {
	rep := vh.New(t, "C25")
	defer rep.Finish()
	rep.Rule = "monitor part: case = one sample history (multiset of <=N samples in canonical order; up to 4 samples also in reversed order) on a fresh real S3HealthMonitor under a virtual clock, judged against every other history of the same threshold configuration (same in-window rate+latency => same rating; component-wise larger => rating not better); non-trivial = has in-window samples and (expired samples or a non-healthy rating). handler part: case = one history of <=D events on a fresh real handler, the last event judged; non-trivial = the judged event is a produce or fetch issued while the monitor rates S3 degraded/unavailable; signature = ratings along the history + reply codes/bytes. mid-request part: case = one produce (flush-on-ack) or fetch (freshly started broker) over 2-3 partitions of 1-2 topics on a fresh real handler with one assignment of {ok, fail, ok after the critical latency} to the S3 calls the request makes (all assignments, depth-first over the calls made), for 2 monitor configurations x {0,4} ok samples already in the window; each partition is judged against the broker's own rating read when it was handled (at its first S3 call; for a partition without S3 call at the next S3 call of the request or right after it); non-trivial = the rating was healthy before the request and a partition of it was handled under degraded/unavailable; signature = request shape, configuration, per-partition rating/code/data/number of S3 calls. sample-cap part: case = one in-window sample sequence longer than MaxSamples on a fresh real monitor vs its MaxSamples most recent samples on another fresh monitor; non-trivial = the dropped prefix alone is rated differently from the kept suffix"
	rep.Assumptions = []string{
		"virtual time (testing/synctest): no wall clock; S3 operations of the fake bucket take 0 virtual time",
		"a sample exactly one window old is not exercised (ages are window-1ns and window+1ns); no in-window sample = error rate 0 and latency 0",
		"MaxSamples is left at its default (512), above the history length, in the monitor/handler/mid-request parts; the sample-cap part sets it to 1..3 (thorough 4) and demands that a history is rated like its MaxSamples most recent samples alone",
		"retriable/backpressure codes are the two the broker documents: REQUEST_TIMED_OUT and UNKNOWN_SERVER_ERROR; acks=0 has no reply, only the absence of any write is demanded",
		"in-memory metadata store and fake S3 bucket stand for etcd and S3",
		"mid-request part: one request at a time; an S3 call takes 1-2ms of virtual time (slow: the critical latency) so that the two concurrent uploads of one flush start at the same instant and finish in a fixed order (index first); the rating a partition was handled under is read from the real monitor at the partition's first S3 call; for a partition that made no S3 call it is the rating at the next S3 call of the request or right after the request, which assumes the partitions are handled one after another in request order (only applied when the S3 calls seen came in that order)",
		"mid-request part: the lenient reading is taken - a partition whose handling began under a healthy rating is not judged, even if the rating has turned (by its own or an earlier partition's samples) by the time the reply is sent",
	}
	var raw map[string]any
	if ok, err := vh.LoadReplay(&raw); ok {
		if err != nil {
			t.Fatalf("HARNESS-ERROR replay: %v", err)
		}
		c25Replay(t, rep, raw)
		return
	}
	deadline := vh.Deadline()
	c25HandlerPart(t, rep, deadline)
	c25MidRequestPart(t, rep, deadline)
	c25MonitorPart(t, rep, deadline)
	c25CapPart(t, rep, deadline)
}

func c25Replay(t *testing.T, rep *vh.Report, raw map[string]any) {
	switch raw["part"] {
	case "midrequest":
		c25MidReplay(t, rep)
	case "cap":
		c25CapReplayRun(t, rep)
	case "handler":
		var r c25HandlerReplay
		if _, err := vh.LoadReplay(&r); err != nil {
			t.Fatalf("HARNESS-ERROR replay: %v", err)
		}
		var sanity c25Sanity
		synctest.Test(t, func(*testing.T) {
			w := c25Build(&sanity)
			defer w.Close()
			var obs []string
			for i, e := range r.Events {
				o, v := w.Apply(e)
				obs = append(obs, o)
				rep.Eval(1)
				rep.Outcome(fmt.Sprintf("replay|%d|%s", i, o), true)
				if i == len(r.Events)-1 {
					for _, x := range v {
						rep.Violation(x.Key, x.Detail+" | history: "+strings.Join(obs, " ; "), r)
					}
				}
			}
		})
	case "monitor":
		var r c25MonReplay
		if _, err := vh.LoadReplay(&r); err != nil {
			t.Fatalf("HARNESS-ERROR replay: %v", err)
		}
		synctest.Test(t, func(*testing.T) {
			sa := c25RunMonitor(r.Thr, r.HistA)
			sb := c25RunMonitor(r.Thr, r.HistB)
			rep.Eval(2)
			rep.Outcome("replay|a|"+string(sa), true)
			rep.Outcome("replay|b|"+string(sb)+"|", true)
			if key, detail := c25Compare(r.HistA, r.HistB, sa, sb); key != "" {
				r.Ratings = [2]broker.S3HealthState{sa, sb}
				rep.Violation(key, detail, r)
			}
		})
	default:
		t.Fatalf("HARNESS-ERROR replay: unknown part %v", raw["part"])
	}
}
