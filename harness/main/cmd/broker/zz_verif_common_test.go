//go:build verif

package main

import (
	"context"
	"encoding/binary"
	"fmt"
	"io"
	"log/slog"
	"sort"
	"strings"
	"sync"
	"time"

	"github.com/KafScale/platform/internal/verif/enum"
	"github.com/KafScale/platform/internal/verif/fakes3"
	"github.com/KafScale/platform/internal/verif/sched"
	"github.com/KafScale/platform/pkg/metadata"
	"github.com/KafScale/platform/pkg/protocol"
	"github.com/twmb/franz-go/pkg/kmsg"
)

func vLogger() *slog.Logger { return slog.New(slog.NewTextHandler(io.Discard, nil)) }

var vBroker = protocol.MetadataBroker{NodeID: 1, Host: "localhost", Port: 19092}

// vMeta builds cluster metadata with the given topics (name -> partitions).
func vMeta(topics map[string]int) metadata.ClusterMetadata {
	names := make([]string, 0, len(topics))
	for n := range topics {
		names = append(names, n)
	}
	sort.Strings(names)
	var ts []protocol.MetadataTopic
	for i, n := range names {
		name := n
		var parts []protocol.MetadataPartition
		for p := 0; p < topics[n]; p++ {
			parts = append(parts, protocol.MetadataPartition{Partition: int32(p), Leader: 1, Replicas: []int32{1}, ISR: []int32{1}})
		}
		var id [16]byte
		id[0] = byte(i + 1)
		id[15] = 0x77
		ts = append(ts, protocol.MetadataTopic{Topic: &name, TopicID: id, Partitions: parts})
	}
	cid := "verif"
	return metadata.ClusterMetadata{
		Brokers:      []protocol.MetadataBroker{vBroker},
		ControllerID: 1,
		ClusterID:    &cid,
		Topics:       ts,
	}
}

// vStore wraps a metadata.Store: UpdateOffsets is a scheduling point, may be made to
// fail, is suppressed after a crash, and every published value is recorded.
type vStore struct {
	metadata.Store
	mu        sync.Mutex
	Published []int64 // values of next_offset after each successful UpdateOffsets, in order
	FailUpd   bool
	CrashUpd  bool
	S3        *fakes3.Client // crash state is shared with the S3 client of the same incarnation
	NoPoints  bool
	AllPoints bool // NextOffset and CreateTopic are scheduling points too (partition open / auto-create races)
}

func (s *vStore) NextOffset(ctx context.Context, topic string, partition int32) (int64, error) {
	if s.AllPoints && !s.NoPoints {
		sched.Env("store.NextOffset")
	}
	return s.Store.NextOffset(ctx, topic, partition)
}

func (s *vStore) CreateTopic(ctx context.Context, spec metadata.TopicSpec) (*protocol.MetadataTopic, error) {
	if s.AllPoints && !s.NoPoints {
		sched.Env("store.CreateTopic")
	}
	return s.Store.CreateTopic(ctx, spec)
}

func (s *vStore) UpdateOffsets(ctx context.Context, topic string, partition int32, lastOffset int64) error {
	if !s.NoPoints {
		sched.Env("store.UpdateOffsets")
	}
	if s.S3 != nil && s.S3.Crashed() {
		return fakes3.ErrCrashed
	}
	if s.CrashUpd && s.S3 != nil && sched.Choose(2, "crash before UpdateOffsets") == 1 {
		s.S3.Crash()
		return fakes3.ErrCrashed
	}
	if s.FailUpd && sched.Choose(2, "fail UpdateOffsets") == 1 {
		return fmt.Errorf("verif: injected store failure")
	}
	err := s.Store.UpdateOffsets(ctx, topic, partition, lastOffset)
	if err == nil {
		s.mu.Lock()
		s.Published = append(s.Published, lastOffset+1)
		s.mu.Unlock()
	}
	return err
}

func vNewHandler(store metadata.Store, s3 *fakes3.Client) *handler {
	h := newHandler(store, s3, vBroker, vLogger())
	return h
}

type vPartResult struct {
	Topic     string
	Partition int32
	Code      int16
	Base      int64
}

// vProduce sends one produce request (version 7) and decodes the reply.
func vProduce(h *handler, acks int16, parts map[string]map[int32][]byte) ([]vPartResult, error) {
	return vProduceCtx(context.Background(), h, acks, parts)
}

// vProduceCtx is vProduce with the request context given by the caller.
func vProduceCtx(ctx context.Context, h *handler, acks int16, parts map[string]map[int32][]byte) ([]vPartResult, error) {
	req := kmsg.NewPtrProduceRequest()
	req.Version = 7
	req.Acks = acks
	req.TimeoutMillis = 1000
	tnames := make([]string, 0, len(parts))
	for t := range parts {
		tnames = append(tnames, t)
	}
	sort.Strings(tnames)
	for _, tn := range tnames {
		t := kmsg.NewProduceRequestTopic()
		t.Topic = tn
		pids := make([]int, 0)
		for p := range parts[tn] {
			pids = append(pids, int(p))
		}
		sort.Ints(pids)
		for _, p := range pids {
			pp := kmsg.NewProduceRequestTopicPartition()
			pp.Partition = int32(p)
			pp.Records = parts[tn][int32(p)]
			t.Partitions = append(t.Partitions, pp)
		}
		req.Topics = append(req.Topics, t)
	}
	hdr := &protocol.RequestHeader{APIKey: 0, APIVersion: 7, CorrelationID: 7}
	out, err := h.handleProduce(ctx, hdr, req)
	if err != nil {
		return nil, err
	}
	if out == nil {
		return nil, nil
	}
	if len(out) < 4 || int32(binary.BigEndian.Uint32(out[:4])) != 7 {
		return nil, fmt.Errorf("bad correlation id in produce reply")
	}
	resp := kmsg.NewPtrProduceResponse()
	resp.Version = 7
	if err := resp.ReadFrom(out[4:]); err != nil {
		return nil, fmt.Errorf("decode produce reply: %w", err)
	}
	var res []vPartResult
	for _, t := range resp.Topics {
		for _, p := range t.Partitions {
			res = append(res, vPartResult{Topic: t.Topic, Partition: p.Partition, Code: p.ErrorCode, Base: p.BaseOffset})
		}
	}
	return res, nil
}

// vProduceOne produces one record set to one partition.
func vProduceOne(h *handler, topic string, partition int32, acks int16, records []byte) (vPartResult, error) {
	return vProduceOneCtx(context.Background(), h, topic, partition, acks, records)
}

// vProduceOneCtx is vProduceOne with the request context given by the caller.
func vProduceOneCtx(ctx context.Context, h *handler, topic string, partition int32, acks int16, records []byte) (vPartResult, error) {
	res, err := vProduceCtx(ctx, h, acks, map[string]map[int32][]byte{topic: {partition: records}})
	if err != nil {
		return vPartResult{}, err
	}
	if len(res) != 1 {
		return vPartResult{}, fmt.Errorf("expected 1 partition entry, got %d", len(res))
	}
	return res[0], nil
}

type vFetchResult struct {
	Code    int16
	HW      int64
	Records []byte
}

// vFetchOne fetches (version 11) from one partition.
func vFetchOne(h *handler, topic string, partition int32, offset int64, maxBytes int32) (vFetchResult, error) {
	req := kmsg.NewPtrFetchRequest()
	req.Version = 11
	req.MaxWaitMillis = 0
	req.MaxBytes = 1 << 30
	t := kmsg.NewFetchRequestTopic()
	t.Topic = topic
	p := kmsg.NewFetchRequestTopicPartition()
	p.Partition = partition
	p.FetchOffset = offset
	p.PartitionMaxBytes = maxBytes
	t.Partitions = append(t.Partitions, p)
	req.Topics = append(req.Topics, t)
	hdr := &protocol.RequestHeader{APIKey: 1, APIVersion: 11, CorrelationID: 9}
	out, err := h.handleFetch(context.Background(), hdr, req)
	if err != nil {
		return vFetchResult{}, err
	}
	resp := kmsg.NewPtrFetchResponse()
	resp.Version = 11
	if err := resp.ReadFrom(out[4:]); err != nil {
		return vFetchResult{}, fmt.Errorf("decode fetch reply: %w", err)
	}
	if len(resp.Topics) != 1 || len(resp.Topics[0].Partitions) != 1 {
		return vFetchResult{}, fmt.Errorf("fetch reply shape")
	}
	fp := resp.Topics[0].Partitions[0]
	return vFetchResult{Code: fp.ErrorCode, HW: fp.HighWatermark, Records: fp.RecordBatches}, nil
}

// vStoredBatch is a batch found in a segment object of the bucket.
type vStoredBatch struct {
	SegKey   string
	HasIndex bool
	Batch    enum.DecodedBatch
}

// vDurableBatches decodes every segment object under prefix and returns its batches.
// Segment layout: 32-byte header, concatenated batches, 16-byte footer.
func vDurableBatches(b *fakes3.Bucket, prefix string) ([]vStoredBatch, int64, error) {
	segs, idx := b.Snapshot()
	keys := make([]string, 0, len(segs))
	for k := range segs {
		if strings.HasPrefix(k, prefix) && strings.HasSuffix(k, ".kfs") {
			keys = append(keys, k)
		}
	}
	sort.Strings(keys)
	var out []vStoredBatch
	maxLast := int64(-1) // last offset stored in a segment that also has its index
	for _, k := range keys {
		data := segs[k]
		if len(data) < 48 {
			return nil, 0, fmt.Errorf("segment %s too short", k)
		}
		body := data[32 : len(data)-16]
		bs, err := enum.DecodeBatches(body)
		if err != nil {
			// batches with lying headers cannot be decoded strictly; fall back to raw scan by batchLength
			bs = vLooseBatches(body)
		}
		_, hasIdx := idx[strings.TrimSuffix(k, ".kfs")+".index"]
		for _, d := range bs {
			out = append(out, vStoredBatch{SegKey: k, HasIndex: hasIdx, Batch: d})
		}
		if hasIdx {
			last := int64(binary.BigEndian.Uint64(data[len(data)-12 : len(data)-4]))
			if last > maxLast {
				maxLast = last
			}
		}
	}
	return out, maxLast, nil
}

func vLooseBatches(body []byte) []enum.DecodedBatch {
	var out []enum.DecodedBatch
	off := 0
	for off+61 <= len(body) {
		bl := int(int32(binary.BigEndian.Uint32(body[off+8 : off+12])))
		total := bl + 12
		if bl < 49 || off+total > len(body) {
			total = len(body) - off
		}
		raw := body[off : off+total]
		out = append(out, enum.DecodedBatch{
			BaseOffset:      int64(binary.BigEndian.Uint64(raw[0:8])),
			LastOffsetDelta: int32(binary.BigEndian.Uint32(raw[23:27])),
			RecordCount:     int32(binary.BigEndian.Uint32(raw[57:61])),
			Raw:             raw,
		})
		off += total
	}
	return out
}

// vSameBatch reports whether stored equals sent apart from the 8-byte base offset.
func vSameBatch(stored, sent []byte) bool {
	if len(stored) != len(sent) || len(sent) < 8 {
		return false
	}
	return string(stored[8:]) == string(sent[8:])
}

func bg() context.Context { return context.Background() }

// vCalm lets the S3 health window (60 s) pass on the bubble's virtual clock, so that a
// request issued by an oracle is not answered with a (legitimate, retriable)
// backpressure code caused by earlier injected or not-found S3 results.
func vCalm() { time.Sleep(5 * time.Minute) }
