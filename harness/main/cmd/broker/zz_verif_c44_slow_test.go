//go:build verif

package main

import (
	"bytes"
	"context"
	"fmt"
	"testing"
	"testing/synctest"
	"time"

	"github.com/KafScale/platform/internal/verif/vh"
	"github.com/KafScale/platform/pkg/storage"
)

// C44, slow-replica section: the replica answers a read only after a delay (it honours the context
// it is given while waiting), then with {the same bytes, an error, not found}. Whatever the dual
// client does about a slow replica - wait, or give up on it - the caller must end up with the
// primary's bytes, as with every other replica state. Virtual time (testing/synctest): the delay
// costs nothing and any timeout inside the dual client fires deterministically.
type c44SlowReplica struct {
	*c44Store
	delay time.Duration
	then  string // "ok" | "error" | "missing"
}

func (s *c44SlowReplica) wait(ctx context.Context) error {
	t := time.NewTimer(s.delay)
	defer t.Stop()
	select {
	case <-t.C:
		return nil
	case <-ctx.Done():
		return ctx.Err()
	}
}

func (s *c44SlowReplica) DownloadSegment(ctx context.Context, key string, rng *storage.ByteRange) ([]byte, error) {
	if err := s.wait(ctx); err != nil {
		return nil, err
	}
	switch s.then {
	case "error":
		return nil, s.errf("DownloadSegment", key)
	case "missing":
		return nil, fmt.Errorf("replica: %s: %w", key, storage.ErrNotFound)
	}
	return s.c44Store.DownloadSegment(ctx, key, rng)
}

func (s *c44SlowReplica) DownloadIndex(ctx context.Context, key string) ([]byte, error) {
	if err := s.wait(ctx); err != nil {
		return nil, err
	}
	switch s.then {
	case "error":
		return nil, s.errf("DownloadIndex", key)
	case "missing":
		return nil, fmt.Errorf("replica: %s: %w", key, storage.ErrNotFound)
	}
	return s.c44Store.DownloadIndex(ctx, key)
}

type c44SlowCase struct {
	Slow    bool   `json:"slow"`
	DelayMs int    `json:"delay_ms"`
	Then    string `json:"then"`
	Read    string `json:"read"` // segment-full | segment-range | index
}

func c44RunSlow(t *testing.T, rep *vh.Report, c c44SlowCase) {
	synctest.Test(t, func(t *testing.T) {
		primary, replicaStore := c44NewStore("primary"), c44NewStore("replica")
		for i, k := range c44Keys {
			primary.obj[k] = c44Content(i)
			replicaStore.obj[k] = c44Content(i)
		}
		dual := newDualS3Client(primary, &c44SlowReplica{c44Store: replicaStore, delay: time.Duration(c.DelayMs) * time.Millisecond, then: c.Then})
		ctx := context.Background() // the caller sets no deadline of its own
		var got, want []byte
		var err error
		switch c.Read {
		case "segment-full":
			want = c44Content(0)
			got, err = dual.DownloadSegment(ctx, c44Keys[0], nil)
		case "segment-range":
			want = c44Content(0)[2:6]
			got, err = dual.DownloadSegment(ctx, c44Keys[0], &storage.ByteRange{Start: 2, End: 5})
		case "index":
			want = c44Content(1)
			got, err = dual.DownloadIndex(ctx, c44Keys[1])
		}
		rep.Eval(1)
		rep.Outcome(fmt.Sprintf("slow|%s|%dms|%s|err=%v", c.Read, c.DelayMs, c.Then, err != nil), true)
		if err != nil {
			rep.Violation("slow-replica-read-fails:"+c.Read, fmt.Sprintf("replica answers %s after %d ms (%s): the read through the dual client failed with %v although the primary holds %q", c.Read, c.DelayMs, c.Then, err, want), c)
		} else if !bytes.Equal(got, want) {
			rep.Violation("slow-replica-read-differs:"+c.Read, fmt.Sprintf("replica answers %s after %d ms (%s): got %q, the primary holds %q", c.Read, c.DelayMs, c.Then, got, want), c)
		}
	})
}

func c44SlowCases() []c44SlowCase {
	var out []c44SlowCase
	for _, d := range []int{10, 900, 1100, 3000, 31000} {
		for _, then := range []string{"ok", "error", "missing"} {
			for _, rd := range []string{"segment-full", "segment-range", "index"} {
				out = append(out, c44SlowCase{Slow: true, DelayMs: d, Then: then, Read: rd})
			}
		}
	}
	return out
}
