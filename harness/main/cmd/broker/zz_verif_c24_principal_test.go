//go:build verif

package main

import (
	"bytes"
	"context"
	"encoding/binary"
	"encoding/json"
	"fmt"
	"io"
	"net"
	"os"
	"sort"
	"strings"
	"testing"
	"testing/synctest"
	"time"

	"github.com/KafScale/platform/internal/verif/vh"
	"github.com/KafScale/platform/pkg/acl"
	"github.com/KafScale/platform/pkg/broker"
	"github.com/KafScale/platform/pkg/protocol"
	"github.com/twmb/franz-go/pkg/kmsg"
)

// C24, part "principal": WHICH principal a connection has.
//
// The main C24 harness puts the principal into the request context itself. This part covers
// the code that decides it: the real buildConnContextFunc (principal source, PROXY protocol)
// followed by the real principalFromContext inside handler.Handle. A connection is a
// net.Pipe whose client side writes an optional PROXY protocol header followed by one real
// Kafka request frame; the server side does what broker.Server.handleConnection does
// (ConnContextFunc -> context -> ReadFrame -> ParseRequest -> Handle -> WriteFrame). The
// reply is what the client side received.
//
// Oracle: the reference principal of the connection is written from the documented meaning
// of KAFSCALE_PRINCIPAL_SOURCE (docs/operations.md) and of the PROXY protocol; when that
// principal lacks the permission the request needs, the broker snapshot is unchanged and -
// if the request was dispatched at all - every reply entry carries an authorization error
// and no record bytes.

const (
	c24pGrantedAddr = "10.1.2.3"    // PROXY source address that holds the permissions
	c24pOtherAddr6  = "2001:db8::5" // PROXY source address without any permission
	c24pPlainPeer   = "192.0.2.7"   // socket peer without any permission
	c24pTrustedPeer = "192.0.2.99"  // socket peer (e.g. the load balancer itself) that holds the permissions
	c24pProxyDst4   = "10.0.0.1"
	c24pProxyDst6   = "2001:db8::1"
)

// c24pGranted: the principals of the ACL; everybody else (default deny) holds nothing.
var c24pGranted = []string{c24Alice, c24pGrantedAddr, c24pTrustedPeer}

func c24pHasPermission(principal string) bool {
	for _, g := range c24pGranted {
		if g == principal {
			return true
		}
	}
	return false
}

func c24pACLJSON() string {
	rules := []acl.Rule{
		{Action: acl.ActionProduce, Resource: acl.ResourceTopic, Name: c24T},
		{Action: acl.ActionFetch, Resource: acl.ResourceTopic, Name: c24T},
		{Action: acl.ActionAdmin, Resource: acl.ResourceCluster, Name: "*"},
	}
	cfg := acl.Config{Enabled: true, DefaultPolicy: "deny"}
	for _, g := range c24pGranted {
		cfg.Principals = append(cfg.Principals, acl.PrincipalRules{Name: g, Allow: rules})
	}
	b, err := json.Marshal(cfg)
	if err != nil {
		panic(err)
	}
	return string(b)
}

// ---- connection preludes ----

type c24pPrelude struct {
	Name  string
	Bytes []byte
	// Src: the source host the header carries according to the PROXY protocol ("" = it
	// carries none: no header, v1 UNKNOWN, v2 LOCAL whatever follows, v2 AF_UNSPEC, malformed).
	Src string
	// Literal: an address that appears in the bytes (for classifying what was honoured).
	Literal string
	Class   string // no-header | header-with-source | header-without-source | malformed-header
}

func c24pV2(verCmd, famProto byte, payload []byte) []byte {
	b := []byte{'\r', '\n', '\r', '\n', 0x00, '\r', '\n', 'Q', 'U', 'I', 'T', '\n', verCmd, famProto}
	b = binary.BigEndian.AppendUint16(b, uint16(len(payload)))
	return append(b, payload...)
}

func c24pInet(src, dst string) []byte {
	b := append([]byte(nil), net.ParseIP(src).To4()...)
	b = append(b, net.ParseIP(dst).To4()...)
	b = binary.BigEndian.AppendUint16(b, 40000)
	return binary.BigEndian.AppendUint16(b, 9092)
}

func c24pInet6(src, dst string) []byte {
	b := append([]byte(nil), net.ParseIP(src).To16()...)
	b = append(b, net.ParseIP(dst).To16()...)
	b = binary.BigEndian.AppendUint16(b, 40000)
	return binary.BigEndian.AppendUint16(b, 9092)
}

// c24pPreludes, simplest first.
func c24pPreludes() []c24pPrelude {
	noopTLV := []byte{0x04, 0x00, 0x04, 0, 0, 0, 0}
	return []c24pPrelude{
		{Name: "none", Class: "no-header"},
		{Name: "v1-TCP4", Bytes: []byte("PROXY TCP4 " + c24pGrantedAddr + " " + c24pProxyDst4 + " 40000 9092\r\n"), Src: c24pGrantedAddr, Literal: c24pGrantedAddr, Class: "header-with-source"},
		{Name: "v1-TCP6", Bytes: []byte("PROXY TCP6 " + c24pOtherAddr6 + " " + c24pProxyDst6 + " 40000 9092\r\n"), Src: c24pOtherAddr6, Literal: c24pOtherAddr6, Class: "header-with-source"},
		{Name: "v1-UNKNOWN", Bytes: []byte("PROXY UNKNOWN\r\n"), Class: "header-without-source"},
		{Name: "v2-PROXY-inet", Bytes: c24pV2(0x21, 0x11, c24pInet(c24pGrantedAddr, c24pProxyDst4)), Src: c24pGrantedAddr, Literal: c24pGrantedAddr, Class: "header-with-source"},
		{Name: "v2-PROXY-inet6", Bytes: c24pV2(0x21, 0x21, c24pInet6(c24pOtherAddr6, c24pProxyDst6)), Src: c24pOtherAddr6, Literal: c24pOtherAddr6, Class: "header-with-source"},
		{Name: "v2-LOCAL", Bytes: c24pV2(0x20, 0x00, nil), Class: "header-without-source"},
		{Name: "v2-LOCAL-with-TLV", Bytes: c24pV2(0x20, 0x00, noopTLV), Class: "header-without-source"},
		// LOCAL: "the receiver must use the real connection endpoints and discard the protocol block"
		{Name: "v2-LOCAL-with-address-block", Bytes: c24pV2(0x20, 0x11, c24pInet(c24pGrantedAddr, c24pProxyDst4)), Literal: c24pGrantedAddr, Class: "header-without-source"},
		{Name: "v2-PROXY-unspec", Bytes: c24pV2(0x21, 0x00, nil), Class: "header-without-source"},
		{Name: "v1-malformed", Bytes: []byte("PROXY TCP4 " + c24pGrantedAddr + "\r\n"), Literal: c24pGrantedAddr, Class: "malformed-header"},
		{Name: "v2-malformed-short-inet", Bytes: c24pV2(0x21, 0x11, net.ParseIP(c24pGrantedAddr).To4()), Literal: c24pGrantedAddr, Class: "malformed-header"},
	}
}

// ---- cases ----

type c24pCase struct {
	Source   *string `json:"principal_source"` // nil = KAFSCALE_PRINCIPAL_SOURCE unset
	Proxy    *string `json:"proxy_protocol"`   // nil = KAFSCALE_PROXY_PROTOCOL unset
	Prelude  string  `json:"prelude"`
	ClientID *string `json:"client_id"` // nil = null client.id in the request header
	Peer     string  `json:"socket_peer"`
	Req      string  `json:"request"`
}

func c24pShow(s *string) string {
	if s == nil {
		return "<unset>"
	}
	return fmt.Sprintf("%q", *s)
}

func (c c24pCase) String() string {
	return fmt.Sprintf("KAFSCALE_PRINCIPAL_SOURCE=%s KAFSCALE_PROXY_PROTOCOL=%s prelude=%s client.id=%s socket-peer=%s request=%s",
		c24pShow(c.Source), c24pShow(c.Proxy), c.Prelude, c24pShow(c.ClientID), c.Peer, c.Req)
}

// sourceClass: the documented principal sources; anything else counts as client_id (the
// broker says so: "unknown principal source; defaulting to client_id").
func (c c24pCase) sourceClass() string {
	if c.Source == nil {
		return "client_id"
	}
	switch strings.ToLower(strings.TrimSpace(*c.Source)) {
	case "", "client_id":
		return "client_id"
	case "remote_addr":
		return "remote_addr"
	case "proxy_addr":
		return "proxy_addr"
	}
	return "client_id"
}

func (c c24pCase) sourceName() string {
	if c.Source == nil {
		return "unset"
	}
	switch *c.Source {
	case "client_id", "remote_addr", "proxy_addr":
		return *c.Source
	}
	return "unknown-value"
}

func (c c24pCase) proxyOn() bool { return c.Proxy != nil && *c.Proxy == "true" }

func c24pClientPrincipal(cid *string) string {
	if cid == nil || strings.TrimSpace(*cid) == "" {
		return "anonymous"
	}
	return *cid
}

// c24pReference: the connection's principal by the documented meaning of each source.
func c24pReference(c c24pCase, pre c24pPrelude) string {
	switch c.sourceClass() {
	case "remote_addr":
		if c.proxyOn() && pre.Src != "" {
			return pre.Src
		}
		return c.Peer
	case "proxy_addr":
		if pre.Src != "" {
			return pre.Src
		}
		return c.Peer // never the client-supplied id
	}
	return c24pClientPrincipal(c.ClientID)
}

// c24pWho classifies whose identity the broker honoured when it performed a request the
// reference principal is not entitled to: the principal buildConnContextFunc resolved (the
// client.id when it resolved none - principalFromContext falls back to it) is matched against
// the identities around the connection. Used for violation keys only, never for the verdict.
func c24pWho(c c24pCase, pre c24pPrelude, resolved string) string {
	effective, label := strings.TrimSpace(resolved), "other-principal"
	switch {
	case effective == "":
		effective, label = c24pClientPrincipal(c.ClientID), "client.id"
	case effective == pre.Literal && pre.Src != "":
		label = "proxy-source"
	case effective == pre.Literal:
		label = "discarded-header-address"
	case effective == c.Peer:
		label = "socket-peer"
	}
	if !c24pHasPermission(effective) {
		return "no-entitled-identity" // the ACL decision itself, not the choice of principal
	}
	return label
}

type c24pConn struct {
	net.Conn
	remote net.Addr
}

func (c *c24pConn) RemoteAddr() net.Addr { return c.remote }

type c24pOutcome struct {
	sig        string
	nontrivial bool
	viols      [][2]string // key, detail
	counters   map[string]int64
}

func c24pSpec(name string) c24ReqSpec {
	for _, s := range c24BaseRequests() {
		if s.Name == name {
			return s
		}
	}
	panic("HARNESS-ERROR c24 principal: no request variant " + name)
}

var c24pRequestNames = []string{"Produce[t]acks=1", "CreateTopics[c]", "Fetch[t]"}

// c24pRunCase runs one connection inside a synctest bubble (virtual clock: the client side
// gives up after 30 virtual seconds, so a server side that waits for bytes which never come
// ends with EOF instead of a deadlock).
func c24pRunCase(ccf broker.ConnContextFunc, authz *acl.Authorizer, c c24pCase, pre c24pPrelude) (o c24pOutcome) {
	o.counters = map[string]int64{}
	stats := &c24Stats{}
	w := c24NewWorld(c24WorldCfg{Perms: 0, AutoCreate: true, TopicExists: true, GroupExists: false}, stats)
	defer w.Close()
	w.h.authorizer = authz

	spec := c24pSpec(c.Req)
	req := spec.Build(w)
	req.SetVersion(spec.Ver)
	var fopts []kmsg.RequestFormatterOpt
	if c.ClientID != nil {
		fopts = append(fopts, kmsg.FormatterClientID(*c.ClientID))
	}
	frame := kmsg.NewRequestFormatter(fopts...).AppendRequest(nil, req, 42)
	sent := append(append([]byte(nil), pre.Bytes...), frame...)

	srv, cli := net.Pipe()
	conn := &c24pConn{Conn: srv, remote: &net.TCPAddr{IP: net.ParseIP(c.Peer), Port: 40123}}
	received := make(chan []byte, 1)
	go func() {
		defer func() { _ = cli.Close() }()
		_ = cli.SetDeadline(time.Now().Add(30 * time.Second))
		_, _ = cli.Write(sent)
		b, _ := io.ReadAll(cli)
		received <- b
	}()

	before := w.snapshot(false)
	stage := ""
	resolved := "<no conn info>"
	resolvedPrincipal := ""
	dispatched := false
	var herr error
	var out []byte
	var panicked any
	func() { // what broker.Server.handleConnection does, for one request
		defer func() { _ = conn.Close() }()
		defer func() {
			if r := recover(); r != nil {
				panicked = r
			}
		}()
		ctx, cancel := context.WithCancel(context.Background())
		defer cancel()
		var nc net.Conn = conn
		if ccf != nil {
			wrapped, info, err := ccf(nc)
			if err != nil {
				stage = "connection-rejected"
				return
			}
			if wrapped != nil {
				nc = wrapped
			}
			if info != nil {
				ctx = broker.ContextWithConnInfo(ctx, info)
				resolved = fmt.Sprintf("%q", info.Principal)
				resolvedPrincipal = info.Principal
			}
		}
		// protocol.ReadFrame allocates the announced frame length before reading; a PROXY header
		// read as a Kafka frame announces 0.2-1.3 GB. When the announced length exceeds what the
		// client will ever send, the real server waits until the client closes and then drops the
		// connection: that outcome is taken directly, without the allocation.
		var lb [4]byte
		if _, err := io.ReadFull(nc, lb[:]); err != nil {
			stage = "no-frame"
			return
		}
		if n := int32(binary.BigEndian.Uint32(lb[:])); n > int32(len(sent)) {
			stage = "frame-never-completes"
			return
		}
		fr, err := protocol.ReadFrame(io.MultiReader(bytes.NewReader(lb[:]), nc))
		if err != nil {
			stage = "bad-frame"
			return
		}
		header, parsed, err := protocol.ParseRequest(fr.Payload)
		if err != nil {
			stage = "unparsable-request"
			return
		}
		dispatched = true
		stage = "dispatched"
		out, herr = w.h.Handle(ctx, header, parsed)
		if herr == nil && out != nil {
			_ = protocol.WriteFrame(nc, out)
		}
	}()
	reply := <-received
	after := w.snapshot(false)

	changed := map[string]string{}
	for k, v := range before {
		if av, ok := after[k]; !ok || av != v {
			changed[k] = c24Category(k, v, av, true, ok)
		}
	}
	for k, v := range after {
		if _, ok := before[k]; !ok {
			changed[k] = c24Category(k, "", v, false, true)
		}
	}
	var bad []string
	cats := map[string]bool{}
	for k, cat := range changed {
		cats[cat] = true
		if parts := strings.Split(k, "/"); len(parts) >= 3 && parts[0] == "topic" && parts[2] != "meta" {
			if cc := changed["topic/"+parts[1]+"/meta"]; cc == "topic-created" || cc == "topic-deleted" {
				continue
			}
		}
		bad = append(bad, cat+" ("+k+")")
	}
	sort.Slice(bad, func(i, j int) bool {
		pi, pj := c24CatPriority(bad[i]), c24CatPriority(bad[j])
		if pi != pj {
			return pi < pj
		}
		return bad[i] < bad[j]
	})
	var catl []string
	for cat := range cats {
		catl = append(catl, cat)
	}
	sort.Strings(catl)

	var entries []c24Entry
	decodeErr := ""
	if dispatched && panicked == nil && herr == nil && out != nil {
		switch {
		case len(reply) < 4 || int(binary.BigEndian.Uint32(reply[:4])) != len(reply)-4:
			decodeErr = fmt.Sprintf("the client received %d bytes that are not one response frame", len(reply))
		default:
			resp, err := c24Decode(req, spec.Ver, reply[4:])
			if err != nil {
				decodeErr = err.Error()
			} else {
				entries = w.entries(req, resp)
			}
		}
	}
	var codes []string
	for _, e := range entries {
		codes = append(codes, fmt.Sprintf("%s:%s=%d/%dB", e.Kind, e.Name, e.Code, e.Data))
	}

	ref := c24pReference(c, pre)
	allowed := c24pHasPermission(ref)
	api := c24Api(spec.Name)
	if !allowed {
		who := c24pWho(c, pre, resolvedPrincipal)
		keyBase := fmt.Sprintf("principal/%s/%s:%s-honoured:%s:", c.sourceName(), pre.Class, who, api)
		what := fmt.Sprintf("%s: the connection's principal is %q (source %s), which holds no permission (identity honoured by the broker: %s; principal resolved by buildConnContextFunc: %s; %s)", c, ref, c.sourceClass(), who, resolved, stage)
		add := func(k, d string) { o.viols = append(o.viols, [2]string{keyBase + k, d}) }
		if len(bad) > 0 {
			cat := bad[0][:strings.Index(bad[0], " (")]
			add(cat+"-without-permission", what+" but the broker state changed: "+strings.Join(bad, ", "))
		}
		if dispatched {
			switch {
			case panicked != nil:
				add("panic", fmt.Sprintf("%s: handler panicked: %v", what, panicked))
			case herr != nil:
				add("handler-error-instead-of-authorization-error", fmt.Sprintf("%s: Handle returned error %v", what, herr))
			case out == nil:
				add("no-authorization-error", what+": no reply")
			case decodeErr != "":
				add("undecodable-reply", what+": "+decodeErr)
			default:
				if len(entries) == 0 {
					add("no-authorization-error", what+" but the reply has no entry")
				}
				for _, e := range entries {
					if !c24IsAuthErr(e.Code) {
						add("no-authorization-error", fmt.Sprintf("%s but the reply entry for %s %q has error code %d", what, e.Kind, e.Name, e.Code))
					}
					if e.Data > 0 {
						add("record-data-without-permission", fmt.Sprintf("%s but %d record bytes were returned", what, e.Data))
					}
				}
			}
		} else if panicked != nil {
			add("panic", fmt.Sprintf("%s: connection set-up panicked: %v", what, panicked))
		}
	}

	// bookkeeping
	switch {
	case !dispatched:
		o.counters["connections_"+strings.ReplaceAll(stage, "-", "_")]++
	case !allowed:
		o.counters["dispatched_reference_principal_lacks_permission"]++
	default:
		performed := herr == nil && decodeErr == "" && len(entries) > 0
		for _, e := range entries {
			if e.Code != 0 {
				performed = false
			}
		}
		if performed {
			o.counters["dispatched_reference_principal_entitled_performed"]++
		} else {
			o.counters["dispatched_reference_principal_entitled_refused"]++
		}
	}
	status := "entitled"
	if !allowed {
		status = "UNAUTHORIZED"
	}
	o.sig = fmt.Sprintf("%s | %s resolved=%s reference=%q %s reply[%s] changed[%s]", c, stage, resolved, ref, status, strings.Join(codes, ","), strings.Join(catl, ","))
	if herr != nil {
		o.sig += " goerr"
	}
	o.nontrivial = dispatched && !allowed
	return o
}

type c24pReplay struct {
	Part string   `json:"part"`
	Case c24pCase `json:"case"`
}

func c24pSetenv(t *testing.T, key string, v *string) {
	t.Setenv(key, "x") // registers the restore of the original value
	if v == nil {
		if err := os.Unsetenv(key); err != nil {
			t.Fatalf("HARNESS-ERROR unsetenv: %v", err)
		}
		return
	}
	if err := os.Setenv(key, *v); err != nil {
		t.Fatalf("HARNESS-ERROR setenv: %v", err)
	}
}

func c24pPtr(s string) *string { return &s }

func TestVerifC24Principal(t *testing.T) {
	rep := vh.New(t, "C24")
	defer rep.Finish()
	rep.Rule = "principal part: case = one connection (KAFSCALE_PRINCIPAL_SOURCE x KAFSCALE_PROXY_PROTOCOL x bytes the client sends before its request: none / PROXY v1,v2 header with, without, with a to-be-discarded source address / malformed header x client.id x socket peer address with or without permissions) carrying one request (Produce, CreateTopics, Fetch), run through the real buildConnContextFunc, the server's connection steps (context, ReadFrame, ParseRequest) and the real handler.Handle with the ACL parsed by buildAuthorizerFromEnv; the reference principal follows the documented meaning of the principal source; signature = (case, how far the connection got, principal resolved by the broker, reference principal, reply codes and record bytes received by the client, categories of state that changed); non-trivial = the request reached the handler and the reference principal lacks the permission (the oracle constrains it)"
	rep.Assumptions = []string{
		"principal of a connection (docs/operations.md, PROXY protocol spec): client_id (also unset, and unknown values, which the broker says it treats as client_id) -> the request's client.id, anonymous when null/blank; remote_addr -> host of the socket peer, or the PROXY header's source host when KAFSCALE_PROXY_PROTOCOL is on and the header carries one; proxy_addr -> the PROXY header's source host when it carries one, otherwise the socket peer's host, never the client-supplied id. A v1 UNKNOWN header, a v2 LOCAL header (whatever address block or TLVs follow) and a v2 AF_UNSPEC header carry no source",
		"a connection the broker rejects, or whose bytes never form a request, performs nothing: only 'nothing changed' is demanded of it",
		"only the unauthorized direction is judged (statement); whether an entitled principal's request is performed is counted, not judged",
		"the server side of the connection is the harness's transcription of broker.Server.handleConnection for one request (the method is unexported in another package); a frame length larger than everything the client sends is answered as 'never completes' without calling ReadFrame (which would allocate it)",
	}
	c24pSetenv(t, "KAFSCALE_ACL_ENABLED", c24pPtr("true"))
	c24pSetenv(t, "KAFSCALE_ACL_JSON", c24pPtr(c24pACLJSON()))
	c24pSetenv(t, "KAFSCALE_ACL_FILE", nil)
	c24pSetenv(t, "KAFSCALE_ACL_FAIL_OPEN", nil)
	authz := buildAuthorizerFromEnv(vLogger())

	preludes := c24pPreludes()
	preByName := map[string]c24pPrelude{}
	var preNames []string
	for _, p := range preludes {
		preByName[p.Name] = p
		preNames = append(preNames, p.Name)
	}
	runOne := func(c c24pCase) c24pOutcome {
		c24pSetenv(t, "KAFSCALE_PRINCIPAL_SOURCE", c.Source)
		c24pSetenv(t, "KAFSCALE_PROXY_PROTOCOL", c.Proxy)
		ccf := buildConnContextFunc(vLogger())
		var o c24pOutcome
		synctest.Test(t, func(*testing.T) { o = c24pRunCase(ccf, authz, c, preByName[c.Prelude]) })
		return o
	}

	var rp c24pReplay
	if ok, err := vh.LoadReplay(&rp); ok {
		if err != nil {
			t.Fatalf("HARNESS-ERROR replay: %v", err)
		}
		if rp.Part != "principal" {
			return // a replay of the main part
		}
		if _, known := preByName[rp.Case.Prelude]; !known {
			t.Fatalf("HARNESS-ERROR replay: unknown prelude %q", rp.Case.Prelude)
		}
		o := runOne(rp.Case)
		rep.Eval(1)
		rep.Outcome(o.sig, true)
		rep.Outcome("replay-done", true)
		rep.Cap("replay of one case")
		for _, v := range o.viols {
			rep.Violation(v[0], v[1], rp)
		}
		return
	}

	sources := []*string{nil, c24pPtr("client_id"), c24pPtr("remote_addr"), c24pPtr("proxy_addr"), c24pPtr("mtls")}
	proxies := []*string{nil, c24pPtr("true")}
	peers := []string{c24pPlainPeer, c24pTrustedPeer}
	rep.SetInfo("principal_part_sources", []string{"<unset>", "client_id", "remote_addr", "proxy_addr", "mtls (unknown value)"})
	rep.SetInfo("principal_part_proxy_protocol", []string{"<unset>", "true"})
	rep.SetInfo("principal_part_preludes", preNames)
	rep.SetInfo("principal_part_client_ids", []string{"<null>", "\"\"", c24Alice, c24pGrantedAddr, "<socket peer's host>"})
	rep.SetInfo("principal_part_socket_peers", peers)
	rep.SetInfo("principal_part_requests", c24pRequestNames)
	rep.SetInfo("principal_part_acl_principals", c24pGranted)
	deadline := vh.Deadline()
	kept := map[string]int{}
	samples := 0
	capped := false
	// one (source, proxy) configuration = one buildConnContextFunc result; simplest first
	for _, src := range sources {
		for _, px := range proxies {
			c24pSetenv(t, "KAFSCALE_PRINCIPAL_SOURCE", src)
			c24pSetenv(t, "KAFSCALE_PROXY_PROTOCOL", px)
			ccf := buildConnContextFunc(vLogger())
			for _, peer := range peers {
				for _, pre := range preludes {
					for _, cid := range []*string{nil, c24pPtr(""), c24pPtr(c24Alice), c24pPtr(c24pGrantedAddr), c24pPtr(peer)} {
						for _, rn := range c24pRequestNames {
							if time.Now().After(deadline) {
								if !capped {
									rep.Cap("deadline before all connections were run")
									capped = true
								}
								continue
							}
							c := c24pCase{Source: src, Proxy: px, Prelude: pre.Name, ClientID: cid, Peer: peer, Req: rn}
							var o c24pOutcome
							synctest.Test(t, func(*testing.T) { o = c24pRunCase(ccf, authz, c, pre) })
							rep.Eval(1)
							rep.Outcome(o.sig, o.nontrivial)
							for k, n := range o.counters {
								rep.Count("principal_"+k, n)
							}
							if o.nontrivial && len(o.viols) == 0 && samples < 2 && rep.WantSample() && pre.Class != "no-header" {
								rep.Sample(map[string]any{"part": "principal", "case": c.String(), "outcome": o.sig})
								samples++
							}
							for _, v := range o.viols {
								kept[v[0]]++
								if kept[v[0]] > 3 {
									rep.Violation(v[0], "", nil)
									continue
								}
								rep.Violation(v[0], v[1], c24pReplay{Part: "principal", Case: c})
							}
						}
					}
				}
			}
		}
	}
}
