//go:build verif

package main

import (
	"bytes"
	"context"
	"encoding/binary"
	"encoding/hex"
	"fmt"
	"runtime"
	"runtime/debug"
	"sort"
	"strings"
	"sync"
	"testing"
	"time"

	"github.com/KafScale/platform/internal/verif/enum"
	"github.com/KafScale/platform/internal/verif/fakes3"
	"github.com/KafScale/platform/internal/verif/vh"
	"github.com/KafScale/platform/pkg/broker"
	"github.com/KafScale/platform/pkg/metadata"
)

// ---------------------------------------------------------------------------
// C02 — offsets are unique, contiguous and increasing per partition.
//
// Sequential bounded-exhaustive check (E3 x short histories): every sequence of
// <= 3 produce requests over an alphabet of well-formed and malformed record
// sets, interleaved with flushes and broker restarts, is sent through the real
// handler.handleProduce (in-memory metadata store, fakes3 bucket). A reference
// model (list of accepted record sets with the offsets their *actual* records
// must occupy) is compared with the produce responses, the segment objects in
// the bucket and what handler.handleFetch returns.
// ---------------------------------------------------------------------------

// c02Phys is one physical batch inside a record set a client sent (ground truth
// known by construction, not read back from header fields).
type c02Phys struct {
	Off int // byte offset of the batch inside the record set
	N   int // records actually present in the batch body
}

// c02Item is one element of the produce alphabet.
type c02Item struct {
	Name  string
	Bytes []byte
	Phys  []c02Phys
	Lod   int32 // lastOffsetDelta in the first header
	Rc    int32 // recordCount in the first header
	BLOk  bool  // batchLength field of every physical batch is consistent
	Total int   // records actually present in the whole record set
	Class string
}

func (it *c02Item) wellFormed() bool { return it.Class == "wf" }

func c02Recs(tag string, n int) []enum.Rec {
	recs := make([]enum.Rec, n)
	for i := range recs {
		recs[i] = enum.Rec{OffsetDelta: int32(i), TimestampDelta: int64(i), Key: []byte(fmt.Sprintf("%s.%d", tag, i)), Value: []byte("v-" + tag)}
	}
	return recs
}

func c02Payload(recs []enum.Rec) []byte {
	var p []byte
	for _, r := range recs {
		p = append(p, enum.EncodeRecord(r)...)
	}
	return p
}

// c02Alphabet builds the produce alphabet for history position pos (payloads are
// tagged with pos so that every record set in a history is distinguishable).
// Ordered simplest first. full=false gives the reduced alphabet.
func c02Alphabet(pos int, full bool) []c02Item {
	tag := func(s string) string { return fmt.Sprintf("p%d%s", pos, s) }
	one := func(name, class string, b []byte, n int, lod, rc int32, blok bool) c02Item {
		return c02Item{Name: name, Class: class, Bytes: b, Phys: []c02Phys{{0, n}}, Lod: lod, Rc: rc, BLOk: blok, Total: n}
	}
	var out []c02Item
	// well-formed
	for _, n := range []int{1, 2, 3} {
		if n == 3 && !full {
			continue
		}
		b := enum.MakeBatch(c02Recs(tag("w"), n), enum.BatchOpts{BaseTimestamp: 1000})
		out = append(out, one(fmt.Sprintf("wf%d", n), "wf", b, n, int32(n-1), int32(n), true))
	}
	// lastOffsetDelta lies (record count field and body agree with each other)
	lods := map[int][]int32{1: {-1, -2, 1, 1<<31 - 1}, 2: {-1, -2, 0, 2, 1<<31 - 1}}
	if !full {
		lods = map[int][]int32{1: {-1, 1, 1<<31 - 1}, 2: {0}}
	}
	for _, n := range []int{1, 2} {
		for _, lod := range lods[n] {
			b := enum.MakeBatch(c02Recs(tag("l"), n), enum.BatchOpts{BaseTimestamp: 1000, LastOffsetDelta: enum.I32(lod)})
			out = append(out, one(fmt.Sprintf("lod=%d/n=%d", lod, n), "lod", b, n, lod, int32(n), true))
		}
	}
	// recordCount field lies (lastOffsetDelta agrees with the body)
	rcs := [][2]int32{{1, 0}, {1, 2}, {2, 1}, {1, -1}}
	if !full {
		rcs = rcs[:1]
	}
	for _, c := range rcs {
		n := int(c[0])
		b := enum.MakeBatch(c02Recs(tag("r"), n), enum.BatchOpts{BaseTimestamp: 1000, RecordCount: enum.I32(c[1])})
		out = append(out, one(fmt.Sprintf("rc=%d/n=%d", c[1], n), "rc", b, n, int32(n-1), c[1], true))
	}
	// header self-consistent, but the body holds a different number of records
	{
		b := enum.MakeBatchRaw(c02Payload(c02Recs(tag("b"), 1)), 2, nil, enum.BatchOpts{BaseTimestamp: 1000})
		out = append(out, one("claims2/body1", "body", b, 1, 1, 2, true))
		if full {
			b2 := enum.MakeBatchRaw(c02Payload(c02Recs(tag("c"), 2)), 1, nil, enum.BatchOpts{BaseTimestamp: 1000})
			out = append(out, one("claims1/body2", "body", b2, 2, 0, 1, true))
		}
	}
	// batchLength field lies
	{
		base := enum.MakeBatch(c02Recs(tag("x"), 1), enum.BatchOpts{BaseTimestamp: 1000})
		good := int32(len(base) - 12)
		bls := []int32{good - 1, good + 1, 0}
		if !full {
			bls = bls[:1]
		}
		for _, bl := range bls {
			b := enum.MakeBatch(c02Recs(tag("x"), 1), enum.BatchOpts{BaseTimestamp: 1000, BatchLength: enum.I32(bl)})
			out = append(out, one(fmt.Sprintf("batchLength%+d/n=1", bl-good), "bl", b, 1, 0, 1, false))
		}
	}
	// several batches concatenated in one record set (each one well-formed)
	concat := func(name string, ns []int, relative bool) c02Item {
		it := c02Item{Name: name, Class: "concat", BLOk: true}
		off := 0
		for j, n := range ns {
			o := enum.BatchOpts{BaseTimestamp: 1000}
			if relative {
				o.BaseOffset = int64(off)
			}
			b := enum.MakeBatch(c02Recs(tag(fmt.Sprintf("k%d", j)), n), o)
			it.Phys = append(it.Phys, c02Phys{Off: len(it.Bytes), N: n})
			it.Bytes = append(it.Bytes, b...)
			it.Total += n
			off += n
			if j == 0 {
				it.Lod, it.Rc = int32(n-1), int32(n)
			}
		}
		return it
	}
	out = append(out, concat("concat[1+1]", []int{1, 1}, false))
	if full {
		out = append(out, concat("concat[1+2]", []int{1, 2}, false))
		out = append(out, concat("concat[2+1]", []int{2, 1}, false))
		out = append(out, concat("concat[1+1+1]", []int{1, 1, 1}, false))
		out = append(out, concat("concat-relative[1+1]", []int{1, 1}, true))
	}
	// the same lies under a magic byte other than 2 (the broker reads the v2 fields regardless)
	{
		m1 := enum.MakeBatch(c02Recs(tag("m"), 1), enum.BatchOpts{BaseTimestamp: 1000, Magic: 1, LastOffsetDelta: enum.I32(-1)})
		out = append(out, one("magic1,lod=-1/n=1", "lod", m1, 1, -1, 1, true))
		if full {
			m2 := enum.MakeBatchRaw(c02Payload(c02Recs(tag("n"), 1)), 2, nil, enum.BatchOpts{BaseTimestamp: 1000, Magic: 1})
			out = append(out, one("magic1,claims2/body1", "body", m2, 1, 1, 2, true))
			it := c02Item{Name: "magic1,concat[1+1]", Class: "concat", BLOk: true, Lod: 0, Rc: 1}
			for j := 0; j < 2; j++ {
				b := enum.MakeBatch(c02Recs(tag(fmt.Sprintf("o%d", j)), 1), enum.BatchOpts{BaseTimestamp: 1000, Magic: 1})
				it.Phys = append(it.Phys, c02Phys{Off: len(it.Bytes), N: 1})
				it.Bytes = append(it.Bytes, b...)
				it.Total++
			}
			out = append(out, it)
		}
	}
	// truncations of a well-formed 1-record batch
	{
		base := enum.MakeBatch(c02Recs(tag("t"), 1), enum.BatchOpts{BaseTimestamp: 1000})
		it61 := one("trunc61", "trunc", append([]byte(nil), base[:61]...), 0, 0, 1, false)
		out = append(out, it61)
		it60 := one("trunc60", "trunc", append([]byte(nil), base[:60]...), 0, 0, 1, false)
		out = append(out, it60)
	}
	return out
}

// c02Hist is one history.
type c02Hist struct {
	Mode      string   `json:"mode"`       // "sync" (flush on ack, acks=-1) or "async" (KAFSCALE_PRODUCE_SYNC_FLUSH=false, acks=1)
	Items     []string `json:"items"`      // alphabet names
	Seps      []string `json:"seps"`       // event after each produce: none|flush|restart|flush+restart
	StoreFail int      `json:"store_fail"` // 1-based index of the produce during which the metadata-store offset update fails (0 = none)
	Alpha     string   `json:"alphabet"`   // mini | reduced | full
	Hex       []string `json:"record_sets_hex,omitempty"`
	idx       []int
	seq       int64
}

// c02Store lets one UpdateOffsets fail (the flush itself succeeded): the store then
// lags S3 and a restart has to resume from the last segment.
type c02Store struct {
	metadata.Store
	mu   sync.Mutex
	fail bool
}

func (s *c02Store) UpdateOffsets(ctx context.Context, topic string, partition int32, lastOffset int64) error {
	s.mu.Lock()
	f := s.fail
	s.mu.Unlock()
	if f {
		return fmt.Errorf("verif: injected metadata store failure")
	}
	return s.Store.UpdateOffsets(ctx, topic, partition, lastOffset)
}

func (s *c02Store) setFail(v bool) { s.mu.Lock(); s.fail = v; s.mu.Unlock() }

type c02Acc struct {
	pos     int
	item    *c02Item
	base    int64
	durable bool
	epoch   int // broker incarnation that accepted it
}

type c02Viol struct {
	key, detail string
}

type c02Result struct {
	sig     string
	viol    *c02Viol
	harness string
}

// The partition under test is t/1 of an 11-partition topic whose partition 10 - a textual neighbour of
// "1" in every key scheme - already holds flushed segments with the same base offsets and larger
// last offsets: offsets assigned to t/1 must not depend on them, also after a restart.
const c02P = int32(1)
const c02Prefix = "default/t/1/"

func c02Expected(a *c02Acc) []byte {
	b := append([]byte(nil), a.item.Bytes...)
	off := a.base
	for _, p := range a.item.Phys {
		if p.Off+8 <= len(b) {
			binary.BigEndian.PutUint64(b[p.Off:p.Off+8], uint64(off))
		}
		off += int64(p.N)
	}
	return b
}

// c02Key names the mechanism from the culprit record set (the accepted record set
// whose offset accounting went wrong) and the context.
func c02Key(culprit *c02Acc, restartSince bool, fallback string) string {
	if culprit == nil {
		return fallback
	}
	it := culprit.item
	switch {
	case len(it.Phys) > 1:
		return "concatenated-batches"
	case it.Lod < 0:
		return "negative-last-offset-delta"
	case int(it.Lod)+1 < it.Total:
		return "record-count-mismatch-offsets-reused"
	case int(it.Lod)+1 > it.Total:
		return "record-count-mismatch-offsets-skipped"
	case int(it.Rc) != it.Total:
		return "record-count-field-trusted"
	case !it.BLOk:
		return "batch-length-mismatch"
	}
	if restartSince {
		return fallback + "-after-restart"
	}
	return fallback
}

func c02StoredLog(b *fakes3.Bucket) ([]byte, []string) {
	segs, _ := b.Snapshot()
	keys := make([]string, 0, len(segs))
	for k := range segs {
		if strings.HasPrefix(k, c02Prefix) && strings.HasSuffix(k, ".kfs") {
			keys = append(keys, k)
		}
	}
	sort.Strings(keys)
	var out []byte
	for _, k := range keys {
		d := segs[k]
		if len(d) >= 48 {
			out = append(out, d[32:len(d)-16]...)
		}
	}
	return out, keys
}

// c02Run executes one history on fresh real objects.
func c02Run(hist *c02Hist, alpha [][]c02Item) (res c02Result) {
	var handlers []*handler
	defer func() {
		for _, h := range handlers {
			h.coordinator.Stop()
		}
		if r := recover(); r != nil {
			res.viol = &c02Viol{"panic", fmt.Sprintf("panic in broker code: %v", r)}
		}
	}()
	bucket := fakes3.NewBucket()
	inner := metadata.NewInMemoryStore(vMeta(map[string]int{"t": 11}))
	store := &c02Store{Store: inner}
	epoch := 0
	newH := func() *handler {
		s3c := fakes3.New(bucket, fmt.Sprintf("b%d", epoch))
		s3c.NoPoints = true
		h := vNewHandler(store, s3c)
		h.logConfig.Buffer.FlushInterval = 0 // no wall-clock triggered flushes
		h.flushInterval = 0
		h.logConfig.ReadAheadSegments = 0 // no background prefetch goroutines
		h.readAhead = 0
		h.flushOnAck = hist.Mode == "sync"
		// the S3 health monitor classifies by measured wall-clock latency; make it unable to
		// leave the healthy state so that scheduling noise cannot turn into error codes
		h.s3Health = broker.NewS3HealthMonitor(broker.S3HealthConfig{LatencyWarn: 1000 * time.Hour, LatencyCrit: 2000 * time.Hour, ErrorWarn: 2, ErrorCrit: 3})
		handlers = append(handlers, h)
		return h
	}
	// the neighbour partition is written by an earlier broker incarnation
	{
		h0 := newH()
		h0.flushOnAck = true
		for i, n := range []int{3, 2} {
			if r, err := vProduceOne(h0, "t", 10, -1, enum.SimpleBatch(fmt.Sprintf("sib%d", i), n, 9)); err != nil || r.Code != 0 {
				res.harness = fmt.Sprintf("neighbour partition produce: err=%v code=%d", err, r.Code)
				return
			}
		}
		epoch++
	}
	h := newH()
	acks := int16(-1)
	if hist.Mode != "sync" {
		acks = 1
	}
	var model []*c02Acc
	next := int64(0)
	restartSinceLast := false
	var sig strings.Builder
	sig.WriteString(hist.Mode)
	if hist.StoreFail > 0 {
		fmt.Fprintf(&sig, "/sf%d", hist.StoreFail)
	}

	lastAcc := func() *c02Acc {
		if len(model) == 0 {
			return nil
		}
		return model[len(model)-1]
	}
	// stored-log check: segment bodies in key order == expected bytes of durable accepted record sets
	checkStored := func(when string) *c02Viol {
		got, keys := c02StoredLog(bucket)
		cur := 0
		var prev *c02Acc
		for _, a := range model {
			if !a.durable {
				continue
			}
			want := c02Expected(a)
			if cur+len(want) <= len(got) && bytes.Equal(got[cur:cur+len(want)], want) {
				cur += len(want)
				prev = a
				continue
			}
			// mismatch at this record set: is it only a base-offset field?
			if cur+len(want) <= len(got) {
				piece := got[cur : cur+len(want)]
				for j, p := range a.item.Phys {
					if p.Off+8 > len(want) {
						break
					}
					gb := int64(binary.BigEndian.Uint64(piece[p.Off : p.Off+8]))
					wb := int64(binary.BigEndian.Uint64(want[p.Off : p.Off+8]))
					if gb == wb {
						continue
					}
					same := bytes.Equal(piece[p.Off+8:], want[p.Off+8:]) || j+1 < len(a.item.Phys)
					if j > 0 && same {
						return &c02Viol{c02Key(a, false, "stored-base-offset-wrong"), fmt.Sprintf("%s: record set #%d (%s) acknowledged at base %d: its physical batch %d is stored with base offset %d, but the records before it occupy offsets up to %d so it must start at %d", when, a.pos+1, a.item.Name, a.base, j+1, gb, wb-1, wb)}
					}
					if j == 0 && same {
						return &c02Viol{"response-base-differs-from-stored-base", fmt.Sprintf("%s: record set #%d (%s) was acknowledged with BaseOffset %d but its batch in the stored log carries base offset %d", when, a.pos+1, a.item.Name, a.base, gb)}
					}
					break
				}
			}
			return &c02Viol{c02Key(prev, false, "stored-log-differs"), fmt.Sprintf("%s: stored log (%d bytes in %v) does not hold acknowledged record set #%d (%s, base %d) at byte %d after the earlier acknowledged record sets", when, len(got), keys, a.pos+1, a.item.Name, a.base, cur)}
		}
		if cur != len(got) {
			return &c02Viol{c02Key(prev, false, "stored-log-has-extra-bytes"), fmt.Sprintf("%s: stored log holds %d bytes beyond the acknowledged record sets (segments %v)", when, len(got)-cur, keys)}
		}
		return nil
	}

	for i, ix := range hist.idx {
		it := &alpha[i][ix]
		if hist.StoreFail == i+1 {
			store.setFail(true)
		}
		pr, err := vProduceOne(h, "t", c02P, acks, it.Bytes)
		store.setFail(false)
		if err != nil {
			res.harness = fmt.Sprintf("produce #%d: %v", i+1, err)
			return
		}
		fmt.Fprintf(&sig, "|%s:", it.Name)
		if pr.Code != 0 {
			fmt.Fprintf(&sig, "rej%d", pr.Code)
		} else {
			fmt.Fprintf(&sig, "ok@%d", pr.Base)
			if pr.Base != next {
				cul := lastAcc()
				prevDesc := "no earlier record set"
				if cul != nil {
					prevDesc = fmt.Sprintf("previous accepted record set #%d (%s) was acknowledged at base %d and holds %d record(s) in %d batch(es), header lastOffsetDelta=%d recordCount=%d", cul.pos+1, cul.item.Name, cul.base, cul.item.Total, len(cul.item.Phys), cul.item.Lod, cul.item.Rc)
				}
				kind := "gap"
				if pr.Base < next {
					kind = "offsets reused"
				}
				key := c02Key(cul, restartSinceLast, "offset-arithmetic")
				// the overstated-lastOffsetDelta mechanism predicts the wrong base exactly: the broker trusts the
				// header, so the next base is previous base + lastOffsetDelta + 1 (a gap). Anything else after
				// such a batch (e.g. a base BELOW the previous one) is another mechanism and gets its own key.
				if cul != nil && len(cul.item.Phys) == 1 && int64(cul.item.Lod)+1 > int64(cul.item.Total) && pr.Base != cul.base+int64(cul.item.Lod)+1 {
					key += ":next-base-is-not-base+lastOffsetDelta+1"
				}
				res.viol = &c02Viol{key, fmt.Sprintf("produce #%d (%s) acknowledged with BaseOffset %d, expected %d (%s): %s", i+1, it.Name, pr.Base, next, kind, prevDesc)}
				res.sig = sig.String()
				return
			}
			model = append(model, &c02Acc{pos: i, item: it, base: next, durable: hist.Mode == "sync", epoch: epoch})
			next += int64(it.Total)
			restartSinceLast = false
		}
		if v := checkStored(fmt.Sprintf("after produce #%d", i+1)); v != nil {
			res.viol, res.sig = v, sig.String()
			return
		}
		sep := hist.Seps[i]
		sig.WriteString("," + sep)
		if sep == "flush" || sep == "flush+restart" {
			plog, err := h.getPartitionLog(bg(), "t", c02P)
			if err != nil {
				res.viol = &c02Viol{c02Key(lastAcc(), false, "partition-open-failed"), fmt.Sprintf("getPartitionLog after produce #%d: %v", i+1, err)}
				res.sig = sig.String()
				return
			}
			if err := plog.Flush(bg()); err != nil {
				res.harness = fmt.Sprintf("flush after produce #%d failed without injected fault: %v", i+1, err)
				return
			}
			for _, a := range model {
				a.durable = true
			}
		}
		if sep == "restart" || sep == "flush+restart" {
			epoch++
			h = newH()
			kept := model[:0]
			for _, a := range model {
				if a.durable {
					kept = append(kept, a)
				}
			}
			model = kept
			next = 0
			if a := lastAcc(); a != nil {
				next = a.base + int64(a.item.Total)
			}
			restartSinceLast = true
		}
		if sep != "none" {
			if v := checkStored(fmt.Sprintf("after %s following produce #%d", sep, i+1)); v != nil {
				res.viol, res.sig = v, sig.String()
				return
			}
		}
	}
	// fetch path: every acknowledged record set still in the log is found at its response base offset
	for _, a := range model {
		if a.item.Total == 0 || hist.StoreFail > 0 {
			// with a failed store update the published watermark legitimately lags (C05's subject)
			continue
		}
		fr, err := vFetchOne(h, "t", c02P, a.base, 1<<20)
		if err != nil {
			res.harness = fmt.Sprintf("fetch at %d: %v", a.base, err)
			return
		}
		want := c02Expected(a)
		if fr.Code != 0 || !bytes.Contains(fr.Records, want) {
			var cul *c02Acc
			for _, m := range model {
				// earliest accepted record set whose header misstates the offsets it occupies
				if cul == nil && (len(m.item.Phys) > 1 || int(m.item.Lod)+1 != m.item.Total) {
					cul = m
				}
			}
			readErr := ""
			if fr.Code != 0 {
				if plog, err := h.getPartitionLog(bg(), "t", c02P); err == nil {
					if _, rerr := plog.Read(bg(), a.base, 1<<20); rerr != nil {
						readErr = " (PartitionLog.Read: " + rerr.Error() + ")"
					}
				}
			}
			res.viol = &c02Viol{c02Key(cul, false, "fetch-at-response-base-misses-batch"), fmt.Sprintf("record set #%d (%s) was acknowledged with BaseOffset %d, but a fetch at offset %d (maxBytes 1MiB) returned code %d, high watermark %d, %d bytes that do not contain that batch at base offset %d%s", a.pos+1, a.item.Name, a.base, a.base, fr.Code, fr.HW, len(fr.Records), a.base, readErr)}
			res.sig = sig.String()
			return
		}
	}
	fmt.Fprintf(&sig, "|end=%d", next)
	res.sig = sig.String()
	return
}

func c02Seps(mode string) []string {
	if mode == "sync" {
		return []string{"none", "flush", "restart"}
	}
	return []string{"none", "flush", "restart", "flush+restart"}
}

func TestVerifC02(t *testing.T) {
	rep := vh.New(t, "C02")
	defer rep.Finish()
	rep.Rule = "case = one history: mode (sync flush-on-ack acks=-1 | async KAFSCALE_PRODUCE_SYNC_FLUSH=false acks=1) x sequence of 1..3 produce record sets from the alphabet x an event after each produce (none|flush|restart|flush+restart) x optionally one failed metadata-store offset update; executed on a fresh real handler (handleProduce, getPartitionLog/RestoreFromS3, handleFetch); outcome signature = per-produce accept/reject code and base offset; non-trivial = contains a malformed record set, a restart or a failed store update"
	rep.Assumptions = []string{
		"fakes3 bucket (atomic PUT) and metadata.InMemoryStore stand for S3 and etcd; no S3 faults in this check",
		"restart = fresh handler over the same bucket and store; acknowledged-but-unflushed record sets of the async mode are dropped from the reference at a restart (documented non-durable mode)",
		"ground truth (number of records really present per physical batch) is known by construction of each alphabet element, not read from header fields",
		"time-triggered flush disabled (FlushInterval=0) and read-ahead disabled for determinism",
	}
	full := vh.Thorough()
	maxLen := 3
	var alphaFull, alphaRed, alphaMini [][]c02Item
	for pos := 0; pos < maxLen; pos++ {
		alphaFull = append(alphaFull, c02Alphabet(pos, true))
		red := c02Alphabet(pos, false)
		alphaRed = append(alphaRed, red)
		var mini []c02Item
		for _, it := range red {
			switch it.Name {
			case "wf1", "wf2", "lod=-1/n=1", "concat[1+1]":
				mini = append(mini, it)
			}
		}
		alphaMini = append(alphaMini, mini)
	}
	alphas := map[string][][]c02Item{"mini": alphaMini, "reduced": alphaRed, "full": alphaFull}
	names := func(a []c02Item) []string {
		var n []string
		for _, it := range a {
			n = append(n, it.Name)
		}
		return n
	}
	rep.SetInfo("alphabet_full", names(alphaFull[0]))
	rep.SetInfo("alphabet_reduced", names(alphaRed[0]))
	rep.SetInfo("alphabet_mini_with_failed_store_update", names(alphaMini[0]))
	rep.SetInfo("max_produces", maxLen)
	rep.SetInfo("full_alphabet_depth", map[bool]int{false: 2, true: 3}[full])
	rep.SetInfo("modes", []string{"sync", "async"})

	// replay of one recorded history
	var rp c02Hist
	if ok, err := vh.LoadReplay(&rp); ok {
		if err != nil {
			t.Fatalf("HARNESS-ERROR load replay: %v", err)
		}
		alpha := alphas[rp.Alpha]
		if alpha == nil {
			t.Fatalf("HARNESS-ERROR replay: unknown alphabet %q", rp.Alpha)
		}
		rp.idx = nil
		for i, n := range rp.Items {
			found := -1
			for j := range alpha[i] {
				if alpha[i][j].Name == n {
					found = j
				}
			}
			if found < 0 {
				t.Fatalf("HARNESS-ERROR replay: unknown alphabet element %q", n)
			}
			rp.idx = append(rp.idx, found)
		}
		r := c02Run(&rp, alpha)
		rep.Eval(1)
		rep.Outcome(r.sig, true)
		rep.Cap("replay of one history")
		if r.harness != "" {
			t.Fatalf("HARNESS-ERROR %s", r.harness)
		}
		if r.viol != nil {
			rep.Violation(r.viol.key, r.viol.detail, rp)
		}
		return
	}

	defer debug.SetGCPercent(debug.SetGCPercent(800)) // many short-lived handlers; keep the collector out of the way
	deadline := vh.Deadline()
	shard, nshards := vh.Shard()
	jobs := make(chan *c02Hist, 1024)
	type found struct {
		seq  int64
		hist *c02Hist
		v    *c02Viol
	}
	var mu sync.Mutex
	best := map[string][]found{}
	counts := map[string]int64{}
	var harnessErr string
	var capped bool
	type sample struct {
		seq int64
		v   any
	}
	var samples []sample
	var wg sync.WaitGroup
	workers := runtime.GOMAXPROCS(0)
	for w := 0; w < workers; w++ {
		wg.Add(1)
		go func() {
			defer wg.Done()
			for hst := range jobs {
				alpha := alphas[hst.Alpha]
				r := c02Run(hst, alpha)
				rep.Eval(1)
				nontriv := hst.StoreFail > 0
				for i, ix := range hst.idx {
					if !alpha[i][ix].wellFormed() || strings.Contains(hst.Seps[i], "restart") {
						nontriv = true
					}
				}
				if r.harness != "" {
					mu.Lock()
					if harnessErr == "" {
						harnessErr = fmt.Sprintf("%s in %+v", r.harness, *hst)
					}
					mu.Unlock()
					continue
				}
				sg := r.sig
				if r.viol != nil {
					sg += "|VIOL:" + r.viol.key
				}
				rep.Outcome(sg, nontriv)
				if nontriv && len(hst.idx) >= 2 && hst.seq%1009 == 0 {
					mu.Lock()
					samples = append(samples, sample{hst.seq, map[string]any{"history": hst, "outcome": sg}})
					mu.Unlock()
				}
				if r.viol != nil {
					mu.Lock()
					counts[r.viol.key]++
					l := append(best[r.viol.key], found{hst.seq, hst, r.viol})
					sort.Slice(l, func(i, j int) bool { return l[i].seq < l[j].seq })
					if len(l) > 3 {
						l = l[:3]
					}
					best[r.viol.key] = l
					mu.Unlock()
				}
			}
		}()
	}
	var seq int64
	emit := func(hst *c02Hist) bool {
		seq++
		hst.seq = seq
		if int(seq%int64(nshards)) != shard {
			return true
		}
		if seq%256 == 0 && time.Now().After(deadline) {
			capped = true
			return false
		}
		jobs <- hst
		return true
	}
	// enumeration, shortest histories first, simplest alphabet elements first
	gen := func(mode string, alphaName string, n int, storeFails []int) bool {
		alpha := alphas[alphaName]
		seps := c02Seps(mode)
		dims := make([]int, 0, 2*n)
		for i := 0; i < n; i++ {
			dims = append(dims, len(alpha[i]))
		}
		for i := 0; i < n; i++ {
			dims = append(dims, len(seps))
		}
		okAll := true
		for _, sf := range storeFails {
			if sf > n {
				continue
			}
			enum.Product(dims, func(idx []int) bool {
				if n == 3 && mode == "async" {
					// depth 3 x async: the event after the last produce is limited to
					// none | flush+restart (all four are covered at depth <= 2)
					if ls := seps[idx[2*n-1]]; ls != "none" && ls != "flush+restart" {
						return true
					}
				}
				hst := &c02Hist{Mode: mode, StoreFail: sf, Alpha: alphaName}
				hst.idx = append([]int(nil), idx[:n]...)
				for i := 0; i < n; i++ {
					hst.Items = append(hst.Items, alpha[i][idx[i]].Name)
					hst.Seps = append(hst.Seps, seps[idx[n+i]])
				}
				if !emit(hst) {
					okAll = false
					return false
				}
				return true
			})
			if !okAll {
				return false
			}
		}
		return true
	}
	fullDepth := 2
	if full {
		fullDepth = 3
	}
	func() {
		defer close(jobs)
		for n := 1; n <= maxLen; n++ {
			for _, mode := range []string{"sync", "async"} {
				// reduced alphabet at every depth
				if !gen(mode, "reduced", n, []int{0}) {
					return
				}
				// one failed metadata-store offset update (store lags S3, restart resumes from the
				// last segment): mini alphabet, sync mode (in async mode no update happens at produce)
				if mode == "sync" {
					if !gen(mode, "mini", n, []int{1, 2, 3}) {
						return
					}
				}
				if n <= fullDepth {
					if !gen(mode, "full", n, []int{0}) {
						return
					}
				}
			}
		}
	}()
	wg.Wait()
	rep.Count("histories", seq)
	sort.Slice(samples, func(i, j int) bool { return samples[i].seq < samples[j].seq })
	for i := 0; i < len(samples); i += 1 + len(samples)/6 {
		rep.Sample(samples[i].v)
	}
	if capped {
		rep.Cap("deadline hit during history enumeration")
	}
	if harnessErr != "" {
		t.Fatalf("HARNESS-ERROR %s", harnessErr)
	}
	keys := make([]string, 0, len(best))
	for k := range best {
		keys = append(keys, k)
	}
	sort.Strings(keys)
	for _, k := range keys {
		rep.Count("violating_histories_"+k, counts[k])
		for _, f := range best[k] {
			h := *f.hist
			alpha := alphas[h.Alpha]
			for i, ix := range h.idx {
				h.Hex = append(h.Hex, hex.EncodeToString(alpha[i][ix].Bytes))
			}
			rep.Violation(k, f.v.detail, h)
		}
	}
}
