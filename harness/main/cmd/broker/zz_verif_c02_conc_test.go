//go:build verif

package main

import (
	"fmt"
	"sort"
	"testing"

	"github.com/KafScale/platform/internal/verif/sched"
	"github.com/KafScale/platform/internal/verif/vh"
)

// C02 (schedule half): offsets stay unique, increasing and consistent with the stored log when
// produce requests run concurrently and S3 uploads fail.
//
// The history half (TestVerifC02) enumerates record-set shapes sequentially. Here the closed
// systems of the produce path (2-3 producer threads on one partition of one real handler, explicit
// and threshold flushes, a cold partition log, injected upload failures) are explored under the
// controlled scheduler and judged by the statement's clauses only:
//
//	(a) acknowledged batches occupy pairwise disjoint offset ranges;
//	(b) the durable log (all segments that have their index, in key order) lists strictly
//	    increasing offsets: no offset is stored twice, no batch is stored at two offsets;
//	(c) the base offset of each acknowledged produce is the offset at which exactly that batch's
//	    records sit in the durable log;
//	(d) between two acknowledged batches the durable log has no hole: every offset between the
//	    lowest and the highest acknowledged offset is covered by some stored batch.
func c02ConcScenarios() []vProdScenario {
	sc := []vProdScenario{
		{Name: "2p-explicit", Producers: [][]int{{1}, {2}}, PreOpen: true, FailS3: true},
		{Name: "2p-maxbatches2", Producers: [][]int{{1}, {2}}, MaxBatches: 2, PreOpen: true, FailS3: true},
		{Name: "2b-vs-1b", Producers: [][]int{{1, 2}, {1}}, PreOpen: true, FailS3: true, P: 1, D: 1},
		{Name: "2p-cold", Producers: [][]int{{1}, {1}}, PreOpen: false, FailS3: true},
	}
	if vh.Thorough() {
		sc = append(sc,
			vProdScenario{Name: "2p-maxbatches1", Producers: [][]int{{1}, {2}}, MaxBatches: 1, PreOpen: true, FailS3: true},
			vProdScenario{Name: "2b-vs-1b-p2", Producers: [][]int{{1, 2}, {1}}, PreOpen: true, FailS3: true, P: 2, D: 1},
			vProdScenario{Name: "3p-explicit", Producers: [][]int{{1}, {1}, {2}}, PreOpen: true, FailS3: true, P: 3, D: 2, Delay: true},
			vProdScenario{Name: "2p-2b", Producers: [][]int{{1, 1}, {2, 1}}, PreOpen: true, FailS3: true, P: 3, D: 2, Delay: true},
		)
	}
	return sc
}

func c02ConcCheck(s *sched.Sched, r *vProdRun) {
	if s.Deadlock {
		return // C01's subject
	}
	stored, _, err := vDurableBatches(r.Bucket, "default/t/0/")
	if err != nil {
		s.Fail("harness", "decode bucket: %v", err)
		return
	}
	acked := func(x *vProdSent) bool { return x.Done && x.Err == nil && x.Res.Code == 0 }
	for i, a := range r.Sent {
		for j, b := range r.Sent {
			if i < j && acked(a) && acked(b) && a.Res.Base < b.Res.Base+int64(b.N) && b.Res.Base < a.Res.Base+int64(a.N) {
				s.Fail("concurrent:acked-offsets-overlap", "p%d.%d acked at base %d (%d records) and p%d.%d acked at base %d (%d records)", a.Producer, a.Seq, a.Res.Base, a.N, b.Producer, b.Seq, b.Res.Base, b.N)
			}
		}
	}
	// durable log = batches of segments that have their index, in segment-key order
	type rng struct{ lo, hi int64 }
	var log []rng
	var render []string
	for _, sb := range stored {
		if !sb.HasIndex {
			continue
		}
		n := int64(len(sb.Batch.Records))
		if n == 0 {
			n = int64(sb.Batch.LastOffsetDelta) + 1
		}
		log = append(log, rng{sb.Batch.BaseOffset, sb.Batch.BaseOffset + n - 1})
		render = append(render, fmt.Sprintf("[%d..%d]", sb.Batch.BaseOffset, sb.Batch.BaseOffset+n-1))
	}
	for i := 1; i < len(log); i++ {
		if log[i].lo <= log[i-1].hi {
			s.Fail("concurrent:stored-offsets-not-increasing", "durable log lists %v: batch %d starts at %d, not above %d", render, i, log[i].lo, log[i-1].hi)
			break
		}
	}
	minA, maxA := int64(-1), int64(-1)
	for _, snt := range r.Sent {
		if !acked(snt) {
			continue
		}
		at := []int64{}
		for _, sb := range stored {
			if sb.HasIndex && vSameBatch(sb.Batch.Raw, snt.Bytes) {
				at = append(at, sb.Batch.BaseOffset)
			}
		}
		sort.Slice(at, func(i, j int) bool { return at[i] < at[j] })
		switch {
		case len(at) == 0:
			// durability is C01's clause; nothing to compare the base offset with
		case len(at) > 1:
			s.Fail("concurrent:batch-stored-at-two-offsets", "p%d.%d (acked at base %d) is stored at offsets %v; durable log %v", snt.Producer, snt.Seq, snt.Res.Base, at, render)
		case at[0] != snt.Res.Base:
			s.Fail("concurrent:acked-base-differs-from-stored-offset", "p%d.%d acked at base %d but stored at %d; durable log %v", snt.Producer, snt.Seq, snt.Res.Base, at[0], render)
		}
		if minA < 0 || snt.Res.Base < minA {
			minA = snt.Res.Base
		}
		if last := snt.Res.Base + int64(snt.N) - 1; last > maxA {
			maxA = last
		}
	}
	for o := minA; minA >= 0 && o <= maxA; o++ {
		covered := false
		for _, g := range log {
			if g.lo <= o && o <= g.hi {
				covered = true
			}
		}
		if !covered {
			// an acknowledged offset that is not stored at all is C01's clause (durability); a hole is an
			// offset BETWEEN acknowledged batches that no stored batch covers
			own := false
			for _, snt := range r.Sent {
				if acked(snt) && snt.Res.Base <= o && o < snt.Res.Base+int64(snt.N) {
					own = true
				}
			}
			if !own {
				s.Fail("concurrent:gap-between-acked-batches", "offset %d lies between acknowledged batches [%d..%d] but no stored batch covers it; durable log %v", o, minA, maxA, render)
				break
			}
		}
	}
}

func TestVerifC02Conc(t *testing.T) {
	rep := vh.New(t, "C02")
	defer rep.Finish()
	rep.Rule = "schedule half: DFS over thread choices (preemption bound) x S3 upload failure decisions (deviation bound) of real handleProduce threads on one partition; after quiescence: acked ranges disjoint, durable log offsets strictly increasing, each acked base = the offset where that batch is stored, no hole between acked batches; distinct = distinct (per-producer code/base, bucket size, failures); non-trivial = >=1 switch away from an enabled thread or >=1 injected failure"
	rep.Assumptions = []string{"scheduling points at PartitionLog locks/conds, S3 calls and UpdateOffsets", "durable log = batches of segments whose index object exists, in key order", "a batch whose produce was answered with an error may or may not be stored later; it never makes a violation by itself"}
	P, D := 2, 2
	if vh.Thorough() {
		P, D = 2, 3
	}
	deadline := vh.Deadline()
	shard, n := vh.Shard()
	var rp struct {
		Scenario string `json:"scenario"`
		Choices  []int  `json:"choices"`
		Conc     bool   `json:"conc"`
	}
	replaying, rerr := vh.LoadReplay(&rp)
	if rerr != nil {
		t.Fatalf("HARNESS-ERROR replay: %v", rerr)
	}
	if replaying && !rp.Conc {
		return // a replay of the history half
	}
	for _, sc := range c02ConcScenarios() {
		sc := sc
		body := func(s *sched.Sched) {
			r := vRunProduce(s, sc, false)
			defer r.H.coordinator.Stop()
			c02ConcCheck(s, r)
			s.Note("%s", r.outcome())
		}
		if replaying {
			if sc.Name != rp.Scenario {
				continue
			}
			x := sched.RunOnce(t, sched.Config{}, rp.Choices, true, body)
			fmt.Printf("REPLAY %s choices=%v\n steps=%v\n notes=%v\n fails=%+v\n", sc.Name, rp.Choices, x.Steps, x.Notes, x.Fails)
			rep.Eval(1)
			for _, f := range x.Fails {
				rep.Violation(f.Key, sc.Name+": "+f.Detail, rp)
			}
			continue
		}
		p, d := P, D
		if sc.P > 0 {
			p = sc.P
		}
		if sc.D > 0 || sc.P > 0 {
			d = sc.D
		}
		st := sched.Explore(t, sched.Config{MaxPreempt: p, MaxDev: d, Deadline: deadline, Shard: shard, NShards: n, DelayBound: sc.Delay}, body, func(x *sched.Exec) {
			rep.Eval(1)
			sw, dev := x.NonDefault()
			rep.Outcome("conc|"+sc.Name+fmt.Sprint(x.Notes), sw > 0 || dev > 0)
			if rep.WantSample() && dev > 0 && sw > 0 {
				rep.Sample(map[string]any{"scenario": sc.Name, "choices": x.Choices, "outcome": x.Notes})
			}
			for _, f := range x.Fails {
				rep.Violation(f.Key, sc.Name+": "+f.Detail, map[string]any{"scenario": sc.Name, "choices": x.Choices, "conc": true})
			}
		})
		rep.Count("concurrent_executions_"+sc.Name, int64(st.Execs))
		if st.Capped {
			rep.Cap("deadline hit in concurrent scenario " + sc.Name)
		}
	}
}
