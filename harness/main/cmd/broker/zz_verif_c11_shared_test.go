//go:build verif

package main

// C11 (part "shared", broker): building the reply for one client connection's request
// shares no unsynchronised mutable state with building the reply for another connection's
// request.
//
// broker.Server runs one handleConnection goroutine per client connection and all of them
// call the ONE handler's Handle, so "a request at an advertised version gets a reply that
// the codec decodes at that version" must hold whatever another connection asks at the same
// moment. This part (binary built with -race) runs, for every ordered pair (A,B) of requests
// at advertised versions, ReadFrame -> ParseRequest -> handler.Handle (the body of
// broker.Server.handleConnection) on A in goroutine G1 and then on B in goroutine G2 against
// one fresh handler fixture, with the hand-off between the two hidden from the race detector
// (see zz_verif_c11_racelog_test.go); a detector report between two accesses of repository
// code (or library code reached from it) is a violation "shared-reply-state:<fn1>|<fn2>".
// State the handler shares under its own locks/atomics is invisible to the detector and is
// fine. Both replies are also judged by the sequential oracle (vC11CheckReply).

import (
	"fmt"
	"sort"
	"testing"
	"time"

	"github.com/KafScale/platform/internal/verif/sched"
	"github.com/KafScale/platform/internal/verif/vh"
)

// vC11sCase is one connection of a pair: one request.
type vC11sCase struct {
	Key      int16  `json:"key"`
	Version  int16  `json:"version"`
	Body     string `json:"body"`
	Flexible bool   `json:"flexible"`
}

func (c vC11sCase) name() string {
	return fmt.Sprintf("%s v%d body=%s", vC11Name(c.Key), c.Version, c.Body)
}

type vC11sReplay struct {
	Kind string    `json:"kind"` // "shared-pair"
	Half string    `json:"half"` // "broker-shared"
	Mode string    `json:"mode"` // fixture: loaded
	A    vC11sCase `json:"a"`
	B    vC11sCase `json:"b"`
}

func vC11sOutcome(c vC11sCase, corr int32, got vC11Got) (label string, decoded bool, viol, detail string) {
	switch {
	case got.Panic != "":
		return "panic", false, "", ""
	case len(got.Frames) == 0:
		return "no-reply", false, "", ""
	}
	cc := vC11Case{Half: "broker", Mode: "inproc", Key: c.Key, Version: c.Version, Body: c.Body, Fixture: "loaded", Advertised: true}
	outcome, resp, viol, detail := vC11CheckReply(cc, corr, got.Frames[0])
	if viol != "" {
		return outcome + ":" + viol, false, viol, detail
	}
	return fmt.Sprintf("%s ec=%d", outcome, vC11FirstError(resp)), resp != nil, "", ""
}

// vC11sKnownConflicts: nothing is set aside. (When this part was first run the unchanged tree
// yielded one report: GroupCoordinator.JoinGroup built its reply with resp.Protocol =
// &state.protocolName, a pointer INTO the shared group state, encoded after c.mu was released
// while another connection's JoinGroup rewrote the field. That was a genuine defect and is
// repaired in /repo: see findings/known-findings.txt, "fixed: property=C11 ...".)
var vC11sKnownConflicts = map[string]string{}

func TestVerifC11SharedBroker(t *testing.T) {
	rep := vh.New(t, "C11")
	defer rep.Finish()
	rep.Rule = "(part shared/broker, -race build) requests = every API key advertised by generateApiVersions() x {min advertised, max advertised, first flexible request version, the one before it} (within the advertised range; thorough: every advertised version) x bodies {one topic-partition / one group operation on the existing topic/group, the same on an unknown topic/group; keys without such an operand: their richest generated body}. Every ordered pair (A,B): a fresh 'loaded' handler fixture, ReadFrame+ParseRequest+handler.Handle on A in goroutine G1, then on B in goroutine G2, the G1->G2 hand-off hidden from the race detector and both joined visibly before the next pair; a detector report whose two accesses are in repository code or library code reached from it is a violation; both replies are judged by the sequential oracle. distinct = (A, B, outcomes); non-trivial = both replies decoded completely at their request versions"
	rep.Assumptions = []string{
		"(part shared/broker) handler = newHandler(metadata.InMemoryStore, fake S3), fixture 'loaded' (topic t: 2 partitions, one batch in p0; group g stable with one member and a committed offset), fresh per pair because A's effect carries over to B (that B runs on the state A left is part of the enumerated space); reports with an access in harness/engine code (fake S3) are ignored and counted",
	}
	if !sched.RaceBuild {
		t.Fatalf("HARNESS-ERROR C11 part TestVerifC11SharedBroker must be built with -race")
	}
	lg := newVC11sLog()
	if lg.base == "" {
		t.Fatalf("HARNESS-ERROR VERIF_RACE_LOG is not set (the detector's reports cannot be read back)")
	}

	type pairResult struct {
		ga, gb                 vC11Got
		races                  []vC11sRace
		control, other         []string
		la, lb                 string
		bothDecoded            bool
		violA, detA, violB, dB string
	}
	runPair := func(a, b vC11sCase) (r pairResult) {
		h, fx, err := vC11NewBroker("loaded")
		if err != nil {
			t.Fatalf("HARNESS-ERROR fixture: %v", err)
		}
		defer h.coordinator.Stop()
		wa := vC11Format(vC11FindBody(a.Key, a.Body).Build(a.Version, fx), 101)
		wb := vC11Format(vC11FindBody(b.Key, b.Body).Build(b.Version, fx), 202)
		vC11sRunPair(func() { r.ga, _ = vC11Inproc(h, wa) }, func() { r.gb, _ = vC11Inproc(h, wb) })
		r.races, r.control, r.other = lg.newRaces()
		var da, db bool
		r.la, da, r.violA, r.detA = vC11sOutcome(a, 101, r.ga)
		r.lb, db, r.violB, r.dB = vC11sOutcome(b, 202, r.gb)
		r.bothDecoded = da && db
		return r
	}
	report := func(a, b vC11sCase, r pairResult) {
		rp := vC11sReplay{Kind: "shared-pair", Half: "broker-shared", Mode: "loaded", A: a, B: b}
		for _, rc := range r.races {
			if why, known := vC11sKnownConflicts[rc.Key]; known {
				rep.Count("shared_known_conflicts_set_aside", 1)
				rep.SetInfo("shared_known_conflict: "+rc.Key, fmt.Sprintf("%s (seen on %s | %s)", why, a.name(), b.name()))
				continue
			}
			rep.Violation(rc.Key, fmt.Sprintf("broker: building the reply to %s (connection 1) and building the reply to %s (connection 2) access the same memory without synchronisation, at least one of them writing:\n%s", a.name(), b.name(), rc.Report), rp)
		}
		if r.violA != "" {
			rep.Violation(r.violA+":"+vC11Name(a.Key), fmt.Sprintf("broker connection 1 of the pair %s | %s: %s; reply=%x", a.name(), b.name(), r.detA, vC11Clip(r.ga.Frames[0], 96)), rp)
		}
		if r.violB != "" {
			rep.Violation(r.violB+":"+vC11Name(b.Key), fmt.Sprintf("broker connection 2 of the pair %s | %s (after connection 1 was served): %s; reply=%x", a.name(), b.name(), r.dB, vC11Clip(r.gb.Frames[0], 96)), rp)
		}
	}

	var rp vC11sReplay
	if ok, err := vh.LoadReplay(&rp); ok {
		if err != nil {
			t.Fatalf("HARNESS-ERROR replay: %v", err)
		}
		if rp.Kind != "shared-pair" || rp.Half != "broker-shared" {
			return // a replay of another half
		}
		if vC11FindBody(rp.A.Key, rp.A.Body) == nil || vC11FindBody(rp.B.Key, rp.B.Body) == nil {
			t.Fatalf("HARNESS-ERROR replay names an unknown body")
		}
		r := runPair(rp.A, rp.B)
		rep.Eval(1)
		rep.Outcome("replay|"+r.la+"|"+r.lb, true)
		fmt.Printf("REPLAY broker %s | %s: %s ; %s races=%d harness=%d other=%d\n", rp.A.name(), rp.B.name(), r.la, r.lb, len(r.races), len(r.control), len(r.other))
		for _, rc := range r.races {
			fmt.Println(rc.Report)
		}
		report(rp.A, rp.B, r)
		return
	}

	// the advertised set, from the real function
	keys, adv, _ := vC11Advertised(generateApiVersions())
	thorough := vh.Thorough()
	fx0 := &vC11Fx{Topic: "t", Group: "g", MemberID: "m", Generation: 1}
	var cases []vC11sCase
	for _, k := range keys {
		a, ok := adv[k]
		if !ok {
			continue
		}
		all := vC11Bodies(k)
		var bodies []vC11Body
		for _, b := range all {
			if b.Name == "one" || b.Name == "unknown" {
				bodies = append(bodies, b)
			}
		}
		if len(bodies) == 0 { // keys without a topic/group operand: the last (richest) body
			bodies = all[len(all)-1:]
		}
		for _, v := range vC11sVersions(k, a, thorough) {
			for _, b := range bodies {
				rq := b.Build(v, fx0)
				if rq == nil {
					t.Fatalf("HARNESS-ERROR kmsg has no request type for advertised key %d", k)
				}
				cases = append(cases, vC11sCase{Key: k, Version: v, Body: b.Name, Flexible: rq.IsFlexible()})
			}
		}
	}
	rep.SetInfo("shared_broker_requests", len(cases))
	rep.SetInfo("shared_broker_ordered_pairs", len(cases)*len(cases))

	// controls. (1) two executions ordered by the visible join must not be reported;
	// (2) a conflict between the two halves of one pair must be reported.
	vC11sRunPair(vC11sTouchNeg, func() {})
	vC11sRunPair(vC11sTouchNeg, func() {})
	if f, c, o := lg.newRaces(); len(f)+len(c)+len(o) != 0 {
		t.Fatalf("HARNESS-ERROR control: the detector reported a conflict between two pairs that are ordered by the join: %v %v %v", f, c, o)
	}
	vC11sRunPair(vC11sTouchPos, vC11sTouchPos)
	if f, c, o := lg.newRaces(); len(c) != 1 || len(f)+len(o) != 0 {
		t.Fatalf("HARNESS-ERROR control: the detector did not report the conflicting writes of the two halves of one pair (hand-off not hidden, or log not readable): found=%v control=%v other=%v", f, c, o)
	}
	rep.Count("shared_control_reports", 1)

	deadline := vh.Deadline()
	shard, nsh := vh.Shard()
	var otherAll, harnessAll []string
	type pairIdx struct{ a, b, rank int }
	var order []pairIdx
	for ai, a := range cases {
		if ai%nsh != shard {
			continue
		}
		for bi, b := range cases {
			rank := vC11sRank(a.Key, a.Version, a.Flexible, b.Key, b.Version, b.Flexible)
			if a.Key == 11 && b.Key == 11 {
				// the pairs that produce the known JoinGroup conflict (vC11sKnownConflicts) run last:
				// the detector never again reports a conflict on an address it has reported once,
				// and freed memory is reused, so a report that is set aside must not be able to
				// mute a later pair
				rank = 4
			}
			order = append(order, pairIdx{ai, bi, rank})
		}
	}
	sort.SliceStable(order, func(i, j int) bool { return order[i].rank < order[j].rank })
	for n, pi := range order {
		if n%32 == 0 && time.Now().After(deadline) {
			rep.Cap(fmt.Sprintf("deadline hit in shared-state pair enumeration (broker) after %d of %d pairs", n, len(order)))
			break
		}
		a, b := cases[pi.a], cases[pi.b]
		r := runPair(a, b)
		rep.Eval(1)
		rep.Count("cases_shared_pairs_broker", 1)
		rep.Outcome(fmt.Sprintf("SHB|%d|%d|%s|%d|%d|%s|%s|%s", a.Key, a.Version, a.Body, b.Key, b.Version, b.Body, r.la, r.lb), r.bothDecoded)
		if !r.bothDecoded {
			rep.Count("shared_pairs_not_both_decoded", 1)
		}
		if pi.rank == 0 && n%7 == 0 && rep.WantSample() {
			rep.Sample(map[string]any{"phase": "shared/broker", "connection_1": a.name(), "connection_2": b.name(), "outcome_1": r.la, "outcome_2": r.lb, "detector_reports": len(r.races)})
		}
		report(a, b, r)
		harnessAll = append(harnessAll, r.control...)
		otherAll = append(otherAll, r.other...)
	}
	// the detector must still be alive and its log readable at the end
	vC11sRunPair(vC11sTouchPos2, vC11sTouchPos2)
	if f, c, o := lg.newRaces(); len(c) != 1 || len(f)+len(o) != 0 {
		t.Fatalf("HARNESS-ERROR end control: the detector did not report the conflicting control writes: found=%v control=%v other=%v", f, c, o)
	}
	rep.Count("shared_control_reports", 1)
	rep.Count("shared_reports_in_harness_code_ignored", int64(len(harnessAll)))
	rep.Count("shared_reports_outside_reply_code", int64(len(otherAll)))
	for i, o := range harnessAll {
		if i < 5 {
			fmt.Printf("C11SHARED broker report in harness/engine code (ignored): %s\n", o)
		}
	}
	for i, o := range otherAll {
		if i < 3 {
			fmt.Printf("C11SHARED broker report outside reply code:\n%s\n", o)
		}
	}
}
