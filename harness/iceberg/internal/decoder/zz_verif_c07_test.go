//go:build verif

package decoder

import (
	"bytes"
	"fmt"
	"regexp"
	"strings"
	"testing"
	"time"

	"github.com/KafScale/platform/internal/verif/enum"
	"github.com/KafScale/platform/internal/verif/vh"
	"github.com/KafScale/platform/pkg/storage"
)

// TestVerifC07 (iceberg decoder half): regenerates enum.C07Corpus, serialises every element
// with the broker's real storage.BuildSegment (this module links pkg/storage), and requires
// decodeSegment to return exactly the produced records (offset, timestamp, key, value,
// headers; null and empty distinguished).
func TestVerifC07(t *testing.T) {
	rep := vh.New(t, "C07")
	defer rep.Finish()
	rep.Rule = "iceberg decoder half: same corpus as the main half (enum.C07Corpus); segment written by the real storage.BuildSegment; decodeSegment output compared record by record with the produced records"
	thorough := vh.Thorough()
	only := -1
	var rp struct {
		Idx  int    `json:"idx"`
		Tier string `json:"tier"`
	}
	if ok, err := vh.LoadReplay(&rp); ok {
		if err != nil {
			t.Fatalf("HARNESS-ERROR replay: %v", err)
		}
		only, thorough = rp.Idx, rp.Tier == "thorough"
	}
	shard, nshards := vh.Shard()
	deadline := vh.Deadline()
	n := int64(0)
	enum.C07Corpus(thorough, func(c *enum.SegCase) bool {
		if (only >= 0 && c.Idx != only) || c.Idx%nshards != shard {
			return true
		}
		if c.Idx%512 == 0 && time.Now().After(deadline) {
			rep.Cap(fmt.Sprintf("iceberg half: deadline hit at corpus element %d", c.Idx))
			return false
		}
		vC07Iceberg(rep, c, thorough)
		n++
		return true
	})
	rep.Count("cases_iceberg_decoder", n)
}

var vC07Digits = regexp.MustCompile(`[0-9]+`)

func vC07Slug(s string) string {
	s = vC07Digits.ReplaceAllString(s, "N")
	s = strings.Map(func(r rune) rune {
		if (r >= 'a' && r <= 'z') || (r >= 'A' && r <= 'Z') || r == 'N' {
			return r
		}
		return '-'
	}, s)
	if len(s) > 48 {
		s = s[:48]
	}
	return strings.Trim(s, "-")
}

// vC07Qualify adds the wire feature of the expected record that explains a field mismatch.
func vC07Qualify(field string, r enum.Rec) string {
	if field == "timestamp" {
		if r.TimestampDelta >= 1<<30 || r.TimestampDelta < -(1<<30) {
			return field + ":delta-beyond-31-bits"
		}
		if r.TimestampDelta < 0 {
			return field + ":negative-delta"
		}
	}
	return field
}

func vC07Iceberg(rep *vh.Report, c *enum.SegCase, thorough bool) {
	rep.Eval(1)
	sig, nontrivial := c.Shape()
	nviol := 0
	tier := "quick"
	if thorough {
		tier = "thorough"
	}
	fail := func(key, format string, a ...any) {
		nviol++
		d := c.Describe()
		d["tier"] = tier
		rep.Violation(key, fmt.Sprintf("case %d %s/%s: ", c.Idx, c.Family, c.Name)+fmt.Sprintf(format, a...), d)
	}
	defer func() {
		if r := recover(); r != nil {
			fail("iceberg-decoder-panic", "panic: %v", r)
		}
		rep.Outcome(fmt.Sprintf("iceberg|%s|viol=%d", sig, nviol), nontrivial)
	}()
	raw := c.BatchBytes()
	batches := make([]storage.RecordBatch, len(raw))
	for i, b := range raw {
		rb, err := storage.NewRecordBatchFromBytes(b)
		if err != nil {
			fail("record-batch-rejected", "NewRecordBatchFromBytes: %v", err)
			return
		}
		batches[i] = rb
	}
	art, err := storage.BuildSegment(storage.SegmentWriterConfig{IndexIntervalMessages: c.Interval}, batches, time.UnixMilli(c.CreatedMs))
	if err != nil {
		fail("build-segment-error", "BuildSegment: %v", err)
		return
	}
	seg := art.SegmentBytes
	if !bytes.Equal(seg, c.RefSegment()) {
		// the main half classifies the difference; the decoder still gets what the broker wrote
		fail("segment-differs-from-spec:seen-by-iceberg", "BuildSegment output differs from the independent builder")
	}
	recs, err := decodeSegment(seg, "topic-x", 3)
	if err != nil {
		fail("iceberg-decoder-error:"+vC07Slug(err.Error()), "decodeSegment: %v", err)
		return
	}
	want := c.Expected()
	if len(recs) != len(want) {
		fail("iceberg-decoder-record-count", "decoded %d records, produced %d", len(recs), len(want))
		return
	}
	flat := vC07FlatRecs(c)
	for i, r := range recs {
		hk := make([]string, len(r.Headers))
		hv := make([][]byte, len(r.Headers))
		for j, h := range r.Headers {
			hk[j], hv[j] = h.Key, h.Value
		}
		if f := enum.SameRecord(r.Offset, r.Timestamp, r.Key, r.Value, hk, hv, want[i]); f != "" {
			fail("iceberg-decoder-"+vC07Qualify(f, flat[i]), "record %d differs in %s: got offset=%d ts=%d key=%q value-len=%d headers=%d; produced %s (batch base ts + delta = %d)", i, f, r.Offset, r.Timestamp, r.Key, len(r.Value), len(r.Headers), enum.DescribeRec(flat[i]), want[i].Timestamp)
			break
		}
		if r.Topic != "topic-x" || r.Partition != 3 {
			fail("iceberg-decoder-topic-partition", "record %d labelled %s/%d", i, r.Topic, r.Partition)
			break
		}
	}
}

func vC07FlatRecs(c *enum.SegCase) []enum.Rec {
	var out []enum.Rec
	for _, b := range c.Batches {
		out = append(out, b.Recs...)
	}
	return out
}
