//go:build verif

package server

import (
	"context"
	"fmt"
	"io"
	"log"
	"os"
	"path/filepath"
	"runtime"
	"strings"
	"sync"
	"testing"
	"time"

	"github.com/KafScale/platform/internal/verif/vh"
	"github.com/kafscale/platform/addons/processors/sql-processor/internal/config"
	"github.com/kafscale/platform/addons/processors/sql-processor/internal/discovery"
	kafsql "github.com/kafscale/platform/addons/processors/sql-processor/internal/sql"
)

// C36, family F4 — sessions.
//
// The families F1..F3 answer every query on a server whose result cache is off. A production server
// runs with the result cache ON (config defaults: ttl 30 s, 100 entries, 10000 rows): the answer to a
// query may then depend on the queries the same server answered before. F4 executes every ordered
// pair (thorough: also every ordered triple over the core part of the alphabet) of a text alphabet one
// after the other on ONE fresh Server carrying the production-default result cache, over a small
// two-partition segment set, and judges EVERY answer of the session with the unchanged oracle: direct
// filtering of the generator's record list for THAT query.
//
// The alphabet is a product head x tail. Heads: SELECT * | the same in lower case with doubled blanks
// and a leading tab | a wide projection (the 8 implicit columns followed by long aliases of _offset, as a
// BI tool writes them) longer than 512 bytes | one longer than 1024 bytes | SELECT * with blanks
// after the topic so that the clauses behind start after byte 512 | after byte 1024. Tails: {no
// filter, _partition = 0, _partition = 1, _offset >= 1} x {all rows, LIMIT 1, ORDER BY _ts DESC} x
// {LAST 30h, LAST 18h} (quick: LAST 18h only with all rows); {no filter, _partition = 0, _partition = 1} x {LIMIT 5, LIMIT 1} x {_ts >=
// T0-30h _ts <= T0-18h}; and the uncacheable control TAIL 1 LAST 30h x {no filter, _partition = 1}.
// So the pairs contain: the same text twice, texts differing only in case/blanks, texts differing
// only in a trailing filter / LIMIT / ORDER BY / window, and long texts that agree on their first 512
// (1024) bytes and differ behind.
//
// No model of the cache (which texts share an entry, what is cacheable) is used. Two observations
// only refine the violation key and the coverage signature: whether the server consulted the lister
// while answering (the memoising lister counts its calls; an answer given without listing came from
// the result cache), and a control run of the failing query alone on a fresh server.

func c36WideName(n int) string { return fmt.Sprintf("{8cols+%dx_offset_AS_col_NNN_x36}", n) }

// long aliases, as reporting tools generate them: few columns make a long text (the parser compiles
// several regular expressions per column, so the number of columns is what costs time)
func c36WideAlias(i int) string { return fmt.Sprintf("col_%03d_%s", i, strings.Repeat("x", 36)) }

func c36WideProjection(n int) string {
	cols := append([]string{}, c36Cols...)
	for i := 1; i <= n; i++ {
		cols = append(cols, "_offset AS "+c36WideAlias(i))
	}
	return strings.Join(cols, ", ")
}

// c36ColsOf lists the columns the answer to q must have.
func c36ColsOf(q c36Query) []string {
	if q.Extra == 0 {
		return c36Cols
	}
	cols := append([]string{}, c36Cols...)
	for i := 1; i <= q.Extra; i++ {
		cols = append(cols, c36WideAlias(i))
	}
	return cols
}

func c36Short(cols []string) []string {
	if len(cols) <= 10 {
		return cols
	}
	return append(append([]string{}, cols[:9]...), fmt.Sprintf("... %d more", len(cols)-9))
}

func c36SelectIntent(q c36Query, p kafsql.Query) bool {
	if q.Extra == 0 {
		return len(p.Select) == 1 && p.Select[0].Kind == kafsql.SelectColumnStar
	}
	want := c36ColsOf(q)
	if len(p.Select) != len(want) {
		return false
	}
	for i, c := range p.Select {
		col := want[i]
		if i >= len(c36Cols) {
			col = "_offset"
		}
		if c.Kind != kafsql.SelectColumnField || c.Column != col || c.Alias != want[i] {
			return false
		}
	}
	return true
}

// c36SessRender turns the canonical text of a session query into the bytes sent to the server.
func c36SessRender(text string, extra, padTo int, style string) string {
	if extra > 0 {
		text = strings.Replace(text, c36WideName(extra), c36WideProjection(extra), 1)
	}
	if padTo > 0 {
		head := " FROM " + c36Topic
		if i := strings.Index(text, head); i >= 0 {
			i += len(head)
			if n := padTo - i; n > 0 {
				text = text[:i] + strings.Repeat(" ", n) + text[i:]
			}
		}
	}
	if style == "lowsp" {
		// blanks doubled, except inside the two-word keyword ORDER BY (the parser looks for it with one blank)
		text = "\t" + strings.ReplaceAll(strings.ReplaceAll(strings.ToLower(text), " ", "  "), "order  by", "order by")
	}
	return text
}

// clauseStart is the byte at which the text behind "FROM t" begins in the sent text.
func c36ClauseStart(sent string) int {
	head := "from " + c36Topic
	i := strings.Index(strings.ToLower(sent), head)
	if i < 0 {
		return -1
	}
	i += len(head)
	for i < len(sent) && (sent[i] == ' ' || sent[i] == '\t' || sent[i] == '\n') {
		i++
	}
	return i
}

// ---------- alphabet ----------

type c36SessHead struct {
	Name  string
	Extra int
	PadTo int
	Style string
	Long  int // the clauses behind the topic must start after this byte (0 = no claim)
}

var c36SessHeads = []c36SessHead{
	{Name: "star"},
	{Name: "star-lower-doubled-blanks", Style: "lowsp"},
	{Name: "wide>512", Extra: 8, Long: 512},
	{Name: "wide>1024", Extra: 17, Long: 1024},
	{Name: "star-padded>512", PadTo: 520, Long: 512},
	{Name: "star-padded>1024", PadTo: 1032, Long: 1024},
}

type c36SessTail struct {
	Part   int
	OffMin int64
	Mode   string
	N      int
	MinH   int
	MaxH   int
	LastH  int
	Core   bool // member of the triple alphabet (thorough)
}

const (
	c36SessMinH = -30
	c36SessMaxH = -18
)

func c36SessTails(thorough bool) []c36SessTail {
	var out []c36SessTail
	type flt struct {
		part int
		omin int64
	}
	type md struct {
		m string
		n int
	}
	filters := []flt{{-1, -1}, {0, -1}, {1, -1}, {-1, 1}}
	modes := []md{{"all", 0}, {"all", 1}, {"desc", 0}}
	for _, lastH := range []int{30, 18} {
		for mi, m := range modes {
			if lastH == 18 && mi > 0 && !thorough {
				continue // quick: the second window only without LIMIT / ORDER BY
			}
			for _, f := range filters {
				core := (lastH == 30 && (m.m == "all" && m.n == 0 && f.omin < 0 || m.n == 1 && f.part == 1 || m.m == "desc" && f.part < 0 && f.omin < 0)) ||
					(lastH == 18 && m.m == "all" && m.n == 0 && f.part == 0)
				out = append(out, c36SessTail{Part: f.part, OffMin: f.omin, Mode: m.m, N: m.n, LastH: lastH, Core: core})
			}
		}
	}
	// explicit time window (cacheable without LAST); the accepted clause order needs a LIMIT before the bounds
	for _, n := range []int{5, 1} {
		for _, f := range filters[:3] {
			out = append(out, c36SessTail{Part: f.part, OffMin: f.omin, Mode: "all", N: n, MinH: c36SessMinH, MaxH: c36SessMaxH, Core: n == 5 && f.part != 0})
		}
	}
	// uncacheable control
	for _, f := range []flt{{-1, -1}, {1, -1}} {
		out = append(out, c36SessTail{Part: f.part, OffMin: f.omin, Mode: "tail", N: 1, LastH: 30, Core: f.part == 1})
	}
	return out
}

type c36SessAlphabet struct {
	Qs      []c36Query // unbound
	HeadOf  []int
	TailOf  []int
	Core    []int // indices of the triple alphabet
	Natural int
	Dialect int
}

// c36SessQueries builds the session alphabet (head-major: the simplest texts first). Every text is
// checked against the real parser: natural clause order where it accepts it, else the clause order it
// accepts, which it must read as intended.
func c36SessQueries(t0 int64) (c36SessAlphabet, error) {
	var a c36SessAlphabet
	tails := c36SessTails(vh.Thorough())
	for hi, h := range c36SessHeads {
		for ti, tl := range tails {
			q := c36Query{Part: tl.Part, OffMin: tl.OffMin, OffMax: -1, TsMin: -1, TsMax: -1, Mode: tl.Mode, N: tl.N,
				Rel: true, MinH: tl.MinH, MaxH: tl.MaxH, LastH: tl.LastH, Sess: true, Extra: h.Extra, PadTo: h.PadTo, Style: h.Style}
			q.Text, q.Form = q.natural(), "natural"
			b := q.bind(t0)
			if acc, _, _ := c36Intent(b, b.sql()); acc {
				a.Natural++
			} else {
				q.Text, q.Form = q.dialect(), "dialect"
				b = q.bind(t0)
				acc, same, err := c36Intent(b, b.sql())
				if !acc || !same {
					return a, fmt.Errorf("the parser does not read %q as intended (accepted=%v same=%v err=%v)", q.Text, acc, same, err)
				}
				a.Dialect++
			}
			if h.Long > 0 {
				if at := c36ClauseStart(b.sql()); at <= h.Long {
					return a, fmt.Errorf("head %s: the clauses of %q start at byte %d, not after byte %d", h.Name, q.Text, at, h.Long)
				}
			}
			if tl.Core && h.Style == "" && h.PadTo != 1032 {
				a.Core = append(a.Core, len(a.Qs))
			}
			a.Qs = append(a.Qs, q)
			a.HeadOf = append(a.HeadOf, hi)
			a.TailOf = append(a.TailOf, ti)
		}
	}
	return a, nil
}

// c36SessSets: two partitions, three segments, five records; timestamps in hours relative to T0, on
// both sides of every window edge used by the tails (T0-30h, T0-18h), out of order in the second set.
func c36SessSets() []c36Set {
	mk := func(label string, segs ...c36SegSpec) c36Set {
		for i := range segs {
			segs[i].LM = "late"
		}
		return c36Set{Segs: segs, Rel: true, Label: label}
	}
	return []c36Set{
		mk("F4 p0={0,1|2} p1={2,3} ts ascending",
			c36SegSpec{P: 0, Offs: []int64{0, 1}, TS: []int64{-36, -24}},
			c36SegSpec{P: 0, Offs: []int64{2}, TS: []int64{-12}},
			c36SegSpec{P: 1, Offs: []int64{2, 3}, TS: []int64{-24, -12}}),
		mk("F4 p0={0|1,2} p1={2,3} ts out of order",
			c36SegSpec{P: 0, Offs: []int64{0}, TS: []int64{-12}},
			c36SegSpec{P: 0, Offs: []int64{1, 2}, TS: []int64{-24, -36}},
			c36SegSpec{P: 1, Offs: []int64{2, 3}, TS: []int64{-12, -24}}),
	}
}

// ---------- production-default result cache ----------

// c36DefaultResultCache asks the real config loader for the result-cache settings a deployment gets
// when its configuration file does not mention result_cache.
func c36DefaultResultCache(dir string) (config.ResultCacheConfig, error) {
	for _, k := range []string{"KAFSQL_RESULT_CACHE_TTL_SECONDS", "KAFSQL_RESULT_CACHE_MAX_ENTRIES", "KAFSQL_RESULT_CACHE_MAX_ROWS"} {
		if os.Getenv(k) != "" {
			return config.ResultCacheConfig{}, fmt.Errorf("%s is set in the environment of the run", k)
		}
	}
	path := filepath.Join(dir, "c36-default.yaml")
	if err := os.WriteFile(path, []byte("s3:\n  bucket: "+c36Bucket+"\n"), 0o600); err != nil {
		return config.ResultCacheConfig{}, err
	}
	cfg, err := config.Load(path)
	if err != nil {
		return config.ResultCacheConfig{}, err
	}
	return cfg.ResultCache, nil
}

// ---------- one session ----------

type c36CountingLister struct {
	inner discovery.Lister
	mu    sync.Mutex
	asks  int
}

func (c *c36CountingLister) ListCompleted(ctx context.Context) ([]discovery.SegmentRef, error) {
	c.mu.Lock()
	c.asks++
	c.mu.Unlock()
	return c.inner.ListCompleted(ctx)
}

func (c *c36CountingLister) n() int {
	c.mu.Lock()
	defer c.mu.Unlock()
	return c.asks
}

// c36SessServer builds the ONE server of a session: real New with the production-default result
// cache. path "memo": the memoising wrappers around the real lister/decoder are injected (behind a call
// counter); path "real": nothing is injected (getLister/getDecoder build their own clients).
func (e *c36Env) sessServer(v, path string, rc config.ResultCacheConfig) (*Server, *c36CountingLister) {
	cfg := e.cfgs[v]
	cfg.ResultCache = rc
	srv := New(cfg, log.New(io.Discard, "", 0))
	if path != "memo" {
		return srv, nil
	}
	cl := &c36CountingLister{inner: e.listers[v]}
	srv.lister, srv.listerInit = cl, true
	srv.decoder, srv.decoderInit = e.decs[v], true
	return srv, cl
}

type c36SessStep struct {
	Ans    c36Answer
	Listed string // "listed" | "not-listed" (answered without consulting the lister) | "?" (path real)
	Sig    string
	F      *c36Finding
}

func c36RunSession(e *c36Env, v, path string, rc config.ResultCacheConfig, qs []c36Query, truth []c36Row, segs []discovery.SegmentRef) ([]c36SessStep, error) {
	srv, cl := e.sessServer(v, path, rc)
	steps := make([]c36SessStep, len(qs))
	for k, q := range qs {
		before := 0
		if cl != nil {
			before = cl.n()
		}
		ans, err := c36Exec(srv, q.sql())
		if err != nil {
			return nil, err
		}
		st := c36SessStep{Ans: ans, Listed: "?"}
		if cl != nil {
			st.Listed = "listed"
			if cl.n() == before {
				st.Listed = "not-listed"
			}
		}
		st.Sig, st.F = c36Check(q, truth, ans, segs)
		steps[k] = st
	}
	return steps, nil
}

func c36SameAnswer(a, b c36Answer) bool {
	if a.Err != b.Err || len(a.Rows) != len(b.Rows) || strings.Join(a.Cols, "\x01") != strings.Join(b.Cols, "\x01") {
		return false
	}
	for i := range a.Rows {
		if strings.Join(a.Rows[i], "\x01") != strings.Join(b.Rows[i], "\x01") {
			return false
		}
	}
	return true
}

func c36CommonPrefix(a, b string) int {
	n := 0
	for n < len(a) && n < len(b) && a[n] == b[n] {
		n++
	}
	return n
}

// c36SessClassify names the mechanism of a wrong answer at position at of a session. Position 0 and
// answers that are just as wrong when the query runs alone on a fresh server keep the key of the
// per-query oracle. Otherwise the answer is wrong BECAUSE of the earlier queries of the session: the
// key says whether it is literally the answer given to an earlier, different query and how far the
// two sent texts agree (else it carries the per-query symptom); the detail adds the symptom and
// whether the server listed segments for it.
func c36SessClassify(e *c36Env, v, path string, rc config.ResultCacheConfig, qs []c36Query, at int, steps []c36SessStep, truth []c36Row, segs []discovery.SegmentRef) (c36Finding, error) {
	f := *steps[at].F
	if at == 0 {
		return f, nil
	}
	alone, err := c36RunSession(e, v, path, rc, qs[at:at+1], truth, segs)
	if err != nil {
		return f, err
	}
	if alone[0].F != nil {
		return f, nil
	}
	base := f.Key
	if base == "matching-row-dropped-after-decoding" {
		base = "matching-row-missing"
	}
	// the earlier different text with the same answer; among several, the one whose text agrees longest
	from, fromN := -1, -1
	for j := 0; j < at; j++ {
		if qs[j].sql() != qs[at].sql() && c36SameAnswer(steps[j].Ans, steps[at].Ans) {
			if n := c36CommonPrefix(qs[j].sql(), qs[at].sql()); n > fromN {
				from, fromN = j, n
			}
		}
	}
	how := "answer-changed-by-earlier-queries-of-the-session"
	rel := ":" + base
	detail := fmt.Sprintf("query #%d of a session on one server with the result cache on; alone on a fresh server the same text is answered correctly", at+1)
	if from >= 0 {
		how = "answer-of-an-earlier-different-query-served"
		n := c36CommonPrefix(qs[from].sql(), qs[at].sql())
		switch {
		case n >= 1024:
			rel = ":texts-agree-on-first-1024-bytes"
		case n >= 512:
			rel = ":texts-agree-on-first-512-bytes"
		default:
			rel = ":texts-differ-within-first-512-bytes"
		}
		detail += fmt.Sprintf("; the answer is byte for byte the one given to query #%d %q (the sent texts are %d and %d bytes long and agree on their first %d bytes)", from+1, qs[from].Text, len(qs[from].sql()), len(qs[at].sql()), n)
	}
	switch steps[at].Listed {
	case "not-listed":
		detail += "; the server did not consult the lister for it (served from the result cache)"
	case "listed":
		detail += "; the server listed the segments for it"
	}
	return c36Finding{Key: "session:" + how + rel, Detail: detail + ". Symptom " + base + ": " + f.Detail}, nil
}

// ---------- driver ----------

type c36SessCfg struct {
	sets     []c36Set
	variants [][]string // per set
	triples  bool
}

// c36Sessions runs family F4 and hands every finding to record. It returns the number of sessions
// in which an answer was given without listing segments.
func c36Sessions(t *testing.T, rep *vh.Report, t0 int64, deadline time.Time, record func(rank [2]int, f c36Finding, rp c36Replay)) error {
	rc, err := c36DefaultResultCache(t.TempDir())
	if err != nil {
		return err
	}
	if rc.TTLSeconds <= 0 || rc.MaxEntries <= 0 {
		return fmt.Errorf("the production default disables the result cache (%+v): family F4 has nothing to run", rc)
	}
	alpha, err := c36SessQueries(t0)
	if err != nil {
		return err
	}
	bound := make([]c36Query, len(alpha.Qs))
	for i, q := range alpha.Qs {
		bound[i] = q.bind(t0)
	}
	sc := c36SessCfg{sets: c36SessSets(), variants: [][]string{{"plain", "time-index"}, {"plain"}}}
	if vh.Thorough() {
		sc.variants = [][]string{c36AllVariants, {"plain"}}
		sc.triples = true
	}
	heads := make([]string, len(c36SessHeads))
	for i, h := range c36SessHeads {
		heads[i] = h.Name
	}
	rep.SetInfo("f4_result_cache_production_default", fmt.Sprintf("ttl %ds, %d entries, %d rows", rc.TTLSeconds, rc.MaxEntries, rc.MaxRows))
	rep.SetInfo("f4_heads", heads)
	rep.SetInfo("f4_tails", len(c36SessTails(vh.Thorough())))
	rep.SetInfo("f4_texts", len(bound))
	rep.SetInfo("f4_texts_natural_sql", alpha.Natural)
	rep.SetInfo("f4_texts_accepted_clause_order", alpha.Dialect)
	rep.SetInfo("f4_segment_sets", len(sc.sets))
	rep.SetInfo("f4_variants_per_set", sc.variants)
	rep.SetInfo("f4_pairs_per_set_and_variant", len(bound)*len(bound))
	if sc.triples {
		rep.SetInfo("f4_triple_alphabet", len(alpha.Core))
		rep.SetInfo("f4_triples_per_set_variant_plain", len(alpha.Core)*len(alpha.Core)*len(alpha.Core))
	}
	probe := c36ProbeIdx(bound)
	rep.SetInfo("f4_probe_pairs_through_uninstrumented_server", len(probe)*len(probe))

	f4Start := time.Now()
	workers := runtime.GOMAXPROCS(0)
	if workers > 16 {
		workers = 16
	}
	shardI, shardN := vh.Shard()
	var mu sync.Mutex
	var firstErr error
	var cut string
	var sessions, notListed, maxSessNs int64
	fail := func(err error) {
		mu.Lock()
		if firstErr == nil {
			firstErr = err
		}
		mu.Unlock()
	}
	failed := func() bool {
		mu.Lock()
		defer mu.Unlock()
		return firstErr != nil
	}

	envs := make([]*c36Env, workers)
	for w := range envs {
		if envs[w], err = c36NewEnv(); err != nil {
			return err
		}
		defer envs[w].s3.Close()
	}

	for ssi, rawSet := range sc.sets {
		set := rawSet.bind(t0)
		truth := c36Truth(set)
		for _, v := range sc.variants[ssi] {
			vi := c36VariantRank(v)
			// unit = first query of the session; every worker prepares its own bucket for (set, variant)
			type unit struct {
				kind string // pair | triple | probe
				a    int
			}
			var units []unit
			n := 0
			add := func(u unit) {
				if n%shardN == shardI {
					units = append(units, u)
				}
				n++
			}
			for a := range bound {
				add(unit{"pair", a})
			}
			for _, a := range probe {
				add(unit{"probe", a})
			}
			if sc.triples && v == "plain" {
				for _, a := range alpha.Core {
					add(unit{"triple", a})
				}
			}
			next := make(chan unit, len(units))
			for _, u := range units {
				next <- u
			}
			close(next)
			var wg sync.WaitGroup
			for w := 0; w < workers; w++ {
				wg.Add(1)
				go func(env *c36Env) {
					defer wg.Done()
					if err := env.prepare(set, v); err != nil {
						fail(fmt.Errorf("F4 set %d variant %s: %w", ssi, v, err))
						return
					}
					env.resetMemo(v)
					segs, lerr := env.listers[v].ListCompleted(context.Background())
					if lerr != nil {
						fail(fmt.Errorf("F4 set %d variant %s: list: %w", ssi, v, lerr))
						return
					}
					localSigs := map[string]bool{}
					var evals, nSess, nNotListed, maxNs int64
					session := func(path string, idx []int) bool {
						qs := make([]c36Query, len(idx))
						for i, x := range idx {
							qs[i] = bound[x]
						}
						start := time.Now()
						steps, err := c36RunSession(env, v, path, rc, qs, truth, segs)
						if d := time.Since(start).Nanoseconds(); d > maxNs {
							maxNs = d
						}
						if err != nil {
							fail(err)
							return false
						}
						nSess++
						evals += int64(len(steps))
						served := false
						for k, st := range steps {
							if k > 0 && st.Listed == "not-listed" {
								served = true
							}
							// outcome signature: position, heads of this and the previous text, same tail?, listed?, oracle signature
							sig := fmt.Sprintf("F4/%s/%s/#%d/%s", v, path, k, c36SessHeads[alpha.HeadOf[idx[k]]].Name)
							if k > 0 {
								same := "other-tail"
								if alpha.TailOf[idx[k]] == alpha.TailOf[idx[k-1]] {
									same = "same-tail"
								}
								sig += "<-" + c36SessHeads[alpha.HeadOf[idx[k-1]]].Name + "/" + same
							}
							sig += "/" + st.Listed + "/" + st.Sig
							if !localSigs[sig] {
								localSigs[sig] = true
								rep.Outcome(sig, k > 0 && st.Listed == "not-listed")
							}
							if st.F != nil {
								f, err := c36SessClassify(env, v, path, rc, qs, k, steps, truth, segs)
								if err != nil {
									fail(err)
									return false
								}
								raw := make([]c36Query, len(idx))
								for i, x := range idx {
									raw[i] = alpha.Qs[x]
								}
								rank := 0
								for _, x := range idx {
									rank = rank*len(bound) + x
								}
								record([2]int{ssi - 1000, (len(idx)*10+vi)*100000000 + rank}, f, c36Replay{Set: rawSet, Variant: v, Path: path, Query: raw[k], Session: raw, At: k})
							}
						}
						if served {
							nNotListed++
						} else if len(idx) == 2 && idx[0]%37 == 5 && idx[1]%41 == 7 && rep.WantSample() {
							rep.Sample(map[string]any{"family": "F4", "set": rawSet, "variant": v, "session": []string{alpha.Qs[idx[0]].Text, alpha.Qs[idx[1]].Text}, "heads": []string{c36SessHeads[alpha.HeadOf[idx[0]]].Name, c36SessHeads[alpha.HeadOf[idx[1]]].Name}, "outcomes": []string{steps[0].Sig, steps[1].Sig}})
						}
						return true
					}
					for u := range next {
						if failed() {
							return
						}
						if time.Now().After(deadline) {
							mu.Lock()
							if cut == "" {
								cut = fmt.Sprintf("deadline: family F4 (sessions) not completed from set %d variant %s on", ssi, v)
							}
							mu.Unlock()
							continue
						}
						switch u.kind {
						case "pair":
							for b := range bound {
								if !session("memo", []int{u.a, b}) {
									return
								}
							}
						case "probe":
							for _, b := range probe {
								if !session("real", []int{u.a, b}) {
									return
								}
							}
						case "triple":
							for _, b := range alpha.Core {
								for _, c := range alpha.Core {
									if !session("memo", []int{u.a, b, c}) {
										return
									}
								}
							}
						}
					}
					rep.Eval(evals)
					mu.Lock()
					sessions += nSess
					notListed += nNotListed
					if maxNs > maxSessNs {
						maxSessNs = maxNs
					}
					mu.Unlock()
				}(envs[w])
			}
			wg.Wait()
			if firstErr != nil {
				return firstErr
			}
		}
	}
	rep.SetInfo("f4_wall_s", int(time.Since(f4Start).Seconds()))
	rep.Count("f4_sessions", sessions)
	rep.Count("f4_sessions_with_a_later_answer_given_without_listing_segments", notListed)
	rep.SetInfo("f4_longest_session_ms", maxSessNs/1e6)
	if cut != "" {
		rep.Cap(cut)
	}
	if notListed == 0 && cut == "" {
		rep.Cap("family F4: no answer was ever given from the result cache (not even to a repeated text): the session dimension was not exercised")
	}
	return nil
}

// c36ReplaySession re-executes a recorded session.
func c36ReplaySession(t *testing.T, rep *vh.Report, env *c36Env, replay c36Replay, t0 int64) {
	rc, err := c36DefaultResultCache(t.TempDir())
	if err != nil {
		t.Fatalf("HARNESS-ERROR %v", err)
	}
	bset := replay.Set.bind(t0)
	if err := env.prepare(bset, replay.Variant); err != nil {
		t.Fatalf("HARNESS-ERROR %v", err)
	}
	env.resetMemo(replay.Variant)
	segs, _ := env.listers[replay.Variant].ListCompleted(context.Background())
	qs := make([]c36Query, len(replay.Session))
	for i, q := range replay.Session {
		qs[i] = q.bind(t0)
	}
	truth := c36Truth(bset)
	steps, err := c36RunSession(env, replay.Variant, replay.Path, rc, qs, truth, segs)
	if err != nil {
		t.Fatalf("HARNESS-ERROR %v", err)
	}
	rep.Eval(int64(len(steps)))
	rep.Outcome("replay", true)
	for k, st := range steps {
		rep.Outcome(st.Listed+"/"+st.Sig, true)
		if st.F != nil {
			f, err := c36SessClassify(env, replay.Variant, replay.Path, rc, qs, k, steps, truth, segs)
			if err != nil {
				t.Fatalf("HARNESS-ERROR %v", err)
			}
			rp := replay
			rp.At, rp.Query = k, replay.Session[k]
			rep.Violation(f.Key, f.Detail, rp)
		}
	}
}
