//go:build verif

package server

import (
	"bufio"
	"encoding/binary"
	"encoding/xml"
	"fmt"
	"io"
	"net/http"
	"net/http/httptest"
	"sort"
	"strconv"
	"strings"
	"sync"

	"github.com/KafScale/platform/internal/verif/enum"
)

// Loopback S3 (path-style) used as the storage behind the real discovery/decoder in C36: ListObjectsV2,
// GetObject (whole / bytes=a-b / bytes=a- / bytes=-n), HeadBucket, PutObject. The LastModified of a
// listing entry can be set per object (PutMod) or left out. Every request is
// logged so that the harness can tell which topics' segment objects were downloaded in full.

type c36S3Op struct {
	Method string
	Key    string // object key ("" for bucket-level requests)
	Range  string
}

type c36S3 struct {
	mu   sync.Mutex
	objs map[string][]byte
	mod  map[string]string // object key -> LastModified reported by ListObjectsV2 ("-" = element omitted; unset = c36DefaultModified)
	log  []c36S3Op
	srv  *httptest.Server
}

func c36NewS3() *c36S3 {
	s := &c36S3{objs: map[string][]byte{}, mod: map[string]string{}}
	s.srv = httptest.NewServer(http.HandlerFunc(s.serve))
	return s
}

func (s *c36S3) URL() string { return s.srv.URL }
func (s *c36S3) Close()      { s.srv.Close() }

func (s *c36S3) Put(key string, body []byte) {
	s.mu.Lock()
	s.objs[key] = append([]byte(nil), body...)
	s.mu.Unlock()
}

// c36DefaultModified is the LastModified the listing reports for an object stored with Put.
const c36DefaultModified = "2024-01-01T00:00:00.000Z"

// PutMod stores an object whose listing entry carries LastModified lm (ISO 8601), or no
// LastModified element at all when lm is "-".
func (s *c36S3) PutMod(key string, body []byte, lm string) {
	s.mu.Lock()
	s.objs[key] = append([]byte(nil), body...)
	if lm == "" {
		delete(s.mod, key)
	} else {
		s.mod[key] = lm
	}
	s.mu.Unlock()
}

// Delete removes one object.
func (s *c36S3) Delete(key string) {
	s.mu.Lock()
	delete(s.objs, key)
	delete(s.mod, key)
	s.mu.Unlock()
}

// Reset removes every object and clears the request log.
func (s *c36S3) Reset() {
	s.mu.Lock()
	s.objs = map[string][]byte{}
	s.mod = map[string]string{}
	s.log = nil
	s.mu.Unlock()
}

// Keys returns the object keys, sorted.
func (s *c36S3) Keys() []string {
	s.mu.Lock()
	defer s.mu.Unlock()
	var out []string
	for k := range s.objs {
		out = append(out, k)
	}
	sort.Strings(out)
	return out
}

func (s *c36S3) LogLen() int {
	s.mu.Lock()
	defer s.mu.Unlock()
	return len(s.log)
}

func (s *c36S3) LogFrom(i int) []c36S3Op {
	s.mu.Lock()
	defer s.mu.Unlock()
	return append([]c36S3Op(nil), s.log[i:]...)
}

type c36ListResult struct {
	XMLName     xml.Name        `xml:"ListBucketResult"`
	Xmlns       string          `xml:"xmlns,attr"`
	Name        string          `xml:"Name"`
	Prefix      string          `xml:"Prefix"`
	KeyCount    int             `xml:"KeyCount"`
	MaxKeys     int             `xml:"MaxKeys"`
	IsTruncated bool            `xml:"IsTruncated"`
	Contents    []c36ListObject `xml:"Contents"`
}

type c36ListObject struct {
	Key          string `xml:"Key"`
	LastModified string `xml:"LastModified,omitempty"`
	ETag         string `xml:"ETag"`
	Size         int    `xml:"Size"`
	StorageClass string `xml:"StorageClass"`
}

func (s *c36S3) serve(w http.ResponseWriter, r *http.Request) {
	path := strings.TrimPrefix(r.URL.Path, "/")
	bucket, key := path, ""
	if i := strings.IndexByte(path, '/'); i >= 0 {
		bucket, key = path[:i], path[i+1:]
	}
	s.mu.Lock()
	s.log = append(s.log, c36S3Op{Method: r.Method, Key: key, Range: r.Header.Get("Range")})
	s.mu.Unlock()
	switch {
	case key == "" && r.Method == http.MethodHead:
		w.WriteHeader(200)
	case key == "" && r.Method == http.MethodGet:
		prefix := r.URL.Query().Get("prefix")
		s.mu.Lock()
		var keys []string
		for k := range s.objs {
			if strings.HasPrefix(k, prefix) {
				keys = append(keys, k)
			}
		}
		sort.Strings(keys)
		res := c36ListResult{Xmlns: "http://s3.amazonaws.com/doc/2006-03-01/", Name: bucket, Prefix: prefix, KeyCount: len(keys), MaxKeys: 1000}
		for _, k := range keys {
			lm := c36DefaultModified
			if v, ok := s.mod[k]; ok {
				lm = v
				if v == "-" {
					lm = ""
				}
			}
			res.Contents = append(res.Contents, c36ListObject{Key: k, LastModified: lm, ETag: `"0"`, Size: len(s.objs[k]), StorageClass: "STANDARD"})
		}
		s.mu.Unlock()
		w.Header().Set("Content-Type", "application/xml")
		w.WriteHeader(200)
		_, _ = w.Write([]byte(xml.Header))
		_ = xml.NewEncoder(w).Encode(res)
	case r.Method == http.MethodGet || r.Method == http.MethodHead:
		s.mu.Lock()
		data, ok := s.objs[key]
		s.mu.Unlock()
		if !ok {
			w.Header().Set("Content-Type", "application/xml")
			w.WriteHeader(404)
			fmt.Fprintf(w, `<?xml version="1.0" encoding="UTF-8"?><Error><Code>NoSuchKey</Code><Message>The specified key does not exist.</Message><Key>%s</Key></Error>`, key)
			return
		}
		start, end, partial, ok := c36ParseRange(r.Header.Get("Range"), len(data))
		if !ok {
			w.Header().Set("Content-Type", "application/xml")
			w.WriteHeader(416)
			fmt.Fprint(w, `<?xml version="1.0" encoding="UTF-8"?><Error><Code>InvalidRange</Code><Message>The requested range is not satisfiable</Message></Error>`)
			return
		}
		w.Header().Set("Content-Type", "application/octet-stream")
		w.Header().Set("ETag", `"0"`)
		w.Header().Set("Last-Modified", "Mon, 01 Jan 2024 00:00:00 GMT")
		w.Header().Set("Accept-Ranges", "bytes")
		w.Header().Set("Content-Length", strconv.Itoa(end-start))
		if partial {
			w.Header().Set("Content-Range", fmt.Sprintf("bytes %d-%d/%d", start, end-1, len(data)))
			w.WriteHeader(206)
		} else {
			w.WriteHeader(200)
		}
		if r.Method == http.MethodGet {
			_, _ = w.Write(data[start:end])
		}
	case r.Method == http.MethodPut:
		body, err := c36ReadBody(r)
		if err != nil {
			w.WriteHeader(400)
			return
		}
		s.Put(key, body)
		w.Header().Set("ETag", `"0"`)
		w.WriteHeader(200)
	default:
		w.WriteHeader(405)
	}
}

// c36ParseRange returns the half-open byte interval selected by an HTTP Range header.
func c36ParseRange(h string, size int) (start, end int, partial, ok bool) {
	if h == "" {
		return 0, size, false, true
	}
	if !strings.HasPrefix(h, "bytes=") {
		return 0, 0, false, false
	}
	spec := strings.TrimPrefix(h, "bytes=")
	i := strings.IndexByte(spec, '-')
	if i < 0 {
		return 0, 0, false, false
	}
	a, b := spec[:i], spec[i+1:]
	switch {
	case a == "": // suffix: last n bytes
		n, err := strconv.Atoi(b)
		if err != nil || n <= 0 {
			return 0, 0, false, false
		}
		if n > size {
			n = size
		}
		return size - n, size, true, size > 0
	case b == "":
		x, err := strconv.Atoi(a)
		if err != nil || x >= size {
			return 0, 0, false, false
		}
		return x, size, true, true
	default:
		x, err1 := strconv.Atoi(a)
		y, err2 := strconv.Atoi(b)
		if err1 != nil || err2 != nil || x > y || x >= size {
			return 0, 0, false, false
		}
		if y >= size {
			y = size - 1
		}
		return x, y + 1, true, true
	}
}

// c36ReadBody reads a PUT body, decoding aws-chunked framing when the SDK used it.
func c36ReadBody(r *http.Request) ([]byte, error) {
	if !strings.HasPrefix(r.Header.Get("X-Amz-Content-Sha256"), "STREAMING-") {
		return io.ReadAll(r.Body)
	}
	br := bufio.NewReader(r.Body)
	var out []byte
	for {
		line, err := br.ReadString('\n')
		if err != nil {
			return nil, err
		}
		line = strings.TrimRight(line, "\r\n")
		if i := strings.IndexByte(line, ';'); i >= 0 {
			line = line[:i]
		}
		n, err := strconv.ParseInt(line, 16, 64)
		if err != nil {
			return nil, err
		}
		if n == 0 {
			_, _ = io.Copy(io.Discard, br)
			return out, nil
		}
		chunk := make([]byte, n)
		if _, err := io.ReadFull(br, chunk); err != nil {
			return nil, err
		}
		out = append(out, chunk...)
		if _, err := br.Discard(2); err != nil {
			return nil, err
		}
	}
}

// ---------- independent segment builder ----------

type c36Rec struct {
	Offset int64
	TS     int64
	Key    string
	Value  string
}

// c36Segment builds a KafScale segment object: 32-byte header ("KAFS"...), Kafka v2 record batches of
// up to perBatch records (built by the engine's independent codec; offsets and timestamps of the
// later records are deltas to the first record of their batch), 16-byte footer ending in "END!".
func c36Segment(recs []c36Rec, perBatch int) []byte {
	hdr := make([]byte, 32)
	copy(hdr, "KAFS")
	binary.BigEndian.PutUint16(hdr[4:6], 1)
	if len(recs) > 0 {
		binary.BigEndian.PutUint64(hdr[8:16], uint64(recs[0].Offset))
	}
	binary.BigEndian.PutUint32(hdr[16:20], uint32(len(recs)))
	out := append([]byte(nil), hdr...)
	if perBatch < 1 {
		perBatch = 1
	}
	for i := 0; i < len(recs); i += perBatch {
		j := i + perBatch
		if j > len(recs) {
			j = len(recs)
		}
		var batch []enum.Rec
		for _, r := range recs[i:j] {
			batch = append(batch, enum.Rec{OffsetDelta: int32(r.Offset - recs[i].Offset), TimestampDelta: r.TS - recs[i].TS, Key: []byte(r.Key), Value: []byte(r.Value)})
		}
		lod := int32(recs[j-1].Offset - recs[i].Offset)
		out = append(out, enum.MakeBatch(batch, enum.BatchOpts{BaseOffset: recs[i].Offset, BaseTimestamp: recs[i].TS, LastOffsetDelta: &lod})...)
	}
	foot := make([]byte, 16)
	if len(recs) > 0 {
		binary.BigEndian.PutUint64(foot[4:12], uint64(recs[len(recs)-1].Offset))
	}
	copy(foot[12:], "END!")
	return append(out, foot...)
}

func c36SegmentKey(ns, topic string, partition int, base int64, ext string) string {
	return fmt.Sprintf("%s/%s/%d/segment-%020d.%s", ns, topic, partition, base, ext)
}

// c36TopicOfSegmentKey returns the topic of a segment object key under namespace ns.
func c36TopicOfSegmentKey(ns, key string) (string, bool) {
	if !strings.HasPrefix(key, ns+"/") || !strings.HasSuffix(key, ".kfs") {
		return "", false
	}
	parts := strings.Split(strings.TrimPrefix(key, ns+"/"), "/")
	if len(parts) != 3 {
		return "", false
	}
	return parts[0], true
}
