//go:build verif

package server

import (
	"bytes"
	"context"
	"fmt"
	"io"
	"log"
	"runtime"
	"sort"
	"strconv"
	"strings"
	"sync"
	"testing"
	"time"

	"github.com/jackc/pgproto3/v2"

	"github.com/KafScale/platform/internal/verif/vh"
	"github.com/kafscale/platform/addons/processors/sql-processor/internal/config"
	"github.com/kafscale/platform/addons/processors/sql-processor/internal/decoder"
	"github.com/kafscale/platform/addons/processors/sql-processor/internal/discovery"
	kafsql "github.com/kafscale/platform/addons/processors/sql-processor/internal/sql"
)

// C36 — SQL results equal direct filtering of the topic's records.
//
// For every generated set of segment objects (written to a loopback HTTP S3 by an independent
// builder), in up to five storage variants (plain; time-index sidecars built by the real
// TimeIndexBuilder; manifest built by the real ManifestBuilder; both as the backfill tool builds
// them; manifest built over a time-index-aware lister so that it carries time statistics), every
// query of the filter product is answered by the real Server.handleQuery (pgproto3 backend over a
// buffer) and compared with the same filters applied directly to the generator's own record list.
//
// Family F3 varies what the storage tells about each segment object besides its bytes: whether a
// time-index sidecar exists for it (time statistics present / absent, per segment) and which
// LastModified the listing reports for it (absent -> zero time.Time in the SegmentRef; earlier than
// every lower time bound of the queries; later than every record) — the real s3Lister copies
// ListObjectsV2 LastModified into SegmentRef.LastModified, the real ManifestBuilder writes it as a
// string that the manifest lister parses back. Record timestamps are producer-assigned, so they lie
// on both sides of the bounds whatever the upload time is. F3 timestamps are expressed in hours
// relative to a reference instant T0 taken at the start of the run, because its queries include
// LAST <n>h (the server compares with its own clock): every timestamp is at least 6 h away from both
// ends of every LAST window, and the run refuses to judge after 1 h.
//
// Wiring: discovery.New / decoder.New (real, AWS SDK -> loopback endpoint) are wrapped in a
// memoising Lister / Decoder that calls the real object once per (segment set, variant) — the
// bucket does not change while the queries of one set run — so that the query product costs no
// HTTP. A fixed probe list is additionally run per set and variant through a Server with no
// injection at all (getLister/getDecoder build their own clients).

const (
	c36NS     = "ns"
	c36Bucket = "c36"
	c36Topic  = "t"
)

// ---------- ground truth ----------

type c36SegSpec struct {
	P          int32   `json:"p"`
	Offs       []int64 `json:"offs"`
	TS         []int64 `json:"ts"`
	Incomplete string  `json:"incomplete,omitempty"` // "", "no-index", "no-footer"
	// family F3 (storage attributes of the segment object):
	NoStats bool   `json:"nostats,omitempty"` // no time-index sidecar exists for this segment
	LM      string `json:"lm,omitempty"`      // LastModified of the object in the listing: "" (2024-01-01) | "zero" (absent) | "early" | "late"
	lmAbs   string // bound form of LM handed to the fake S3
}

// A set with Rel=true gives its timestamps in hours relative to the reference instant T0 of the run
// (always negative: the records lie in the past); bind turns it into absolute milliseconds. Only the
// relative form is written to replays and samples.
type c36Set struct {
	Segs  []c36SegSpec `json:"segs"`
	Label string       `json:"label"`
	Rel   bool         `json:"rel,omitempty"`
}

const c36HourMs = int64(3600 * 1000)

// relative positions (hours) used by family F3
const (
	c36RelBound   = -24 // the _ts bound of the F3 queries
	c36RelLMEarly = -72 // LastModified "early": before every F3 lower time bound (T0-30h, T0-24h, T0-18h)
	c36RelLMLate  = -1  // LastModified "late": after every record and every bound
)

var c36RelTS = []int64{-36, -24, -12} // record timestamps of F3: below / at / above the _ts bound; 6 h away from both LAST edges
var c36RelLast = []int{18, 30}        // LAST <n>h windows of F3

func c36ISO(ms int64) string { return time.UnixMilli(ms).UTC().Format("2006-01-02T15:04:05.000Z") }

// bind returns the set with absolute timestamps (ms) and the LastModified strings for the fake S3.
func (set c36Set) bind(t0 int64) c36Set {
	if !set.Rel {
		return set
	}
	out := c36Set{Label: set.Label}
	for _, sg := range set.Segs {
		b := sg
		b.TS = make([]int64, len(sg.TS))
		for i, h := range sg.TS {
			b.TS[i] = t0 + h*c36HourMs
		}
		switch sg.LM {
		case "zero":
			b.lmAbs = "-"
		case "early":
			b.lmAbs = c36ISO(t0 + c36RelLMEarly*c36HourMs)
		case "late":
			b.lmAbs = c36ISO(t0 + c36RelLMLate*c36HourMs)
		}
		out.Segs = append(out.Segs, b)
	}
	return out
}

func (set c36Set) allNoStats() bool {
	for _, sg := range set.Segs {
		if !sg.NoStats {
			return false
		}
	}
	return true
}

type c36Row struct {
	P   int32
	Off int64
	TS  int64
	Key string
	Val string
	Seg string
}

func c36KeyOf(p int32, off int64) string { return fmt.Sprintf("k%d-%d", p, off) }

func (s c36SegSpec) segKey() string {
	return c36SegmentKey(c36NS, c36Topic, int(s.P), s.Offs[0], "kfs")
}

// c36Truth lists the records of the topic's completed segments.
func c36Truth(set c36Set) []c36Row {
	var out []c36Row
	for _, sg := range set.Segs {
		if sg.Incomplete != "" {
			continue
		}
		for i, off := range sg.Offs {
			out = append(out, c36Row{P: sg.P, Off: off, TS: sg.TS[i], Key: c36KeyOf(sg.P, off), Val: fmt.Sprintf("v%d-%d-%d", sg.P, off, sg.TS[i]), Seg: sg.segKey()})
		}
	}
	return out
}

func c36Load(s3 *c36S3, set c36Set) {
	s3.Reset()
	index := []byte("IDX\x00\x00\x01\x00\x00\x00\x00\x00\x00\x00\x00\x00\x00")
	for _, sg := range set.Segs {
		var recs []c36Rec
		for i, off := range sg.Offs {
			recs = append(recs, c36Rec{Offset: off, TS: sg.TS[i], Key: c36KeyOf(sg.P, off), Value: fmt.Sprintf("v%d-%d-%d", sg.P, off, sg.TS[i])})
		}
		body := c36Segment(recs, 2)
		if sg.Incomplete == "no-footer" {
			copy(body[len(body)-4:], "\x00\x00\x00\x00")
		}
		s3.PutMod(sg.segKey(), body, sg.lmAbs)
		if sg.Incomplete != "no-index" {
			s3.PutMod(c36SegmentKey(c36NS, c36Topic, int(sg.P), sg.Offs[0], "index"), index, sg.lmAbs)
		}
	}
	// decoys: other topics (one a name extension of the queried topic) sharing partition and offsets
	for _, topic := range []string{"tt", "u"} {
		s3.Put(c36SegmentKey(c36NS, topic, 0, 0, "kfs"), c36Segment([]c36Rec{{Offset: 0, TS: 30, Key: "decoy", Value: topic}}, 1))
		s3.Put(c36SegmentKey(c36NS, topic, 0, 0, "index"), index)
	}
}

// ---------- segment-set generator ----------

type c36Bounds struct {
	TS       []int64 // timestamp alphabet
	Layouts  [][]int // records per segment of partition 0
	AllGaps  bool    // every subset of inter-segment gaps (else: none / before the last segment)
	P1       int     // number of partition-1 variants
	F2TS     []int64
	F2Gaps   bool
	QTsBound []int64 // query _ts bound values
	F3       [][]int // layouts of family F3 (storage attributes per segment)
}

func c36QuickBounds() c36Bounds {
	return c36Bounds{
		TS:       []int64{20, 30, 40},
		Layouts:  [][]int{{1}, {2}, {1, 1}, {2, 1}, {1, 2}, {1, 1, 1}},
		P1:       2,
		F2TS:     []int64{20, 40},
		QTsBound: []int64{30},
		F3:       [][]int{{1}, {2}, {1, 1}, {2, 1}},
	}
}

func c36ThoroughBounds() c36Bounds {
	return c36Bounds{
		TS:       []int64{10, 20, 30, 40, 50},
		Layouts:  [][]int{{1}, {2}, {1, 1}, {3}, {2, 1}, {1, 2}, {1, 1, 1}, {2, 2}, {3, 1}, {1, 3}, {2, 1, 1}, {1, 2, 1}, {1, 1, 2}},
		AllGaps:  true,
		P1:       3,
		F2TS:     []int64{20, 40},
		F2Gaps:   true,
		QTsBound: []int64{20, 40},
		F3:       [][]int{{1}, {2}, {1, 1}, {2, 1}, {1, 2}, {1, 1, 1}},
	}
}

var c36P1Variants = [][]c36SegSpec{
	nil,
	{{P: 1, Offs: []int64{2, 3}, TS: []int64{30, 30}}},
	{{P: 1, Offs: []int64{0}, TS: []int64{50}}, {P: 1, Offs: []int64{1, 2}, TS: []int64{10, 30}}},
}

func c36Pow(b, e int) int {
	out := 1
	for i := 0; i < e; i++ {
		out *= b
	}
	return out
}

// c36P0 builds partition 0 for a layout, a gap mask (bit k-1: two offsets are skipped before
// segment k) and a timestamp assignment (digits of tsIdx in base len(alphabet), first record = most
// significant).
func c36P0(layout []int, gapMask int, alphabet []int64, tsIdx int) []c36SegSpec {
	n := 0
	for _, k := range layout {
		n += k
	}
	ts := make([]int64, n)
	x := tsIdx
	for i := n - 1; i >= 0; i-- {
		ts[i] = alphabet[x%len(alphabet)]
		x /= len(alphabet)
	}
	var out []c36SegSpec
	off := int64(0)
	r := 0
	for k, size := range layout {
		if k > 0 && gapMask&(1<<(k-1)) != 0 {
			off += 2
		}
		sg := c36SegSpec{P: 0}
		for i := 0; i < size; i++ {
			sg.Offs = append(sg.Offs, off)
			sg.TS = append(sg.TS, ts[r])
			off++
			r++
		}
		out = append(out, sg)
	}
	return out
}

func c36GapMasks(nseg int, all bool) []int {
	if nseg <= 1 {
		return []int{0}
	}
	if all {
		var out []int
		for m := 0; m < 1<<(nseg-1); m++ {
			out = append(out, m)
		}
		return out
	}
	return []int{0, 1 << (nseg - 2)}
}

// c36Sets enumerates the segment sets, simplest first: families F1 then F2 over the layouts of at
// most 3 records, then F1 and F2 over the larger layouts. f is called with (index, set).
func c36Sets(b c36Bounds, f func(i int, set c36Set) bool) int {
	i := 0
	size := func(layout []int) int {
		n := 0
		for _, k := range layout {
			n += k
		}
		return n
	}
	for _, large := range []bool{false, true} {
		if large {
			// family F3: complete segments of partition 0; per segment {time-index sidecar present, absent} x
			// LastModified {absent, earlier than every lower time bound, later than everything}; record
			// timestamps (relative to T0) over the full product of {below, at, above the _ts bound}.
			attrs := []struct {
				noStats bool
				lm      string
			}{{false, "late"}, {true, "late"}, {false, "zero"}, {true, "zero"}, {false, "early"}, {true, "early"}}
			for _, layout := range b.F3 {
				n := size(layout)
				for ai := 0; ai < c36Pow(len(attrs), len(layout)); ai++ {
					for tsIdx := 0; tsIdx < c36Pow(len(c36RelTS), n); tsIdx++ {
						segs := c36P0(layout, 0, c36RelTS, tsIdx)
						x := ai
						desc := ""
						for k := len(segs) - 1; k >= 0; k-- {
							a := attrs[x%len(attrs)]
							x /= len(attrs)
							segs[k].NoStats, segs[k].LM = a.noStats, a.lm
						}
						for k := range segs {
							st := "stats"
							if segs[k].NoStats {
								st = "nostats"
							}
							desc += fmt.Sprintf(" seg%d=%s/lm-%s", k, st, segs[k].LM)
						}
						set := c36Set{Segs: segs, Rel: true, Label: fmt.Sprintf("F3 layout=%v%s ts#%d(h)", layout, desc, tsIdx)}
						if !f(i, set) {
							return i
						}
						i++
					}
				}
			}
		}
		var layouts [][]int
		for _, l := range b.Layouts {
			if (size(l) > 3) == large {
				layouts = append(layouts, l)
			}
		}
		// family F1: complete segments, full timestamp product
		for _, layout := range layouts {
			n := size(layout)
			for _, gm := range c36GapMasks(len(layout), b.AllGaps) {
				for p1 := 0; p1 < b.P1; p1++ {
					for tsIdx := 0; tsIdx < c36Pow(len(b.TS), n); tsIdx++ {
						segs := c36P0(layout, gm, b.TS, tsIdx)
						segs = append(segs, c36P1Variants[p1]...)
						set := c36Set{Segs: segs, Label: fmt.Sprintf("F1 layout=%v gaps=%b p1=%d ts#%d", layout, gm, p1, tsIdx)}
						if !f(i, set) {
							return i
						}
						i++
					}
				}
			}
		}
		// family F2: one segment of partition 0 is not completed (index object missing / footer magic missing)
		for _, layout := range layouts {
			if len(layout) < 2 {
				continue
			}
			n := size(layout)
			masks := []int{0}
			if b.F2Gaps {
				masks = c36GapMasks(len(layout), true)
			}
			for _, gm := range masks {
				for seg := 0; seg < len(layout); seg++ {
					for _, kind := range []string{"no-index", "no-footer"} {
						for tsIdx := 0; tsIdx < c36Pow(len(b.F2TS), n); tsIdx++ {
							segs := c36P0(layout, gm, b.F2TS, tsIdx)
							segs[seg].Incomplete = kind
							set := c36Set{Segs: segs, Label: fmt.Sprintf("F2 layout=%v gaps=%b seg%d=%s ts#%d", layout, gm, seg, kind, tsIdx)}
							if !f(i, set) {
								return i
							}
							i++
						}
					}
				}
			}
		}
	}
	return i
}

// ---------- queries ----------

type c36Query struct {
	Part   int    `json:"part"`   // -1 none
	OffMin int64  `json:"offmin"` // -1 none
	OffMax int64  `json:"offmax"`
	TsMin  int64  `json:"tsmin"`
	TsMax  int64  `json:"tsmax"`
	Mode   string `json:"mode"` // all | limit | tail | asc | desc
	N      int    `json:"n"`    // limit / tail count (0 = none)
	Text   string `json:"text"`
	Form   string `json:"form"` // natural | dialect
	// family F3: time bounds in hours relative to T0 (negative; 0 = none) and LAST <n>h (0 = none). Text
	// then carries placeholders like {T0-24h}; bind fills TsMin/TsMax (ms) and the executable text.
	Rel   bool `json:"rel,omitempty"`
	MinH  int  `json:"minh,omitempty"`
	MaxH  int  `json:"maxh,omitempty"`
	LastH int  `json:"lasth,omitempty"`
	// session family F4 (zz_verif_c36_session_test.go): Extra > 0 = the projection is the 8 implicit
	// columns followed by Extra aliases of _offset (Text carries the placeholder c36WideName(Extra));
	// PadTo > 0 = spaces after "FROM t" so that the clauses behind it start at byte PadTo; Style
	// "lowsp" = the text is sent in lower case, every blank doubled, with a leading tab. Sess = the
	// accepted clause order without SCAN FULL (a LIMIT/TAIL/LAST keyword ends the WHERE clause).
	Sess  bool   `json:"sess,omitempty"`
	Extra int    `json:"extra,omitempty"`
	PadTo int    `json:"padto,omitempty"`
	Style string `json:"style,omitempty"`
	t0    int64
	exec  string
}

func c36RelName(h int) string { return fmt.Sprintf("{T0%+dh}", h) }

// bind fixes the reference instant of a relative query.
func (q c36Query) bind(t0 int64) c36Query {
	if !q.Rel {
		return q
	}
	q.t0 = t0
	q.TsMin, q.TsMax = -1, -1
	q.exec = q.Text
	if q.MinH != 0 {
		q.TsMin = t0 + int64(q.MinH)*c36HourMs
		q.exec = strings.ReplaceAll(q.exec, c36RelName(q.MinH), strconv.FormatInt(q.TsMin, 10))
	}
	if q.MaxH != 0 {
		q.TsMax = t0 + int64(q.MaxH)*c36HourMs
		q.exec = strings.ReplaceAll(q.exec, c36RelName(q.MaxH), strconv.FormatInt(q.TsMax, 10))
	}
	if q.Sess {
		q.exec = c36SessRender(q.exec, q.Extra, q.PadTo, q.Style)
	}
	return q
}

// sql is the text sent to the server.
func (q c36Query) sql() string {
	if q.exec != "" {
		return q.exec
	}
	return q.Text
}

// effBounds is the time interval the query selects: the _ts bounds and, with LAST <n>h, [now-n h, now]
// evaluated at the reference instant T0 (the generator keeps every record timestamp, statistic and
// LastModified at least 6 h away from both ends, so that the instant at which the server reads its
// clock during the run does not matter).
func (q c36Query) effBounds() (min, max *int64) {
	if q.TsMin >= 0 {
		v := q.TsMin
		min = &v
	}
	if q.TsMax >= 0 {
		v := q.TsMax
		max = &v
	}
	if q.LastH > 0 {
		start := q.t0 - int64(q.LastH)*c36HourMs
		if min == nil || *min < start {
			min = &start
		}
		if max == nil {
			now := q.t0
			max = &now
		}
	}
	return
}

func (q c36Query) tsOK(ts int64) bool {
	min, max := q.effBounds()
	return (min == nil || ts >= *min) && (max == nil || ts <= *max)
}

func (q c36Query) clauses() (where []string, ts []string, order, lim, last string) {
	if q.Part >= 0 {
		where = append(where, fmt.Sprintf("_partition = %d", q.Part))
	}
	if q.OffMin >= 0 {
		where = append(where, fmt.Sprintf("_offset >= %d", q.OffMin))
	}
	if q.OffMax >= 0 {
		where = append(where, fmt.Sprintf("_offset <= %d", q.OffMax))
	}
	if q.Rel {
		if q.MinH != 0 {
			ts = append(ts, "_ts >= "+c36RelName(q.MinH))
		}
		if q.MaxH != 0 {
			ts = append(ts, "_ts <= "+c36RelName(q.MaxH))
		}
		if q.LastH > 0 {
			last = fmt.Sprintf("LAST %dh", q.LastH)
		}
	} else {
		if q.TsMin >= 0 {
			ts = append(ts, fmt.Sprintf("_ts >= %d", q.TsMin))
		}
		if q.TsMax >= 0 {
			ts = append(ts, fmt.Sprintf("_ts <= %d", q.TsMax))
		}
	}
	switch q.Mode {
	case "asc":
		order = "ORDER BY _ts"
	case "desc":
		order = "ORDER BY _ts DESC"
	}
	switch {
	case q.Mode == "tail":
		lim = fmt.Sprintf("TAIL %d", q.N)
	case q.N > 0:
		lim = fmt.Sprintf("LIMIT %d", q.N)
	}
	return
}

// head is "SELECT * FROM t", or, for the wide projections of the session family, the same with the
// projection placeholder that bind expands.
func (q c36Query) head() string {
	if q.Extra > 0 {
		return "SELECT " + c36WideName(q.Extra) + " FROM " + c36Topic
	}
	return "SELECT * FROM " + c36Topic
}

// natural: SELECT * FROM t WHERE <all filters joined by AND> ORDER BY .. LIMIT n LAST <n>h
func (q c36Query) natural() string {
	where, ts, order, lim, last := q.clauses()
	parts := []string{q.head()}
	if all := append(append([]string{}, where...), ts...); len(all) > 0 {
		parts = append(parts, "WHERE "+strings.Join(all, " AND "))
	}
	if order != "" {
		parts = append(parts, order)
	}
	if lim != "" {
		parts = append(parts, lim)
	}
	if last != "" {
		parts = append(parts, last)
	}
	return strings.Join(parts, " ")
}

// dialect: the arrangement the parser accepts for every combination: ORDER BY before WHERE, the
// _ts bounds after a clause-terminating keyword (SCAN FULL / LIMIT / TAIL / LAST).
func (q c36Query) dialect() string {
	where, ts, order, lim, last := q.clauses()
	parts := []string{q.head()}
	if order != "" {
		parts = append(parts, order)
	}
	if len(where) > 0 {
		parts = append(parts, "WHERE "+strings.Join(where, " AND "))
	}
	if last == "" && !(q.Sess && lim != "") {
		parts = append(parts, "SCAN FULL")
	}
	if lim != "" {
		parts = append(parts, lim)
	}
	if last != "" {
		parts = append(parts, last)
	}
	parts = append(parts, ts...)
	return strings.Join(parts, " ")
}

// c36Intent reports whether the real parser reads text as exactly the filters of q.
func c36Intent(q c36Query, text string) (accepted bool, same bool, err error) {
	p, perr := kafsql.Parse(text)
	if perr != nil {
		return false, false, perr
	}
	eqI32 := func(p *int32, v int) bool { return (p == nil && v < 0) || (p != nil && v >= 0 && int(*p) == v) }
	eqI64 := func(p *int64, v int64) bool { return (p == nil && v < 0) || (p != nil && v >= 0 && *p == v) }
	wantLast := ""
	if q.LastH > 0 {
		wantLast = fmt.Sprintf("%dh", q.LastH)
	}
	same = p.Type == kafsql.QuerySelect && p.Topic == c36Topic && p.JoinTopic == "" &&
		eqI32(p.Partition, q.Part) && eqI64(p.OffsetMin, q.OffMin) && eqI64(p.OffsetMax, q.OffMax) &&
		eqI64(p.TsMin, q.TsMin) && eqI64(p.TsMax, q.TsMax) && p.Last == wantLast && p.TimeWindow == "" && len(p.GroupBy) == 0 &&
		c36SelectIntent(q, p) && !(q.Sess && p.ScanFull)
	wantOrder, wantDesc := "", false
	switch q.Mode {
	case "asc":
		wantOrder = "_ts"
	case "desc":
		wantOrder, wantDesc = "_ts", true
	}
	same = same && p.OrderBy == wantOrder && p.OrderDesc == wantDesc
	wantLimit, wantTail := "", ""
	if q.Mode == "tail" {
		wantTail = strconv.Itoa(q.N)
	} else if q.N > 0 {
		wantLimit = strconv.Itoa(q.N)
	}
	same = same && p.Limit == wantLimit && p.Tail == wantTail
	return true, same, nil
}

type c36Mode struct {
	m string
	n int
}

var c36Modes = []c36Mode{{"all", 0}, {"all", 1}, {"all", 2}, {"tail", 1}, {"tail", 2}, {"asc", 0}, {"desc", 0}, {"asc", 2}, {"desc", 1}}

type c36QueryStats struct {
	Combos          int
	NaturalAccepted int
	NaturalRejected map[string]int
}

// c36Queries builds the filter product; every combination is rendered in natural SQL if the real
// parser accepts that text, otherwise in the accepted dialect.
func c36Queries(b c36Bounds) ([]c36Query, c36QueryStats, error) {
	st := c36QueryStats{NaturalRejected: map[string]int{}}
	offMins := []int64{-1, 1, 3}
	offMaxs := []int64{-1, 0, 2}
	tsB := append([]int64{-1}, b.QTsBound...)
	var out []c36Query
	for _, md := range c36Modes {
		for _, part := range []int{-1, 0, 1} {
			for _, omin := range offMins {
				for _, omax := range offMaxs {
					for _, tmin := range tsB {
						for _, tmax := range tsB {
							if tmin >= 0 && tmax >= 0 && tmax < tmin {
								continue // the server rejects an inverted time window by design
							}
							q := c36Query{Part: part, OffMin: omin, OffMax: omax, TsMin: tmin, TsMax: tmax, Mode: md.m, N: md.n}
							st.Combos++
							nat := q.natural()
							acc, same, err := c36Intent(q, nat)
							if acc {
								// accepted natural SQL is executed whatever the parser made of it
								_ = same
								q.Text, q.Form = nat, "natural"
								st.NaturalAccepted++
							} else {
								st.NaturalRejected[err.Error()]++
								dia := q.dialect()
								acc, same, err := c36Intent(q, dia)
								if !acc || !same {
									return nil, st, fmt.Errorf("the parser does not read %q as intended (accepted=%v same=%v err=%v)", dia, acc, same, err)
								}
								q.Text, q.Form = dia, "dialect"
							}
							out = append(out, q)
						}
					}
				}
			}
		}
	}
	return out, st, nil
}

func (q c36Query) match(r c36Row) bool {
	if q.Part >= 0 && int(r.P) != q.Part {
		return false
	}
	if q.OffMin >= 0 && r.Off < q.OffMin {
		return false
	}
	if q.OffMax >= 0 && r.Off > q.OffMax {
		return false
	}
	return q.tsOK(r.TS)
}

// c36QueriesRel builds the queries of family F3 (all carry a lower time bound): {_ts >= B, _ts >= B
// and _ts <= B, LAST 18h, LAST 30h} x {no filter, _partition = 0, _offset >= 1, _offset <= 0} x the
// nine result modes; text form chosen as in c36Queries. The result is bound to t0.
func c36QueriesRel(t0 int64) ([]c36Query, c36QueryStats, error) {
	st := c36QueryStats{NaturalRejected: map[string]int{}}
	type tf struct{ minH, maxH, lastH int }
	forms := []tf{{c36RelBound, 0, 0}, {c36RelBound, c36RelBound, 0}}
	for _, w := range c36RelLast {
		forms = append(forms, tf{0, 0, w})
	}
	type flt struct {
		part       int
		omin, omax int64
	}
	filters := []flt{{-1, -1, -1}, {0, -1, -1}, {-1, 1, -1}, {-1, -1, 0}}
	var out []c36Query
	for _, md := range c36Modes {
		for _, fl := range filters {
			for _, f := range forms {
				q := c36Query{Part: fl.part, OffMin: fl.omin, OffMax: fl.omax, TsMin: -1, TsMax: -1, Mode: md.m, N: md.n, Rel: true, MinH: f.minH, MaxH: f.maxH, LastH: f.lastH}
				st.Combos++
				q.Text, q.Form = q.natural(), "natural"
				b := q.bind(t0)
				acc, _, err := c36Intent(b, b.sql())
				if acc {
					st.NaturalAccepted++
				} else {
					st.NaturalRejected[err.Error()]++
					q.Text, q.Form = q.dialect(), "dialect"
					b = q.bind(t0)
					acc, same, err := c36Intent(b, b.sql())
					if !acc || !same {
						return nil, st, fmt.Errorf("the parser does not read %q as intended (accepted=%v same=%v err=%v)", b.sql(), acc, same, err)
					}
				}
				out = append(out, b)
			}
		}
	}
	return out, st, nil
}

// ---------- memoising wrappers around the real lister / decoder ----------

type c36MemoLister struct {
	inner discovery.Lister
	mu    sync.Mutex
	have  bool
	segs  []discovery.SegmentRef
	err   error
	calls int
}

func (m *c36MemoLister) reset() {
	m.mu.Lock()
	m.have = false
	m.segs = nil
	m.err = nil
	m.mu.Unlock()
}

func (m *c36MemoLister) ListCompleted(ctx context.Context) ([]discovery.SegmentRef, error) {
	m.mu.Lock()
	defer m.mu.Unlock()
	if !m.have {
		m.segs, m.err = m.inner.ListCompleted(ctx)
		m.have = true
		m.calls++
	}
	return append([]discovery.SegmentRef(nil), m.segs...), m.err
}

type c36MemoDecoder struct {
	inner decoder.Decoder
	mu    sync.Mutex
	recs  map[string][]decoder.Record
	errs  map[string]error
}

func (m *c36MemoDecoder) reset() {
	m.mu.Lock()
	m.recs, m.errs = map[string][]decoder.Record{}, map[string]error{}
	m.mu.Unlock()
}

func (m *c36MemoDecoder) Decode(ctx context.Context, segmentKey, indexKey string, topic string, partition int32) ([]decoder.Record, error) {
	k := fmt.Sprintf("%s|%s|%d", segmentKey, topic, partition)
	m.mu.Lock()
	defer m.mu.Unlock()
	if _, ok := m.recs[k]; !ok {
		m.recs[k], m.errs[k] = m.inner.Decode(ctx, segmentKey, indexKey, topic, partition)
	}
	return append([]decoder.Record(nil), m.recs[k]...), m.errs[k]
}

// ---------- per-worker environment ----------

var c36AllVariants = []string{"plain", "time-index", "manifest", "manifest+time-index", "manifest-with-time-stats"}

// quick leaves out manifest+time-index (cmd/backfill -mode all): its manifest carries no time
// statistics and, being non-empty, is served without consulting the sidecars — the same lister
// behaviour as "manifest".
var c36Variants = []string{"plain", "time-index", "manifest", "manifest-with-time-stats"}

type c36Env struct {
	s3      *c36S3
	cfgs    map[string]config.Config
	memoSrv map[string]*Server
	listers map[string]*c36MemoLister
	decs    map[string]*c36MemoDecoder
	realSrv map[string]*Server
	tiBuild *discovery.TimeIndexBuilder
	mfRaw   *discovery.ManifestBuilder
	mfTI    *discovery.ManifestBuilder
}

func c36BaseConfig(endpoint string) config.Config {
	return config.Config{
		S3:     config.S3Config{Bucket: c36Bucket, Namespace: c36NS, Endpoint: endpoint, Region: "us-east-1", PathStyle: true},
		Server: config.ServerConfig{ServerVersion: "15.0", ClientEncoding: "UTF8"},
		Query:  config.QueryConfig{DefaultLimit: 1000, MaxUnbounded: 10000},
		// every cache off: DiscoveryCache.TTLSeconds 0, Manifest.TTLSeconds 0, ResultCache zero
	}
}

func c36NewEnv() (*c36Env, error) {
	e := &c36Env{s3: c36NewS3(), cfgs: map[string]config.Config{}, memoSrv: map[string]*Server{}, listers: map[string]*c36MemoLister{}, decs: map[string]*c36MemoDecoder{}, realSrv: map[string]*Server{}}
	base := c36BaseConfig(e.s3.URL())
	for _, v := range c36AllVariants {
		cfg := base
		switch v {
		case "time-index":
			cfg.TimeIndex.Enabled = true
		case "manifest":
			cfg.Manifest.Enabled = true
		case "manifest+time-index", "manifest-with-time-stats":
			cfg.Manifest.Enabled = true
			cfg.TimeIndex.Enabled = true
		}
		e.cfgs[v] = cfg
		lister, err := discovery.New(cfg)
		if err != nil {
			return nil, err
		}
		dec, err := decoder.New(cfg)
		if err != nil {
			return nil, err
		}
		ml := &c36MemoLister{inner: lister}
		md := &c36MemoDecoder{inner: dec}
		md.reset()
		srv := New(cfg, log.New(io.Discard, "", 0))
		srv.lister, srv.listerInit = ml, true
		srv.decoder, srv.decoderInit = md, true
		e.memoSrv[v], e.listers[v], e.decs[v] = srv, ml, md
		e.realSrv[v] = New(cfg, log.New(io.Discard, "", 0))
	}
	// builders wired as cmd/backfill does: a raw lister (no manifest, no time index)
	raw, err := discovery.New(base)
	if err != nil {
		return nil, err
	}
	if e.tiBuild, err = discovery.NewTimeIndexBuilder(base, raw); err != nil {
		return nil, err
	}
	if e.mfRaw, err = discovery.NewManifestBuilder(base, raw); err != nil {
		return nil, err
	}
	tiCfg := base
	tiCfg.TimeIndex.Enabled = true
	tiLister, err := discovery.New(tiCfg)
	if err != nil {
		return nil, err
	}
	if e.mfTI, err = discovery.NewManifestBuilder(base, tiLister); err != nil {
		return nil, err
	}
	return e, nil
}

func (e *c36Env) resetMemo(v string) {
	e.listers[v].reset()
	e.decs[v].reset()
}

// ---------- running one query ----------

type c36Answer struct {
	Cols []string
	Rows [][]string // text values; "\x00NULL" for NULL
	Err  string
}

func c36Exec(srv *Server, text string) (c36Answer, error) {
	var out bytes.Buffer
	backend := pgproto3.NewBackend(pgproto3.NewChunkReader(bytes.NewReader(nil)), &out)
	var ans c36Answer
	if err := srv.handleQuery(context.Background(), backend, text); err != nil {
		ans.Err = err.Error()
	}
	fe := pgproto3.NewFrontend(pgproto3.NewChunkReader(&out), io.Discard)
	for {
		msg, err := fe.Receive()
		if err == io.EOF || err == io.ErrUnexpectedEOF {
			break
		}
		if err != nil {
			return ans, fmt.Errorf("decode server output: %w", err)
		}
		switch m := msg.(type) {
		case *pgproto3.RowDescription:
			ans.Cols = ans.Cols[:0]
			for _, f := range m.Fields {
				ans.Cols = append(ans.Cols, string(f.Name))
			}
		case *pgproto3.DataRow:
			row := make([]string, len(m.Values))
			for i, v := range m.Values {
				if v == nil {
					row[i] = "\x00NULL"
				} else {
					row[i] = string(v)
				}
			}
			ans.Rows = append(ans.Rows, row)
		case *pgproto3.ErrorResponse:
			ans.Err = m.Message
		}
	}
	return ans, nil
}

// ---------- oracle ----------

type c36Finding struct {
	Key    string
	Detail string
}

var c36Cols = []string{"_topic", "_partition", "_offset", "_ts", "_key", "_value", "_headers", "_segment"}

func c36Hex(s string) string {
	const digits = "0123456789abcdef"
	b := []byte(`\x`)
	for i := 0; i < len(s); i++ {
		b = append(b, digits[s[i]>>4], digits[s[i]&15])
	}
	return string(b)
}

func c36FormatTS(ms int64) string { return time.UnixMilli(ms).UTC().Format("2006-01-02 15:04:05.000") }

type c36ID struct {
	P   int32
	Off int64
}

// c36Check compares one answer with the reference. segs is what the lister returned (diagnosis only).
func c36Check(q c36Query, truth []c36Row, ans c36Answer, segs []discovery.SegmentRef) (sig string, f *c36Finding) {
	var match []c36Row
	byID := map[c36ID]c36Row{}
	for _, r := range truth {
		byID[c36ID{r.P, r.Off}] = r
		if q.match(r) {
			match = append(match, r)
		}
	}
	if ans.Err != "" {
		return "error:" + ans.Err, &c36Finding{Key: "error-instead-of-rows", Detail: fmt.Sprintf("the server answered %q with error %q; %d records match", q.Text, ans.Err, len(match))}
	}
	wantCols := c36ColsOf(q)
	if strings.Join(ans.Cols, ",") != strings.Join(wantCols, ",") {
		return "cols", &c36Finding{Key: "row-description-mismatch", Detail: fmt.Sprintf("%q answered with %d columns %v, want %d", q.Text, len(ans.Cols), c36Short(ans.Cols), len(wantCols))}
	}
	// decode rows
	var got []c36Row
	seen := map[c36ID]bool{}
	for _, row := range ans.Rows {
		if len(row) != len(wantCols) {
			return "badrow", &c36Finding{Key: "row-width-mismatch", Detail: fmt.Sprintf("%q: a row has %d values, want %d", q.Text, len(row), len(wantCols))}
		}
		p, err1 := strconv.Atoi(row[1])
		off, err2 := strconv.ParseInt(row[2], 10, 64)
		if err1 != nil || err2 != nil {
			return "badrow", &c36Finding{Key: "row-content-mismatch:_partition/_offset", Detail: fmt.Sprintf("row %q", row)}
		}
		id := c36ID{int32(p), off}
		if row[0] != c36Topic {
			return "foreign-topic", &c36Finding{Key: "row-of-another-topic-returned", Detail: fmt.Sprintf("%q returned row %q", q.Text, row)}
		}
		tr, ok := byID[id]
		if !ok {
			return "unknown-row", &c36Finding{Key: "row-not-in-completed-segments-returned", Detail: fmt.Sprintf("%q returned row %q which is in no completed segment of the topic", q.Text, row)}
		}
		if seen[id] {
			return "dup", &c36Finding{Key: "duplicate-row", Detail: fmt.Sprintf("%q returned partition %d offset %d twice", q.Text, p, off)}
		}
		seen[id] = true
		want := []string{c36Topic, strconv.Itoa(int(tr.P)), strconv.FormatInt(tr.Off, 10), c36FormatTS(tr.TS), c36Hex(tr.Key), c36Hex(tr.Val), "{}", tr.Seg}
		for i := 0; i < q.Extra; i++ {
			want = append(want, strconv.FormatInt(tr.Off, 10)) // _offset AS col_NNN_x..x
		}
		for i := range want {
			if row[i] != want[i] {
				name := wantCols[i]
				if i >= len(c36Cols) {
					name = "alias-of-_offset"
				}
				return "content", &c36Finding{Key: "row-content-mismatch:" + name, Detail: fmt.Sprintf("%q: partition %d offset %d column %s = %q, want %q", q.Text, p, off, wantCols[i], row[i], want[i])}
			}
		}
		if !q.match(tr) {
			why := "filters"
			switch {
			case q.Part >= 0 && int(tr.P) != q.Part:
				why = "partition"
			case (q.OffMin >= 0 && tr.Off < q.OffMin) || (q.OffMax >= 0 && tr.Off > q.OffMax):
				why = "offset"
			case !q.tsOK(tr.TS):
				why = "ts"
			}
			return "extra:" + why, &c36Finding{Key: "row-outside-filter-returned:" + why, Detail: fmt.Sprintf("%q returned partition %d offset %d ts %d which does not satisfy the %s filter", q.Text, tr.P, tr.Off, tr.TS, why)}
		}
		got = append(got, tr)
	}
	want := len(match)
	limited := q.N > 0
	if limited && q.N < want {
		want = q.N
	}
	sig = fmt.Sprintf("%s%d/match%d/rows%d", q.Mode, q.N, c36Bucketed(len(match)), c36Bucketed(len(got)))
	if len(got) != want {
		if len(got) < want {
			// which matching rows are missing, and why?
			var missing []c36Row
			for _, r := range match {
				if !seen[c36ID{r.P, r.Off}] {
					missing = append(missing, r)
				}
			}
			if !limited {
				key, why := c36Diagnose(q, missing[0], segs)
				return sig + "/missing", &c36Finding{Key: key, Detail: fmt.Sprintf("%q returned %d of %d matching rows; missing e.g. partition %d offset %d ts %d (%s)", q.Text, len(got), len(match), missing[0].P, missing[0].Off, missing[0].TS, why)}
			}
			key, why := c36Diagnose(q, missing[0], segs)
			if key == "matching-row-dropped-after-decoding" {
				key = q.Mode + "-returns-too-few-rows"
			}
			return sig + "/short", &c36Finding{Key: key, Detail: fmt.Sprintf("%q returned %d rows, want %d (%d match); e.g. partition %d offset %d is missing (%s)", q.Text, len(got), want, len(match), missing[0].P, missing[0].Off, why)}
		}
		return sig + "/long", &c36Finding{Key: "limit-exceeded", Detail: fmt.Sprintf("%q returned %d rows, want %d", q.Text, len(got), want)}
	}
	switch q.Mode {
	case "asc", "desc":
		for i := 1; i < len(got); i++ {
			if (q.Mode == "asc" && got[i].TS < got[i-1].TS) || (q.Mode == "desc" && got[i].TS > got[i-1].TS) {
				return sig + "/unsorted", &c36Finding{Key: "order-by-ts-not-sorted", Detail: fmt.Sprintf("%q: row %d has ts %d after ts %d", q.Text, i, got[i].TS, got[i-1].TS)}
			}
		}
		if limited && len(got) > 0 {
			worst := got[len(got)-1].TS
			for _, r := range match {
				if seen[c36ID{r.P, r.Off}] {
					continue
				}
				if (q.Mode == "asc" && r.TS < worst) || (q.Mode == "desc" && r.TS > worst) {
					if key, why := c36Diagnose(q, r, segs); key != "matching-row-dropped-after-decoding" {
						return sig + "/not-top", &c36Finding{Key: key, Detail: fmt.Sprintf("%q: the matching row partition %d offset %d ts %d is excluded although it sorts strictly before an included row (%s)", q.Text, r.P, r.Off, r.TS, why)}
					}
					return sig + "/not-top", &c36Finding{Key: "order-by-limit-not-the-first-rows", Detail: fmt.Sprintf("%q: excluded row ts %d is strictly before included row ts %d", q.Text, r.TS, worst)}
				}
			}
		}
	case "tail":
		// per partition the included rows must be the highest offsets among the matching ones
		for _, r := range match {
			if seen[c36ID{r.P, r.Off}] {
				continue
			}
			for _, g := range got {
				if g.P == r.P && g.Off < r.Off {
					if key, why := c36Diagnose(q, r, segs); key != "matching-row-dropped-after-decoding" {
						return sig + "/not-tail", &c36Finding{Key: key, Detail: fmt.Sprintf("%q: the matching row partition %d offset %d is excluded while the lower offset %d is included (%s)", q.Text, r.P, r.Off, g.Off, why)}
					}
					return sig + "/not-tail", &c36Finding{Key: "tail-not-the-last-rows", Detail: fmt.Sprintf("%q: partition %d offset %d is excluded while the lower offset %d is included", q.Text, r.P, r.Off, g.Off)}
				}
			}
		}
	}
	return sig, nil
}

func c36Bucketed(n int) int {
	if n > 3 {
		return 3
	}
	return n
}

// c36Diagnose names the mechanism by which a matching row got lost, using the real filterSegments
// and the segment list the real lister returned.
func c36Diagnose(q c36Query, r c36Row, segs []discovery.SegmentRef) (string, string) {
	var seg *discovery.SegmentRef
	for i := range segs {
		if segs[i].SegmentKey == r.Seg {
			seg = &segs[i]
		}
	}
	if seg == nil {
		return "completed-segment-not-listed", "its segment " + r.Seg + " is not in the lister's result"
	}
	ptr := func(v int64) *int64 {
		if v < 0 {
			return nil
		}
		return &v
	}
	show := func(p *int64) string {
		if p == nil {
			return "nil"
		}
		return strconv.FormatInt(*p, 10)
	}
	stats := fmt.Sprintf("segment %s stats: offsets [%s,%s] ts [%s,%s]", r.Seg, show(seg.MinOffset), show(seg.MaxOffset), show(seg.MinTimestamp), show(seg.MaxTimestamp))
	if seg.Topic != c36Topic || seg.Partition != r.P {
		return "segment-listed-under-wrong-topic-or-partition", stats
	}
	if !segmentMatchesOffsets(*seg, ptr(q.OffMin), ptr(q.OffMax)) {
		return "segment-skipped-by-offset-stats", stats
	}
	if tmin, tmax := q.effBounds(); !segmentMatchesTimestamps(*seg, tmin, tmax) {
		if seg.MinTimestamp == nil && seg.MaxTimestamp == nil {
			lm := "zero"
			if !seg.LastModified.IsZero() {
				lm = seg.LastModified.UTC().Format(time.RFC3339Nano)
				if q.Rel {
					lm = fmt.Sprintf("T0%+.0fh", float64(seg.LastModified.UnixMilli()-q.t0)/float64(c36HourMs))
				}
			}
			return "segment-without-time-stats-skipped-by-time-filter", stats + " LastModified " + lm
		}
		return "segment-skipped-by-time-stats", stats
	}
	return "matching-row-dropped-after-decoding", stats + " (the segment passes the statistics filter)"
}

// ---------- driver ----------

type c36Replay struct {
	Set     c36Set   `json:"set"`
	Variant string   `json:"variant"`
	Path    string   `json:"path"` // memo | real
	Query   c36Query `json:"query"`
	// family F4: the queries executed one after the other on one server with the result cache on;
	// Query is Session[At], the one whose answer is wrong
	Session []c36Query `json:"session,omitempty"`
	At      int        `json:"at,omitempty"`
}

type c36Found struct {
	rank   [2]int
	f      c36Finding
	replay c36Replay
}

// c36Prepare brings the bucket to the state variant v needs. Variants are visited in the order of
// c36Variants is NOT required; each call rebuilds from the segment objects.
func (e *c36Env) prepare(set c36Set, v string) error {
	ctx := context.Background()
	c36Load(e.s3, set)
	switch v {
	case "plain":
	case "time-index":
		if err := e.tiBuild.Build(ctx); err != nil {
			return fmt.Errorf("time index build: %w", err)
		}
		e.dropSidecars(set)
	case "manifest":
		if err := e.mfRaw.Build(ctx); err != nil {
			return fmt.Errorf("manifest build: %w", err)
		}
	case "manifest+time-index": // cmd/backfill -mode all: manifest first, then time index
		if err := e.mfRaw.Build(ctx); err != nil {
			return fmt.Errorf("manifest build: %w", err)
		}
		if err := e.tiBuild.Build(ctx); err != nil {
			return fmt.Errorf("time index build: %w", err)
		}
	case "manifest-with-time-stats":
		if err := e.tiBuild.Build(ctx); err != nil {
			return fmt.Errorf("time index build: %w", err)
		}
		e.dropSidecars(set)
		if err := e.mfTI.Build(ctx); err != nil {
			return fmt.Errorf("manifest build: %w", err)
		}
	}
	return nil
}

// dropSidecars removes the time-index sidecar of every segment marked NoStats: the bucket then looks
// as if the TimeIndexBuilder had last run before those segments were completed.
func (e *c36Env) dropSidecars(set c36Set) {
	for _, sg := range set.Segs {
		if sg.NoStats {
			e.s3.Delete(strings.TrimSuffix(sg.segKey(), ".kfs") + ".kfst")
		}
	}
}

// c36VariantsFor: F1/F2 sets run in every variant of the tier. F3 sets run with sidecars (time-index)
// and with a manifest built over the sidecars; if no segment of the set has a sidecar, also plain and
// with the plain manifest (the manifest passes LastModified on as a string).
func c36VariantsFor(set c36Set) []string {
	if !set.Rel {
		return c36Variants
	}
	if set.allNoStats() {
		return []string{"plain", "time-index", "manifest", "manifest-with-time-stats"}
	}
	return []string{"time-index", "manifest-with-time-stats"}
}

func c36VariantRank(v string) int {
	for i, x := range c36AllVariants {
		if x == v {
			return i
		}
	}
	return len(c36AllVariants)
}

func c36ProbeIdx(queries []c36Query) []int {
	// a fixed spread of the product, run through the un-instrumented server
	var out []int
	step := len(queries) / 7
	if step == 0 {
		step = 1
	}
	for i := 0; i < len(queries); i += step {
		out = append(out, i)
	}
	return out
}

func TestVerifC36(t *testing.T) {
	rep := vh.New(t, "C36")
	defer rep.Finish()
	rep.Rule = "case = (segment set, storage variant, query). Segment sets: partition 0 = every layout (records per segment) x inter-segment offset gaps x every assignment of the timestamp alphabet to its records, plus partition-1 variants (family F1); the same layouts with one segment not completed (no index object / no footer magic) (family F2). Family F3 (storage attributes): partition 0 = layouts of <=2 segments x every assignment of {T0-36h, T0-24h, T0-12h} to the records x per segment {time-index sidecar present, absent} x listing LastModified {T0-1h, absent (zero), T0-72h}; its queries all carry a lower time bound: {_ts >= T0-24h, _ts >= T0-24h and _ts <= T0-24h, LAST 18h, LAST 30h} x {no filter, _partition = 0, _offset >= 1, _offset <= 0} x the nine result modes; variants time-index and manifest-with-time-stats, plus plain and manifest when no segment has a sidecar. Variants: plain | time-index sidecars | manifest | manifest+time-index (as cmd/backfill builds them) | manifest carrying time statistics; sidecars and manifests are written by the real builders. Queries of F1/F2: product of partition filter x _offset >= x _offset <= x _ts >= x _ts <= x {all, limit 1, limit 2, tail 1, tail 2, order by _ts, order by _ts desc, order by _ts limit 2, order by _ts desc limit 1}, in natural SQL where the parser accepts it, else in the clause order it accepts. Outcome signature = variant + mode + (matching rows, returned rows) buckets + which statistics the pruned segments had. Non-trivial = at least one segment of the topic was pruned by statistics or at least one decoded record was filtered out. Family F4 (sessions): case = (segment set, variant, ordered pair / triple of texts of the alphabet head x tail) executed one after the other on one fresh server with the production-default result cache, each answer judged for its own query; signature = variant + position + heads of this and the previous text + same/other tail + whether the server listed segments for it + oracle signature; non-trivial = a later answer of the session was given without consulting the lister (served from the result cache)."
	rep.Assumptions = []string{
		"segments are well formed: the file name carries the offset of the first record, offsets grow within and across the segments of a partition (gaps allowed), timestamps are arbitrary",
		"a segment is completed iff its .kfs ends in the footer magic and its .index object exists; records of other segments are not part of the topic's rows",
		"LIMIT n without ORDER BY: any n distinct matching rows; TAIL n: n distinct matching rows such that no excluded row has a higher offset than an included row of the same partition; ORDER BY _ts [LIMIT n]: sorted, and no excluded row strictly before an included one (ties are unordered)",
		"LIMIT 0, inverted time windows and TAIL with ORDER BY are excluded; all caches are off (TTL 0) in families F1-F3; family F4 runs with the result cache a deployment gets by default (config.Load defaults), discovery cache and manifest TTL off",
		"family F4: the bucket does not change during a session, so an answer legitimately served from the result cache equals direct filtering; no model of the cache key or of cacheability is used",
		"LAST <n>h (family F3 only) selects the records with now-n h <= _ts <= now; every generated timestamp, statistic and LastModified is at least 6 h away from both ends (relative to the instant T0 at which the run started) and the run aborts as HARNESS-ERROR if it lasts more than 1 h, so the verdict does not depend on when the server reads its clock",
		"LastModified of a segment object is unrelated to the timestamps of its records (producer-assigned): a listing may report it earlier than, later than, or not at all relative to any record timestamp",
		"a query text the parser rejects is not a violation of this property (counted in bounds.natural_sql_rejected)",
		"the manifest is built after the last segment was written (no stale manifest); time-index sidecars may be missing for any subset of the segments (family F3)",
	}
	t.Setenv("AWS_ACCESS_KEY_ID", "verif")
	t.Setenv("AWS_SECRET_ACCESS_KEY", "verif")
	t.Setenv("AWS_REGION", "us-east-1")
	t.Setenv("AWS_EC2_METADATA_DISABLED", "true")

	bounds := c36QuickBounds()
	if vh.Thorough() {
		bounds = c36ThoroughBounds()
		c36Variants = c36AllVariants
	}

	var replay c36Replay
	if ok, err := vh.LoadReplay(&replay); ok {
		if err != nil {
			t.Fatalf("HARNESS-ERROR replay: %v", err)
		}
		env, err := c36NewEnv()
		if err != nil {
			t.Fatalf("HARNESS-ERROR %v", err)
		}
		t0 := time.Now().UTC().Truncate(time.Second).UnixMilli()
		if len(replay.Session) > 0 {
			c36ReplaySession(t, rep, env, replay, t0)
			return
		}
		bset := replay.Set.bind(t0)
		bq := replay.Query.bind(t0)
		if err := env.prepare(bset, replay.Variant); err != nil {
			t.Fatalf("HARNESS-ERROR %v", err)
		}
		srv := env.memoSrv[replay.Variant]
		if replay.Path == "real" {
			srv = env.realSrv[replay.Variant]
		}
		env.resetMemo(replay.Variant)
		ans, err := c36Exec(srv, bq.sql())
		if err != nil {
			t.Fatalf("HARNESS-ERROR %v", err)
		}
		segs, _ := env.listers[replay.Variant].ListCompleted(context.Background())
		sig, f := c36Check(bq, c36Truth(bset), ans, segs)
		rep.Eval(1)
		rep.Outcome(sig, true)
		rep.Outcome("replay", true)
		if f != nil {
			rep.Violation(f.Key, f.Detail, replay)
		}
		return
	}

	queries, qstats, err := c36Queries(bounds)
	if err != nil {
		t.Fatalf("HARNESS-ERROR %v", err)
	}
	probes := c36ProbeIdx(queries)
	// reference instant of family F3; the run must end well within the 6 h margins around it
	wallStart := time.Now()
	t0 := wallStart.UTC().Truncate(time.Second).UnixMilli()
	relQueries, relStats, err := c36QueriesRel(t0)
	if err != nil {
		t.Fatalf("HARNESS-ERROR %v", err)
	}
	relProbes := c36ProbeIdx(relQueries)
	nsets := c36Sets(bounds, func(int, c36Set) bool { return true })
	nrel := 0
	c36Sets(bounds, func(_ int, s c36Set) bool {
		if s.Rel {
			nrel++
		}
		return true
	})
	rep.SetInfo("segment_sets", nsets)
	rep.SetInfo("segment_sets_f3_storage_attributes", nrel)
	rep.SetInfo("f3_layouts_partition0", bounds.F3)
	rep.SetInfo("f3_per_segment_attributes", "{sidecar present, absent} x LastModified {late=T0-1h, zero=absent from the listing, early=T0-72h}")
	rep.SetInfo("f3_record_timestamps_hours_from_T0", c36RelTS)
	rep.SetInfo("f3_time_forms", fmt.Sprintf("_ts >= T0%+dh | _ts >= T0%+dh AND _ts <= T0%+dh | LAST %dh | LAST %dh", c36RelBound, c36RelBound, c36RelBound, c36RelLast[0], c36RelLast[1]))
	rep.SetInfo("f3_queries_per_set_and_variant", len(relQueries))
	rep.SetInfo("f3_probe_queries_through_uninstrumented_server", len(relProbes))
	rep.SetInfo("f3_natural_sql_accepted", relStats.NaturalAccepted)
	rep.SetInfo("f3_natural_sql_rejected", relStats.NaturalRejected)
	rep.SetInfo("variants", c36Variants)
	rep.SetInfo("queries_per_set_and_variant", len(queries))
	rep.SetInfo("probe_queries_through_uninstrumented_server", len(probes))
	rep.SetInfo("timestamp_alphabet", bounds.TS)
	rep.SetInfo("query_ts_bounds", bounds.QTsBound)
	rep.SetInfo("layouts_partition0", bounds.Layouts)
	rep.SetInfo("natural_sql_accepted", qstats.NaturalAccepted)
	rep.SetInfo("natural_sql_rejected", qstats.NaturalRejected)

	var sets []c36Set
	c36Sets(bounds, func(_ int, s c36Set) bool { sets = append(sets, s); return true })

	workers := runtime.GOMAXPROCS(0)
	if workers > 16 {
		workers = 16
	}
	shardI, shardN := vh.Shard()
	deadline := vh.Deadline()
	var mu sync.Mutex
	best := map[string]c36Found{}
	counts := map[string]int64{}
	var firstErr error
	cutAt := -1
	// family F4 first: sessions on one server with the production-default result cache
	if err := c36Sessions(t, rep, t0, deadline, func(rank [2]int, f c36Finding, rp c36Replay) {
		mu.Lock()
		counts[f.Key]++
		if cur, ok := best[f.Key]; !ok || rank[0] < cur.rank[0] || (rank[0] == cur.rank[0] && rank[1] < cur.rank[1]) {
			best[f.Key] = c36Found{rank: rank, f: f, replay: rp}
		}
		mu.Unlock()
	}); err != nil {
		t.Fatalf("HARNESS-ERROR %v", err)
	}
	if time.Since(wallStart) > time.Hour {
		t.Fatalf("HARNESS-ERROR the run lasted more than 1 h: the LAST windows are only judged within 1 h of the reference instant")
	}
	next := make(chan int, len(sets))
	for i := range sets {
		if i%shardN == shardI {
			next <- i
		}
	}
	close(next)
	var wg sync.WaitGroup
	for w := 0; w < workers; w++ {
		wg.Add(1)
		go func() {
			defer wg.Done()
			env, err := c36NewEnv()
			if err != nil {
				mu.Lock()
				firstErr = err
				mu.Unlock()
				return
			}
			defer env.s3.Close()
			localSigs := map[string]bool{}
			for si := range next {
				mu.Lock()
				stop := firstErr != nil
				mu.Unlock()
				if stop {
					return
				}
				if time.Now().After(deadline) {
					mu.Lock()
					if cutAt < 0 || si < cutAt {
						cutAt = si
					}
					mu.Unlock()
					continue
				}
				set := sets[si].bind(t0)
				truth := c36Truth(set)
				queries, probes := queries, probes
				if sets[si].Rel {
					queries, probes = relQueries, relProbes
				}
				var evals int64
				for _, v := range c36VariantsFor(sets[si]) {
					vi := c36VariantRank(v)
					if err := env.prepare(set, v); err != nil {
						mu.Lock()
						firstErr = fmt.Errorf("set %d (%s) variant %s: %w", si, set.Label, v, err)
						mu.Unlock()
						return
					}
					env.resetMemo(v)
					segs, lerr := env.listers[v].ListCompleted(context.Background())
					if lerr != nil {
						mu.Lock()
						firstErr = fmt.Errorf("set %d variant %s: list: %w", si, v, lerr)
						mu.Unlock()
						return
					}
					statKinds := c36StatKinds(segs)
					if sets[si].Rel {
						// which LastModified the lister reported for segments without time statistics
						for _, sg := range segs {
							if sg.Topic == c36Topic && sg.MinTimestamp == nil && sg.MaxTimestamp == nil {
								switch {
								case sg.LastModified.IsZero():
									statKinds += "-lmzero"
								case sg.LastModified.UnixMilli() < t0+c36RelBound*c36HourMs:
									statKinds += "-lmearly"
								default:
									statKinds += "-lmlate"
								}
							}
						}
					}
					run := func(path string, srv *Server, qi int) bool {
						q := queries[qi]
						ans, err := c36Exec(srv, q.sql())
						if err != nil {
							mu.Lock()
							firstErr = err
							mu.Unlock()
							return false
						}
						sig, f := c36Check(q, truth, ans, segs)
						evals++
						nontrivial := c36Nontrivial(q, truth, segs)
						full := v + "/" + path + "/" + q.Form + "/" + statKinds + "/" + sig
						if q.Rel {
							full += fmt.Sprintf("/min%d-max%d-last%d", q.MinH, q.MaxH, q.LastH)
						}
						if !localSigs[full] {
							localSigs[full] = true
							rep.Outcome(full, nontrivial)
						}
						if f != nil {
							mu.Lock()
							counts[f.Key]++
							cur, ok := best[f.Key]
							rank := [2]int{si, vi*1000000 + qi}
							if !ok || rank[0] < cur.rank[0] || (rank[0] == cur.rank[0] && rank[1] < cur.rank[1]) {
								best[f.Key] = c36Found{rank: rank, f: *f, replay: c36Replay{Set: sets[si], Variant: v, Path: path, Query: q}}
							}
							mu.Unlock()
						} else if si%97 == 3 && qi%311 == 5 && rep.WantSample() {
							rep.Sample(map[string]any{"set": sets[si], "variant": v, "query": q.Text, "rows": len(ans.Rows), "outcome": sig})
						}
						return true
					}
					for qi := range queries {
						if !run("memo", env.memoSrv[v], qi) {
							return
						}
					}
					for _, qi := range probes {
						if !run("real", env.realSrv[v], qi) {
							return
						}
					}
				}
				if sets[si].Rel && time.Since(wallStart) > time.Hour {
					mu.Lock()
					firstErr = fmt.Errorf("the run lasted more than 1 h: the LAST windows of family F3 are only judged within 1 h of the reference instant")
					mu.Unlock()
					return
				}
				rep.Eval(evals)
				rep.Count("segment_sets_done", 1)
			}
		}()
	}
	wg.Wait()
	if firstErr != nil {
		t.Fatalf("HARNESS-ERROR %v", firstErr)
	}
	if cutAt >= 0 {
		rep.Cap(fmt.Sprintf("deadline: segment sets from #%d (%s) on not all executed", cutAt, sets[cutAt].Label))
	}
	keys := make([]string, 0, len(best))
	for k := range best {
		keys = append(keys, k)
	}
	sort.Strings(keys)
	for _, k := range keys {
		b := best[k]
		rep.Violation(k, fmt.Sprintf("[%s, %s, %s] %s [%d cases with this key]", b.replay.Set.Label, b.replay.Variant, b.replay.Path, b.f.Detail, counts[k]), b.replay)
	}
	if len(counts) > 0 {
		rep.SetInfo("violating_cases_per_key", counts)
	}
}

// c36StatKinds summarises which statistics the lister attached to the topic's segments.
func c36StatKinds(segs []discovery.SegmentRef) string {
	var off, ts int
	n := 0
	for _, s := range segs {
		if s.Topic != c36Topic {
			continue
		}
		n++
		if s.MaxOffset != nil {
			off++
		}
		if s.MinTimestamp != nil || s.MaxTimestamp != nil {
			ts++
		}
	}
	return fmt.Sprintf("segs%d-maxoff%d-ts%d", n, off, ts)
}

// c36Nontrivial: the statistics filter pruned a listed segment of the topic, or the row filter
// dropped a decoded record.
func c36Nontrivial(q c36Query, truth []c36Row, segs []discovery.SegmentRef) bool {
	ptr := func(v int64) *int64 {
		if v < 0 {
			return nil
		}
		return &v
	}
	for _, s := range segs {
		if s.Topic != c36Topic {
			continue
		}
		if q.Part >= 0 && int(s.Partition) != q.Part {
			return true
		}
		tmin, tmax := q.effBounds()
		if !segmentMatchesOffsets(s, ptr(q.OffMin), ptr(q.OffMax)) || !segmentMatchesTimestamps(s, tmin, tmax) {
			return true
		}
	}
	for _, r := range truth {
		if !q.match(r) {
			return true
		}
	}
	return false
}
