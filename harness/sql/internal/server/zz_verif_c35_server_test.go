//go:build verif

package server

import (
	"context"
	"fmt"
	"io"
	"log"
	"net"
	"os"
	"os/exec"
	"strings"
	"testing"
	"time"

	"github.com/jackc/pgproto3/v2"

	"github.com/KafScale/platform/internal/verif/vh"
	"github.com/kafscale/platform/addons/processors/sql-processor/internal/config"
)

// C35, part 2 — "so one client cannot take the SQL server down".
//
// Every query text of a bounded set (all sequences of <= 3 tokens over the C35 alphabet, all
// 4-token sequences that start with select/explain, and fixed probes for every slicing site of the
// parser) is sent to the real Server.handleConnection over a net.Pipe, once as a simple Query and
// once as an extended-protocol Parse. The handler runs in a harness goroutine with recover(): a
// panic that reaches that recover is a panic that, in production (Server.Run starts the handler
// with a bare `go`), terminates the whole server process. One such text is then sent to a real
// server process (this test binary re-executed, real Server.Run on a TCP port) and a second client
// checks whether the server is still there.

var c35sTokens = []string{
	"select", "SELECT", "SeLeCt", "from", "*", "t",
	"Ⱥ", strings.Repeat("Ⱥ", 10), "İ", "K", "ß",
	"where", "_offset", ">=", "1", "group by", "order by", "desc", "limit", "5",
	"join", "on", "explain", ";", "(", ",",
}

var c35sProbes = []string{
	"select * from t",
	"select İ from t",
	"select K from t",
	"select _key as Ⱥ from t",
	"select * from t group by Ⱥ",
	"select * from t order by Ⱥ",
	"select * from t order by Ⱥ desc",
	"select * from t join u on Ⱥ",
	"select " + strings.Repeat("Ⱥ", 20) + " from t",
	"explain select * from t group by Ⱥ",
	"SELECT * FROM t GROUP BY Ⱥ;",
}

func c35sConfig() config.Config {
	return config.Config{
		S3:     config.S3Config{Bucket: "c35", Namespace: "ns", Endpoint: "http://127.0.0.1:1", Region: "us-east-1", PathStyle: true},
		Server: config.ServerConfig{ServerVersion: "15.0", ClientEncoding: "UTF8"},
		// every select without LAST/TAIL/SCAN FULL/_ts is rejected before any storage access
		Query: config.QueryConfig{DefaultLimit: 1000, MaxUnbounded: 10000, RequireTimeBound: true},
	}
}

type c35sConn struct {
	client   net.Conn
	frontend *pgproto3.Frontend
	done     chan any // value recovered from handleConnection (nil = normal return)
}

func c35sOpen(srv *Server) (*c35sConn, error) {
	serverConn, clientConn := net.Pipe()
	c := &c35sConn{client: clientConn, done: make(chan any, 1)}
	go func() {
		defer func() { c.done <- recover() }()
		srv.handleConnection(context.Background(), serverConn)
	}()
	startup := &pgproto3.StartupMessage{ProtocolVersion: pgproto3.ProtocolVersionNumber, Parameters: map[string]string{"user": "c35"}}
	buf, err := startup.Encode(nil)
	if err != nil {
		return nil, err
	}
	if _, err := clientConn.Write(buf); err != nil {
		return nil, err
	}
	c.frontend = pgproto3.NewFrontend(pgproto3.NewChunkReader(clientConn), clientConn)
	if _, err := c35sUntilReady(c.frontend); err != nil {
		return nil, err
	}
	return c, nil
}

// c35sUntilReady reads backend messages up to ReadyForQuery and returns a summary of what came.
func c35sUntilReady(f *pgproto3.Frontend) (string, error) {
	var kinds []string
	for {
		msg, err := f.Receive()
		if err != nil {
			return strings.Join(kinds, ","), err
		}
		switch m := msg.(type) {
		case *pgproto3.ReadyForQuery:
			return strings.Join(kinds, ","), nil
		case *pgproto3.ErrorResponse:
			kinds = append(kinds, "error:"+m.Message)
		case *pgproto3.DataRow:
			if len(kinds) == 0 || kinds[len(kinds)-1] != "rows" {
				kinds = append(kinds, "rows")
			}
		default:
			kinds = append(kinds, fmt.Sprintf("%T", msg))
		}
	}
}

type c35sReplay struct {
	Query string `json:"query"`
	Entry string `json:"entry"` // simple-query | extended-parse | process
}

// c35sSend sends q through entry on a live connection. It returns the outcome signature, and the
// recovered panic value if the handler died.
func c35sSend(c *c35sConn, entry, q string) (string, any, error) {
	// net.Pipe is unbuffered: send from a goroutine so that the handler may answer the first message
	// while the second is still being written
	sendErr := make(chan error, 1)
	go func() {
		var err error
		if entry == "simple-query" {
			err = c.frontend.Send(&pgproto3.Query{String: q})
		} else {
			if err = c.frontend.Send(&pgproto3.Parse{Name: "", Query: q}); err == nil {
				err = c.frontend.Send(&pgproto3.Sync{})
			}
		}
		sendErr <- err
	}()
	out, err := c35sUntilReady(c.frontend)
	if err != nil {
		c.client.Close() // unblocks a sender stuck on a dead handler
	}
	if serr := <-sendErr; err == nil {
		err = serr
	}
	if err == nil {
		return out, nil, nil
	}
	// the connection broke: find out how the handler ended
	select {
	case r := <-c.done:
		if r != nil {
			return "handler-panic", r, nil
		}
		// the handler ended the connection on its own (e.g. it recovered from a panic): the client
		// lost its connection but the server goes on
		return "connection-closed-by-server", nil, nil
	case <-time.After(20 * time.Second):
		return "", nil, fmt.Errorf("handler neither answered nor ended after %q: %v", q, err)
	}
}

func TestVerifC35Server(t *testing.T) {
	rep := vh.New(t, "C35")
	defer rep.Finish()
	rep.Rule = "server part: case = (query text, entry point in {simple Query, extended Parse}) sent to the real Server.handleConnection over a pipe; outcome = the backend messages up to ReadyForQuery, or handler-panic; non-trivial = handler-panic or a parse that succeeded. Plus one real server process (Server.Run on TCP) receiving a panicking text."
	rep.Assumptions = []string{"server part: storage is never reached (require_time_bound rejects the selects after parsing), so only parsing and dispatch run"}

	srv := New(c35sConfig(), log.New(io.Discard, "", 0))

	var replay c35sReplay
	if ok, err := vh.LoadReplay(&replay); ok {
		if err != nil {
			t.Fatalf("HARNESS-ERROR replay: %v", err)
		}
		if replay.Entry == "" {
			// a replay of the parser part; nothing to do here
			rep.Outcome("not-mine", true)
			rep.Outcome("not-mine2", true)
			return
		}
		rep.Outcome("replay", true)
		if replay.Entry == "process" {
			c35sProcess(t, rep, replay.Query)
			rep.Outcome("replay2", true)
			return
		}
		c, err := c35sOpen(srv)
		if err != nil {
			t.Fatalf("HARNESS-ERROR open: %v", err)
		}
		sig, r, err := c35sSend(c, replay.Entry, replay.Query)
		if err != nil {
			t.Fatalf("HARNESS-ERROR %v", err)
		}
		rep.Eval(1)
		rep.Outcome(sig, true)
		if r != nil {
			rep.Violation("parser-panic-unrecovered-in-server:"+replay.Entry, fmt.Sprintf("%q: %v", replay.Query, r), replay)
		}
		return
	}

	// ---- the query set ----
	var queries []string
	K := len(c35sTokens)
	for L := 0; L <= 4; L++ {
		total := 1
		for i := 0; i < L; i++ {
			total *= K
		}
		for n := 0; n < total; n++ {
			x := n
			idx := make([]int, L)
			for i := L - 1; i >= 0; i-- {
				idx[i] = x % K
				x /= K
			}
			if L == 4 && !(idx[0] == 0 || idx[0] == 22) {
				continue
			}
			parts := make([]string, L)
			for i, v := range idx {
				parts[i] = c35sTokens[v]
			}
			queries = append(queries, strings.Join(parts, " "))
		}
	}
	queries = append(queries, c35sProbes...)
	rep.SetInfo("server_part_queries", len(queries))
	rep.SetInfo("server_part_entries", []string{"simple-query", "extended-parse"})

	type worst struct {
		q     string
		r     any
		count int64
	}
	first := map[string]*worst{}
	var killer string
	for _, entry := range []string{"simple-query", "extended-parse"} {
		var c *c35sConn
		for _, q := range queries {
			if c == nil {
				var err error
				if c, err = c35sOpen(srv); err != nil {
					t.Fatalf("HARNESS-ERROR open: %v", err)
				}
			}
			sig, r, err := c35sSend(c, entry, q)
			if err != nil {
				t.Fatalf("HARNESS-ERROR %v", err)
			}
			rep.Eval(1)
			nontrivial := r != nil || !strings.Contains(sig, "error:")
			rep.Outcome(entry+"/"+sig, nontrivial)
			if r == nil && sig == "connection-closed-by-server" {
				c.client.Close()
				c = nil
			}
			if r != nil {
				c.client.Close()
				c = nil
				w := first[entry]
				if w == nil {
					w = &worst{q: q, r: r}
					first[entry] = w
				} else if len(strings.Fields(q)) < len(strings.Fields(w.q)) {
					w.q, w.r = q, r
				}
				w.count++
				if killer == "" || len(q) < len(killer) {
					killer = q
				}
			}
		}
		if c != nil {
			_ = c.frontend.Send(&pgproto3.Terminate{})
			c.client.Close()
		}
	}
	for _, entry := range []string{"simple-query", "extended-parse"} {
		if w := first[entry]; w != nil {
			rep.Violation("parser-panic-unrecovered-in-server:"+entry,
				fmt.Sprintf("%s %q: panic %v propagated out of Server.handleConnection (no recover between the parser and the goroutine started by Server.Run) [%d texts]", entry, w.q, w.r, w.count),
				c35sReplay{Query: w.q, Entry: entry})
		}
	}
	rep.Sample(map[string]any{"family": "server", "entry": "simple-query", "query": c35sProbes[4]})

	// ---- one real process ----
	probe := killer
	if probe == "" {
		probe = c35sProbes[4]
	}
	c35sProcess(t, rep, probe)
}

// c35sProcess starts a real server process, sends q from one client and checks from a second
// client that the server still accepts and answers.
func c35sProcess(t *testing.T, rep *vh.Report, q string) {
	cmd := exec.Command(os.Args[0], "-test.run", "^TestVerifC35ServerChild$", "-test.count=1", "-test.timeout=120s")
	cmd.Env = append(os.Environ(), "VERIF_C35_CHILD_QUERY="+q, "VERIF_OUT=", "VERIF_REPLAY=")
	out, err := cmd.CombinedOutput()
	text := string(out)
	rep.Eval(1)
	switch {
	case strings.Contains(text, "C35CHILD-ALIVE"):
		rep.Outcome("process/alive", true)
	case strings.Contains(text, "C35CHILD-HARNESS"):
		t.Fatalf("HARNESS-ERROR child: %s", text)
	case err != nil && strings.Contains(text, "panic:") && strings.Contains(text, "C35CHILD-SENT"):
		rep.Outcome("process/died", true)
		line := ""
		for _, l := range strings.Split(text, "\n") {
			if strings.HasPrefix(l, "panic:") {
				line = l
				break
			}
		}
		where := ""
		for _, l := range strings.Split(text, "\n") {
			if strings.Contains(l, "server.(*Server).Run") {
				where = strings.TrimSpace(l)
				break
			}
		}
		rep.Violation("parser-panic-kills-server-process",
			fmt.Sprintf("a real server process (Server.Run) exited after one client sent %q: %s [%s]; the second client could not be served", q, line, where),
			c35sReplay{Query: q, Entry: "process"})
	default:
		t.Fatalf("HARNESS-ERROR child ended unexpectedly (err=%v): %s", err, text)
	}
}

// TestVerifC35ServerChild is the body of the re-executed process; it is a no-op unless asked.
func TestVerifC35ServerChild(t *testing.T) {
	q, ok := os.LookupEnv("VERIF_C35_CHILD_QUERY")
	if !ok {
		t.Skip("only run as a child of TestVerifC35Server")
	}
	var addr string
	started := false
	for attempt := 0; attempt < 20 && !started; attempt++ {
		ln, err := net.Listen("tcp", "127.0.0.1:0")
		if err != nil {
			fmt.Println("C35CHILD-HARNESS listen:", err)
			return
		}
		addr = ln.Addr().String()
		ln.Close()
		cfg := c35sConfig()
		cfg.Server.Listen = addr
		srv := New(cfg, log.New(io.Discard, "", 0))
		errCh := make(chan error, 1)
		go func() { errCh <- srv.Run(context.Background()) }()
		for i := 0; i < 200; i++ {
			select {
			case <-errCh:
				i = 1000
				continue
			default:
			}
			c, err := net.DialTimeout("tcp", addr, time.Second)
			if err == nil {
				c.Close()
				started = true
				break
			}
			time.Sleep(10 * time.Millisecond)
		}
	}
	if !started {
		fmt.Println("C35CHILD-HARNESS could not start server")
		return
	}
	dial := func() (net.Conn, *pgproto3.Frontend, error) {
		c, err := net.DialTimeout("tcp", addr, 5*time.Second)
		if err != nil {
			return nil, nil, err
		}
		startup := &pgproto3.StartupMessage{ProtocolVersion: pgproto3.ProtocolVersionNumber, Parameters: map[string]string{"user": "c35"}}
		buf, _ := startup.Encode(nil)
		if _, err := c.Write(buf); err != nil {
			return nil, nil, err
		}
		f := pgproto3.NewFrontend(pgproto3.NewChunkReader(c), c)
		_ = c.SetDeadline(time.Now().Add(20 * time.Second))
		if _, err := c35sUntilReady(f); err != nil {
			return nil, nil, err
		}
		return c, f, nil
	}
	c1, f1, err := dial()
	if err != nil {
		fmt.Println("C35CHILD-HARNESS first client:", err)
		return
	}
	defer c1.Close()
	fmt.Println("C35CHILD-SENT")
	_ = f1.Send(&pgproto3.Query{String: q})
	_, _ = c35sUntilReady(f1)
	// if the process is still here, a second client must be served
	time.Sleep(200 * time.Millisecond)
	c2, f2, err := dial()
	if err != nil {
		fmt.Println("C35CHILD-DEAD second client:", err)
		os.Exit(3)
	}
	defer c2.Close()
	_ = f2.Send(&pgproto3.Query{String: "describe t"})
	if out, err := c35sUntilReady(f2); err != nil || !strings.Contains(out, "rows") {
		fmt.Println("C35CHILD-DEAD second client query:", out, err)
		os.Exit(3)
	}
	fmt.Println("C35CHILD-ALIVE")
}
