//go:build verif

package decoder

import (
	"fmt"
	"testing"

	"github.com/KafScale/platform/internal/verif/enum"
	"github.com/KafScale/platform/internal/verif/vh"
)

// TestVerifC34 (sql decoder half): decodeSegment and parseIndex are run on every element of
// enum.C34Cases inside a crash-isolated worker process (enum/isolate.go); broker-written
// elements are wrapped by enum.BrokerSegment (byte-identical to the broker's BuildSegment, see C07). Oracle: (records | error); no panic,
// the worker survives, allocation per call <= 64*len(input)+1MiB.
func TestVerifC34(t *testing.T) {
	thorough := vh.Thorough()
	shard, n := vh.Shard()
	cfg := enum.IsoConfig{
		Tag: "c34sql", Shard: shard, NShards: n, Deadline: vh.Deadline(),
		Cases:      func(want func(int) bool, f func(*enum.FuzzCase) bool) { enum.C34Cases(thorough, want, f) },
		TrivialErr: []string{"segment too small", "invalid segment magic", "index too small", "invalid index magic"},
	}
	var rp map[string]any
	if ok, err := vh.LoadReplay(&rp); ok {
		if err != nil {
			t.Fatalf("HARNESS-ERROR replay: %v", err)
		}
		cases, _, err := enum.IsoReplayCases(rp)
		if err != nil {
			t.Fatalf("HARNESS-ERROR replay: %v", err)
		}
		cfg.Cases = cases
	}
	// this module cannot link pkg/storage: broker-written elements use enum.BrokerSegment (C07 proves it byte-identical to BuildSegment)
	cfg.Targets = []enum.IsoTarget{
		{Name: "sql.decodeSegment", Kind: "segment", Fn: func(b []byte) (string, error) {
			recs, err := decodeSegment(b, "t", 0)
			if err != nil {
				return "", err
			}
			return fmt.Sprintf("ok:%d", min(len(recs), 3)), nil
		}},
		{Name: "sql.parseIndex", Kind: "index", Fn: func(b []byte) (string, error) {
			e, err := parseIndex(b)
			if err != nil {
				return "", err
			}
			return fmt.Sprintf("ok:%d", min(len(e), 3)), nil
		}},
	}
	if enum.IsoIsChild() {
		enum.IsoChildMain(cfg)
		return
	}
	rep := vh.New(t, "C34")
	defer rep.Finish()
	rep.Rule = "sql decoder half: same corpus (enum.C34Cases) through decodeSegment / parseIndex in a crash-isolated worker"
	res, err := enum.IsoRun(cfg, "TestVerifC34")
	if err != nil {
		t.Fatalf("HARNESS-ERROR %v", err)
	}
	vC34Report(rep, res, "sql")
}

func vC34Report(rep *vh.Report, res *enum.IsoResult, part string) {
	rep.Eval(res.Evals)
	for sig, nt := range res.Sigs {
		rep.Outcome(sig, nt)
	}
	for _, s := range res.Samples {
		rep.Sample(s)
	}
	for k, v := range res.Counters {
		rep.Count(part+"_"+k, v)
	}
	rep.Count(part+"_worker_deaths", int64(res.Restarts))
	for _, c := range res.Caps {
		rep.Cap(c)
	}
	for key, v := range res.Viol {
		for _, ex := range v.Examples {
			rep.Violation(key, ex.Detail, ex.Replay)
		}
		if extra := v.Count - int64(len(v.Examples)); extra > 0 {
			rep.ViolCount[key] += extra
		}
	}
	rep.SetInfo(part+"_max_alloc_per_call_bytes", res.MaxAlloc)
}
