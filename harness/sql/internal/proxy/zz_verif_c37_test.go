//go:build verif

package proxy

import (
	"context"
	"encoding/binary"
	"fmt"
	"io"
	"log"
	"net"
	"runtime"
	"sort"
	"strings"
	"sync"
	"testing"
	"time"

	"github.com/jackc/pgproto3/v2"

	"github.com/KafScale/platform/internal/verif/vh"
	"github.com/kafscale/platform/addons/processors/sql-processor/internal/config"
	"github.com/kafscale/platform/addons/processors/sql-processor/internal/server"
	kafsql "github.com/kafscale/platform/addons/processors/sql-processor/internal/sql"
)

// C37 — the SQL proxy forwards only queries whose topics are all allowed.
//
// End to end: pgproto3 client -> real proxy.Server.handleConn (net.Pipe) -> custom dialer -> a
// recording tee -> real upstream server.Server (Server.Run on a loopback TCP port) -> real
// discovery/decoder -> loopback HTTP S3 holding one segment per topic. For every query of a session
// the harness observes (1) the exact Query texts the upstream received, (2) the topics whose
// segment objects the upstream downloaded in full while executing them, (3) what the client got.
//
// Oracle (from the statement):
//   O1  every topic read while executing a forwarded text is allowed by the ACL (reference ACL
//       semantics written here: deny wins, empty allow list = all, "*"/glob/exact patterns);
//   O2  a text is never authorised on a truncation of itself / on another text: a forwarded text
//       longer than 512 bytes whose own topics (real parser on the FULL forwarded text) are denied
//       while the topics of its 512-byte truncation are allowed was authorised on the truncation;
//       a forwarded text whose own topics are denied and which is forwarded only when an earlier
//       text with the same decision-cache key was allowed was authorised on that other text;
//   O3  a query the proxy answered with its own denial produces no upstream traffic.

// ---------- upstream: real server over loopback S3 ----------

const c37NS = "ns"

var c37Topics = []string{"ok", "secret", "okx"}

type c37Upstream struct {
	s3     *c37S3
	addr   string
	cancel context.CancelFunc
}

func c37StartUpstream() (*c37Upstream, error) {
	s3 := c37NewS3()
	for i, topic := range c37Topics {
		recs := []c37Rec{{Offset: 0, TS: 1700000000000 + int64(i), Key: "k", Value: `{"t":"` + topic + `"}`}}
		s3.Put(c37SegmentKey(c37NS, topic, 0, 0, "kfs"), c37Segment(recs))
		s3.Put(c37SegmentKey(c37NS, topic, 0, 0, "index"), []byte("IDX\x00\x00\x01\x00\x00\x00\x00\x00\x00\x00\x00\x00\x00"))
	}
	var metaTopics []config.TopicConfig
	for _, topic := range c37Topics {
		metaTopics = append(metaTopics, config.TopicConfig{Name: topic, Partitions: []int32{0}})
	}
	for attempt := 0; attempt < 20; attempt++ {
		ln, err := net.Listen("tcp", "127.0.0.1:0")
		if err != nil {
			return nil, err
		}
		addr := ln.Addr().String()
		ln.Close()
		cfg := config.Config{
			S3:       config.S3Config{Bucket: "c37", Namespace: c37NS, Endpoint: s3.URL(), Region: "us-east-1", PathStyle: true},
			Server:   config.ServerConfig{Listen: addr, ServerVersion: "15.0", ClientEncoding: "UTF8"},
			Metadata: config.MetaConfig{Discovery: "static", Topics: metaTopics},
			Query:    config.QueryConfig{DefaultLimit: 1000, MaxUnbounded: 10000},
		}
		srv := server.New(cfg, log.New(io.Discard, "", 0))
		ctx, cancel := context.WithCancel(context.Background())
		errCh := make(chan error, 1)
		go func() { errCh <- srv.Run(ctx) }()
		up := false
		for i := 0; i < 300 && !up; i++ {
			select {
			case <-errCh:
				i = 1000
				continue
			default:
			}
			if c, err := net.DialTimeout("tcp", addr, time.Second); err == nil {
				c.Close()
				up = true
			} else {
				time.Sleep(5 * time.Millisecond)
			}
		}
		if up {
			return &c37Upstream{s3: s3, addr: addr, cancel: cancel}, nil
		}
		cancel()
	}
	s3.Close()
	return nil, fmt.Errorf("could not start the upstream server")
}

func (u *c37Upstream) Close() {
	u.cancel()
	u.s3.Close()
}

// c37Tee records every byte the proxy writes to the upstream connection.
type c37Tee struct {
	net.Conn
	mu  *sync.Mutex
	buf *[]byte
}

func (t *c37Tee) Write(p []byte) (int, error) {
	t.mu.Lock()
	*t.buf = append(*t.buf, p...)
	t.mu.Unlock()
	return t.Conn.Write(p)
}

// c37Messages decodes frontend messages (after the startup packet) from raw bytes and returns the
// Query texts and the other message types.
func c37Messages(raw []byte) (queries []string, others []string) {
	for len(raw) >= 5 {
		typ := raw[0]
		n := int(binary.BigEndian.Uint32(raw[1:5]))
		if n < 4 || 1+n > len(raw) {
			others = append(others, "truncated")
			return
		}
		body := raw[5 : 1+n]
		if typ == 'Q' {
			queries = append(queries, strings.TrimSuffix(string(body), "\x00"))
		} else {
			others = append(others, string(typ))
		}
		raw = raw[1+n:]
	}
	return
}

// ---------- one session through the real proxy ----------

type c37Case struct {
	Allow   []string `json:"allow"`
	Deny    []string `json:"deny"`
	Cache   bool     `json:"cache"`
	Queries []string `json:"queries"`
	Label   string   `json:"label"`
}

type c37Obs struct {
	Forwarded []string // Query texts that reached the upstream while this query was handled
	Other     []string // non-Query messages that reached the upstream
	Read      []string // topics whose segment objects were downloaded in full (sorted, unique)
	ClientErr string   // message of the ErrorResponse the client got ("" = none)
	Rows      int
}

func c37Run(up *c37Upstream, c c37Case) ([]c37Obs, error) {
	cfg := config.ProxyConfig{Listen: ":0", Upstreams: []string{up.addr}, ACL: config.ProxyACLConfig{Allow: c.Allow, Deny: c.Deny}}
	if c.Cache {
		cfg.CacheTTLSeconds = 3600
		cfg.CacheMaxEntries = 16
	}
	srv := New(cfg, log.New(io.Discard, "", 0))
	var mu sync.Mutex
	var sent []byte
	srv.dialer = func(ctx context.Context, addr string) (net.Conn, error) {
		conn, err := net.DialTimeout("tcp", addr, 5*time.Second)
		if err != nil {
			return nil, err
		}
		return &c37Tee{Conn: conn, mu: &mu, buf: &sent}, nil
	}
	sentLen := func() int { mu.Lock(); defer mu.Unlock(); return len(sent) }
	sentFrom := func(i int) []byte { mu.Lock(); defer mu.Unlock(); return append([]byte(nil), sent[i:]...) }

	serverConn, clientConn := net.Pipe()
	defer clientConn.Close()
	_ = clientConn.SetDeadline(time.Now().Add(60 * time.Second))
	done := make(chan error, 1)
	go func() { done <- srv.handleConn(context.Background(), serverConn) }()

	startup := &pgproto3.StartupMessage{ProtocolVersion: pgproto3.ProtocolVersionNumber, Parameters: map[string]string{"user": "c37"}}
	buf, err := startup.Encode(nil)
	if err != nil {
		return nil, err
	}
	if _, err := clientConn.Write(buf); err != nil {
		return nil, fmt.Errorf("startup: %w", err)
	}
	frontend := pgproto3.NewFrontend(pgproto3.NewChunkReader(clientConn), clientConn)
	if _, _, err := c37UntilReady(frontend); err != nil {
		return nil, fmt.Errorf("startup relay: %w", err)
	}

	var out []c37Obs
	for _, q := range c.Queries {
		pos := sentLen()
		s3pos := up.s3.LogLen()
		sendErr := make(chan error, 1)
		go func() { sendErr <- frontend.Send(&pgproto3.Query{String: q}) }()
		rows, emsg, err := c37UntilReady(frontend)
		if err != nil {
			return nil, fmt.Errorf("query %q: %w", q, err)
		}
		if err := <-sendErr; err != nil {
			return nil, fmt.Errorf("send %q: %w", q, err)
		}
		var o c37Obs
		o.Rows, o.ClientErr = rows, emsg
		o.Forwarded, o.Other = c37Messages(sentFrom(pos))
		seen := map[string]bool{}
		for _, op := range up.s3.LogFrom(s3pos) {
			if op.Method != "GET" || op.Range != "" {
				continue
			}
			if topic, ok := c37TopicOfSegmentKey(c37NS, op.Key); ok && !seen[topic] {
				seen[topic] = true
				o.Read = append(o.Read, topic)
			}
		}
		sort.Strings(o.Read)
		out = append(out, o)
	}
	go func() { _ = frontend.Send(&pgproto3.Terminate{}) }()
	select {
	case <-done:
	case <-time.After(30 * time.Second):
		return nil, fmt.Errorf("proxy handler did not end after Terminate")
	}
	return out, nil
}

func c37UntilReady(f *pgproto3.Frontend) (rows int, errMsg string, err error) {
	for {
		msg, rerr := f.Receive()
		if rerr != nil {
			return rows, errMsg, rerr
		}
		switch m := msg.(type) {
		case *pgproto3.ReadyForQuery:
			return rows, errMsg, nil
		case *pgproto3.ErrorResponse:
			errMsg = m.Message
		case *pgproto3.DataRow:
			rows++
		}
	}
}

// ---------- reference semantics ----------

// Reference glob, written from the definition of the pattern language the proxy hands its ACL
// patterns to (Go path.Match):
//
//	'*'                  any run of characters other than '/'
//	'?'                  one character other than '/'
//	'[' ['^'] range+ ']' one character in (not in, with '^') the non-empty list of ranges;
//	                     range = c | lo '-' hi, where c may be written '\\' c and must be so written
//	                     when it is '-', ']' or '\\'
//	'\\' c               the character c
//	c                    the character c
//
// c37ParseGlob returns ok=false for a malformed pattern (unterminated or empty class, trailing
// backslash, unescaped '-' or ']' as a range bound). What a malformed pattern means is not
// documented; the harness uses none.
type c37Term struct {
	kind   byte // '*', '?', 'c' literal, '[' class
	ch     rune
	neg    bool
	ranges [][2]rune
}

func c37ParseGlob(pattern string) ([]c37Term, bool) {
	r := []rune(pattern)
	var out []c37Term
	bound := func(i int) (rune, int, bool) { // one range bound starting at r[i]
		if i >= len(r) {
			return 0, i, false
		}
		switch r[i] {
		case '\\':
			if i+1 >= len(r) {
				return 0, i, false
			}
			return r[i+1], i + 2, true
		case '-', ']':
			return 0, i, false
		}
		return r[i], i + 1, true
	}
	for i := 0; i < len(r); {
		switch r[i] {
		case '*':
			out = append(out, c37Term{kind: '*'})
			i++
		case '?':
			out = append(out, c37Term{kind: '?'})
			i++
		case '\\':
			if i+1 >= len(r) {
				return nil, false
			}
			out = append(out, c37Term{kind: 'c', ch: r[i+1]})
			i += 2
		case '[':
			t := c37Term{kind: '['}
			i++
			if i < len(r) && r[i] == '^' {
				t.neg = true
				i++
			}
			for {
				if i >= len(r) {
					return nil, false
				}
				if r[i] == ']' && len(t.ranges) > 0 {
					i++
					break
				}
				lo, j, ok := bound(i)
				if !ok {
					return nil, false
				}
				hi := lo
				if j < len(r) && r[j] == '-' {
					if hi, j, ok = bound(j + 1); !ok {
						return nil, false
					}
				}
				t.ranges = append(t.ranges, [2]rune{lo, hi})
				i = j
			}
			out = append(out, t)
		default:
			out = append(out, c37Term{kind: 'c', ch: r[i]})
			i++
		}
	}
	return out, true
}

func c37MatchTerms(terms []c37Term, s []rune) bool {
	if len(terms) == 0 {
		return len(s) == 0
	}
	t := terms[0]
	if t.kind == '*' {
		for i := 0; i <= len(s); i++ {
			if i > 0 && s[i-1] == '/' {
				break
			}
			if c37MatchTerms(terms[1:], s[i:]) {
				return true
			}
		}
		return false
	}
	if len(s) == 0 {
		return false
	}
	switch t.kind {
	case '?':
		if s[0] == '/' {
			return false
		}
	case 'c':
		if s[0] != t.ch {
			return false
		}
	case '[':
		in := false
		for _, rg := range t.ranges {
			if rg[0] <= s[0] && s[0] <= rg[1] {
				in = true
			}
		}
		if in == t.neg {
			return false
		}
	}
	return c37MatchTerms(terms[1:], s[1:])
}

func c37Glob(pattern, s string) bool {
	terms, ok := c37ParseGlob(pattern)
	if !ok {
		return false
	}
	return c37MatchTerms(terms, []rune(s))
}

// c37PatternKind names the glob features a pattern uses beyond exact names, '*' and a trailing '*'.
func c37PatternKind(p string) string {
	switch {
	case strings.Contains(p, "["):
		return "class"
	case strings.Contains(p, "\\"):
		return "escape"
	case strings.Contains(p, "?"):
		return "question-mark"
	}
	return ""
}

// c37DenialKind: why the reference ACL does not allow topic, as a key suffix, when the deciding
// pattern uses a character class, an escape or '?' ("" otherwise, so that the keys of cases over
// plain patterns stay what they were).
func c37DenialKind(allow, deny []string, topic string) string {
	for _, p := range deny {
		p = strings.TrimSpace(p)
		if p != "" && c37Match([]string{p}, topic) {
			if k := c37PatternKind(p); k != "" {
				return ":deny-pattern-" + k
			}
			return ""
		}
	}
	for _, p := range allow {
		if k := c37PatternKind(strings.TrimSpace(p)); k != "" {
			return ":outside-allow-pattern-" + k
		}
	}
	return ""
}

func c37Match(patterns []string, topic string) bool {
	for _, p := range patterns {
		p = strings.TrimSpace(p)
		if p == "" {
			continue
		}
		if p == "*" || p == topic || c37Glob(p, topic) {
			return true
		}
	}
	return false
}

// c37RefAllows: deny wins; an empty allow list allows every topic not denied.
func c37RefAllows(allow, deny []string, topic string) bool {
	if c37Match(deny, topic) {
		return false
	}
	return len(allow) == 0 || c37Match(allow, topic)
}

// c37TextTopics returns the topics named by a text according to the real parser run on exactly
// that text (ok=false: the text does not parse; set=true: a SET/RESET command, which reads nothing).
func c37TextTopics(text string) (topics []string, ok bool, set bool) {
	trimmed := strings.TrimSpace(strings.TrimSuffix(strings.TrimSpace(text), ";"))
	lower := strings.ToLower(trimmed)
	if trimmed == "" || strings.HasPrefix(lower, "set ") || strings.HasPrefix(lower, "reset ") {
		return nil, true, true
	}
	var parsed kafsql.Query
	var err error
	func() {
		defer func() {
			if r := recover(); r != nil {
				err = fmt.Errorf("parser panic: %v", r)
			}
		}()
		parsed, err = kafsql.Parse(trimmed)
	}()
	if err != nil {
		return nil, false, false
	}
	var walk func(q kafsql.Query)
	walk = func(q kafsql.Query) {
		switch q.Type {
		case kafsql.QuerySelect:
			topics = append(topics, q.Topic)
			if q.JoinTopic != "" {
				topics = append(topics, q.JoinTopic)
			}
		case kafsql.QueryShowPartitions, kafsql.QueryDescribe:
			topics = append(topics, q.Topic)
		case kafsql.QueryExplain:
			if q.Explain != nil {
				walk(*q.Explain)
			}
		}
	}
	walk(parsed)
	return topics, true, false
}

// c37MetadataQueryDenied: if text parses (with the upstream's parser) as EXPLAIN / SHOW PARTITIONS /
// DESCRIBE, the statement kind and the referenced topics the reference ACL does not allow.
func c37MetadataQueryDenied(allow, deny []string, text string) (kind string, denied []string) {
	trimmed := strings.TrimSpace(strings.TrimSuffix(strings.TrimSpace(text), ";"))
	var parsed kafsql.Query
	var err error
	func() {
		defer func() {
			if r := recover(); r != nil {
				err = fmt.Errorf("parser panic: %v", r)
			}
		}()
		parsed, err = kafsql.Parse(trimmed)
	}()
	if err != nil {
		return "", nil
	}
	switch parsed.Type {
	case kafsql.QueryExplain:
		kind = "explain"
	case kafsql.QueryShowPartitions:
		kind = "show-partitions"
	case kafsql.QueryDescribe:
		kind = "describe"
	default:
		return "", nil
	}
	topics, ok, _ := c37TextTopics(text)
	if !ok {
		return "", nil
	}
	for _, t := range topics {
		if !c37RefAllows(allow, deny, t) {
			denied = append(denied, t)
		}
	}
	if len(denied) == 0 {
		return "", nil
	}
	return kind, denied
}

// c37RefDecision: would a proxy that authorises exactly `text` let it through?
func c37RefDecision(allow, deny []string, text string) bool {
	topics, ok, set := c37TextTopics(text)
	if set {
		return true
	}
	if !ok {
		return false
	}
	for _, t := range topics {
		if !c37RefAllows(allow, deny, t) {
			return false
		}
	}
	return true
}

func c37Truncation(text string) (string, bool) {
	trimmed := strings.TrimSpace(text)
	if len(trimmed) > 512 {
		return trimmed[:512] + "...", true
	}
	return trimmed, false
}

var c37ProxyDenials = []string{"access denied to topic", "proxy cannot authorize query", "show topics is not allowed by proxy ACL"}

func c37IsProxyDenial(msg string) bool {
	for _, d := range c37ProxyDenials {
		if strings.HasPrefix(msg, d) {
			return true
		}
	}
	return false
}

// ---------- generator ----------

type c37Template struct {
	Name  string
	Parts []string // A and B are topic placeholders (whole part)
	Two   bool     // uses B
}

var c37Templates = []c37Template{
	{Name: "select", Parts: []string{"select *", "from", "A", "tail 1"}},
	{Name: "join", Parts: []string{"select *", "from", "A", "join", "B", "within 10m last 1h"}, Two: true},
	{Name: "left-join", Parts: []string{"select *", "from", "A", "left join", "B", "within 10m last 1h"}, Two: true},
	{Name: "join-on", Parts: []string{"select *", "from", "A", "a join", "B", "b on a._key = b._key within 10m last 1h"}, Two: true},
	{Name: "explain-select", Parts: []string{"explain select *", "from", "A", "last 1h"}},
	{Name: "explain-join", Parts: []string{"explain select *", "from", "A", "join", "B", "within 10m last 1h"}, Two: true},
	{Name: "show-partitions", Parts: []string{"show partitions", "from", "A"}},
	{Name: "describe", Parts: []string{"describe", "A"}},
	{Name: "show-topics", Parts: []string{"show topics"}},
	{Name: "set-prefix", Parts: []string{"set x = 1;", "select *", "from", "A", "tail 1"}},
	{Name: "trailing-semicolon", Parts: []string{"select *", "from", "A", "tail 1", ";"}},
	{Name: "two-statements", Parts: []string{"select *", "from", "A", "; select *", "from", "B", "tail 1"}, Two: true},
	{Name: "upper-case", Parts: []string{"SELECT *", "FROM", "A", "JOIN", "B", "WITHIN 10m LAST 1h"}, Two: true},
	// a free-standing ';' in the middle of one statement: whatever the proxy authorises must be what the upstream executes
	{Name: "semicolon-then-join", Parts: []string{"select *", "from", "A", "a ; join", "B", "b on a._key = b._key within 10m last 1h"}, Two: true},
	{Name: "semicolon-then-left-join", Parts: []string{"select *", "from", "A", "a ; left join", "B", "b on a._key = b._key within 10m last 1h"}, Two: true},
	{Name: "explain-semicolon-then-join", Parts: []string{"explain select *", "from", "A", "a ; join", "B", "b on a._key = b._key within 10m last 1h"}, Two: true},
	{Name: "semicolon-then-from", Parts: []string{"select * ;", "select *", "from", "A", "; from", "B", "tail 1"}, Two: true},
}

var c37PadTargets = []int{500, 511, 512, 513, 600}

// padding characters (thorough adds newline)
var c37PadChars = []string{" "}

type c37ACL struct{ Allow, Deny []string }

// c37ACLs: the product of plain allow and deny lists (exact names, '*', trailing '*'), then the
// other features of the pattern language - character class with a set / a range / a negation,
// backslash escape, '?' - each once in a deny list (the pattern matches exactly the topic secret,
// which the allow list names) and once in an allow list (the pattern matches exactly the topic
// ok; okx is matched by nothing); a class in the deny list under an empty allow list; a class in
// the allow list with nothing denied; one mixed ACL. None of the class / escape patterns
// contains '*' or '?': they are globs through the class or the escape alone.
var c37ACLs = func() []c37ACL {
	allows := [][]string{nil, {"ok"}, {"ok*"}, {"*"}, {"ok", "secret"}}
	denies := [][]string{nil, {"secret"}, {"sec*"}, {"*"}}
	var out []c37ACL
	for _, a := range allows {
		for _, d := range denies {
			out = append(out, c37ACL{Allow: a, Deny: d})
		}
	}
	out = append(out,
		c37ACL{Allow: nil, Deny: []string{"secre[st]"}},
		c37ACL{Allow: []string{"ok", "secre[t]"}},
		c37ACL{Allow: []string{"o[jk]", "secret"}, Deny: []string{"secr[e]t"}},
		c37ACL{Allow: []string{"[a-o]k", "secret"}, Deny: []string{"s[a-f]cret"}},
		c37ACL{Allow: []string{"[^s]k", "secret"}, Deny: []string{"[^o]ecret"}},
		c37ACL{Allow: []string{`o\k`, "secret"}, Deny: []string{`secre\t`}},
		c37ACL{Allow: []string{"o?", "secret"}, Deny: []string{"s?cret"}},
		c37ACL{Allow: []string{"ok?", "[n-p]k", "s*"}, Deny: []string{"o[k]x", `\s\e\c\r\e\t`}},
	)
	return out
}()

// c37CheckACLs: every pattern of the ACL list must be well formed, and the class / escape / '?'
// patterns must decide the topics the way the comment above says (a harness self-check on the
// reference matcher, independent of the code under test).
func c37CheckACLs() error {
	for _, acl := range c37ACLs {
		for _, p := range append(append([]string{}, acl.Allow...), acl.Deny...) {
			if _, ok := c37ParseGlob(p); !ok {
				return fmt.Errorf("malformed pattern %q in the ACL list", p)
			}
		}
	}
	want := map[string]string{ // pattern -> topics of c37Topics it matches
		"secre[st]": "secret", "secr[e]t": "secret", "s*": "secret", "s[a-f]cret": "secret", "[^o]ecret": "secret", `secre\t`: "secret", "s?cret": "secret",
		"o[jk]": "ok", "[a-o]k": "ok", "[^s]k": "ok", `o\k`: "ok", "o?": "ok", "secre[t]": "secret",
		"ok?": "okx", "[n-p]k": "ok", "o[k]x": "okx", `\s\e\c\r\e\t`: "secret",
		"ok": "ok", "ok*": "ok,okx", "*": "ok,secret,okx", "sec*": "secret",
	}
	for p, w := range want {
		var got []string
		for _, t := range c37Topics {
			if c37Glob(p, t) {
				got = append(got, t)
			}
		}
		if strings.Join(got, ",") != w {
			return fmt.Errorf("reference matcher: pattern %q matches %q, expected %q", p, got, w)
		}
	}
	return nil
}

func c37Fill(parts []string, a, b string) []string {
	out := make([]string, len(parts))
	for i, p := range parts {
		switch p {
		case "A":
			if strings.ToUpper(parts[0]) == parts[0] && parts[0] != "describe" {
				out[i] = strings.ToUpper(a)
			} else {
				out[i] = a
			}
		case "B":
			if strings.ToUpper(parts[0]) == parts[0] {
				out[i] = strings.ToUpper(b)
			} else {
				out[i] = b
			}
		default:
			out[i] = p
		}
	}
	return out
}

// c37Pad renders parts with single spaces, padding with spaces after part `slot` so that the next
// part starts at byte offset target. ok=false when the prefix is already longer.
func c37Pad(parts []string, slot, target int, ch string) (string, bool) {
	prefix := strings.Join(parts[:slot+1], " ")
	if len(prefix)+1 > target {
		return "", false
	}
	return prefix + strings.Repeat(ch, target-len(prefix)) + strings.Join(parts[slot+1:], " "), true
}

// c37PadColumns replaces the select list by a list of columns long enough for FROM to start at target.
func c37PadColumns(parts []string, target int) (string, bool) {
	if !strings.HasSuffix(strings.ToLower(parts[0]), "select *") {
		return "", false
	}
	head := parts[0][:len(parts[0])-1]
	cols := "_key"
	for len(head)+len(cols)+len(", _key")+1 <= target {
		cols += ", _key"
	}
	prefix := head + cols
	if len(prefix)+1 > target {
		return "", false
	}
	return prefix + strings.Repeat(" ", target-len(prefix)) + strings.Join(parts[1:], " "), true
}

type c37Text struct {
	Text  string
	Label string
}

func c37Texts() []c37Text {
	var out []c37Text
	var padded []c37Text
	for _, tpl := range c37Templates {
		bs := []string{""}
		if tpl.Two {
			bs = c37Topics
		}
		as := c37Topics
		if tpl.Name == "show-topics" {
			as = []string{""}
		}
		for _, a := range as {
			for _, b := range bs {
				parts := c37Fill(tpl.Parts, a, b)
				lab := fmt.Sprintf("%s(%s,%s)", tpl.Name, a, b)
				out = append(out, c37Text{Text: strings.Join(parts, " "), Label: lab})
				for slot := 0; slot < len(parts)-1; slot++ {
					for _, target := range c37PadTargets {
						for _, ch := range c37PadChars {
							if q, ok := c37Pad(parts, slot, target, ch); ok {
								padded = append(padded, c37Text{Text: q, Label: fmt.Sprintf("%s/pad%q-after-%q-next-at-%d", lab, ch, parts[slot], target)})
							}
						}
					}
				}
				for _, target := range c37PadTargets {
					if q, ok := c37PadColumns(parts, target); ok {
						padded = append(padded, c37Text{Text: q, Label: fmt.Sprintf("%s/column-list-from-at-%d", lab, target)})
					}
				}
			}
		}
	}
	return append(out, padded...) // unpadded (simplest) first
}

// c37Sessions: two-query sessions that exercise the decision cache.
func c37Sessions() [][]c37Text {
	prefix, _ := c37Pad([]string{"select *", "from", "ok", ""}, 2, 520, " ")
	benign := c37Text{Text: prefix + "tail 1", Label: "benign-long(ok)"}
	evilJoin := c37Text{Text: prefix + "join secret within 10m last 1h", Label: "same-512-prefix-then-join(secret)"}
	short := c37Text{Text: "select * from ok tail 1", Label: "select(ok)"}
	shortCase := c37Text{Text: "SELECT  *  FROM  ok  TAIL 1", Label: "select(ok)-other-case-and-spacing"}
	secret := c37Text{Text: "select * from secret tail 1", Label: "select(secret)"}
	// texts whose first 600 bytes survive whitespace normalisation (a long select list) and are shared
	colPrefix, _ := c37PadColumns([]string{"select *", ""}, 600)
	colPrefix = strings.TrimRight(colPrefix, " ")
	colBenign := c37Text{Text: colPrefix + " from ok tail 1", Label: "long-column-list(ok)"}
	colSecret := c37Text{Text: colPrefix + " from secret tail 1", Label: "same-long-column-list(secret)"}
	colJoin := c37Text{Text: colPrefix + " from ok join secret within 10m last 1h", Label: "same-long-column-list-join(ok,secret)"}
	colExplain := c37Text{Text: "explain " + colPrefix + " from ok last 1h", Label: "explain-long-column-list(ok)"}
	colExplainSecret := c37Text{Text: "explain " + colPrefix + " from secret last 1h", Label: "explain-same-long-column-list(secret)"}
	// the Kelvin sign (U+212A) lower-cases to ASCII 'k' under full Unicode case folding but not under
	// ASCII folding: two different topic names whose texts may share a normalised key
	kelvin := c37Text{Text: "select * from o\u212a tail 1", Label: "select(o<KELVIN SIGN>)"}
	upperTopic := c37Text{Text: "select * from OK tail 1", Label: "select(OK)"} // topic names are case-sensitive: OK is not ok
	return [][]c37Text{
		{short, upperTopic},
		{short, kelvin},
		{kelvin, short},
		{colBenign, colSecret},
		{colBenign, colJoin},
		{colSecret, colBenign},
		{colExplain, colExplainSecret},
		{benign, evilJoin},
		{evilJoin, benign},
		{short, shortCase},
		{short, secret},
		{secret, short},
		{secret, secret},
	}
}

// ---------- oracle ----------

type c37Viol struct {
	Key    string
	Detail string
	Case   c37Case
}

func c37Judge(up *c37Upstream, c c37Case, obs []c37Obs) (sig string, nontrivial bool, viols []c37Viol, err error) {
	var sigs []string
	for i, o := range obs {
		q := c.Queries[i]
		fwd := len(o.Forwarded) > 0
		denied := c37IsProxyDenial(o.ClientErr)
		one := c37Case{Allow: c.Allow, Deny: c.Deny, Cache: c.Cache, Queries: c.Queries[:i+1], Label: c.Label}
		state := "denied"
		switch {
		case fwd && denied:
			state = "denied+traffic"
			viols = append(viols, c37Viol{Key: "denied-query-reached-upstream", Case: one,
				Detail: fmt.Sprintf("the proxy answered %q but sent %q upstream", o.ClientErr, o.Forwarded)})
		case len(o.Other) > 0 || len(o.Forwarded) > 1:
			state = "unexpected-traffic"
			viols = append(viols, c37Viol{Key: "unexpected-upstream-traffic", Case: one,
				Detail: fmt.Sprintf("one client Query produced upstream messages %q / %q", o.Forwarded, o.Other)})
		case fwd:
			state = "forwarded"
		case !denied:
			return "", false, nil, fmt.Errorf("query %q neither forwarded nor denied by the proxy (client error %q)", q, o.ClientErr)
		}
		if fwd {
			f := o.Forwarded[0]
			var bad []string
			for _, topic := range o.Read {
				if !c37RefAllows(c.Allow, c.Deny, topic) {
					bad = append(bad, topic)
				}
			}
			trunc, isTrunc := c37Truncation(f)
			fullOK := c37RefDecision(c.Allow, c.Deny, f)
			truncOK := isTrunc && c37RefDecision(c.Allow, c.Deny, trunc)
			cachedTwin := ""
			if c.Cache {
				// any earlier, different, forwarded text of the session may have left the decision that is
				// reused here; whether the cache is what let this text through is decided below by running
				// it alone without cache (no model of the cache key is involved)
				for j := 0; j < i; j++ {
					if c.Queries[j] != q && len(obs[j].Forwarded) > 0 {
						cachedTwin = c.Queries[j]
					}
				}
			}
			mech := ""
			if len(bad) > 0 || !fullOK {
				switch {
				case cachedTwin != "":
					// is the cache needed? run the query alone without cache
					alone, rerr := c37Run(up, c37Case{Allow: c.Allow, Deny: c.Deny, Queries: []string{q}})
					if rerr != nil {
						return "", false, nil, rerr
					}
					if len(alone[0].Forwarded) == 0 {
						mech = "cached"
					} else if truncOK {
						mech = "truncated"
					}
				case truncOK:
					mech = "truncated"
				}
				if mech == "truncated" {
					// control: the same text with its whitespace runs and repeated select columns collapsed (same
					// topics, no truncation).
					// If that is forwarded as well, the 512-byte cut is not what let the text through.
					short := strings.Join(strings.Fields(f), " ")
					for strings.Contains(short, "_key, _key, ") {
						short = strings.ReplaceAll(short, "_key, _key, ", "_key, ")
					}
					if len(short) <= 512 && short != strings.TrimSpace(f) {
						ctl, rerr := c37Run(up, c37Case{Allow: c.Allow, Deny: c.Deny, Queries: []string{short}})
						if rerr != nil {
							return "", false, nil, rerr
						}
						if len(ctl[0].Forwarded) > 0 {
							mech = ""
						}
					}
				}
			}
			switch {
			case len(bad) > 0:
				key := "forwarded-query-reads-denied-topic" + c37DenialKind(c.Allow, c.Deny, bad[0])
				why := "the forwarded text names them and the proxy let it through"
				switch mech {
				case "truncated":
					key = "truncated-authorization-reads-denied-topic"
					why = fmt.Sprintf("the text is %d bytes; its first 512 bytes + \"...\" name only allowed topics, the full text does not", len(strings.TrimSpace(f)))
				case "cached":
					key = "cached-decision-reused-for-different-text"
					why = fmt.Sprintf("alone the text is denied; after %q (same decision-cache key) it is forwarded", c37Short(cachedTwin))
				}
				viols = append(viols, c37Viol{Key: key, Case: one,
					Detail: fmt.Sprintf("ACL allow=%q deny=%q: forwarded %q; the upstream downloaded segments of %q, of which %q are not allowed (%s) [%s]", c.Allow, c.Deny, c37Short(f), o.Read, bad, why, c.Label)})
				state += "+read-denied:" + strings.Join(bad, ",")
			case !fullOK && mech == "truncated":
				viols = append(viols, c37Viol{Key: "truncated-authorization-forwards-denied-text", Case: one,
					Detail: fmt.Sprintf("ACL allow=%q deny=%q: forwarded %q (%d bytes): the topics of the full text are not all allowed, those of its first 512 bytes + \"...\" are; no segment of a denied topic was downloaded (the upstream answered with %d rows / error %q) [%s]", c.Allow, c.Deny, c37Short(f), len(strings.TrimSpace(f)), o.Rows, o.ClientErr, c.Label)})
				state += "+authorized-on-truncation"
			case !fullOK && mech == "cached":
				viols = append(viols, c37Viol{Key: "cached-decision-reused-for-different-text", Case: one,
					Detail: fmt.Sprintf("ACL allow=%q deny=%q: %q is denied alone but forwarded after %q (same decision-cache key) [%s]", c.Allow, c.Deny, c37Short(f), c37Short(cachedTwin), c.Label)})
				state += "+authorized-on-cached-twin"
			case !fullOK:
				// EXPLAIN / SHOW PARTITIONS / DESCRIBE answer with facts about the named topics (segment counts
				// and sizes, partitions): the upstream "reads" them without downloading a segment, so for these
				// statement types the topics are taken from the upstream's own parser on the forwarded text
				if kind, denied := c37MetadataQueryDenied(c.Allow, c.Deny, f); kind != "" {
					viols = append(viols, c37Viol{Key: "metadata-query-forwarded-for-denied-topic:" + kind + c37DenialKind(c.Allow, c.Deny, denied[0]), Case: one,
						Detail: fmt.Sprintf("ACL allow=%q deny=%q: forwarded %q, a %s whose topics %q are not allowed (the upstream answered with %d rows / error %q) [%s]", c.Allow, c.Deny, c37Short(f), kind, denied, o.Rows, o.ClientErr, c.Label)})
					state += "+metadata-of-denied-topic"
				}
			}
			if f != q {
				state += "+rewritten"
			}
			state += fmt.Sprintf("/read=%s", strings.Join(o.Read, ","))
			if len(o.Read) > 0 {
				nontrivial = true
			}
		} else {
			nontrivial = true
		}
		sigs = append(sigs, state)
	}
	return strings.Join(sigs, ";"), nontrivial, viols, nil
}

func c37Short(s string) string {
	// collapse long runs of spaces / repeated columns for readability
	for strings.Contains(s, "     ") {
		i := strings.Index(s, "     ")
		j := i
		for j < len(s) && s[j] == ' ' {
			j++
		}
		s = fmt.Sprintf("%s<%d spaces>%s", s[:i], j-i, s[j:])
	}
	if n := strings.Count(s, "_key, "); n > 3 {
		i := strings.Index(s, "_key, ")
		j := strings.LastIndex(s, "_key, ") + len("_key, ")
		s = fmt.Sprintf("%s<_key, x%d>%s", s[:i], n, s[j:])
	}
	return s
}

// ---------- entry point ----------

func TestVerifC37(t *testing.T) {
	rep := vh.New(t, "C37")
	defer rep.Finish()
	rep.Rule = "case = (ACL, decision cache on/off, session of 1-2 query texts) run client -> real proxy handleConn -> recording tee -> real upstream server -> loopback S3. ACLs = 5 plain allow lists x 4 plain deny lists (exact names, '*', trailing '*') + 8 ACLs whose allow and deny lists use the other features of the pattern language (character class with a set / range / negation, backslash escape, '?'), each once per list. Texts = 17 templates x topics {ok,secret,okx} x (no padding | space padding after each part so that the next part starts at byte 500/511/512/513/600 | a long column list before FROM). Outcome signature = per query forwarded/denied + topics whose segments the upstream downloaded + oracle flags, with the template/padding label. Non-trivial = the proxy denied the query, or forwarded it and the upstream downloaded >= 1 segment."
	rep.Assumptions = []string{
		"topics read = topics whose segment objects (.kfs) the upstream fetched in full (decoding); the footer probes and listing that discovery performs on every topic for every query are not reads",
		"EXPLAIN / SHOW PARTITIONS / DESCRIBE download no segment but answer with facts about the named topics: for these statement types the topics read are the ones the upstream's own parser finds in the forwarded text",
		"reference ACL: deny wins; empty allow list allows every topic that is not denied; a pattern is an exact name, '*', or a glob in the language the proxy hands its patterns to (path.Match: '*', '?', [set], [lo-hi], [^...], backslash escape), matched by a reference matcher written from that definition; malformed patterns (meaning undocumented) are not used",
		"over-denial (the proxy refusing a text it could have forwarded) is not a violation of this property",
	}
	t.Setenv("AWS_ACCESS_KEY_ID", "verif")
	t.Setenv("AWS_SECRET_ACCESS_KEY", "verif")
	t.Setenv("AWS_REGION", "us-east-1")
	t.Setenv("AWS_EC2_METADATA_DISABLED", "true")

	var replay c37Case
	if ok, err := vh.LoadReplay(&replay); ok {
		if err != nil {
			t.Fatalf("HARNESS-ERROR replay: %v", err)
		}
		up, err := c37StartUpstream()
		if err != nil {
			t.Fatalf("HARNESS-ERROR %v", err)
		}
		defer up.Close()
		obs, err := c37Run(up, replay)
		if err != nil {
			t.Fatalf("HARNESS-ERROR %v", err)
		}
		sig, _, viols, err := c37Judge(up, replay, obs)
		if err != nil {
			t.Fatalf("HARNESS-ERROR %v", err)
		}
		rep.Eval(1)
		rep.Outcome(sig, true)
		rep.Outcome("replay", true)
		for _, v := range viols {
			rep.Violation(v.Key, v.Detail, v.Case)
		}
		return
	}

	if err := c37CheckACLs(); err != nil {
		t.Fatalf("HARNESS-ERROR %v", err)
	}
	// ---- the case list (simplest first) ----
	if vh.Thorough() {
		c37PadTargets = []int{255, 500, 509, 510, 511, 512, 513, 514, 515, 600, 1024}
		c37PadChars = []string{" ", "\n"}
	}
	rep.SetInfo("pad_chars", c37PadChars)
	texts := c37Texts()
	sessions := c37Sessions()
	var cases []c37Case
	for _, acl := range c37ACLs {
		for _, tx := range texts {
			cases = append(cases, c37Case{Allow: acl.Allow, Deny: acl.Deny, Queries: []string{tx.Text}, Label: tx.Label})
		}
	}
	for _, cache := range []bool{false, true} {
		for _, acl := range c37ACLs {
			for _, s := range sessions {
				cases = append(cases, c37Case{Allow: acl.Allow, Deny: acl.Deny, Cache: cache, Queries: []string{s[0].Text, s[1].Text}, Label: "session[" + s[0].Label + " ; " + s[1].Label + "]"})
			}
		}
	}
	rep.SetInfo("acls", len(c37ACLs))
	rep.SetInfo("acl_list", c37ACLs)
	rep.SetInfo("texts", len(texts))
	rep.SetInfo("two_query_sessions", len(sessions))
	rep.SetInfo("pad_targets", c37PadTargets)
	rep.SetInfo("topics", c37Topics)
	rep.SetInfo("cases", len(cases))

	workers := runtime.GOMAXPROCS(0)
	if workers > 16 {
		workers = 16
	}
	shardI, shardN := vh.Shard()
	deadline := vh.Deadline()
	type result struct {
		idx   int
		viols []c37Viol
	}
	var mu sync.Mutex
	best := map[string]result{}
	counts := map[string]int64{}
	var firstErr error
	var cut bool
	var wg sync.WaitGroup
	next := make(chan int, len(cases))
	for i := range cases {
		if i%shardN == shardI {
			next <- i
		}
	}
	close(next)
	for w := 0; w < workers; w++ {
		wg.Add(1)
		go func() {
			defer wg.Done()
			up, err := c37StartUpstream()
			if err != nil {
				mu.Lock()
				firstErr = err
				mu.Unlock()
				return
			}
			defer up.Close()
			for i := range next {
				mu.Lock()
				stop := firstErr != nil
				mu.Unlock()
				if stop {
					return
				}
				if time.Now().After(deadline) {
					mu.Lock()
					cut = true
					mu.Unlock()
					continue
				}
				c := cases[i]
				obs, err := c37Run(up, c)
				var sig string
				var nontrivial bool
				var viols []c37Viol
				if err == nil {
					sig, nontrivial, viols, err = c37Judge(up, c, obs)
				}
				if err != nil {
					mu.Lock()
					if firstErr == nil {
						firstErr = fmt.Errorf("case %d (%s): %w", i, c.Label, err)
					}
					mu.Unlock()
					return
				}
				rep.Eval(1)
				rep.Outcome(c37LabelClass(c.Label)+"|"+sig, nontrivial)
				if rep.WantSample() && (i%997 == 0) {
					rep.Sample(map[string]any{"acl_allow": c.Allow, "acl_deny": c.Deny, "cache": c.Cache, "label": c.Label, "queries": c37ShortAll(c.Queries), "outcome": sig})
				}
				mu.Lock()
				for _, v := range viols {
					counts[v.Key]++
					cur, ok := best[v.Key]
					if !ok || i < cur.idx {
						best[v.Key] = result{idx: i, viols: []c37Viol{v}}
					}
				}
				mu.Unlock()
			}
		}()
	}
	wg.Wait()
	if firstErr != nil {
		t.Fatalf("HARNESS-ERROR %v", firstErr)
	}
	if cut {
		rep.Cap("deadline: not every case executed")
	}
	keys := make([]string, 0, len(best))
	for k := range best {
		keys = append(keys, k)
	}
	sort.Strings(keys)
	for _, k := range keys {
		v := best[k].viols[0]
		rep.Violation(k, fmt.Sprintf("%s [%d cases with this key]", v.Detail, counts[k]), v.Case)
	}
	if len(counts) > 0 {
		rep.SetInfo("violating_cases_per_key", counts)
	}
}

// c37LabelClass drops the topic names from a label so that signatures group by template/padding.
func c37LabelClass(label string) string {
	if i := strings.IndexByte(label, '('); i >= 0 && !strings.HasPrefix(label, "session") {
		j := strings.IndexByte(label, ')')
		if j > i {
			return label[:i] + label[j+1:]
		}
	}
	return label
}

func c37ShortAll(qs []string) []string {
	out := make([]string, len(qs))
	for i, q := range qs {
		out[i] = c37Short(q)
	}
	return out
}
