//go:build verif

package proxy

import (
	"fmt"
	"strings"
	"testing"

	"github.com/KafScale/platform/internal/verif/enum"
	"github.com/KafScale/platform/internal/verif/vh"
)

// C23 (SQL-proxy half): proxy.ACL.Allows over every ACL of bounded size.
// Statement reading for this ACL (no principals, no explicit default): deny if any deny
// pattern matches; otherwise allow if an allow pattern matches; otherwise the default
// applies, which is "allow" iff the allow list is empty.

var (
	c23sPatterns = []string{"*", "", "a", "a*", "ab"} // star, blank, exact, prefix wildcard, exact
	c23sTopics   = []string{"a", "ab", "b"}
)

func c23sRefMatch(pattern, topic string) bool {
	pattern = strings.TrimSpace(pattern)
	switch {
	case pattern == "":
		return false // a blank pattern is no pattern
	case pattern == "*":
		return true
	case strings.HasSuffix(pattern, "*"):
		p := pattern[:len(pattern)-1]
		return len(topic) >= len(p) && topic[:len(p)] == p
	}
	return pattern == topic
}

func c23sAny(list []string, topic string) bool {
	for _, p := range list {
		if c23sRefMatch(p, topic) {
			return true
		}
	}
	return false
}

func c23sAllBlank(list []string) bool {
	for _, p := range list {
		if strings.TrimSpace(p) != "" {
			return false
		}
	}
	return true
}

// c23sExpect returns the admissible decisions (one, or both when the statement is
// ambiguous: an allow list made only of blank patterns may or may not count as empty).
func c23sExpect(a ACL, topic string) (want bool, either bool, reason string) {
	switch {
	case c23sAny(a.Deny, topic):
		return false, false, "deny-pattern"
	case c23sAny(a.Allow, topic):
		return true, false, "allow-pattern"
	case len(a.Allow) == 0:
		return true, false, "default-allow"
	case c23sAllBlank(a.Allow):
		return false, true, "default-ambiguous"
	}
	return false, false, "default-deny"
}

func c23sKind(list []string, topic string) string {
	for _, p := range list {
		if c23sRefMatch(p, topic) {
			p = strings.TrimSpace(p)
			switch {
			case p == "*":
				return "star"
			case strings.HasSuffix(p, "*"):
				return "prefix"
			}
			return "exact"
		}
	}
	return "none"
}

type c23sReplay struct {
	Kind  string   `json:"kind"`
	Allow []string `json:"allow"`
	Deny  []string `json:"deny"`
	Base  *ACL     `json:"base,omitempty"`
	Added string   `json:"added,omitempty"`
	Topic string   `json:"topic"`
}

func c23sCheckDecision(rep *vh.Report, a ACL, topic string) string {
	got := a.Allows(topic)
	want, either, reason := c23sExpect(a, topic)
	if !either && got != want {
		key := "sql-"
		switch {
		case reason == "deny-pattern" && c23sAny(a.Allow, topic):
			key += "allow-evaluated-before-deny"
		case reason == "deny-pattern":
			key += "deny-pattern-missed:" + c23sKind(a.Deny, topic)
		case reason == "allow-pattern":
			key += "allow-pattern-missed:" + c23sKind(a.Allow, topic)
		default:
			key += "default-not-applied:" + reason
		}
		rep.Violation(key, fmt.Sprintf("ACL{Allow:%q Deny:%q}.Allows(%q)=%v, statement says %v (%s)", a.Allow, a.Deny, topic, got, want, reason),
			c23sReplay{Kind: "decision", Allow: a.Allow, Deny: a.Deny, Topic: topic})
	}
	return fmt.Sprintf("%v/%s", got, reason)
}

func c23sCheckMono(rep *vh.Report, base, ext ACL, added, topic string) {
	b, e := base.Allows(topic), ext.Allows(topic)
	if (added == "allow" && b && !e) || (added == "deny" && !b && e) {
		rep.Violation("sql-nonmonotone-add-"+added, fmt.Sprintf("topic %q: before ACL{Allow:%q Deny:%q}=%v, after adding one %s pattern ACL{Allow:%q Deny:%q}=%v", topic, base.Allow, base.Deny, b, added, ext.Allow, ext.Deny, e),
			c23sReplay{Kind: "monotone", Allow: ext.Allow, Deny: ext.Deny, Base: &ACL{Allow: base.Allow, Deny: base.Deny}, Added: added, Topic: topic})
	}
}

func TestVerifC23(t *testing.T) {
	rep := vh.New(t, "C23")
	defer rep.Finish()
	rep.Rule = "SQL proxy half: case = (ACL, topic) decided by the real proxy.ACL.Allows; ACLs = every pair of allow/deny pattern sequences up to the length bound; each ACL is compared with itself minus each single pattern; signature = (3 decisions with their deciding reason, list lengths); non-trivial = some topic is decided by a deny or allow pattern rather than the default"
	rep.Assumptions = []string{
		"SQL proxy: blank patterns match nothing; an allow list holding only blank patterns may count as empty or not (either decision accepted)",
		"SQL proxy: adding an allow pattern is only required to be monotone when the allow list was already non-empty (otherwise the default itself changes)",
	}
	var rp c23sReplay
	if ok, err := vh.LoadReplay(&rp); ok {
		if err != nil {
			t.Fatalf("HARNESS-ERROR replay: %v", err)
		}
		if rp.Topic == "" { // a replay of the broker half: nothing to do in this part
			rep.Outcome("replay-other-part", true)
			rep.Outcome("replay-other-part-2", true)
			return
		}
		rep.Eval(1)
		a := ACL{Allow: rp.Allow, Deny: rp.Deny}
		if rp.Kind == "monotone" && rp.Base != nil {
			c23sCheckMono(rep, *rp.Base, a, rp.Added, rp.Topic)
		} else {
			rep.Outcome(c23sCheckDecision(rep, a, rp.Topic), true)
		}
		return
	}
	maxLen := 3
	if vh.Thorough() {
		maxLen = 4
	}
	rep.SetInfo("sql_patterns", c23sPatterns)
	rep.SetInfo("sql_topics", c23sTopics)
	rep.SetInfo("sql_max_patterns_per_list", maxLen)
	mk := func(seq []int) []string {
		out := make([]string, len(seq))
		for i, x := range seq {
			out[i] = c23sPatterns[x]
		}
		return out
	}
	without := func(l []string, i int) []string {
		out := make([]string, 0, len(l)-1)
		out = append(out, l[:i]...)
		return append(out, l[i+1:]...)
	}
	enum.Sequences(len(c23sPatterns), maxLen, func(as []int) bool {
		allow := mk(as)
		enum.Sequences(len(c23sPatterns), maxLen, func(ds []int) bool {
			deny := mk(ds)
			a := ACL{Allow: allow, Deny: deny}
			sig := fmt.Sprintf("%d/%d", len(allow), len(deny))
			nontriv := false
			for _, topic := range c23sTopics {
				s := c23sCheckDecision(rep, a, topic)
				sig += "|" + s
				if strings.Contains(s, "pattern") {
					nontriv = true
				}
				rep.Eval(1)
			}
			rep.Count("sql_configurations", 1)
			rep.Outcome("sql:"+sig, nontriv)
			if nontriv && len(allow) == 2 && len(deny) == 1 && rep.WantSample() && as[0] != as[1] && as[1] == 3 {
				rep.Sample(map[string]any{"part": "sql-proxy", "allow": allow, "deny": deny, "topics": c23sTopics, "decisions": sig})
			}
			for i := range allow {
				base := ACL{Allow: without(allow, i), Deny: deny}
				if c23sAllBlank(base.Allow) {
					continue // the allow list becomes (effectively) non-empty: the default itself changes, not comparable
				}
				for _, topic := range c23sTopics {
					c23sCheckMono(rep, base, a, "allow", topic)
				}
				rep.Count("monotonicity_pairs", 1)
			}
			for i := range deny {
				base := ACL{Allow: allow, Deny: without(deny, i)}
				for _, topic := range c23sTopics {
					c23sCheckMono(rep, base, a, "deny", topic)
				}
				rep.Count("monotonicity_pairs", 1)
			}
			return true
		})
		return true
	})
}
