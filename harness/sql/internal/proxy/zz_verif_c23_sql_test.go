//go:build verif

package proxy

import (
	"fmt"
	"strings"
	"testing"

	"github.com/KafScale/platform/internal/verif/enum"
	"github.com/KafScale/platform/internal/verif/vh"
)

// C23 (SQL-proxy half): proxy.ACL.Allows over every ACL of bounded size.
// Statement reading for this ACL (no principals, no explicit default): deny if any deny
// pattern matches; otherwise allow if an allow pattern matches; otherwise the default
// applies, which is "allow" iff the allow list is empty.

var (
	// star, blank, exact, trailing wildcard, exact; then the other features of the pattern language
	// (none of them combined with '*'): class with a set (= ab), class with a range (= a, b), negated
	// class (= b), backslash escape (= ab), '?' (= ab)
	c23sPatterns = []string{"*", "", "a", "a*", "ab", "a[bc]", "[a-b]", "[^a]", `a\b`, "a?"}
	c23sTopics   = []string{"a", "ab", "b"}
)

// Reference matcher, written from the definition of the pattern language the proxy hands its
// patterns to (Go path.Match), not by calling it:
//
//	'*'                  any run of characters other than '/'
//	'?'                  one character other than '/'
//	'[' ['^'] range+ ']' one character in (with '^': not in) the non-empty list of ranges;
//	                     range = c | lo '-' hi; c may be written '\\' c, and must be when it is
//	                     '-', ']' or '\\'
//	'\\' c               the character c
//	c                    the character c
//
// c23sGlob returns wellFormed=false for a malformed pattern (unterminated or empty class, trailing
// backslash, bare '-' or ']' as a range bound); their meaning is not documented and the alphabet
// has none.
func c23sGlob(pattern, s []rune) (matched, wellFormed bool) {
	if len(pattern) == 0 {
		return len(s) == 0, true
	}
	switch pattern[0] {
	case '*':
		// the rest must be well formed whether or not anything matches
		if _, ok := c23sGlob(pattern[1:], nil); !ok {
			return false, false
		}
		for i := 0; i <= len(s); i++ {
			if i > 0 && s[i-1] == '/' {
				break
			}
			if m, _ := c23sGlob(pattern[1:], s[i:]); m {
				return true, true
			}
		}
		return false, true
	case '?':
		m, ok := c23sGlob(pattern[1:], c23sTail(s))
		return m && len(s) > 0 && s[0] != '/', ok
	case '\\':
		if len(pattern) < 2 {
			return false, false
		}
		m, ok := c23sGlob(pattern[2:], c23sTail(s))
		return m && len(s) > 0 && s[0] == pattern[1], ok
	case '[':
		i, neg, in, n := 1, false, false, 0
		if i < len(pattern) && pattern[i] == '^' {
			neg, i = true, i+1
		}
		bound := func() (rune, bool) {
			if i >= len(pattern) {
				return 0, false
			}
			c := pattern[i]
			if c == '\\' {
				if i+1 >= len(pattern) {
					return 0, false
				}
				c, i = pattern[i+1], i+2
				return c, true
			}
			if c == '-' || c == ']' {
				return 0, false
			}
			i++
			return c, true
		}
		for {
			if i >= len(pattern) {
				return false, false
			}
			if pattern[i] == ']' && n > 0 {
				i++
				break
			}
			lo, ok := bound()
			if !ok {
				return false, false
			}
			hi := lo
			if i < len(pattern) && pattern[i] == '-' {
				i++
				if hi, ok = bound(); !ok {
					return false, false
				}
			}
			n++
			if len(s) > 0 && lo <= s[0] && s[0] <= hi {
				in = true
			}
		}
		m, ok := c23sGlob(pattern[i:], c23sTail(s))
		return m && len(s) > 0 && in != neg, ok
	}
	m, ok := c23sGlob(pattern[1:], c23sTail(s))
	return m && len(s) > 0 && s[0] == pattern[0], ok
}

func c23sTail(s []rune) []rune {
	if len(s) == 0 {
		return nil
	}
	return s[1:]
}

var c23sMemo = map[[2]string]bool{} // the enumeration is sequential

func c23sRefMatch(pattern, topic string) bool {
	if m, ok := c23sMemo[[2]string{pattern, topic}]; ok {
		return m
	}
	m := c23sRefMatchSlow(pattern, topic)
	c23sMemo[[2]string{pattern, topic}] = m
	return m
}

func c23sRefMatchSlow(pattern, topic string) bool {
	pattern = strings.TrimSpace(pattern)
	switch {
	case pattern == "":
		return false // a blank pattern is no pattern
	case pattern == "*":
		return true
	}
	m, ok := c23sGlob([]rune(pattern), []rune(topic))
	if !ok {
		panic("c23s: malformed pattern in the alphabet: " + pattern)
	}
	return m
}

// c23sSelfCheck: the reference matcher against hand-computed answers (independent of the code
// under test), including the malformed shapes.
func c23sSelfCheck() error {
	type row struct {
		p, s  string
		m, ok bool
	}
	rows := []row{
		{"a", "a", true, true}, {"a", "ab", false, true}, {"a*", "a", true, true}, {"a*", "ab", true, true}, {"a*", "b", false, true},
		{"*", "", true, true}, {"*b", "ab", true, true}, {"*", "a/b", false, true}, {"a*b*", "axxbyy", true, true},
		{"a[bc]", "ab", true, true}, {"a[bc]", "ac", true, true}, {"a[bc]", "a", false, true}, {"a[bc]", "a[bc]", false, true},
		{"[a-b]", "a", true, true}, {"[a-b]", "b", true, true}, {"[a-b]", "c", false, true}, {"[a-b]", "ab", false, true},
		{"[^a]", "b", true, true}, {"[^a]", "a", false, true}, {"[^a]", "", false, true}, {"[^a]", "bb", false, true},
		{`a\b`, "ab", true, true}, {`a\b`, `a\b`, false, true}, {`\*`, "*", true, true}, {`\*`, "a", false, true},
		{"a?", "ab", true, true}, {"a?", "a", false, true}, {"a?", "abc", false, true}, {"?", "/", false, true},
		{`[\]a]`, "]", true, true}, {`[a\-c]`, "-", true, true}, {`[a\-c]`, "b", false, true}, {"[a-cx-z]", "y", true, true},
		{"a]", "a]", true, true},
		{"a[", "a", false, false}, {"[]", "a", false, false}, {"[a", "a", false, false}, {`a\`, "a", false, false},
		{"[a-]", "a", false, false}, {"[-a]", "a", false, false}, {"[]a]", "a", false, false}, {"*[", "zzz", false, false}, {"b[", "a", false, false},
	}
	for _, r := range rows {
		m, ok := c23sGlob([]rune(r.p), []rune(r.s))
		if ok != r.ok || (ok && m != r.m) {
			return fmt.Errorf("reference matcher: glob(%q,%q)=(%v,%v), expected (%v,%v)", r.p, r.s, m, ok, r.m, r.ok)
		}
	}
	for _, p := range c23sPatterns {
		if _, ok := c23sGlob([]rune(strings.TrimSpace(p)), nil); !ok {
			return fmt.Errorf("malformed pattern %q in the alphabet", p)
		}
	}
	return nil
}

// c23sPatternKind classifies a pattern by the feature of the pattern language it uses.
func c23sPatternKind(p string) string {
	p = strings.TrimSpace(p)
	switch {
	case p == "*":
		return "star"
	case strings.Contains(p, "["):
		return "class"
	case strings.Contains(p, "\\"):
		return "escape"
	case strings.Contains(p, "?"):
		return "question-mark"
	case strings.HasSuffix(p, "*"):
		return "prefix"
	}
	return "exact"
}

func c23sAny(list []string, topic string) bool {
	for _, p := range list {
		if c23sRefMatch(p, topic) {
			return true
		}
	}
	return false
}

func c23sAllBlank(list []string) bool {
	for _, p := range list {
		if strings.TrimSpace(p) != "" {
			return false
		}
	}
	return true
}

// c23sExpect returns the admissible decisions (one, or both when the statement is
// ambiguous: an allow list made only of blank patterns may or may not count as empty).
func c23sExpect(a ACL, topic string) (want bool, either bool, reason string) {
	switch {
	case c23sAny(a.Deny, topic):
		return false, false, "deny-pattern"
	case c23sAny(a.Allow, topic):
		return true, false, "allow-pattern"
	case len(a.Allow) == 0:
		return true, false, "default-allow"
	case c23sAllBlank(a.Allow):
		return false, true, "default-ambiguous"
	}
	return false, false, "default-deny"
}

func c23sKind(list []string, topic string) string {
	for _, p := range list {
		if c23sRefMatch(p, topic) {
			return c23sPatternKind(p)
		}
	}
	return "none"
}

type c23sReplay struct {
	Kind  string   `json:"kind"`
	Allow []string `json:"allow"`
	Deny  []string `json:"deny"`
	Base  *ACL     `json:"base,omitempty"`
	Added string   `json:"added,omitempty"`
	Topic string   `json:"topic"`
}

func c23sCheckDecision(rep *vh.Report, a ACL, topic string) string {
	got := a.Allows(topic)
	want, either, reason := c23sExpect(a, topic)
	if !either && got != want {
		key := "sql-"
		switch {
		case reason == "deny-pattern" && c23sAny(a.Allow, topic) && !(ACL{Deny: a.Deny}).Allows(topic):
			// control: the deny list alone does deny the topic, so the allow list is what overrode it
			key += "allow-evaluated-before-deny"
		case reason == "deny-pattern":
			key += "deny-pattern-missed:" + c23sKind(a.Deny, topic)
		case reason == "allow-pattern":
			key += "allow-pattern-missed:" + c23sKind(a.Allow, topic)
		default:
			key += "default-not-applied:" + reason
		}
		rep.Violation(key, fmt.Sprintf("ACL{Allow:%q Deny:%q}.Allows(%q)=%v, statement says %v (%s)", a.Allow, a.Deny, topic, got, want, reason),
			c23sReplay{Kind: "decision", Allow: a.Allow, Deny: a.Deny, Topic: topic})
	}
	return fmt.Sprintf("%v/%s", got, reason)
}

func c23sCheckMono(rep *vh.Report, base, ext ACL, added, topic string) {
	b, e := base.Allows(topic), ext.Allows(topic)
	if (added == "allow" && b && !e) || (added == "deny" && !b && e) {
		rep.Violation("sql-nonmonotone-add-"+added, fmt.Sprintf("topic %q: before ACL{Allow:%q Deny:%q}=%v, after adding one %s pattern ACL{Allow:%q Deny:%q}=%v", topic, base.Allow, base.Deny, b, added, ext.Allow, ext.Deny, e),
			c23sReplay{Kind: "monotone", Allow: ext.Allow, Deny: ext.Deny, Base: &ACL{Allow: base.Allow, Deny: base.Deny}, Added: added, Topic: topic})
	}
}

func TestVerifC23(t *testing.T) {
	rep := vh.New(t, "C23")
	defer rep.Finish()
	rep.Rule = "SQL proxy half: case = (ACL, topic) decided by the real proxy.ACL.Allows; ACLs = every pair of allow/deny pattern sequences up to the length bound over the pattern alphabet (star, blank, exact names, trailing wildcard, character class with a set / a range / a negation, backslash escape, '?'); the oracle matches patterns with a reference matcher written from the definition of the pattern language; each ACL is compared with itself minus each single pattern; signature = (3 decisions with their deciding reason, list lengths); non-trivial = some topic is decided by a deny or allow pattern rather than the default"
	rep.Assumptions = []string{
		"SQL proxy: patterns are globs in the language the proxy hands them to (path.Match: '*', '?', [set], [lo-hi], [^...], backslash escape); malformed patterns (meaning undocumented) are not in the alphabet",
		"SQL proxy: blank patterns match nothing; an allow list holding only blank patterns may count as empty or not (either decision accepted)",
		"SQL proxy: adding an allow pattern is only required to be monotone when the allow list was already non-empty (otherwise the default itself changes)",
	}
	var rp c23sReplay
	if ok, err := vh.LoadReplay(&rp); ok {
		if err != nil {
			t.Fatalf("HARNESS-ERROR replay: %v", err)
		}
		if rp.Topic == "" { // a replay of the broker half: nothing to do in this part
			rep.Outcome("replay-other-part", true)
			rep.Outcome("replay-other-part-2", true)
			return
		}
		rep.Eval(1)
		a := ACL{Allow: rp.Allow, Deny: rp.Deny}
		if rp.Kind == "monotone" && rp.Base != nil {
			c23sCheckMono(rep, *rp.Base, a, rp.Added, rp.Topic)
		} else {
			rep.Outcome(c23sCheckDecision(rep, a, rp.Topic), true)
		}
		return
	}
	if err := c23sSelfCheck(); err != nil {
		t.Fatalf("HARNESS-ERROR %v", err)
	}
	// quick: both lists <= 3 patterns; thorough: one list <= 4 and the other <= 3 (both ways)
	maxLen := 3
	if vh.Thorough() {
		maxLen = 4
	}
	rep.SetInfo("sql_patterns", c23sPatterns)
	rep.SetInfo("sql_topics", c23sTopics)
	rep.SetInfo("sql_max_patterns_per_list", maxLen)
	if maxLen > 3 {
		rep.SetInfo("sql_max_patterns_both_lists_together", 7)
	}
	mk := func(seq []int) []string {
		out := make([]string, len(seq))
		for i, x := range seq {
			out[i] = c23sPatterns[x]
		}
		return out
	}
	without := func(l []string, i int) []string {
		out := make([]string, 0, len(l)-1)
		out = append(out, l[:i]...)
		return append(out, l[i+1:]...)
	}
	enum.Sequences(len(c23sPatterns), maxLen, func(as []int) bool {
		allow := mk(as)
		maxDeny := maxLen
		if len(as) > 3 {
			maxDeny = 3
		}
		enum.Sequences(len(c23sPatterns), maxDeny, func(ds []int) bool {
			deny := mk(ds)
			a := ACL{Allow: allow, Deny: deny}
			sig := fmt.Sprintf("%d/%d", len(allow), len(deny))
			nontriv := false
			for _, topic := range c23sTopics {
				s := c23sCheckDecision(rep, a, topic)
				sig += "|" + s
				if strings.Contains(s, "pattern") {
					nontriv = true
				}
				rep.Eval(1)
			}
			rep.Count("sql_configurations", 1)
			rep.Outcome("sql:"+sig, nontriv)
			if nontriv && len(allow) == 2 && len(deny) == 1 && rep.WantSample() && as[0] != as[1] && as[1] == 3 {
				rep.Sample(map[string]any{"part": "sql-proxy", "allow": allow, "deny": deny, "topics": c23sTopics, "decisions": sig})
			}
			for i := range allow {
				base := ACL{Allow: without(allow, i), Deny: deny}
				if c23sAllBlank(base.Allow) {
					continue // the allow list becomes (effectively) non-empty: the default itself changes, not comparable
				}
				for _, topic := range c23sTopics {
					c23sCheckMono(rep, base, a, "allow", topic)
				}
				rep.Count("monotonicity_pairs", 1)
			}
			for i := range deny {
				base := ACL{Allow: allow, Deny: without(deny, i)}
				for _, topic := range c23sTopics {
					c23sCheckMono(rep, base, a, "deny", topic)
				}
				rep.Count("monotonicity_pairs", 1)
			}
			return true
		})
		return true
	})
}
