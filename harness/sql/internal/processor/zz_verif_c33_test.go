//go:build verif

package processor

// C33 — processors deliver every record at least once before checkpointing.
//
// The real Processor.Run is executed inside a testing/synctest bubble (poll and
// lease tickers run on the fake clock) against in-package fakes for every
// collaborator. Collaborator calls are numbered as they happen; a fault placement
// is a set of call numbers that fail. Placements are enumerated as a tree: the
// children of a run with faults F are F+{l} for every call l after max(F) that the
// run made inside the fault window (before the 4th ListCompleted), so every
// placement of <= k transient failures over the first three polling cycles is
// executed exactly once. Two fault-free cycles follow.
//
// The file has a module-independent part (world, oracle, enumeration — textually
// the same in the iceberg, sql and skeleton harnesses) and a module-specific
// adapter part at the end.

import (
	"context"
	"errors"
	"fmt"
	"io"
	"log"
	"runtime"
	"sort"
	"strings"
	"sync"
	"testing"
	"testing/synctest"
	"time"

	"github.com/KafScale/platform/internal/verif/vh"
	"github.com/kafscale/platform/addons/processors/sql-processor/internal/checkpoint"
	"github.com/kafscale/platform/addons/processors/sql-processor/internal/config"
	"github.com/kafscale/platform/addons/processors/sql-processor/internal/decoder"
	"github.com/kafscale/platform/addons/processors/sql-processor/internal/discovery"
	"github.com/kafscale/platform/addons/processors/sql-processor/internal/sink"
)

// ---------------------------------------------------------------------------
// module-independent part
// ---------------------------------------------------------------------------

const (
	c33Topic       = "orders"
	c33FaultCycles = 3 // failures may hit calls made before the 4th ListCompleted
	c33CleanCycles = 2
	c33PollSeconds = 5
)

var errC33Injected = errors.New("c33: injected transient failure")

type c33Fault struct {
	Call    int    `json:"call"`    // 1-based number of the collaborator call that fails
	Variant string `json:"variant"` // "fail" (no effect) | "applied" (CommitOffset stored, then error)
	Kind    string `json:"kind,omitempty"`
}

type c33Case struct {
	Module string     `json:"module"`
	Store  string     `json:"store"` // "persistent" | "noop"
	Sizes  []int      `json:"sizes"` // records per completed segment of partition 0 (offsets contiguous from 0)
	BPos   int        `json:"bpos"`  // listing position of partition 1's segment (2 records)
	Lfs    string     `json:"lfs"`   // iceberg only: "off" | "even" | "all"; "" elsewhere
	Faults []c33Fault `json:"faults"`
}

type c33Rec struct {
	Part int32
	Off  int64
}

type c33Seg struct {
	Part int32
	Base int64
	N    int
	Key  string
}

type c33Viol struct {
	Key    string
	Detail string
}

var c33KindName = map[byte]string{'L': "ListCompleted", 'C': "ClaimLease", 'O': "LoadOffset", 'D': "Decode",
	'F': "LfsFetch", 'W': "Write", 'K': "CommitOffset", 'R': "RenewLease"}

type c33World struct {
	mu     sync.Mutex
	cs     c33Case
	module string
	noop   bool
	segs   []c33Seg
	faults map[int]string

	n           int // numbered collaborator calls so far
	lists       int
	windowCalls int // numbered calls made inside the fault window (-1 while open)
	kinds       []byte
	trace       []string
	fired       int

	written   map[c33Rec]int
	cause     map[c33Rec]string
	persist   map[int32]int64
	held      map[int32]bool
	leased    int32
	cycleLoad map[int32]int
	noopLoad0 bool // the noop store answered LoadOffset with 0 although nothing was committed
	commits   int
	writes    int
	passed    map[c33Rec]bool // unwritten records a checkpoint has already (reportedly) moved past
	viols     []c33Viol
	violSeen  map[string]bool
}

func c33Listing(cs c33Case) []c33Seg {
	var a []c33Seg
	base := int64(0)
	for _, n := range cs.Sizes {
		a = append(a, c33Seg{Part: 0, Base: base, N: n, Key: fmt.Sprintf("seg/0/%d", base)})
		base += int64(n)
	}
	b := c33Seg{Part: 1, Base: 0, N: 2, Key: "seg/1/0"}
	pos := cs.BPos
	if pos > len(a) {
		pos = len(a)
	}
	out := append([]c33Seg{}, a[:pos]...)
	out = append(out, b)
	out = append(out, a[pos:]...)
	return out
}

func c33NewWorld(cs c33Case) *c33World {
	w := &c33World{cs: cs, module: cs.Module, noop: cs.Store == "noop", segs: c33Listing(cs), faults: map[int]string{},
		windowCalls: -1, written: map[c33Rec]int{}, cause: map[c33Rec]string{}, persist: map[int32]int64{},
		held: map[int32]bool{}, leased: -1, cycleLoad: map[int32]int{}, violSeen: map[string]bool{}, passed: map[c33Rec]bool{}}
	for _, f := range cs.Faults {
		w.faults[f.Call] = f.Variant
	}
	return w
}

// enter numbers a collaborator call and says whether it is to fail. mu held.
func (w *c33World) enter(kind byte, tok string) string {
	if kind == 'L' {
		w.lists++
		if w.lists == c33FaultCycles+1 && w.windowCalls < 0 {
			w.windowCalls = w.n
		}
	}
	w.n++
	w.kinds = append(w.kinds, kind)
	v := w.faults[w.n]
	if v != "" {
		w.fired++
		if v == "applied" {
			tok += "!a"
		} else {
			tok += "!"
		}
	}
	w.trace = append(w.trace, tok)
	return v
}

func (w *c33World) violate(key, detail string) {
	key = w.module + ":" + key
	if w.violSeen[key] {
		return
	}
	w.violSeen[key] = true
	w.viols = append(w.viols, c33Viol{Key: key, Detail: detail})
}

func (w *c33World) segOf(part int32, off int64) int {
	last := -1
	for i, s := range w.segs {
		if s.Part != part {
			continue
		}
		last = i
		if off >= s.Base && off < s.Base+int64(s.N) {
			return i
		}
	}
	return last
}

func (w *c33World) markSeg(s c33Seg, why string) {
	for i := 0; i < s.N; i++ {
		r := c33Rec{s.Part, s.Base + int64(i)}
		if w.written[r] == 0 {
			w.cause[r] = why
		}
	}
}

func (w *c33World) list() ([]c33Seg, error) {
	w.mu.Lock()
	defer w.mu.Unlock()
	w.cycleLoad = map[int32]int{}
	if w.enter('L', "L") != "" {
		return nil, errC33Injected
	}
	return append([]c33Seg{}, w.segs...), nil
}

func (w *c33World) claim(part int32) error {
	w.mu.Lock()
	defer w.mu.Unlock()
	if w.enter('C', fmt.Sprintf("C%d", part)) != "" {
		return errC33Injected
	}
	if !w.noop && w.held[part] {
		w.trace = append(w.trace, "held")
		return errors.New("lease already held")
	}
	w.held[part] = true
	w.leased = part
	return nil
}

func (w *c33World) release(part int32) {
	w.mu.Lock()
	defer w.mu.Unlock()
	w.trace = append(w.trace, fmt.Sprintf("X%d", part))
	w.held[part] = false
	if w.leased == part {
		w.leased = -1
	}
}

func (w *c33World) renew(part int32) error {
	// A renewal that falls on the same virtual instant as a poll tick is ordered after
	// that poll cycle (the run loop is then parked in its select), which keeps the call
	// numbering — and Run's own select — deterministic.
	synctest.Wait()
	w.mu.Lock()
	defer w.mu.Unlock()
	if w.enter('R', fmt.Sprintf("R%d", part)) != "" {
		return errC33Injected
	}
	return nil
}

// load returns (stored offset for the persistent store, error). For the noop store the
// adapter asks the real store and reports the answer through loaded().
func (w *c33World) load(part int32) (int64, error) {
	w.mu.Lock()
	defer w.mu.Unlock()
	idx := w.cycleLoad[part]
	w.cycleLoad[part]++
	if w.enter('O', fmt.Sprintf("O%d", part)) != "" {
		k := 0
		for _, s := range w.segs {
			if s.Part != part {
				continue
			}
			if k == idx {
				w.markSeg(s, "loadoffset")
			}
			k++
		}
		return 0, errC33Injected
	}
	if o, ok := w.persist[part]; ok {
		return o, nil
	}
	return -1, nil // etcd store: key absent => -1
}

func (w *c33World) loaded(part int32, off int64) {
	w.mu.Lock()
	defer w.mu.Unlock()
	w.trace[len(w.trace)-1] += fmt.Sprintf("=%d", off)
	if w.noop && off >= 0 {
		w.noopLoad0 = true
	}
}

func (w *c33World) decode(key string) (c33Seg, error) {
	w.mu.Lock()
	defer w.mu.Unlock()
	var seg c33Seg
	found := false
	for _, s := range w.segs {
		if s.Key == key {
			seg, found = s, true
		}
	}
	if !found {
		w.violate("harness-unknown-segment", key)
		return seg, errors.New("unknown segment")
	}
	if w.enter('D', fmt.Sprintf("D%d@%d", seg.Part, seg.Base)) != "" {
		w.markSeg(seg, "decode")
		return seg, errC33Injected
	}
	// a new attempt at this segment has its records in hand: reasons recorded by
	// earlier attempts no longer explain why a record is unwritten
	for i := 0; i < seg.N; i++ {
		delete(w.cause, c33Rec{seg.Part, seg.Base + int64(i)})
	}
	return seg, nil
}

func (w *c33World) lfsFetch(r c33Rec) error {
	w.mu.Lock()
	defer w.mu.Unlock()
	if w.enter('F', fmt.Sprintf("F%d:%d", r.Part, r.Off)) != "" {
		if w.written[r] == 0 {
			w.cause[r] = "lfs"
		}
		return errC33Injected
	}
	return nil
}

func c33Span(recs []c33Rec) string {
	if len(recs) == 0 {
		return "[]"
	}
	parts := make([]string, 0, len(recs))
	for _, r := range recs {
		parts = append(parts, fmt.Sprintf("%d", r.Off))
	}
	return fmt.Sprintf("%d[%s]", recs[0].Part, strings.Join(parts, ","))
}

func (w *c33World) write(recs []c33Rec) error {
	w.mu.Lock()
	defer w.mu.Unlock()
	if w.enter('W', "W"+c33Span(recs)) != "" {
		for _, r := range recs {
			if w.written[r] == 0 {
				w.cause[r] = "write"
			}
		}
		return errC33Injected
	}
	w.writes++
	for _, r := range recs {
		w.written[r]++
		delete(w.cause, r)
	}
	return nil
}

func (w *c33World) commit(part int32, off int64) error {
	w.mu.Lock()
	defer w.mu.Unlock()
	v := w.enter('K', fmt.Sprintf("K%d=%d", part, off))
	if v == "fail" {
		return errC33Injected
	}
	w.commits++
	if !w.noop {
		// The noop store keeps nothing, so its checkpoint does not move; the invariant is
		// evaluated where the commit takes effect.
		w.persist[part] = off
		w.checkCheckpoint(part, off)
	}
	if v == "applied" {
		return errC33Injected
	}
	return nil
}

// checkCheckpoint: every offset <= off of the partition has been passed to a successful Write.
// All unwritten records the checkpoint moves past are remembered; the smallest one not
// reported before is reported (later commits past the same records are the same violation).
func (w *c33World) checkCheckpoint(part int32, off int64) {
	reported := false
	for _, s := range w.segs {
		if s.Part != part {
			continue
		}
		for i := 0; i < s.N; i++ {
			u := s.Base + int64(i)
			r := c33Rec{part, u}
			if u > off || w.written[r] > 0 || w.passed[r] {
				continue
			}
			w.passed[r] = true
			if reported {
				continue
			}
			reported = true
			c := w.cause[r]
			var key string
			switch {
			case c == "lfs":
				key = "commit-past-lfs-dropped-record"
			case c != "" && w.segOf(part, u) != w.segOf(part, off):
				key = "commit-past-failed-segment." + c
			case c != "":
				key = "commit-after-failed-" + c
			default:
				key = "commit-past-unwritten-record"
			}
			w.violate(key, fmt.Sprintf("CommitOffset(partition %d, offset %d) took effect while offset %d of that partition had never been passed to a successful Write (last reason it was not written: %q); trace: %s",
				part, off, u, c, strings.Join(w.trace, " ")))
		}
	}
}

// finalCheck: after the fault-free cycles every record of every completed segment of the
// leased partition was written at least once.
func (w *c33World) finalCheck(leased int32, runErr string) {
	w.mu.Lock()
	defer w.mu.Unlock()
	if runErr != "" {
		w.violate("run-exited-early", runErr+"; trace: "+strings.Join(w.trace, " "))
	}
	if leased < 0 {
		w.violate("no-lease-after-faults", "no partition leased after two fault-free cycles; trace: "+strings.Join(w.trace, " "))
		return
	}
	for _, s := range w.segs {
		if s.Part != leased {
			continue
		}
		for i := 0; i < s.N; i++ {
			u := s.Base + int64(i)
			r := c33Rec{leased, u}
			if w.written[r] > 0 {
				continue
			}
			if w.passed[r] {
				continue // already reported when the checkpoint moved past it
			}
			key := "record-never-written"
			if c := w.cause[r]; c != "" {
				key += "." + c
			}
			if w.noop && u == 0 && w.noopLoad0 {
				key = "offset0-filtered-by-noop-store"
			}
			w.violate(key, fmt.Sprintf("partition %d offset %d was never passed to a successful Write although %d fault-free cycles followed the failures (commits=%d writes=%d); trace: %s",
				leased, u, c33CleanCycles, w.commits, w.writes, strings.Join(w.trace, " ")))
			return
		}
	}
}

func (w *c33World) signature() string {
	var b strings.Builder
	b.WriteString(w.cs.Store + "/" + w.cs.Lfs + "|")
	b.WriteString(strings.Join(w.trace, " "))
	b.WriteString("|")
	keys := make([]c33Rec, 0, len(w.written))
	for r := range w.written {
		keys = append(keys, r)
	}
	sort.Slice(keys, func(i, j int) bool {
		if keys[i].Part != keys[j].Part {
			return keys[i].Part < keys[j].Part
		}
		return keys[i].Off < keys[j].Off
	})
	for _, r := range keys {
		fmt.Fprintf(&b, "%d:%dx%d ", r.Part, r.Off, w.written[r])
	}
	for _, p := range []int32{0, 1} {
		if o, ok := w.persist[p]; ok {
			fmt.Fprintf(&b, "cp%d=%d ", p, o)
		}
	}
	for _, v := range w.viols {
		b.WriteString(" V:" + v.Key)
	}
	return b.String()
}

type c33Result struct {
	cs     c33Case
	kinds  string
	window int
	sig    string
	trace  []string
	viols  []c33Viol
	bad    string // harness problem, never a verdict
}

// c33RunCase executes one case: the real Run in a bubble, three cycles in which the
// placed failures fire, two fault-free cycles, cancel, wait for Run to return.
func c33RunCase(t *testing.T, cs c33Case) c33Result {
	w := c33NewWorld(cs)
	res := c33Result{cs: cs}
	synctest.Test(t, func(t *testing.T) {
		run := c33NewRunner(w)
		ctx, cancel := context.WithCancel(context.Background())
		done := make(chan string, 1)
		go func() {
			defer func() {
				if p := recover(); p != nil {
					done <- fmt.Sprintf("Run panicked: %v", p)
				}
			}()
			if err := run(ctx); err != nil {
				done <- "Run returned error: " + err.Error()
				return
			}
			done <- ""
		}()
		total := time.Duration(c33FaultCycles+c33CleanCycles)*c33PollSeconds*time.Second + c33PollSeconds*time.Second/2
		time.Sleep(total)
		synctest.Wait()
		runErr := ""
		select {
		case e := <-done:
			if e == "" {
				e = "Run returned before its context was cancelled"
			}
			runErr = e
		default:
		}
		w.mu.Lock()
		leased := w.leased
		w.mu.Unlock()
		cancel()
		if runErr == "" {
			if e := <-done; e != "" {
				runErr = e
			}
		}
		synctest.Wait()
		w.finalCheck(leased, runErr)
	})
	if w.fired != len(cs.Faults) {
		res.bad = fmt.Sprintf("placed %d faults, %d fired: %+v", len(cs.Faults), w.fired, cs)
	}
	if w.windowCalls < 0 {
		res.bad = fmt.Sprintf("fault window never closed (only %d ListCompleted calls): %+v", w.lists, cs)
		w.windowCalls = w.n
	}
	res.kinds = string(w.kinds)
	res.window = w.windowCalls
	res.sig = w.signature()
	res.trace = w.trace
	res.viols = w.viols
	return res
}

func c33Variants(kind byte, store string) []string {
	if kind == 'K' && store == "persistent" {
		return []string{"fail", "applied"}
	}
	return []string{"fail"}
}

// c33Children lists the placements that extend r's placement by one later failure.
func c33Children(r c33Result) []c33Case {
	last := 0
	if n := len(r.cs.Faults); n > 0 {
		last = r.cs.Faults[n-1].Call
	}
	var out []c33Case
	for l := last + 1; l <= r.window; l++ {
		k := r.kinds[l-1]
		for _, v := range c33Variants(k, r.cs.Store) {
			c := r.cs
			c.Faults = append(append([]c33Fault{}, r.cs.Faults...), c33Fault{Call: l, Variant: v, Kind: c33KindName[k]})
			out = append(out, c)
		}
	}
	return out
}

func c33Compositions() [][]int {
	var out [][]int
	var rec func(cur []int)
	rec = func(cur []int) {
		if len(cur) > 0 {
			out = append(out, append([]int{}, cur...))
		}
		if len(cur) == 3 {
			return
		}
		for n := 1; n <= 3; n++ {
			rec(append(cur, n))
		}
	}
	rec(nil)
	sum := func(a []int) int {
		s := 0
		for _, x := range a {
			s += x
		}
		return s
	}
	sort.SliceStable(out, func(i, j int) bool {
		if sum(out[i]) != sum(out[j]) {
			return sum(out[i]) < sum(out[j])
		}
		if len(out[i]) != len(out[j]) {
			return len(out[i]) < len(out[j])
		}
		return fmt.Sprint(out[i]) < fmt.Sprint(out[j])
	})
	return out
}

// c33Less orders cases simplest first (fewer failures, fewer records, fewer segments, ...).
func c33Less(a, b c33Case) bool {
	ka, kb := c33OrderKey(a), c33OrderKey(b)
	for i := range ka {
		if ka[i] != kb[i] {
			return ka[i] < kb[i]
		}
	}
	return false
}

func c33OrderKey(c c33Case) []int {
	sum := 0
	for _, x := range c.Sizes {
		sum += x
	}
	k := []int{len(c.Faults), sum, len(c.Sizes)}
	switch c.Lfs {
	case "", "off":
		k = append(k, 0)
	case "even":
		k = append(k, 1)
	default:
		k = append(k, 2)
	}
	if c.Store == "persistent" {
		k = append(k, 0)
	} else {
		k = append(k, 1)
	}
	k = append(k, c.BPos)
	for i := 0; i < 3; i++ {
		if i < len(c.Sizes) {
			k = append(k, c.Sizes[i])
		} else {
			k = append(k, 0)
		}
	}
	for i := 0; i < 4; i++ {
		if i < len(c.Faults) {
			v := 0
			if c.Faults[i].Variant == "applied" {
				v = 1
			}
			k = append(k, c.Faults[i].Call, v)
		} else {
			k = append(k, 0, 0)
		}
	}
	return k
}

type c33Agg struct {
	mu       sync.Mutex
	rep      *vh.Report
	minViol  map[string]c33Result
	minDet   map[string]string
	count    map[string]int64
	bad      []string
	perDepth map[int]int64
}

func (a *c33Agg) add(r c33Result) {
	a.rep.Eval(1)
	a.rep.Outcome(r.sig, len(r.cs.Faults) > 0)
	a.mu.Lock()
	defer a.mu.Unlock()
	a.perDepth[len(r.cs.Faults)]++
	if r.bad != "" && len(a.bad) < 5 {
		a.bad = append(a.bad, r.bad)
	}
	for _, v := range r.viols {
		a.count[v.Key]++
		if cur, ok := a.minViol[v.Key]; !ok || c33Less(r.cs, cur.cs) {
			a.minViol[v.Key] = r
			a.minDet[v.Key] = v.Detail
		}
	}
}

// c33Par runs f(i) for i in [0,n) on all CPUs; returns false if the deadline cut it.
func c33Par(n int, deadline time.Time, f func(i int)) bool {
	var next int64
	var mu sync.Mutex
	complete := true
	var wg sync.WaitGroup
	workers := runtime.GOMAXPROCS(0)
	for wk := 0; wk < workers; wk++ {
		wg.Add(1)
		go func() {
			defer wg.Done()
			for {
				mu.Lock()
				i := int(next)
				next++
				if i < n && time.Now().After(deadline) {
					complete = false
					next = int64(n)
					i = n
				}
				mu.Unlock()
				if i >= n {
					return
				}
				f(i)
			}
		}()
	}
	wg.Wait()
	return complete
}

func c33Main(t *testing.T, module string, lfsQuick, lfsThorough []string, bposThorough []int) {
	rep := vh.New(t, "C33")
	defer rep.Finish()
	log.SetOutput(io.Discard)
	deadline := vh.Deadline()
	maxFaults := 2
	bposes := []int{1}
	lfsModes := lfsQuick
	if vh.Thorough() {
		maxFaults = 3
		bposes = bposThorough
		lfsModes = lfsThorough
	}
	rep.Rule = "case = (checkpoint store in {persistent fake with etcd semantics, real noop store}) x (1..3 completed segments x 1..3 records of partition 0 from offset 0, plus one 2-record segment of partition 1 in the listing) x (LFS layout, iceberg only) x every placement of <= k failing collaborator calls among the numbered calls {ListCompleted, ClaimLease, LoadOffset, Decode, LFS fetch, Write, CommitOffset (failing before or after it took effect), RenewLease} made by the real Processor.Run during its first 3 polling cycles, followed by 2 fault-free cycles; outcome signature = full call/result trace + write counts + final checkpoints; non-trivial = at least one injected failure"
	rep.Assumptions = []string{
		"collaborators are in-package fakes; the persistent store mirrors the etcd store (absent offset => -1, blind put, claim fails while held); the noop store is the real one behind a fault-injecting recorder",
		"time is the synctest fake clock; a lease renewal due at the same instant as a poll tick is ordered after that poll cycle",
		"LFS resolution runs with one worker so collaborator calls are totally ordered",
		"at-least-once is demanded for the partition leased during the two fault-free cycles; the checkpoint invariant is demanded per partition wherever a commit takes effect (never for the noop store, which keeps nothing)",
	}
	rep.SetInfo(module+".max_failures", maxFaults)
	rep.SetInfo(module+".lfs_layouts", lfsModes)
	rep.SetInfo(module+".segment_sets", "1..3 segments x 1..3 records (39 size vectors), first offset 0; partition 1 segment at listing position "+fmt.Sprint(bposes))
	rep.SetInfo(module+".cycles", fmt.Sprintf("%d with failures + %d fault-free, poll %ds, lease renew 10s", c33FaultCycles, c33CleanCycles, c33PollSeconds))

	var replay c33Case
	if ok, err := vh.LoadReplay(&replay); ok {
		if err != nil {
			t.Fatalf("HARNESS-ERROR replay: %v", err)
		}
		if replay.Module != module {
			t.Logf("replay is for module %q, this part is %q: skipped", replay.Module, module)
			return
		}
		r := c33RunCase(t, replay)
		rep.Eval(1)
		rep.Outcome(r.sig, len(replay.Faults) > 0)
		t.Logf("replay %+v\ntrace: %s", replay, strings.Join(r.trace, " "))
		for _, v := range r.viols {
			rep.Violation(v.Key, v.Detail, replay)
		}
		return
	}

	agg := &c33Agg{rep: rep, minViol: map[string]c33Result{}, minDet: map[string]string{}, count: map[string]int64{}, perDepth: map[int]int64{}}

	var roots []c33Case
	for _, sizes := range c33Compositions() {
		for _, lm := range lfsModes {
			for _, st := range []string{"persistent", "noop"} {
				seen := map[int]bool{}
				for _, bp := range bposes {
					if bp > len(sizes) {
						bp = len(sizes)
					}
					if seen[bp] {
						continue
					}
					seen[bp] = true
					roots = append(roots, c33Case{Module: module, Store: st, Sizes: sizes, BPos: bp, Lfs: lm})
				}
			}
		}
	}
	rep.SetInfo(module+".configurations", len(roots))

	// depth 0 and 1
	level := make([][]c33Result, len(roots))
	complete := c33Par(len(roots), deadline, func(i int) {
		r0 := c33RunCase(t, roots[i])
		agg.add(r0)
		if rep.WantSample() && i%17 == 0 {
			rep.Sample(map[string]any{"case": r0.cs, "trace": strings.Join(r0.trace, " "), "window_calls": r0.window})
		}
		for _, c := range c33Children(r0) {
			r := c33RunCase(t, c)
			agg.add(r)
			level[i] = append(level[i], r)
		}
	})
	var frontier []c33Result
	for _, l := range level {
		frontier = append(frontier, l...)
	}
	for depth := 2; depth <= maxFaults && complete; depth++ {
		next := make([][]c33Result, len(frontier))
		keep := depth < maxFaults
		d := depth
		complete = c33Par(len(frontier), deadline, func(i int) {
			for _, c := range c33Children(frontier[i]) {
				r := c33RunCase(t, c)
				agg.add(r)
				if d == 2 && i%997 == 0 && rep.WantSample() {
					rep.Sample(map[string]any{"case": r.cs, "trace": strings.Join(r.trace, " ")})
				}
				if keep {
					r.trace = nil
					r.sig = ""
					next[i] = append(next[i], r)
				}
			}
		})
		frontier = frontier[:0]
		for _, l := range next {
			frontier = append(frontier, l...)
		}
	}
	if !complete {
		rep.Cap("time budget reached before every placement was executed")
	}
	for d, n := range agg.perDepth {
		rep.Count(fmt.Sprintf("%s_runs_with_%d_failures", module, d), n)
	}
	if len(agg.bad) > 0 {
		t.Fatalf("HARNESS-ERROR %s", strings.Join(agg.bad, "; "))
	}
	keys := make([]string, 0, len(agg.minViol))
	for k := range agg.minViol {
		keys = append(keys, k)
	}
	sort.Strings(keys)
	counts := map[string]int64{}
	for _, k := range keys {
		r := agg.minViol[k]
		counts[k] = agg.count[k]
		rep.Violation(k, fmt.Sprintf("[%d violating runs; smallest:] %s", agg.count[k], agg.minDet[k]), r.cs)
	}
	rep.SetInfo(module+".violating_runs_per_key", counts)
}

// ---------------------------------------------------------------------------
// sql-processor adapter
// ---------------------------------------------------------------------------

func TestVerifC33(t *testing.T) {
	c33Main(t, "sql", []string{""}, []string{""}, []int{1, 3})
}

type c33Lister struct{ w *c33World }

func (l c33Lister) ListCompleted(ctx context.Context) ([]discovery.SegmentRef, error) {
	segs, err := l.w.list()
	if err != nil {
		return nil, err
	}
	out := make([]discovery.SegmentRef, 0, len(segs))
	for _, s := range segs {
		out = append(out, discovery.SegmentRef{Topic: c33Topic, Partition: s.Part, BaseOffset: s.Base, SegmentKey: s.Key, IndexKey: s.Key + ".index"})
	}
	return out, nil
}

type c33Decoder struct{ w *c33World }

func (d c33Decoder) Decode(ctx context.Context, segmentKey, indexKey string, topic string, partition int32) ([]decoder.Record, error) {
	seg, err := d.w.decode(segmentKey)
	if err != nil {
		return nil, err
	}
	out := make([]decoder.Record, 0, seg.N)
	for i := 0; i < seg.N; i++ {
		off := seg.Base + int64(i)
		out = append(out, decoder.Record{Topic: c33Topic, Partition: seg.Part, Offset: off, Timestamp: 1000 + off, Value: []byte(fmt.Sprintf("v%d", off))})
	}
	return out, nil
}

type c33Sink struct{ w *c33World }

func (s c33Sink) Write(ctx context.Context, records []sink.Record) error {
	recs := make([]c33Rec, 0, len(records))
	for _, r := range records {
		recs = append(recs, c33Rec{r.Partition, r.Offset})
	}
	return s.w.write(recs)
}

func (s c33Sink) Close(ctx context.Context) error { return nil }

// c33Store injects failures and records effects; with real != nil every answer comes
// from the real default (noop) store.
type c33Store struct {
	w    *c33World
	real checkpoint.Store
}

func (s c33Store) ClaimLease(ctx context.Context, topic string, partition int32, ownerID string) (checkpoint.Lease, error) {
	if err := s.w.claim(partition); err != nil {
		return checkpoint.Lease{}, err
	}
	if s.real != nil {
		return s.real.ClaimLease(ctx, topic, partition, ownerID)
	}
	return checkpoint.Lease{Topic: topic, Partition: partition, OwnerID: ownerID}, nil
}

func (s c33Store) RenewLease(ctx context.Context, lease checkpoint.Lease) error {
	if err := s.w.renew(lease.Partition); err != nil {
		return err
	}
	if s.real != nil {
		return s.real.RenewLease(ctx, lease)
	}
	return nil
}

func (s c33Store) ReleaseLease(ctx context.Context, lease checkpoint.Lease) error {
	s.w.release(lease.Partition)
	if s.real != nil {
		return s.real.ReleaseLease(ctx, lease)
	}
	return nil
}

func (s c33Store) LoadOffset(ctx context.Context, topic string, partition int32) (checkpoint.OffsetState, error) {
	off, err := s.w.load(partition)
	if err != nil {
		return checkpoint.OffsetState{}, err
	}
	st := checkpoint.OffsetState{Topic: topic, Partition: partition, Offset: off}
	if s.real != nil {
		if st, err = s.real.LoadOffset(ctx, topic, partition); err != nil {
			return st, err
		}
	}
	s.w.loaded(partition, st.Offset)
	return st, nil
}

func (s c33Store) CommitOffset(ctx context.Context, state checkpoint.OffsetState) error {
	if err := s.w.commit(state.Partition, state.Offset); err != nil {
		return err
	}
	if s.real != nil {
		return s.real.CommitOffset(ctx, state)
	}
	return nil
}

// c33NewRunner builds the real Processor over the fakes and returns its Run.
func c33NewRunner(w *c33World) func(ctx context.Context) error {
	store := c33Store{w: w}
	if w.noop {
		store.real = checkpoint.New() // the default (noop) store
	}
	p := &Processor{
		cfg:      config.Config{},
		discover: c33Lister{w},
		decode:   c33Decoder{w},
		store:    store,
		sink:     c33Sink{w},
		locks:    newTopicLocker(),
	}
	return p.Run
}
