//go:build verif

package sql

// C35 (part "shared") — parsing one connection's query shares no unsynchronised mutable state
// with parsing another connection's query.
//
// The statement: "Parsing any query text returns a query or an error, never a crash, so one
// client cannot take the SQL server down." The server parses every connection's query in that
// connection's goroutine (server.handleConnection -> handleQuery / handleParse -> sql.Parse) and
// has no recover around it, so "never a crash" has to hold whatever another connection is
// parsing at the same moment. Two conflicting unsynchronised accesses (the typical case: a
// package-level map used as a cache) make the Go runtime abort the whole process with
// "fatal error: concurrent map writes" — not recoverable, every client is cut off. Parse has no
// synchronisation operation at which a cooperative scheduler could switch, so instead of
// enumerating interleavings this part decides the condition that makes two otherwise
// deterministic parses interleaving-independent: no conflicting access (write/write or
// read/write) to shared memory between them.
//
// Technique (binary built with -race), the one of C10's shared part: for EVERY ordered pair
// (A,B) of query texts the real Parse runs on A in goroutine G1 and then on B in goroutine G2.
// The hand-off "G1 finished -> start G2" is hidden from the race detector
// (runtime.RaceDisable around the channel operations), so no happens-before edge exists
// between the two parses and the detector reports every conflicting access pair between them
// deterministically, whatever the real timing would have been.
//
// Cold state: lazily filled caches only conflict on first use, so EVERY ordered pair runs in
// its own freshly started child process (the test re-executes its own binary with the two
// texts in the environment): in each child A is the first text the parser sees after process
// start and B the second one. That covers "A first touches keyword k while B first touches
// keyword k'" (write/write) as well as "B looks up what A has just inserted" (read/write) for
// every ordered pair, with nothing warmed by an earlier pair. The child reads the detector's
// log back, classifies the reports and prints one result line; the parent turns it into
// violations. Non-race fallback oracle: a child that dies with "fatal error" (the runtime's
// own unrecoverable abort) while parsing is a violation whatever the detector said.

import (
	"encoding/json"
	"fmt"
	"os"
	"os/exec"
	"path/filepath"
	"regexp"
	"runtime"
	"sort"
	"strings"
	"sync"
	"testing"
	"time"

	"github.com/KafScale/platform/internal/verif/sched"
	"github.com/KafScale/platform/internal/verif/vh"
)

const (
	c35shEnvA      = "VERIF_C35SH_A"
	c35shEnvB      = "VERIF_C35SH_B"
	c35shEnvChild  = "VERIF_C35SH_CHILD"
	c35shResultTag = "C35SHARED-RESULT "
)

type c35shText struct {
	Family string `json:"family"`
	Text   string `json:"text"`
}

type c35shReplay struct {
	Kind string    `json:"kind"` // "shared-pair"
	A    c35shText `json:"a"`
	B    c35shText `json:"b"`
}

// c35shErrorProbes: texts on which Parse returns an error (error paths may cache too).
var c35shErrorProbes = []string{
	"",
	"selec * from orders",
	"select * from",
	"select * from orders o join payments p on o._key < p._key within 10m last 1h",
}

// c35shQuickTemplates: one (or two) valid templates of the sequential part per clause / keyword
// family of the grammar; the quick tier's alphabet.
var c35shQuickTemplates = []string{
	"^show ^topics",                  // SHOW
	"^show ^partitions ^from orders", // SHOW PARTITIONS
	"^describe orders",               // DESCRIBE
	"^select * ^from orders",         // plain select
	"^select _offset ^from orders ^where _partition = 2 ^and _offset >= 10 ^limit 5",                                                       // WHERE filters + LIMIT
	"^select * ^from orders ^scan ^full ^limit 10",                                                                                         // SCAN FULL + LIMIT
	"^select * ^from orders ^tail 5",                                                                                                       // TAIL
	"^select * ^from orders ^last 1h",                                                                                                      // LAST
	"^select * ^from orders ^order ^by _ts ^desc ^limit 10",                                                                                // ORDER BY
	"^select * ^from orders ^scan ^full _ts ^between '100' ^and '200'",                                                                     // _ts BETWEEN
	"^select _partition, count(*) ^from orders ^group ^by _partition",                                                                      // GROUP BY + aggregate
	"^select _partition, count(*) ^as n, max(_ts) ^as latest ^from orders ^group ^by _partition ^last 1h",                                  // aggregates + AS
	"^select json_value(_value,~'$.status') ^as status ^from orders",                                                                       // JSON function
	"^select * ^from orders o ^join payments p ^on o._key = p._key ^within 10m ^last 1h",                                                   // JOIN..ON + WITHIN
	"^select o._key, p._key ^from orders o ^left ^join payments p ^on json_value(o._value,~'$.id') = p._key ^within 10m ^last 1h ^limit 3", // LEFT JOIN
	"^explain ^select * ^from orders ^last 1h",                                                                                             // EXPLAIN
}

// c35shAlphabet. Quick: the 16 family representatives above rendered with lower-case keywords
// plus 2 texts Parse rejects. Thorough: every valid query template of the sequential part
// (identifier slot "k") with lower-case keywords, the representatives also with UPPER-case
// keywords, and 4 rejected texts.
func c35shAlphabet(thorough bool) ([]c35shText, error) {
	var out []c35shText
	seen := map[string]bool{}
	add := func(fam, q string) {
		if seen[q] {
			return
		}
		seen[q] = true
		out = append(out, c35shText{Family: fam, Text: q})
	}
	render := func(spec string, mode int) string {
		toks := c35T(spec)
		var modes []int
		for _, tk := range toks {
			if tk.KW {
				modes = append(modes, mode)
			}
		}
		return c35Render(toks, "k", modes)
	}
	index := map[string]int{}
	for ti, spec := range c35Templates {
		index[spec] = ti
	}
	for _, spec := range c35shQuickTemplates {
		ti, ok := index[spec]
		if !ok {
			return nil, fmt.Errorf("representative %q is not one of c35Templates", spec)
		}
		add(fmt.Sprintf("tpl%d/lower", ti), render(spec, 0))
	}
	nprobe := 2
	if thorough {
		nprobe = len(c35shErrorProbes)
		for ti, spec := range c35Templates {
			add(fmt.Sprintf("tpl%d/lower", ti), render(spec, 0))
		}
		for _, spec := range c35shQuickTemplates {
			add(fmt.Sprintf("tpl%d/UPPER", index[spec]), render(spec, 1))
		}
	}
	for i, q := range c35shErrorProbes[:nprobe] {
		add(fmt.Sprintf("err%d", i), q)
	}
	return out, nil
}

// c35shRunPair runs fa in one goroutine and then fb in another one such that the race detector
// sees no happens-before edge between fa and fb, but sees both happen before the return.
func c35shRunPair(fa, fb func()) {
	hidden := make(chan struct{})
	joined := make(chan struct{}, 2)
	go func() {
		fa()
		sched.RaceOff() // the detector must not learn that fb starts after fa ended
		hidden <- struct{}{}
		sched.RaceOn()
		joined <- struct{}{}
	}()
	sched.RaceOff()
	<-hidden
	sched.RaceOn()
	go func() {
		fb()
		joined <- struct{}{}
	}()
	<-joined
	<-joined
}

// ---- harness-owned controls ----

var c35shCtlPos, c35shCtlPos2, c35shCtlNeg int

//go:noinline
func c35shTouchPos() { c35shCtlPos++ }

//go:noinline
func c35shTouchPos2() { c35shCtlPos2++ }

//go:noinline
func c35shTouchNeg() { c35shCtlNeg++ }

// ---- race log (child side) ----

type c35shAccess struct {
	Owner    string // innermost function outside runtime / standard library
	OwnerLib bool   // owner is a third-party module
	Harness  bool   // owner is harness or engine code
	RepoFn   string // innermost repository (non-harness) function on the stack
	Restored bool   // the detector could print this stack
}

type c35shRace struct {
	Key    string `json:"key"`
	Report string `json:"report"`
}

type c35shLog struct {
	base    string
	offsets map[string]int64
	repo    string
	goroot  string
}

func newC35shLog(base string) *c35shLog {
	repo := os.Getenv("VERIF_REPO")
	if repo == "" {
		repo = "/repo"
	}
	return &c35shLog{base: base, offsets: map[string]int64{}, repo: strings.TrimSuffix(repo, "/") + "/", goroot: runtime.GOROOT()}
}

var (
	c35shFrameRe  = regexp.MustCompile(`(?m)^  (\S.*)\n\s+(\S+\.go):(\d+)`)
	c35shAccessRe = regexp.MustCompile(`(?m)^(Previous )?(Read|Write|Atomic read|Atomic write|read|write|atomic read|atomic write) at 0x[0-9a-f]+ by .*$`)
)

func c35shShort(fn string) string {
	fn = strings.TrimSuffix(fn, "()")
	if i := strings.LastIndexByte(fn, '/'); i >= 0 {
		fn = fn[i+1:]
	}
	return fn
}

func c35shLibOp(fn string) string {
	s := c35shShort(fn)
	i := strings.IndexByte(s, '.')
	j := strings.LastIndexByte(s, '.')
	if i < 0 || j <= i {
		return s
	}
	return s[:i] + s[j:]
}

func (l *c35shLog) classify(stack string) (a c35shAccess) {
	ms := c35shFrameRe.FindAllStringSubmatch(stack, -1)
	a.Restored = len(ms) > 0
	for _, m := range ms {
		fn, path := m[1], m[2]
		std := strings.Contains(path, "/toolchain@") || strings.Contains(path, "/go/src/") || strings.HasPrefix(path, "/usr/") ||
			(l.goroot != "" && strings.HasPrefix(path, l.goroot+"/"))
		if std {
			continue
		}
		harness := strings.Contains(path, "/internal/verif/") || strings.Contains(filepath.Base(path), "zz_verif_")
		lib := strings.Contains(path, "/pkg/mod/")
		if a.Owner == "" {
			a.Owner, a.OwnerLib, a.Harness = fn, lib, harness
		}
		if !harness && !lib && strings.HasPrefix(path, l.repo) && a.RepoFn == "" {
			a.RepoFn = fn
		}
	}
	return a
}

func (a c35shAccess) desc() string {
	switch {
	case !a.Restored:
		return "?"
	case a.OwnerLib:
		return c35shShort(a.RepoFn) + "@" + c35shLibOp(a.Owner)
	}
	return c35shShort(a.Owner)
}

// counts: the access is made by repository code or by library / runtime code reached from
// repository code (never harness/engine code, never a bare runtime/stdlib stack).
func (a c35shAccess) counts() bool {
	return a.Restored && !a.Harness && a.Owner != "" && a.RepoFn != ""
}

// newRaces returns what the detector reported since the last call.
func (l *c35shLog) newRaces() (found []c35shRace, control []string, other []string) {
	files, _ := filepath.Glob(l.base + ".*")
	sort.Strings(files)
	for _, f := range files {
		st, err := os.Stat(f)
		if err != nil || st.Size() <= l.offsets[f] {
			continue
		}
		data, err := os.ReadFile(f)
		if err != nil {
			continue
		}
		off := l.offsets[f]
		chunk := string(data[off:])
		l.offsets[f] = int64(len(data))
		for _, rep := range strings.Split(chunk, "==================") {
			if !strings.Contains(rep, "WARNING: DATA RACE") {
				continue
			}
			body := rep
			if i := strings.Index(body, "\nGoroutine "); i >= 0 {
				body = body[:i]
			}
			parts := c35shAccessRe.Split(body, -1)
			if len(parts) < 3 {
				other = append(other, strings.TrimSpace(rep))
				continue
			}
			a1, a2 := l.classify(parts[1]), l.classify(parts[2])
			switch {
			case a1.Harness || a2.Harness:
				control = append(control, a1.Owner+"|"+a2.Owner)
			case (a1.counts() && (a2.counts() || !a2.Restored)) || (a2.counts() && !a1.Restored):
				ds := []string{a1.desc(), a2.desc()}
				sort.Strings(ds)
				found = append(found, c35shRace{Key: "shared-parser-state:" + ds[0] + "|" + ds[1], Report: strings.TrimSpace(rep)})
			default:
				other = append(other, strings.TrimSpace(rep))
			}
		}
	}
	return
}

// ---- child: one cold process, one ordered pair ----

type c35shChildResult struct {
	HarnessError string      `json:"harness_error,omitempty"`
	OutcomeA     string      `json:"outcome_a"`
	OutcomeB     string      `json:"outcome_b"`
	Races        []c35shRace `json:"races,omitempty"`
	Other        []string    `json:"other,omitempty"`
}

func c35shOutcome(r c35Result) string {
	switch {
	case r.Panicked:
		return "panic@" + r.Site
	case r.Err != nil:
		return "error"
	}
	return "parsed:" + c35QuerySig(r.Q)
}

func c35shRaceLogBase() string {
	for _, f := range strings.Fields(os.Getenv("GORACE")) {
		if strings.HasPrefix(f, "log_path=") {
			return strings.TrimPrefix(f, "log_path=")
		}
	}
	return ""
}

func c35shChild() {
	var res c35shChildResult
	emit := func() {
		b, _ := json.Marshal(res)
		fmt.Printf("\n%s%s\n", c35shResultTag, b)
	}
	a, b := os.Getenv(c35shEnvA), os.Getenv(c35shEnvB)
	base := c35shRaceLogBase()
	if !sched.RaceBuild || base == "" {
		res.HarnessError = "child not race-built or GORACE log_path missing"
		emit()
		return
	}
	lg := newC35shLog(base)
	// controls BEFORE the pair touch harness variables only (the parser stays cold):
	// (1) two executions ordered by the visible join must not be reported;
	// (2) a conflict between the two halves of one pair must be reported.
	c35shRunPair(c35shTouchNeg, func() {})
	c35shRunPair(c35shTouchNeg, func() {})
	if f, c, o := lg.newRaces(); len(f)+len(c)+len(o) != 0 {
		res.HarnessError = fmt.Sprintf("control: the detector reported a conflict between two pairs that are ordered by the join: %v %v %v", f, c, o)
		emit()
		return
	}
	c35shRunPair(c35shTouchPos, c35shTouchPos)
	if f, c, o := lg.newRaces(); len(c) != 1 || len(f)+len(o) != 0 {
		res.HarnessError = fmt.Sprintf("control: the detector did not report the conflicting writes of the two halves of one pair: found=%v control=%v other=%v", f, c, o)
		emit()
		return
	}
	// the pair: A is the first text this process parses, B the second
	fmt.Printf("C35SHARED-PARSING\n")
	var ra, rb c35Result
	c35shRunPair(func() { ra = c35Parse(a) }, func() { rb = c35Parse(b) })
	fmt.Printf("C35SHARED-PARSED\n")
	races, control, other := lg.newRaces()
	res.OutcomeA, res.OutcomeB = c35shOutcome(ra), c35shOutcome(rb)
	res.Races, res.Other = races, other
	if len(control) != 0 {
		res.HarnessError = fmt.Sprintf("the detector reported a conflict in harness code while parsing: %v", control)
		emit()
		return
	}
	// the detector must still be alive and its log readable after the pair
	c35shRunPair(c35shTouchPos2, c35shTouchPos2)
	if f, c, o := lg.newRaces(); len(c) != 1 || len(f)+len(o) != 0 {
		res.HarnessError = fmt.Sprintf("end control: the detector did not report the conflicting control writes: found=%v control=%v other=%v", f, c, o)
	}
	emit()
}

// ---- parent ----

type c35shPairResult struct {
	child   c35shChildResult
	fatal   string // first "fatal error: ..." line of a child that died
	during  bool   // the child died between C35SHARED-PARSING and C35SHARED-PARSED
	harness string
	output  string
}

func c35shSpawn(dir string, n int, a, b c35shText) (pr c35shPairResult) {
	logBase := filepath.Join(dir, fmt.Sprintf("race-%d", n))
	if stale, _ := filepath.Glob(logBase + ".*"); len(stale) > 0 {
		for _, f := range stale {
			os.Remove(f)
		}
	}
	cmd := exec.Command(os.Args[0], "-test.run", "^TestVerifC35Shared$", "-test.count=1", "-test.timeout=120s")
	env := make([]string, 0, len(os.Environ())+8)
	for _, kv := range os.Environ() {
		if strings.HasPrefix(kv, "GORACE=") || strings.HasPrefix(kv, "VERIF_OUT=") || strings.HasPrefix(kv, "VERIF_REPLAY=") ||
			strings.HasPrefix(kv, "VERIF_RACE_LOG=") || strings.HasPrefix(kv, "GOMAXPROCS=") {
			continue
		}
		env = append(env, kv)
	}
	env = append(env, c35shEnvChild+"=1", c35shEnvA+"="+a.Text, c35shEnvB+"="+b.Text, "VERIF_OUT=", "VERIF_REPLAY=",
		"GOMAXPROCS=2", "GORACE=log_path="+logBase+" halt_on_error=0 history_size=2")
	cmd.Env = env
	out, err := cmd.CombinedOutput()
	text := string(out)
	pr.output = text
	if files, _ := filepath.Glob(logBase + ".*"); len(files) > 0 {
		for _, f := range files {
			os.Remove(f)
		}
	}
	if i := strings.Index(text, "fatal error:"); i >= 0 {
		line := text[i:]
		if j := strings.IndexByte(line, '\n'); j >= 0 {
			line = line[:j]
		}
		pr.fatal = strings.TrimSpace(line)
		pr.during = strings.Contains(text, "C35SHARED-PARSING") && !strings.Contains(text, "C35SHARED-PARSED")
		return
	}
	i := strings.LastIndex(text, c35shResultTag)
	if i < 0 {
		pr.harness = fmt.Sprintf("child printed no result (err=%v):\n%s", err, c35shTail(text, 3000))
		return
	}
	line := text[i+len(c35shResultTag):]
	if j := strings.IndexByte(line, '\n'); j >= 0 {
		line = line[:j]
	}
	if e := json.Unmarshal([]byte(line), &pr.child); e != nil {
		pr.harness = fmt.Sprintf("child result not decodable: %v: %s", e, c35shTail(line, 1000))
		return
	}
	if pr.child.HarnessError != "" {
		pr.harness = pr.child.HarnessError
	}
	return
}

func c35shTail(s string, n int) string {
	if len(s) > n {
		return "..." + s[len(s)-n:]
	}
	return s
}

func TestVerifC35Shared(t *testing.T) {
	if os.Getenv(c35shEnvChild) == "1" {
		c35shChild()
		return
	}
	rep := vh.New(t, "C35")
	defer rep.Finish()
	rep.Rule = "(part shared, -race build) every ordered pair (A,B) of query texts over {16 valid query templates, one or two per clause/keyword family (show, show partitions, describe, plain select, where filters, scan full, tail, last, order by, _ts between, group by, aggregates+as, JSON function, join..on+within, left join, explain), lower-case keywords, + 2 texts Parse rejects; thorough: all 31 templates of the sequential part, the 16 also with UPPER-case keywords, 4 rejected texts}, each pair in its own freshly started child process (cold parser state): the real sql.Parse on A in goroutine G1 (first text the process parses), then on B in goroutine G2, the G1->G2 hand-off hidden from the race detector (no happens-before edge between the two parses); every detector report whose accesses are in repository code or in runtime/library code reached from it is a violation, and so is a child killed by a runtime 'fatal error'; distinct = (A, B, parse outcomes); non-trivial = at least one of the two texts parsed to a query"
	rep.Assumptions = []string{
		"(part shared) the server parses each connection's query in that connection's goroutine with no recover (server.handleConnection), so 'never a crash' is read to hold for a parse whatever another connection parses at the same time",
		"(part shared) the Go race detector is the oracle for 'conflicting accesses without happens-before'; it does not see accesses made in assembly or through sync.Pool hand-overs; state shared under a lock / atomic / sync.Once (happens-before visible to the detector) is not reported",
		"(part shared) two sequential, deterministic parses that have no conflicting access to shared memory behave the same under every interleaving; a conflicting access is reported as shared mutable parser state whether or not a particular interleaving makes the runtime abort",
	}
	if !sched.RaceBuild {
		t.Fatalf("HARNESS-ERROR C35 part TestVerifC35Shared must be built with -race")
	}
	dir := os.Getenv("VERIF_SCRATCH")
	if dir == "" {
		dir = t.TempDir()
	}
	dir = filepath.Join(dir, "c35shared")
	if err := os.MkdirAll(dir, 0o755); err != nil {
		t.Fatalf("HARNESS-ERROR %v", err)
	}

	report := func(a, b c35shText, pr c35shPairResult) {
		rp := c35shReplay{Kind: "shared-pair", A: a, B: b}
		if pr.fatal != "" {
			where := "while parsing"
			if !pr.during {
				where = "outside the two parses"
			}
			rep.Violation("parser-fatal-error-kills-process", fmt.Sprintf("a process parsing %q (connection 1) and %q (connection 2) was aborted by the runtime %s: %s\n%s", a.Text, b.Text, where, pr.fatal, c35shTail(pr.output, 2500)), rp)
			return
		}
		for _, r := range pr.child.Races {
			rep.Violation(r.Key, fmt.Sprintf("Parse(%q) on connection 1 and Parse(%q) on connection 2 (first two parses of a fresh process) access the same memory without synchronisation, at least one of them writing — concurrent connections can make the runtime abort the server process (e.g. 'fatal error: concurrent map writes'):\n%s", a.Text, b.Text, r.Report), rp)
		}
	}

	var rp c35shReplay
	if ok, err := vh.LoadReplay(&rp); ok {
		if err != nil {
			t.Fatalf("HARNESS-ERROR replay: %v", err)
		}
		if rp.Kind != "shared-pair" {
			rep.Outcome("not-mine", true)
			rep.Outcome("not-mine2", true)
			return // a replay of another part
		}
		pr := c35shSpawn(dir, 0, rp.A, rp.B)
		if pr.harness != "" {
			t.Fatalf("HARNESS-ERROR replay child: %s", pr.harness)
		}
		rep.Eval(1)
		rep.Outcome("replay", true)
		rep.Outcome("replay|"+pr.child.OutcomeA+"|"+pr.child.OutcomeB+"|"+pr.fatal, true)
		fmt.Printf("REPLAY %q | %q: %s | %s races=%d other=%d fatal=%q\n", rp.A.Text, rp.B.Text, pr.child.OutcomeA, pr.child.OutcomeB, len(pr.child.Races), len(pr.child.Other), pr.fatal)
		for _, r := range pr.child.Races {
			fmt.Println(r.Report)
		}
		report(rp.A, rp.B, pr)
		return
	}

	texts, err := c35shAlphabet(vh.Thorough())
	if err != nil {
		t.Fatalf("HARNESS-ERROR %v", err)
	}
	rep.SetInfo("shared_texts", len(texts))
	rep.SetInfo("shared_ordered_pairs", len(texts)*len(texts))

	type job struct{ n, a, b int }
	shard, nsh := vh.Shard()
	var jobs []job
	for ai := range texts {
		for bi := range texts {
			n := ai*len(texts) + bi
			if n%nsh == shard {
				jobs = append(jobs, job{n, ai, bi})
			}
		}
	}
	results := make([]*c35shPairResult, len(jobs))
	deadline := vh.Deadline()
	workers := runtime.GOMAXPROCS(0)
	if workers > 16 {
		workers = 16
	}
	var next int
	var mu sync.Mutex
	var wg sync.WaitGroup
	for w := 0; w < workers; w++ {
		wg.Add(1)
		go func() {
			defer wg.Done()
			for {
				mu.Lock()
				i := next
				next++
				mu.Unlock()
				if i >= len(jobs) || time.Now().After(deadline) {
					return
				}
				j := jobs[i]
				pr := c35shSpawn(dir, j.n, texts[j.a], texts[j.b])
				mu.Lock()
				results[i] = &pr
				mu.Unlock()
			}
		}()
	}
	wg.Wait()

	// results are folded in enumeration order (deterministic whatever the workers' timing)
	var otherAll []string
	done := 0
	for i, j := range jobs {
		pr := results[i]
		if pr == nil {
			continue
		}
		a, b := texts[j.a], texts[j.b]
		if pr.harness != "" {
			t.Fatalf("HARNESS-ERROR shared pair %q | %q: %s", a.Text, b.Text, pr.harness)
		}
		done++
		rep.Eval(1)
		rep.Count("cases_shared_pairs", 1)
		rep.Count("shared_control_reports", 2)
		if pr.fatal != "" {
			rep.Outcome(fmt.Sprintf("SH|%s|%s|fatal", a.Family, b.Family), true)
		} else {
			nontrivial := strings.HasPrefix(pr.child.OutcomeA, "parsed") || strings.HasPrefix(pr.child.OutcomeB, "parsed")
			rep.Outcome(fmt.Sprintf("SH|%s|%s|%s|%s", a.Family, b.Family, pr.child.OutcomeA, pr.child.OutcomeB), nontrivial)
			if strings.HasPrefix(pr.child.OutcomeA, "parsed") && strings.HasPrefix(pr.child.OutcomeB, "parsed") {
				rep.Count("shared_pairs_both_parsed", 1)
			}
			if j.a != j.b && j.a%7 == 3 && j.b%11 == 5 && rep.WantSample() {
				rep.Sample(map[string]any{"phase": "shared", "connection_1": a.Text, "connection_2": b.Text, "outcome": pr.child.OutcomeA + " | " + pr.child.OutcomeB, "detector_reports": len(pr.child.Races)})
			}
		}
		report(a, b, *pr)
		otherAll = append(otherAll, pr.child.Other...)
	}
	if done < len(jobs) {
		rep.Cap(fmt.Sprintf("deadline hit in shared-state pair enumeration (%d of %d ordered pairs executed)", done, len(jobs)))
	}
	rep.Count("shared_reports_outside_parser_code", int64(len(otherAll)))
	for i, o := range otherAll {
		if i < 3 {
			fmt.Printf("C35SHARED report outside parser code:\n%s\n", o)
		}
	}
}
