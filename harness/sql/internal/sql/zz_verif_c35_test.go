//go:build verif

package sql

import (
	"fmt"
	"reflect"
	"runtime"
	"sort"
	"strings"
	"sync"
	"testing"
	"time"
	"unicode"
	"unicode/utf8"

	"github.com/KafScale/platform/internal/verif/vh"
)

// C35 — the SQL parser never crashes and ignores keyword case.
//
// Part 1 (this file, package sql): bounded-exhaustive enumeration on the real Parse of
//   (a) every sequence of <= L tokens over a 26-token alphabet joined by single spaces; the alphabet
//       holds the ASCII keywords in three casings and UTF-8 tokens whose lower-case form has a
//       different byte length (Ⱥ U+023A: 2 -> 3 bytes; İ U+0130: 2 -> 1; K U+212A: 3 -> 1) or the
//       same (ß);
//   (b) every valid query template x every lower/UPPER/MiXeD casing of each of its ASCII keywords
//       (3^k variants), with an identifier slot filled from {k, Ⱥ, İ, K, ß, ȺȺ}.
// Oracle (from the statement): Parse returns (query|error) and never panics; two texts that differ
// only in the letter case of ASCII keywords parse to the same result.
// Part 2 (package server, zz_verif_c35_server_test.go): the panicking texts are sent through the
// real connection handler / a real server process.

// ---------- alphabet ----------

var c35Tokens = []string{
	"select", "SELECT", "SeLeCt", "from", "*", "t",
	"Ⱥ", strings.Repeat("Ⱥ", 10), "İ", "K", "ß",
	"where", "_offset", ">=", "1", "group by", "order by", "desc", "limit", "5",
	"join", "on", "explain", ";", "(", ",",
}

// canonical (lower-case keyword) form of each token, by index; only the select casings differ.
var c35Canon = func() []int {
	out := make([]int, len(c35Tokens))
	for i := range out {
		out[i] = i
	}
	out[1], out[2] = 0, 0
	return out
}()

// ---------- running the real parser ----------

type c35Result struct {
	Q        Query
	Err      error
	Panicked bool
	PanicMsg string
	Site     string
}

func c35Parse(q string) (res c35Result) {
	defer func() {
		if r := recover(); r != nil {
			res.Panicked = true
			res.PanicMsg = fmt.Sprint(r)
			res.Site = c35PanicSite()
		}
	}()
	res.Q, res.Err = Parse(q)
	return
}

// c35PanicSite names the innermost function of package sql on the panicking stack.
func c35PanicSite() string {
	pcs := make([]uintptr, 64)
	n := runtime.Callers(2, pcs)
	frames := runtime.CallersFrames(pcs[:n])
	for {
		f, more := frames.Next()
		if i := strings.LastIndex(f.Function, "/internal/sql."); i >= 0 {
			name := f.Function[i+len("/internal/sql."):]
			if !strings.HasPrefix(name, "c35") {
				return name
			}
		}
		if !more {
			return "?"
		}
	}
}

// c35LengthChanging reports whether q holds a rune whose lower-case form has another UTF-8 length.
func c35LengthChanging(q string) bool {
	for _, r := range q {
		if r == utf8.RuneError {
			continue
		}
		if utf8.RuneLen(unicode.ToLower(r)) != utf8.RuneLen(r) {
			return true
		}
	}
	return false
}

// c35ASCIIControl replaces every rune whose lower-case form has another UTF-8 length by 'z's of the
// same byte length: the same text without the length change.
func c35ASCIIControl(q string) string {
	var b strings.Builder
	for _, r := range q {
		if r != utf8.RuneError && utf8.RuneLen(unicode.ToLower(r)) != utf8.RuneLen(r) {
			b.WriteString(strings.Repeat("z", utf8.RuneLen(r)))
		} else {
			b.WriteRune(r)
		}
	}
	return b.String()
}

// c35PanicKey classifies a panic by mechanism: the ToLower length change is blamed only when the text
// holds a length-changing rune, the panic is a slice-bounds panic, and the control text (same bytes
// lengths, ASCII instead of those runes) does not panic.
func c35PanicKey(q string, res c35Result) string {
	slice := strings.Contains(res.PanicMsg, "slice bounds out of range") || strings.Contains(res.PanicMsg, "index out of range")
	if strings.Contains(res.PanicMsg, "slice bounds out of range") && c35LengthChanging(q) {
		ctl := c35ASCIIControl(q)
		if r := c35Parse(ctl); !r.Panicked {
			return "tolower-length-change-slice-panic"
		}
	}
	if slice {
		return "slice-panic:" + res.Site
	}
	return "panic:" + res.Site
}

// ---------- comparing parsed queries ----------

func c35FoldASCII(s string) string {
	b := []byte(s)
	for i, c := range b {
		if c >= 'A' && c <= 'Z' {
			b[i] = c + 32
		}
	}
	return string(b)
}

// c35Norm returns a deep copy of q whose SelectColumn.Raw fields (the verbatim source text of a
// column, which legitimately echoes the casing of AS / function names and is never read by the
// server) are ASCII-case-folded.
func c35Norm(q Query) Query {
	out := q
	if q.Select != nil {
		out.Select = make([]SelectColumn, len(q.Select))
		for i, c := range q.Select {
			c.Raw = c35FoldASCII(c.Raw)
			out.Select[i] = c
		}
	}
	if q.Explain != nil {
		inner := c35Norm(*q.Explain)
		out.Explain = &inner
	}
	return out
}

// c35Diff returns "" when a and b are the same result, else the name of the first differing part.
func c35Diff(a, b c35Result) string {
	if (a.Err == nil) != (b.Err == nil) {
		return "error-vs-query"
	}
	if a.Err != nil {
		return ""
	}
	return c35DiffQuery(c35Norm(a.Q), c35Norm(b.Q))
}

func c35DiffQuery(x, y Query) string {
	if reflect.DeepEqual(x, y) {
		return ""
	}
	vx, vy := reflect.ValueOf(x), reflect.ValueOf(y)
	for i := 0; i < vx.NumField(); i++ {
		name := vx.Type().Field(i).Name
		if reflect.DeepEqual(vx.Field(i).Interface(), vy.Field(i).Interface()) {
			continue
		}
		switch name {
		case "Select":
			if len(x.Select) != len(y.Select) {
				return "Select.len"
			}
			for j := range x.Select {
				cx, cy := reflect.ValueOf(x.Select[j]), reflect.ValueOf(y.Select[j])
				for k := 0; k < cx.NumField(); k++ {
					if !reflect.DeepEqual(cx.Field(k).Interface(), cy.Field(k).Interface()) {
						return "Select." + cx.Type().Field(k).Name
					}
				}
			}
		case "Explain":
			if x.Explain != nil && y.Explain != nil {
				return "Explain." + c35DiffQuery(*x.Explain, *y.Explain)
			}
		}
		return name
	}
	return "?"
}

func c35Sig(res c35Result) string {
	if res.Panicked {
		return "panic@" + res.Site
	}
	if res.Err != nil {
		return "err:" + res.Err.Error()
	}
	return c35QuerySig(res.Q)
}

// c35QuerySig is a structural signature of a parsed query (which clauses are present, not their values).
func c35QuerySig(q Query) string {
	var b strings.Builder
	b.WriteString(string(q.Type))
	flag := func(name string, on bool) {
		if on {
			b.WriteString("," + name)
		}
	}
	flag("alias", q.TopicAlias != "")
	flag("join:"+q.JoinType, q.JoinTopic != "")
	flag("jalias", q.JoinAlias != "")
	if q.JoinOn != nil {
		b.WriteString(",on:" + string(q.JoinOn.Left.Kind) + q.JoinOn.Left.Side + "=" + string(q.JoinOn.Right.Kind) + q.JoinOn.Right.Side)
	}
	for _, c := range q.Select {
		b.WriteString(",col:" + string(c.Kind))
		if c.AggFunc != "" {
			b.WriteString(":" + c.AggFunc)
		}
	}
	b.WriteString(fmt.Sprintf(",group%d", len(q.GroupBy)))
	flag("order", q.OrderBy != "")
	flag("desc", q.OrderDesc)
	flag("limit", q.Limit != "")
	flag("part", q.Partition != nil)
	flag("omin", q.OffsetMin != nil)
	flag("omax", q.OffsetMax != nil)
	flag("tsmin", q.TsMin != nil)
	flag("tsmax", q.TsMax != nil)
	flag("within", q.TimeWindow != "")
	flag("last", q.Last != "")
	flag("tail", q.Tail != "")
	flag("scanfull", q.ScanFull)
	if q.Explain != nil {
		b.WriteString(",explain(" + c35QuerySig(*q.Explain) + ")")
	}
	return b.String()
}

// ---------- violation bookkeeping: smallest case per key, deterministic ----------

type c35Viol struct {
	Key    string
	Detail string
	Query  string
	Other  string
	Rank   [2]int // (family order, ordinal); cases are ranked by number of words first — smaller is simpler
}

type c35Violations struct {
	mu    sync.Mutex
	best  map[string]c35Viol
	count map[string]int64
}

func (v *c35Violations) add(x c35Viol) {
	v.mu.Lock()
	defer v.mu.Unlock()
	v.count[x.Key]++
	cur, ok := v.best[x.Key]
	if ok {
		if a, b := len(strings.Fields(x.Query)), len(strings.Fields(cur.Query)); a != b {
			if a < b {
				v.best[x.Key] = x
			}
			return
		}
	}
	if !ok || x.Rank[0] < cur.Rank[0] || (x.Rank[0] == cur.Rank[0] && (x.Rank[1] < cur.Rank[1] || (x.Rank[1] == cur.Rank[1] && x.Query < cur.Query))) {
		v.best[x.Key] = x
	}
}

type c35Replay struct {
	Kind  string `json:"kind,omitempty"` // "shared-pair": a replay of part TestVerifC35Shared, not of this one
	Query string `json:"query"`
	Other string `json:"other,omitempty"` // the text differing only in keyword case
}

// c35Check runs the oracle on one text (and, if other != "", the same text with different keyword
// casing). It returns the outcome signature.
func c35Check(rep *vh.Report, viols *c35Violations, q, other string, rank [2]int) (string, c35Result) {
	res := c35Parse(q)
	if res.Panicked {
		viols.add(c35Viol{Key: c35PanicKey(q, res), Query: q, Rank: rank,
			Detail: fmt.Sprintf("Parse(%q) panicked in %s: %s (len(raw)=%d, len(strings.ToLower(raw))=%d)", q, res.Site, res.PanicMsg, len(q), len(strings.ToLower(q)))})
		return c35Sig(res), res
	}
	if other != "" {
		ro := c35Parse(other)
		if ro.Panicked {
			// reported when `other` itself is enumerated; nothing to compare
			return c35Sig(res), res
		}
		if d := c35Diff(res, ro); d != "" {
			key := "keyword-case-changes-parse:" + d
			if c35LengthChanging(q) {
				key = "tolower-length-change-misslice-keyword-case-leak:" + d
			}
			viols.add(c35Viol{Key: key, Query: q, Other: other, Rank: rank,
				Detail: fmt.Sprintf("texts differing only in ASCII keyword case parse differently (%s): Parse(%q) = %s ; Parse(%q) = %s", d, q, c35Show(res), other, c35Show(ro))})
			return c35Sig(res) + "|case-diff:" + d, res
		}
	}
	return c35Sig(res), res
}

func c35Show(r c35Result) string {
	if r.Err != nil {
		return "error(" + r.Err.Error() + ")"
	}
	q := c35Norm(r.Q)
	s := fmt.Sprintf("%+v", q)
	if q.Explain != nil {
		s += fmt.Sprintf(" Explain=%+v", *q.Explain)
	}
	if len(s) > 400 {
		s = s[:400] + "..."
	}
	return s
}

// ---------- (b) valid templates x keyword casings ----------

type c35Tok struct {
	S  string
	KW bool
}

func c35T(spec string) []c35Tok {
	// tokens separated by spaces; a leading ^ marks an ASCII keyword; ~ inside a token is a space
	var out []c35Tok
	for _, f := range strings.Fields(spec) {
		kw := strings.HasPrefix(f, "^")
		f = strings.TrimPrefix(f, "^")
		out = append(out, c35Tok{S: strings.ReplaceAll(f, "~", " "), KW: kw})
	}
	return out
}

// X is the identifier slot.
var c35Templates = []string{
	"^show ^topics",
	"^show ^topics ;",
	"^show ^partitions ^from orders",
	"^describe orders",
	"^select * ^from orders",
	"^select * ^from orders;",
	"^select _offset ^from orders ^where _partition = 2 ^and _offset >= 10 ^limit 5",
	"^select * ^from orders ^where _offset >= 1 ^and _offset <= 9 ^tail 2",
	"^select * ^from orders ^scan ^full ^limit 10",
	"^select * ^from orders ^tail 5",
	"^select * ^from orders ^last 1h",
	"^select * ^from orders ^order ^by _ts ^desc ^limit 10",
	"^select * ^from orders ^order ^by _ts ^asc ^scan ^full",
	"^select * ^from orders ^scan ^full _ts ^between '100' ^and '200'",
	"^select * ^from orders ^limit 5 _ts >= 100 _ts <= '2024-01-02T03:04:05Z'",
	"^select _partition, count(*) ^from orders ^group ^by _partition",
	"^select _partition, count(*) ^as n, max(_ts) ^as latest ^from orders ^group ^by _partition ^last 1h",
	"^select json_value(_value,~'$.status') ^as status ^from orders",
	"^select json_query(_value,~'$.meta'), json_exists(_value,~'$.id') ^from orders ^limit 1",
	"^select * ^from orders o ^join payments p ^on o._key = p._key ^within 10m ^last 1h",
	"^select o._key, p._key ^from orders o ^left ^join payments p ^on json_value(o._value,~'$.id') = p._key ^within 10m ^last 1h ^limit 3",
	"^select * ^from orders ^join payments ^within 10m ^last 1h",
	"^explain ^select * ^from orders ^last 1h",
	"^explain ^select * ^from orders o ^join payments p ^within 10m ^last 1h",
	// identifier slot X (alias / JSON path / topic / group-by name)
	"^select _key ^as X ^from orders",
	"^select _key ^as X ^from orders ^order ^by _ts ^desc",
	"^select json_value(_value,~'$.X') ^from orders ^limit 1",
	"^select * ^from X ^tail 1",
	"^select * ^from orders X ^scan ^full",
	"^select count(*) ^from orders ^group ^by X",
	"^describe X",
}

var c35Slot = []string{"k", "Ⱥ", "İ", "K", "ß", "ȺȺ"}

func c35Case(s string, mode int) string {
	switch mode {
	case 0:
		return strings.ToLower(s)
	case 1:
		return strings.ToUpper(s)
	default:
		b := []byte(strings.ToLower(s))
		up := true
		for i, c := range b {
			if c >= 'a' && c <= 'z' {
				if up {
					b[i] = c - 32
				}
				up = !up
			}
		}
		return string(b)
	}
}

func c35Render(toks []c35Tok, slot string, modes []int) string {
	var parts []string
	k := 0
	for _, t := range toks {
		s := strings.ReplaceAll(t.S, "X", slot)
		if t.KW {
			// a keyword token may carry a trailing ';'
			s = c35Case(s, modes[k])
			k++
		}
		parts = append(parts, s)
	}
	out := strings.Join(parts, " ")
	return strings.ReplaceAll(out, " ;", ";")
}

// ---------- entry point ----------

func TestVerifC35(t *testing.T) {
	rep := vh.New(t, "C35")
	defer rep.Finish()
	rep.Rule = "case = one query text given to the real sql.Parse under recover: (a) every sequence of <= L tokens over the 26-token alphabet joined by single spaces (each sequence containing SELECT/SeLeCt is also compared with its lower-case-select twin), (b) every valid template x identifier slot x 3^k keyword casings compared with the all-lower-case rendering. Outcome signature = panic site | error text | structural shape of the parsed query (+ case-diff field). Non-trivial = Parse returned a query (not an error) or panicked. Server part (package server): the same alphabet up to 3 tokens (+ 4-token select/explain sequences + probes) x {simple Query, extended Parse} through the real Server.handleConnection, and one real server process."
	rep.Assumptions = []string{
		"ASCII keywords = reserved words (select from where and join left on group by order by asc desc limit tail last within scan full explain show topics partitions describe as between); function and column names are not case-varied",
		"SelectColumn.Raw (verbatim source text of a select item, never read by the server) is compared ASCII-case-insensitively",
		"only valid UTF-8 texts are generated (the statement quantifies over UTF-8 strings)",
	}

	var replay c35Replay
	if ok, err := vh.LoadReplay(&replay); ok {
		if err != nil {
			t.Fatalf("HARNESS-ERROR replay: %v", err)
		}
		if replay.Kind == "shared-pair" {
			rep.Outcome("not-mine", true)
			rep.Outcome("not-mine2", true)
			return
		}
		viols := &c35Violations{best: map[string]c35Viol{}, count: map[string]int64{}}
		sig, _ := c35Check(rep, viols, replay.Query, replay.Other, [2]int{0, 0})
		rep.Eval(1)
		rep.Outcome(sig, true)
		rep.Outcome("replay", true)
		c35Flush(rep, viols)
		return
	}

	deadline := vh.Deadline()
	maxLen := 5
	fullLen := 5 // always completed, whatever the deadline
	if vh.Thorough() {
		maxLen = 7
	}
	rep.SetInfo("token_alphabet", c35Tokens)
	rep.SetInfo("max_sequence_length", maxLen)
	rep.SetInfo("templates", len(c35Templates))
	rep.SetInfo("identifier_slot", c35Slot)

	viols := &c35Violations{best: map[string]c35Viol{}, count: map[string]int64{}}

	// ---- (b) templates first (small, and the part that exercises valid queries) ----
	var nTemplateCases int64
	shardI, shardN := vh.Shard()
	for ti, spec := range c35Templates {
		if shardI != 0 {
			break
		}
		toks := c35T(spec)
		k := 0
		for _, tk := range toks {
			if tk.KW {
				k++
			}
		}
		slots := []string{""}
		if strings.Contains(spec, "X") {
			slots = c35Slot
		}
		for si, slot := range slots {
			base := c35Render(toks, slot, make([]int, k))
			modes := make([]int, k)
			n := 1
			for i := 0; i < k; i++ {
				n *= 3
			}
			for v := 0; v < n; v++ {
				x := v
				for i := k - 1; i >= 0; i-- {
					modes[i] = x % 3
					x /= 3
				}
				q := c35Render(toks, slot, modes)
				other := base
				if v == 0 {
					other = ""
				}
				sig, res := c35Check(rep, viols, q, other, [2]int{0, ti*1000000 + si*100000 + v})
				rep.Eval(1)
				nTemplateCases++
				rep.Outcome(fmt.Sprintf("tpl%d/%s", ti, sig), res.Panicked || res.Err == nil)
				if v == n-1 && si == 0 && rep.WantSample() && ti%5 == 0 {
					rep.Sample(map[string]any{"family": "template-casing", "query": q, "baseline": base, "outcome": sig})
				}
				if v == 0 && si == 0 && (res.Err != nil || res.Panicked) {
					t.Fatalf("HARNESS-ERROR template %q is not a valid query: %v", base, res.Err)
				}
			}
		}
	}
	rep.Count("template_cases", nTemplateCases)

	// ---- (a) token sequences, shorter first; each length is split over workers by its first two tokens ----
	K := len(c35Tokens)
	workers := runtime.GOMAXPROCS(0)
	completed := 0
	for L := 0; L <= maxLen; L++ {
		if L > fullLen && time.Now().After(deadline) {
			break
		}
		type unit struct{ a, b int }
		var units []unit
		switch {
		case L == 0:
			units = []unit{{-1, -1}}
		case L == 1:
			for a := 0; a < K; a++ {
				units = append(units, unit{a, -1})
			}
		default:
			for a := 0; a < K; a++ {
				for b := 0; b < K; b++ {
					units = append(units, unit{a, b})
				}
			}
		}
		var cut bool
		var cutMu sync.Mutex
		ch := make(chan int, len(units))
		for i := range units {
			if i%shardN == shardI {
				ch <- i
			}
		}
		close(ch)
		var wg sync.WaitGroup
		for w := 0; w < workers; w++ {
			wg.Add(1)
			go func() {
				defer wg.Done()
				seq := make([]int, L)
				var sb, sc strings.Builder
				local := map[string]bool{}
				var evals int64
				for ui := range ch {
					if L > fullLen && time.Now().After(deadline) {
						cutMu.Lock()
						cut = true
						cutMu.Unlock()
						continue
					}
					u := units[ui]
					if L >= 1 {
						seq[0] = u.a
					}
					if L >= 2 {
						seq[1] = u.b
					}
					free := L - 2
					if free < 0 {
						free = 0
					}
					total := 1
					for i := 0; i < free; i++ {
						total *= K
					}
					for n := 0; n < total; n++ {
						x := n
						for i := L - 1; i >= 2; i-- {
							seq[i] = x % K
							x /= K
						}
						sb.Reset()
						sc.Reset()
						twin := false
						for i, tk := range seq {
							if i > 0 {
								sb.WriteByte(' ')
								sc.WriteByte(' ')
							}
							sb.WriteString(c35Tokens[tk])
							sc.WriteString(c35Tokens[c35Canon[tk]])
							if c35Canon[tk] != tk {
								twin = true
							}
						}
						q := sb.String()
						other := ""
						if twin {
							other = sc.String()
						}
						sig, res := c35Check(rep, viols, q, other, [2]int{L + 1, ui*total + n})
						evals++
						if !local[sig] {
							local[sig] = true
							rep.Outcome(sig, res.Panicked || res.Err == nil)
						}
						if L == 4 && res.Err == nil && rep.WantSample() {
							rep.Sample(map[string]any{"family": "token-sequence", "query": q, "outcome": sig})
						}
					}
				}
				rep.Eval(evals)
				rep.Count("sequence_cases", evals)
			}()
		}
		wg.Wait()
		if cut {
			rep.Cap(fmt.Sprintf("deadline: token sequences of length %d not all executed (lengths <= %d complete)", L, completed))
			break
		}
		completed = L
	}
	rep.SetInfo("sequence_length_completed", completed)
	if completed < maxLen {
		found := false
		for _, c := range rep.Caps {
			if strings.HasPrefix(c, "deadline") {
				found = true
			}
		}
		if !found {
			rep.Cap(fmt.Sprintf("deadline: token sequences of length > %d not executed", completed))
		}
	}
	c35Flush(rep, viols)
}

func c35Flush(rep *vh.Report, viols *c35Violations) {
	keys := make([]string, 0, len(viols.best))
	for k := range viols.best {
		keys = append(keys, k)
	}
	sort.Strings(keys)
	counts := map[string]int64{}
	for _, k := range keys {
		v := viols.best[k]
		counts[k] = viols.count[k]
		rep.Violation(k, fmt.Sprintf("%s [%d cases with this key]", v.Detail, viols.count[k]), c35Replay{Query: v.Query, Other: v.Other})
	}
	if len(counts) > 0 {
		rep.SetInfo("violating_cases_per_key", counts)
	}
}
