//go:build verif

package decoder

import (
	"context"
	"fmt"
	"testing"

	"github.com/KafScale/platform/internal/verif/enum"
	"github.com/KafScale/platform/internal/verif/vh"
)

// TestVerifC07 (skeleton decoder half). The skeleton processor's decoder has no byte-level
// entry point: Decoder.Decode(ctx, segmentKey, indexKey) takes object keys and, in the tree
// as it stands, is a placeholder that returns (nil, nil). The statement names it among the
// decoders that must recover exactly the produced records, so for every corpus element that
// holds at least one record the harness asks the decoder for the records of that segment and
// compares the count (and, should the decoder ever return batches, their offsets and payload
// bytes) with what was produced.
func TestVerifC07(t *testing.T) {
	rep := vh.New(t, "C07")
	defer rep.Finish()
	rep.Rule = "skeleton decoder half: same corpus (enum.C07Corpus); Decoder.Decode is asked for the segment of every element (it only accepts object keys) and must return the produced records"
	thorough := vh.Thorough()
	only := -1
	var rp struct {
		Idx  int    `json:"idx"`
		Tier string `json:"tier"`
	}
	if ok, err := vh.LoadReplay(&rp); ok {
		if err != nil {
			t.Fatalf("HARNESS-ERROR replay: %v", err)
		}
		only, thorough = rp.Idx, rp.Tier == "thorough"
	}
	tier := "quick"
	if thorough {
		tier = "thorough"
	}
	shard, nshards := vh.Shard()
	dec := New()
	n := int64(0)
	enum.C07Corpus(thorough, func(c *enum.SegCase) bool {
		if (only >= 0 && c.Idx != only) || c.Idx%nshards != shard {
			return true
		}
		n++
		rep.Eval(1)
		sig, nontrivial := c.Shape()
		verdict := "ok"
		func() {
			defer func() {
				if r := recover(); r != nil {
					verdict = "panic"
					d := c.Describe()
					d["tier"] = tier
					rep.Violation("skeleton-decoder-panic", fmt.Sprintf("case %d: panic: %v", c.Idx, r), d)
				}
			}()
			segKey := fmt.Sprintf("ns/topic-x/3/segment-%020d.kfs", c.BaseOffset())
			idxKey := fmt.Sprintf("ns/topic-x/3/segment-%020d.index", c.BaseOffset())
			got, err := dec.Decode(context.Background(), segKey, idxKey)
			want := c.Expected()
			d := c.Describe()
			d["tier"] = tier
			switch {
			case err != nil:
				verdict = "error"
				rep.Violation("skeleton-decoder-error", fmt.Sprintf("case %d: Decode: %v", c.Idx, err), d)
			case len(got) == 0 && len(want) > 0:
				verdict = "nothing"
				rep.Violation("skeleton-decoder-placeholder-recovers-nothing", fmt.Sprintf("case %d %s/%s: skeleton Decoder.Decode returned %d batches and no error for a segment holding %d produced records (internal/decoder/decoder.go is a noop placeholder: it never reads the segment)", c.Idx, c.Family, c.Name, len(got), len(want)), d)
			default:
				// a real implementation returns Batch{Offset, Payload}: every produced value must be found at its offset
				byOff := map[int64][]byte{}
				for _, b := range got {
					byOff[b.Offset] = b.Payload
				}
				for _, w := range want {
					if p, ok := byOff[w.Offset]; !ok || string(p) != string(w.Value) {
						verdict = "mismatch"
						rep.Violation("skeleton-decoder-payload", fmt.Sprintf("case %d: offset %d not recovered with the produced value", c.Idx, w.Offset), d)
						break
					}
				}
			}
		}()
		rep.Outcome("skeleton|"+sig+"|"+verdict, nontrivial)
		return true
	})
	rep.Count("cases_skeleton_decoder", n)
}
