//go:build verif

package decoder

import (
	"context"
	"fmt"
	"testing"

	"github.com/KafScale/platform/internal/verif/enum"
	"github.com/KafScale/platform/internal/verif/vh"
)

// TestVerifC34 (skeleton decoder half). The skeleton decoder has no byte-level entry point:
// Decoder.Decode(ctx, segmentKey, indexKey) takes object keys (and is a placeholder that never
// reads a segment), so there are no segment bytes to hand it. What can be executed is executed:
// Decode is called with every pair of key strings of length <= 2 over the C34 byte alphabet and
// must return without panicking.
func TestVerifC34(t *testing.T) {
	rep := vh.New(t, "C34")
	defer rep.Finish()
	rep.Rule = "skeleton decoder half: Decode(segmentKey, indexKey) for every pair of strings <= 2 over the byte alphabet; must not panic"
	var keys []string
	enum.Sequences(len(enum.C34ByteAlphabet), 2, func(seq []int) bool {
		b := make([]byte, len(seq))
		for i, s := range seq {
			b[i] = enum.C34ByteAlphabet[s]
		}
		keys = append(keys, string(b))
		return true
	})
	dec := New()
	n := int64(0)
	for _, sk := range keys {
		for _, ik := range keys {
			n++
			rep.Eval(1)
			func() {
				defer func() {
					if r := recover(); r != nil {
						rep.Violation("skeleton.Decode:panic-"+enum.Slug(fmt.Sprint(r)), fmt.Sprintf("Decode(%q,%q) panicked: %v", sk, ik, r), map[string]any{"segmentKey": sk, "indexKey": ik})
					}
				}()
				got, err := dec.Decode(context.Background(), sk, ik)
				rep.Outcome(fmt.Sprintf("skeleton.Decode|n=%d|err=%v", len(got), err != nil), false)
			}()
		}
	}
	rep.Count("skeleton_cases_keys", n)
}
