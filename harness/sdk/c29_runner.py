#!/usr/bin/env python3
"""C29 runner (Python SDK side).

usage: c29_runner.py <envelope.py path> <corpus.json> <out.json>

Loads lfs_sdk/envelope.py *by file path* (the package __init__ imports boto3, which is not
installed; envelope.py itself only needs the standard library), registers it in sys.modules
(dataclasses resolves string annotations through sys.modules[cls.__module__]) and runs
is_lfs_envelope / decode_envelope over the corpus written by the Go harness.

corpus.json: {"env": [b64...], "obs": [b64...], "raw": [b64...]}
out.json:    {"lang": "python", "version": "...",
              "env": [{"is": bool, "ok": bool, "dec": {...} | null, "err": str}], "obs": [same],
              "raw": "0101..."}            (one char per raw item)
Exit codes: 0 ok; 3 = the SDK file could not be loaded (harness error, never a verdict).
"""
import sys

sys.dont_write_bytecode = True  # never create __pycache__ next to the SDK source

import base64
import dataclasses
import importlib.machinery
import importlib.util
import json


def load_sdk(path):
    name = "verif_c29_lfs_sdk_envelope"
    loader = importlib.machinery.SourceFileLoader(name, path)
    spec = importlib.util.spec_from_loader(name, loader)
    mod = importlib.util.module_from_spec(spec)
    sys.modules[name] = mod
    loader.exec_module(mod)
    for fn in ("is_lfs_envelope", "decode_envelope"):
        if not callable(getattr(mod, fn, None)):
            raise RuntimeError("SDK module has no function %s" % fn)
    return mod


def run_env(mod, blob):
    out = {"is": None, "ok": False, "dec": None, "err": ""}
    try:
        out["is"] = bool(mod.is_lfs_envelope(blob))
    except Exception as ex:  # a predicate that throws is reported, not hidden
        out["err"] = "is_lfs_envelope raised %s: %s" % (type(ex).__name__, ex)
        return out
    try:
        env = mod.decode_envelope(blob)
        if dataclasses.is_dataclass(env):
            dec = dataclasses.asdict(env)
        elif isinstance(env, dict):
            dec = env
        else:
            dec = dict(vars(env))
        out["dec"] = dec
        out["ok"] = True
    except Exception as ex:
        out["err"] = "decode_envelope raised %s: %s" % (type(ex).__name__, ex)
    return out


def main():
    if len(sys.argv) != 4:
        print("usage: c29_runner.py <envelope.py> <corpus.json> <out.json>", file=sys.stderr)
        return 2
    sdk_path, corpus_path, out_path = sys.argv[1:4]
    try:
        mod = load_sdk(sdk_path)
    except BaseException as ex:
        print("HARNESS-ERROR cannot load %s: %s: %s" % (sdk_path, type(ex).__name__, ex), file=sys.stderr)
        return 3
    with open(corpus_path, "rb") as f:
        corpus = json.load(f)
    res = {"lang": "python", "version": sys.version.split()[0], "env": [], "obs": [], "raw": ""}
    for cls in ("env", "obs"):
        for b64 in (corpus.get(cls) or []):
            res[cls].append(run_env(mod, base64.b64decode(b64)))
    raw = []
    for b64 in (corpus.get("raw") or []):
        blob = base64.b64decode(b64)
        try:
            raw.append("1" if mod.is_lfs_envelope(blob) else "0")
        except Exception:
            raw.append("E")
    res["raw"] = "".join(raw)
    with open(out_path, "w") as f:
        json.dump(res, f)
    return 0


if __name__ == "__main__":
    sys.exit(main())
