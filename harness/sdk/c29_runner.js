#!/usr/bin/env node
// C29 runner (JavaScript SDK side).
//
// usage: node c29_runner.js <envelope.ts path> <corpus.json> <out.json> <scratch dir>
//
// node 20 cannot execute TypeScript and no compiler is installed, so envelope.ts goes through a
// tiny regex-level type stripper written for exactly that file (interface blocks, `export`,
// `: type` annotations on function parameters / return types / variable declarations, `as X`
// casts). If the stripped text does not load as JavaScript, or does not define the two functions,
// this is a HARNESS error (exit 3), never a verdict.
//
// corpus.json: {"env": [b64...], "obs": [b64...], "raw": [b64...]}
// out.json:    {"lang":"js","version":"v20...","env":[{"is":bool,"ok":bool,"dec":{...}|null,"err":str}],
//               "obs":[same],"raw":"0101..."}
'use strict';
const fs = require('fs');
const path = require('path');

// split "a: T, b?: Record<string, string>" at top-level commas only
function splitParams(s) {
  const out = [];
  let depth = 0, cur = '';
  for (const ch of s) {
    if (ch === '<' || ch === '(' || ch === '[' || ch === '{') depth++;
    if (ch === '>' || ch === ')' || ch === ']' || ch === '}') depth--;
    if (ch === ',' && depth === 0) { out.push(cur); cur = ''; } else cur += ch;
  }
  if (cur.trim() !== '') out.push(cur);
  return out;
}

function stripParam(p) {
  // name?: Type = default   ->   name = default
  const m = /^\s*(\.\.\.)?\s*([A-Za-z_$][\w$]*)\s*\??\s*(?::[^=]*)?(=.*)?$/s.exec(p);
  if (!m) return p; // leave as is; a syntax error later turns into a harness error
  return (m[1] || '') + m[2] + (m[3] ? ' ' + m[3] : '');
}

function stripTypes(src) {
  let s = src;
  // 1. interface / type alias declarations (no nested braces in envelope.ts)
  s = s.replace(/^[ \t]*(?:export\s+)?interface\s+[A-Za-z_$][\w$]*(?:\s+extends\s+[^{]+)?\s*\{[^}]*\}[ \t]*;?/gm, '');
  s = s.replace(/^[ \t]*(?:export\s+)?type\s+[A-Za-z_$][\w$]*\s*=[^;]*;/gm, '');
  // 2. type-only imports/exports
  s = s.replace(/^[ \t]*(?:import|export)\s+type\s+[^;]*;/gm, '');
  // 3. function headers: parameters and return type
  s = s.replace(/\bfunction\s+([A-Za-z_$][\w$]*)\s*(?:<[^>(]*>)?\s*\(([^)]*)\)\s*(?::\s*[^{]+?)?\s*\{/g,
    (all, name, params) => 'function ' + name + '(' + splitParams(params).map(stripParam).join(', ') + ') {');
  // 4. variable declarations with annotations
  s = s.replace(/\b(const|let|var)\s+([A-Za-z_$][\w$]*)\s*:\s*[^=;]+=/g, '$1 $2 =');
  // 5. `as Type` casts (type = identifier with optional generics / array suffix / unions of those)
  s = s.replace(/\s+as\s+(?:const\b|[A-Za-z_$][\w$.]*(?:<[^>;]*>)?(?:\[\])*(?:\s*\|\s*[A-Za-z_$][\w$.]*(?:<[^>;]*>)?(?:\[\])*)*)/g, '');
  // 6. non-null assertions `x!.y` / `x!;`
  s = s.replace(/([\w$\])])!(?=[.;,)\]])/g, '$1');
  // 7. export keyword
  s = s.replace(/^([ \t]*)export\s+(?:default\s+)?(?=(?:async\s+)?function\b|const\b|let\b|var\b|class\b)/gm, '$1');
  return s;
}

function harnessError(msg) {
  process.stderr.write('HARNESS-ERROR ' + msg + '\n');
  process.exit(3);
}

function loadSdk(tsPath, scratch) {
  let src;
  try { src = fs.readFileSync(tsPath, 'utf8'); } catch (e) { harnessError('cannot read ' + tsPath + ': ' + e.message); }
  const js = stripTypes(src) +
    '\nmodule.exports = { isLfsEnvelope: typeof isLfsEnvelope === "function" ? isLfsEnvelope : undefined,' +
    ' decodeEnvelope: typeof decodeEnvelope === "function" ? decodeEnvelope : undefined };\n';
  const outPath = path.join(scratch, 'c29_envelope_stripped.cjs');
  fs.writeFileSync(outPath, js);
  let mod;
  try { mod = require(outPath); } catch (e) {
    harnessError('type-stripped envelope.ts does not load as JavaScript (' + outPath + '): ' + (e && e.message));
  }
  if (typeof mod.isLfsEnvelope !== 'function' || typeof mod.decodeEnvelope !== 'function') {
    harnessError('type-stripped envelope.ts does not define isLfsEnvelope/decodeEnvelope');
  }
  return mod;
}

function runEnv(mod, bytes) {
  const out = { is: null, ok: false, dec: null, err: '' };
  try { out.is = !!mod.isLfsEnvelope(bytes); } catch (e) {
    out.err = 'isLfsEnvelope threw ' + (e && e.message); return out;
  }
  try {
    const env = mod.decodeEnvelope(bytes);
    out.dec = env; out.ok = true;
  } catch (e) { out.err = 'decodeEnvelope threw ' + (e && e.name) + ': ' + (e && e.message); }
  return out;
}

function main() {
  const [tsPath, corpusPath, outPath, scratch] = process.argv.slice(2);
  if (!tsPath || !corpusPath || !outPath || !scratch) {
    process.stderr.write('usage: c29_runner.js <envelope.ts> <corpus.json> <out.json> <scratch>\n');
    process.exit(2);
  }
  const mod = loadSdk(tsPath, scratch);
  const corpus = JSON.parse(fs.readFileSync(corpusPath, 'utf8'));
  const res = { lang: 'js', version: process.version, env: [], obs: [], raw: '' };
  // the SDK's contract type is Uint8Array (not Buffer, whose slice() has different semantics)
  const toU8 = (b64) => new Uint8Array(Buffer.from(b64, 'base64'));
  for (const cls of ['env', 'obs']) {
    for (const b64 of (corpus[cls] || [])) res[cls].push(runEnv(mod, toU8(b64)));
  }
  const raw = [];
  for (const b64 of (corpus.raw || [])) {
    try { raw.push(mod.isLfsEnvelope(toU8(b64)) ? '1' : '0'); } catch (e) { raw.push('E'); }
  }
  res.raw = raw.join('');
  fs.writeFileSync(outPath, JSON.stringify(res));
}

main();
