#!/usr/bin/env python3
"""Rewrites the table of DESIGN.md §0.2 from checks.d/*.json."""
import json, glob, os
V = os.path.dirname(os.path.abspath(__file__))
rows = []
for f in sorted(glob.glob(os.path.join(V, "checks.d", "C*.json"))):
    d = json.load(open(f))
    cid = os.path.basename(f)[:-5]
    where = ["%s:%s" % (d.get("module", "main"), d["pkg"])]
    for p in d.get("parts", []):
        w = "%s:%s" % (p.get("module", d.get("module", "main")), p.get("pkg", d["pkg"]))
        if p.get("run") and p.get("run") != d.get("run"):
            w += " (%s%s)" % (p["run"], ", -race" if p.get("race") else "")
        if w not in where:
            where.append(w)
    rows.append("| %s | %s | %s | %s | %s |" % (cid, d.get("engine", ""), d["level"], "; ".join(where), d.get("technique", "").replace("|", "/")))
p = os.path.join(V, "DESIGN.md")
s = open(p).read()
a = s.index("| id | engine | level | where (module:package) | deciding technique |")
b = s.index("Bounds, counts and samples of the last run are in")
s = s[:a] + "| id | engine | level | where (module:package) | deciding technique |\n|---|---|---|---|---|\n" + "\n".join(rows) + "\n\n" + s[b:]
open(p, "w").write(s)
print("rows", len(rows))
