#!/usr/bin/env python3
"""Rewrites the '## 8.' section of DESIGN.md from seeded/*/meta.json."""
import json, glob, os, re
V = os.path.dirname(os.path.abspath(__file__))
rows = []
for d in sorted(glob.glob(os.path.join(V, "seeded", "*"))):
    m = json.load(open(os.path.join(d, "meta.json")))
    sid = os.path.basename(d)
    cr = m.get("checks_run", {})
    rows.append("| %s | %s | %s | %s | %s |" % (sid, m.get("summary", "").replace("|", "/").replace("\n", " ")[:260],
                m.get("needs", "").replace("|", "/").replace("\n", " ")[:220], ", ".join(cr.get("caught_by", [])) or "—",
                cr.get("note", "").replace("|", "/")[:420]))
sec = """## 8. Seeded changes (independent sub-agents) and which checks catch them

Each change below was written by a fresh sub-agent that was given only the property text and a scratch git worktree
(nothing from /verif). I confirmed each one myself in its worktree (`seedverify.sh`: it builds, the repository's existing
tests of the touched packages still pass, the agent's demonstration fails with the change and passes without it), then ran
the checks against it through the overlay (`seedrun.sh` = `vcheck --mutant`, /repo untouched). Patch, demonstration and
meta.json are under `seeded/<id>/`. "initially MISSED" entries record what the check lacked and what was added.

| seed | change | needs | caught by | notes |
|---|---|---|---|---|
""" + "\n".join(rows) + "\n"
p = os.path.join(V, "DESIGN.md")
s = open(p).read()
i = s.find("## 8. Seeded changes")
if i >= 0:
    s = s[:i].rstrip() + "\n\n" + sec
else:
    s = s.rstrip() + "\n\n---\n\n" + sec
open(p, "w").write(s)
print("rows", len(rows))
