#!/bin/bash
# Offline setup: warm the Go build cache by building every harness once.
cd "$(dirname "$0")"
ids=$(ls checks.d | sed 's/\.json$//')
rc=0
printf '%s\n' $ids | xargs -P 4 -I{} ./vcheck {} --build-only || rc=$?
exit 0
