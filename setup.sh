#!/bin/bash
# Offline setup: warm the Go build cache by building every harness once.
cd "$(dirname "$0")"
ids=$(python3 -c "import json;print(' '.join(k for k,c in json.load(open('checks.json')).items() if not c.get('disabled')))")
rc=0
printf '%s\n' $ids | xargs -P 4 -I{} ./vcheck {} --build-only || rc=$?
exit 0
