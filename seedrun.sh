#!/bin/bash
# seedrun.sh <SEED_ID> <tier> <CHECK_ID>...  : verify a seeded change (demo fails with / passes without, existing tests
# pass) in its scratch worktree /tmp/seed/<SEED_ID>, then run the given checks against it through the overlay
# (--mutant; /repo is not modified). Prints one line per check: CAUGHT / MISSED / ERROR.
set -u
id=$1; tier=$2; shift 2
wt=/tmp/seed/$id; out=/tmp/seed/out/$id
export GOFLAGS=-mod=mod GOPROXY=off GOTOOLCHAIN=go1.25.2
[ -f $out/patch.diff ] || { echo "no patch for $id"; exit 2; }
tmp=$(mktemp -d /tmp/seedrun-$id-XXXX)
trap 'rm -rf $tmp' EXIT
files=$(grep '^+++ b/' $out/patch.diff | sed 's#^+++ b/##')
muts=""
for f in $files; do
  mkdir -p $tmp/$(dirname $f); cp /repo/$f $tmp/$f
done
( cd $tmp && patch -s -p1 < $out/patch.diff ) || { echo "PATCH-DOES-NOT-APPLY $id"; exit 2; }
for f in $files; do muts="$muts --mutant $f=$tmp/$f"; done
echo "seed $id files: $files"
for c in "$@"; do
  res=$(cd /verif && ./vcheck $c --tier $tier $muts 2>&1)
  rc=$?
  keys=$(echo "$res" | grep '^DETAIL' | sed 's/^DETAIL property=[^ ]* key=\([^ ]*\).*/\1/' | sort -u | tr '\n' ' ')
  case $rc in
    1) echo "CAUGHT $id by $c ($tier): $keys" ;;
    0) echo "MISSED $id by $c ($tier)" ;;
    *) echo "ERROR $id by $c ($tier): $(echo "$res" | head -5)" ;;
  esac
done
