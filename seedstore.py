#!/usr/bin/env python3
"""seedstore.py <SEED_ID> <caught-by comma list> <note>: copy a verified seeded change into /verif/seeded/<id>/."""
import json, os, shutil, sys
sid, caught, note = sys.argv[1], sys.argv[2], sys.argv[3] if len(sys.argv) > 3 else ""
src = "/tmp/seed/out/%s" % sid
dst = "/verif/seeded/%s" % sid
os.makedirs(dst, exist_ok=True)
for f in os.listdir(src):
    if f in ("patch.diff", "meta.json") or f.startswith("demo"):
        shutil.copy(os.path.join(src, f), os.path.join(dst, f))
meta = json.load(open(os.path.join(dst, "meta.json")))
meta["breaks_property"] = meta.get("property", sid)
meta["verified_in_scratch_worktree"] = {
    "worktree": "/tmp/seed/%s (git worktree of /repo, removed afterwards)" % sid,
    "ran": ["/verif/seedverify.sh %s : patch applies, go build ./... ok, demonstration FAILS with the change and PASSES with it reverted (git apply -R), existing tests of the touched packages + ./cmd/broker ./cmd/proxy (or the whole addon module) pass with the change" % sid],
    "result": "VERIFIED",
}
meta["checks_run"] = {"how": "/verif/seedrun.sh %s quick <checks> (vcheck --mutant overlay of the patched files; /repo untouched)" % sid,
                      "caught_by": [c for c in caught.split(",") if c], "note": note}
json.dump(meta, open(os.path.join(dst, "meta.json"), "w"), indent=1)
print("stored", dst)
